#!/bin/bash
# Builds the checker from files on disk only (x/tools is vendored under /verif/sa/vendor).
set -e
cd /verif/sa
. /verif/env.sh
mkdir -p /verif/bin /verif/evidence /verif/out
go build -mod=vendor -o /verif/bin/sonicsa .
echo "sonicsa built"
