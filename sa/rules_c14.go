package main

import (
	"fmt"
	"go/token"
	"go/types"
	"strings"

	"golang.org/x/tools/go/ssa"
)

func init() {
	register(&propertySpec{
		ID:    "C14",
		Title: "Inline completions never nest deeper than the dispatch limit",
		Explanation: "Scope: the five descriptor owners (file/conn, AsyncAdapter, listener, packetConn, multicast UDPPeer). Decides: (R1a) every function or " +
			"closure that updates IO.Dispatched is a balanced bracket on every path: +1, the user callback at depth exactly 1, -1, depth 0 at every exit; " +
			"(R1b) every such bracket (closure creation or inline increment) is only reached under the literal Dispatched < MaxCallbackDispatch, " +
			"same field, same constant, strict comparison; (R1c) provenance: a completion callback that is invoked synchronously outside a bracket is never " +
			"the raw callback of an API entry - it is a bracketing wrapper, or the invocation happens on the poller's dispatch stack (handler " +
			"context, the 'plus one'). Rawness is propagated interprocedurally from the exported entry points through resolved calls. Today's tree " +
			"violates R1c at the error completions of the schedule*/asyncAccept functions (object closed / registration refused), reached with the raw " +
			"callback through the at-limit branch (always, for AsyncAdapter): recorded as known findings, one key per call site. " +
			"(R2) an object built on a descriptor from open(2) - regular files are not pollable, epoll_ctl refuses them with EPERM - needs a deferral route that does not depend on the registration; file.scheduleRead/scheduleWrite have none, so on a regular file the operation deferred at the limit completes with EPERM instead of its data (known finding D28, confirmed with a probe). " +
			"Not decided: that a deferred operation yields the same result on the pollable descriptor kinds (kernel), user callbacks that panic.",
		Run: runC14,
	})
	addMutants("C14",
		mutant{"limit comparison off by one (file read)", "file.go",
			"func (f *file) asyncRead(b []byte, readAll bool, cb AsyncCallback) {\n\tf.readReactor.init(b, readAll, cb)\n\n\tif f.ioc.Dispatched < MaxCallbackDispatch {",
			"func (f *file) asyncRead(b []byte, readAll bool, cb AsyncCallback) {\n\tf.readReactor.init(b, readAll, cb)\n\n\tif f.ioc.Dispatched <= MaxCallbackDispatch {", "C14-R1b"},
		mutant{"wrapper forgets to decrement (packet write)", "packet.go",
			"\t\t\tc.ioc.Dispatched++\n\t\t\tcb(err)\n\t\t\tc.ioc.Dispatched--", "\t\t\tc.ioc.Dispatched++\n\t\t\tcb(err)", "C14-R1a"},
		mutant{"inline completion without the wrapper (multicast write)", "multicast/peer.go",
			"\t\tp.asyncWriteNow(b, addr, func(err error, n int) {\n\t\t\tp.ioc.Dispatched++\n\t\t\tfn(err, n)\n\t\t\tp.ioc.Dispatched--\n\t\t})", "\t\tp.asyncWriteNow(b, addr, fn)", "C14-R1c|(*multicast.UDPPeer).asyncWriteNow"},
		mutant{"accept completes inline at the limit", "listen_conn.go",
			"\tif l.ioc.Dispatched >= MaxCallbackDispatch {\n\t\tl.asyncAccept(cb)\n\t} else {", "\tif false {\n\t\tl.asyncAccept(cb)\n\t} else {", "C14-R1b"},
		mutant{"at the limit the read is still attempted inline", "file.go",
			"\t\tf.scheduleRead(0 /* this is the starting point, we did not read anything yet */, cb)", "\t\tf.asyncReadNow(b, 0, readAll, cb)", "C14-R1c|(*sonic.file).asyncReadNow"},
		mutant{"limit taken from a different constant", "packet.go",
			"func (c *packetConn) asyncReadFrom(b []byte, readAll bool, cb AsyncReadCallbackPacket) {\n\tif c.ioc.Dispatched < MaxCallbackDispatch {", "func (c *packetConn) asyncReadFrom(b []byte, readAll bool, cb AsyncReadCallbackPacket) {\n\tif c.ioc.Dispatched < 2*MaxCallbackDispatch {", "C14-R1b"},
		mutant{"decrement before the callback", "multicast/peer.go",
			"\t\t\tp.ioc.Dispatched++\n\t\t\tfn(err, n, addr)\n\t\t\tp.ioc.Dispatched--", "\t\t\tp.ioc.Dispatched++\n\t\t\tp.ioc.Dispatched--\n\t\t\tfn(err, n, addr)", "C14-R1a"},
	)
}

var c14Owners = map[string]bool{
	modPath + ".file": true, modPath + ".conn": true, modPath + ".AsyncAdapter": true, modPath + ".listener": true,
	modPath + ".packetConn": true, modPath + "/multicast.UDPPeer": true,
}

func isCallbackSig(t types.Type) bool {
	_, ok := t.Underlying().(*types.Signature)
	return ok && isCallbackType(t)
}

func runC14(c *Ctx) {
	p := c.P
	dispF := p.Field("sonic", "IO", "Dispatched")
	maxC, _ := constantInt(p.Const("sonic", "MaxCallbackDispatch"))
	slotSet := p.Method("internal", "Slot", "Set").Object().(*types.Func)

	var scope []*ssa.Function
	for _, fn := range p.Funcs {
		pk, tn := recvTypeName(fn)
		if c14Owners[pk+"."+tn] {
			scope = append(scope, fn)
		}
	}
	// reactor types of the owners (their methods are handler context)
	handlerFns := map[*ssa.Function]bool{}
	for _, fn := range scope {
		for _, call := range callsTo(fn, slotSet) {
			if hf, _, _ := handlerFunction(p, call.Common().Args[2]); hf != nil {
				handlerFns[hf] = true
			}
		}
	}

	updates := func(fn *ssa.Function) bool {
		u := false
		eachInstr(fn, func(in ssa.Instruction) {
			if _, ok := plainDelta(in, dispF); ok {
				u = true
			}
		})
		return u
	}
	isUserCall := func(in ssa.Instruction) bool {
		call, ok := in.(ssa.CallInstruction)
		return ok && isDynamicFuncCall(call) && isCallbackSig(call.Common().Value.Type())
	}

	// ------------------------------------------------------------------------------------------------ R1a
	c.rule("C14-R1a", "every function/closure that updates IO.Dispatched is a balanced bracket: +1, user callback at depth 1, -1, depth 0 at every exit", 7)
	brackets := map[*ssa.Function]bool{}
	depthAt := map[ssa.Instruction]int{} // minimal bracket depth over paths
	allFns := append([]*ssa.Function{}, scope...)
	for _, fn := range allFns {
		if !updates(fn) {
			continue
		}
		paths, overflow := enumPaths(fn)
		if overflow {
			c.unproven(fn, "bracket", fn.Pos(), "too many paths")
			continue
		}
		good := true
		why := ""
		for _, path := range paths {
			depth := 0
			for _, in := range path.Instrs() {
				if d, ok := plainDelta(in, dispF); ok {
					depth += int(d)
					if d != 1 && d != -1 {
						good, why = false, "the counter is changed by something other than one"
					}
				}
				if cur, seen := depthAt[in]; !seen || depth < cur {
					depthAt[in] = depth
				}
				if isUserCall(in) && depth != 1 {
					good, why = false, fmt.Sprintf("a completion callback is invoked at bracket depth %d (%s)", depth, path)
				}
				if depth < 0 || depth > 1 {
					good, why = false, fmt.Sprintf("bracket depth %d (%s)", depth, path)
				}
			}
			if depth != 0 && !path.Panics {
				good, why = false, fmt.Sprintf("an exit is reached with the counter %+d off (%s)", depth, path)
			}
		}
		if fn.Parent() != nil {
			// closure wrapper: must contain exactly the bracket around the captured callback
			n := 0
			eachInstr(fn, func(in ssa.Instruction) {
				if isUserCall(in) {
					n++
				}
			})
			if n == 0 {
				good, why = false, "the bracketing closure never invokes the callback"
			}
		}
		if good {
			brackets[fn] = true
			c.ok(fn, "bracket", fn.Pos(), "balanced +1 / callback / -1 on all %d paths", len(paths))
		} else {
			c.bad(fn, "bracket", fn.Pos(), "%s: the dispatch depth accounting does not return to its previous value or does not count this completion", why)
		}
	}

	// ------------------------------------------------------------------------------------------------ R1b
	c.rule("C14-R1b", "every bracket is reached only under Dispatched < MaxCallbackDispatch (same field, same constant, strict)", 7)
	belowLimit := func(b *ssa.BasicBlock) (bool, string) {
		for _, l := range guardsOf(b) {
			op, x, y, ok := l.cmp()
			if !ok {
				continue
			}
			if loadOfField(x, dispF) {
				k, isK := constInt(y)
				if !isK {
					continue
				}
				if op == token.LSS && k == maxC {
					return true, ""
				}
				return false, fmt.Sprintf("guard is `Dispatched %s %d`, expected `< %d`", op, k, maxC)
			}
			if loadOfField(y, dispF) {
				k, isK := constInt(x)
				if isK && op == token.GTR && k == maxC {
					return true, ""
				}
				if isK {
					return false, fmt.Sprintf("guard is `%d %s Dispatched`", k, op)
				}
			}
		}
		return false, "no guard on IO.Dispatched"
	}
	// bracket factories: helpers that only build and return the bracketing wrapper; the guard is then required at their call sites
	bracketFactory := map[*ssa.Function]bool{}
	for _, fn := range scope {
		if fn.Parent() != nil {
			continue
		}
		rets := returnsOf(fn)
		all := len(rets) > 0
		for _, r := range rets {
			if len(r.Results) != 1 {
				all = false
				continue
			}
			mc, ok := strip(r.Results[0]).(*ssa.MakeClosure)
			if !ok || !brackets[mc.Fn.(*ssa.Function)] {
				all = false
			}
		}
		if all {
			bracketFactory[fn] = true
		}
	}
	for _, fn := range scope {
		eachInstr(fn, func(in ssa.Instruction) {
			if mc, ok := in.(*ssa.MakeClosure); ok {
				cf := mc.Fn.(*ssa.Function)
				if !updates(cf) {
					return
				}
				if bracketFactory[fn] {
					for _, cs := range p.callers(fn) {
						ok2, why := belowLimit(cs.(ssa.Instruction).Block())
						c.check(ok2, cs.Parent(), "wrapper guard", cs.Pos(), "the inline path is taken only below the limit", "the bracketing wrapper (inline completion path, built by "+fn.Name()+") is not guarded by Dispatched < MaxCallbackDispatch: "+why)
					}
					return
				}
				ok2, why := belowLimit(in.Block())
				c.check(ok2, fn, "wrapper guard", in.Pos(), "the inline path is taken only below the limit", "the bracketing wrapper (inline completion path) is not guarded by Dispatched < MaxCallbackDispatch: "+why)
			}
			if d, ok := plainDelta(in, dispF); ok && d == 1 && fn.Parent() == nil {
				ok2, why := belowLimit(in.Block())
				if !ok2 && fn.Object() != nil && isHelperOf(fn, fn) == false {
					// the three bracket statements moved into a helper of their own: the limit is tested where it is called
					if sites := p.callers(fn); len(sites) > 0 && (!fn.Object().Exported() || !knownOnPinnedTree(fn)) {
						all := true
						for _, cs := range sites {
							if okS, _ := belowLimit(cs.(ssa.Instruction).Block()); !okS {
								all = false
							}
						}
						if all {
							ok2 = true
						}
					}
				}
				c.check(ok2, fn, "inline bracket guard", in.Pos(), "the inline completion is taken only below the limit", "the inline completion is not guarded by Dispatched < MaxCallbackDispatch: "+why)
			}
		})
	}

	// ------------------------------------------------------------------------------------------------ R1c
	c.rule("C14-R1c", "provenance: a completion callback invoked synchronously outside a bracket is never the raw callback of an API entry (it is a bracketing wrapper or runs on the poller's dispatch stack)", 20)
	type pk struct {
		fn  *ssa.Function
		idx int
	}
	raw := map[pk]bool{}
	excluded := map[string]string{"AsyncClose": "completes inline by design and cannot be chained (the second close fails immediately)"}
	for _, fn := range scope {
		if fn.Parent() != nil || fn.Object() == nil || !fn.Object().Exported() {
			continue
		}
		if _, ex := excluded[fn.Name()]; ex {
			continue
		}
		for i, prm := range fn.Params {
			if isCallbackSig(prm.Type()) && !paramOnlyStored(fn, i) {
				raw[pk{fn, i}] = true
			}
		}
	}
	// value classification inside fn: is v (possibly) a raw entry callback?
	var isRaw func(fn *ssa.Function, v ssa.Value, depth int) bool
	isRaw = func(fn *ssa.Function, v ssa.Value, depth int) bool {
		if depth > 6 {
			return false
		}
		v = strip(v)
		r := resolveCell(v)
		for i, prm := range fn.Params {
			if r == ssa.Value(prm) {
				return raw[pk{fn, i}]
			}
		}
		// captured variable of an enclosing function
		if prm, ok := r.(*ssa.Parameter); ok && prm.Parent() != fn {
			for i, q := range prm.Parent().Params {
				if q == prm {
					return raw[pk{prm.Parent(), i}]
				}
			}
		}
		switch x := v.(type) {
		case *ssa.Call:
			if callee := x.Call.StaticCallee(); callee != nil && bracketFactory[callee] {
				return false
			}
		case *ssa.MakeClosure:
			cf := x.Fn.(*ssa.Function)
			if brackets[cf] {
				return false
			}
			for _, b := range x.Bindings {
				if a, ok := b.(*ssa.Alloc); ok {
					if st := singleStore(a); st != nil && isCallbackSig(st.Val.Type()) && isRaw(fn, st.Val, depth+1) {
						return true
					}
				}
			}
		case *ssa.Phi:
			for _, e := range x.Edges {
				if isRaw(fn, e, depth+1) {
					return true
				}
			}
		}
		return false
	}
	for changed := true; changed; {
		changed = false
		for _, fn := range scope {
			if handlerFns[fn] || (fn.Parent() != nil && handlerFns[fn]) {
				continue // handler context: whatever it passes on runs on the poller's dispatch stack
			}
			eachInstr(fn, func(in ssa.Instruction) {
				call, ok := in.(ssa.CallInstruction)
				if !ok {
					return
				}
				callee := call.Common().StaticCallee()
				if callee == nil || callee.Blocks == nil {
					return
				}
				cpk, ctn := recvTypeName(callee)
				if !c14Owners[cpk+"."+ctn] {
					return
				}
				if depthAt[in] >= 1 {
					return
				}
				for j, a := range call.Common().Args {
					if j >= len(callee.Params) || !isCallbackSig(callee.Params[j].Type()) {
						continue
					}
					if isRaw(fn, a, 0) && !raw[pk{callee, j}] {
						raw[pk{callee, j}] = true
						changed = true
					}
				}
			})
		}
	}
	n := 0
	for _, fn := range scope {
		if brackets[fn] && fn.Parent() != nil {
			continue
		}
		inHandler := handlerFns[fn]
		eachInstr(fn, func(in ssa.Instruction) {
			if !isUserCall(in) {
				return
			}
			call := in.(ssa.CallInstruction)
			n++
			what := describeCallArgs(call)
			construct := "invoke " + what
			switch {
			case depthAt[in] >= 1:
				c.ok(fn, construct, in.Pos(), "inside a dispatch bracket")
			case inHandler:
				c.ok(fn, construct, in.Pos(), "runs on the poller's dispatch stack (handler)")
			case isRaw(fn, call.Common().Value, 0):
				c.bad(fn, construct, in.Pos(), "the raw callback of an API entry is invoked inline here without the dispatch counter seeing it (reached with the unwrapped callback, e.g. through the at-limit branch): a chain of such completions nests without bound")
			default:
				c.ok(fn, construct, in.Pos(), "callee value is a bracketing wrapper or a parked callback")
			}
		})
	}
	_ = n
	_ = strings.Contains

	// ------------------------------------------------------------------------------------------------ R2
	c.rule("C14-R2", "the deferred path serves every descriptor kind a constructor can produce: an object built on a descriptor from open(2) (regular files are never pollable: epoll_ctl fails with EPERM) has a deferral route that does not need the registration to succeed", 2)
	{
		sysOpen := p.ExtFunc("syscall", "Open")
		ioPost := p.Method("sonic", "IO", "Post")
		e := newE2(p)
		// types that wrap a descriptor obtained from open(2)
		pathOpened := map[string]bool{}
		for _, fn := range p.Funcs {
			for _, oc := range callsTo(fn, sysOpen) {
				fd := extractOfInstr(oc.(ssa.Instruction), 0)
				if fd == nil {
					continue
				}
				eachInstr(fn, func(in ssa.Instruction) {
					call, ok := in.(*ssa.Call)
					if !ok || call.Call.StaticCallee() == nil || !e.inScope(call.Call.StaticCallee()) {
						return
					}
					uses := false
					for _, a := range call.Call.Args {
						if stripConv(a) == fd {
							uses = true
						}
					}
					if !uses {
						return
					}
					res := call.Call.StaticCallee().Signature.Results()
					for i := 0; i < res.Len(); i++ {
						t := res.At(i).Type()
						if pt, ok := t.(*types.Pointer); ok {
							t = pt.Elem()
						}
						if n, ok := t.(*types.Named); ok && n.Obj().Pkg() != nil {
							pathOpened[n.Obj().Pkg().Path()+"."+n.Obj().Name()] = true
						}
					}
				})
			}
		}
		if len(pathOpened) == 0 {
			c.bad(p.Fn("sonic", "Open"), "open(2) owner", p.Fn("sonic", "Open").Pos(), "no object type built on a descriptor from open(2) was found (anchor moved)")
		}
		for _, fn := range p.Funcs {
			pk, tn := recvTypeName(fn)
			if !pathOpened[pk+"."+tn] {
				continue
			}
			eachInstr(fn, func(in ssa.Instruction) {
				dir := e.regDir(in)
				if dir == "" {
					return
				}
				// is there a route that does not depend on the registration: a Post on its failing edge?
				alt := false
				for _, ifi := range regResultTests(in.(ssa.CallInstruction)) {
					cond, pos := normLit(ifi.Cond, true)
					bo, ok := cond.(*ssa.BinOp)
					if !ok {
						continue
					}
					failSucc := ifi.Block().Succs[0]
					if (bo.Op == token.EQL) == pos {
						failSucc = ifi.Block().Succs[1]
					}
					for _, b := range fn.Blocks {
						if !failSucc.Dominates(b) {
							continue
						}
						for _, x := range b.Instrs {
							if isCallToFn(x, ioPost) {
								alt = true
							}
						}
					}
				}
				c.check(alt, fn, "non-pollable descriptor "+dir, in.Pos(), "a refused registration falls back to a deferral that needs no poller interest",
					"the operation deferred at the dispatch limit is parked only through epoll registration, which the kernel refuses (EPERM) for the regular files sonic.Open can return: the deferred "+dir+" completes with the registration error instead of the result it would have had inline")
			})
		}
	}
}

// describeCallArgs renders the shape of a completion call for the construct key: which arguments are nil/zero
// constants (stable under line shifts, distinguishes the error completions of one function).
func describeCallArgs(call ssa.CallInstruction) string {
	var parts []string
	for _, a := range call.Common().Args {
		a = strip(a)
		switch {
		case isNil(a):
			parts = append(parts, "nil")
		case loadedGlobal(a) != nil:
			parts = append(parts, loadedGlobal(a).Name())
		default:
			if k, ok := constInt(a); ok {
				parts = append(parts, fmt.Sprint(k))
			} else if prm, ok := resolveCell(a).(*ssa.Parameter); ok {
				parts = append(parts, pinParamName(prm))
			} else {
				parts = append(parts, "_")
			}
		}
	}
	return "cb(" + strings.Join(parts, ",") + ")"
}
