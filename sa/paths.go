package main

import (
	"go/token"
	"go/types"
	"sync"

	"golang.org/x/tools/go/ssa"
)

// Path is one CFG path of a function from entry to an exit (return or panic). Loops are unrolled at most once:
// a block may appear at most twice on a path.
type Path struct {
	Fn     *ssa.Function
	Blocks []*ssa.BasicBlock
	Lits   []PLit // branch literals in path order
	Panics bool   // ends in panic rather than return
}

// PLit is a branch literal on a path; At is the index (in Path.Blocks) of the block that branches.
type PLit struct {
	Lit
	At int
}

const maxPaths = 20000

// enumPaths enumerates the acyclic-plus-one-iteration paths of fn. overflow is true when the cap was hit (the caller
// must then report its obligation as unproven).
func enumPaths(fn *ssa.Function) (paths []*Path, overflow bool) {
	if len(fn.Blocks) == 0 {
		return nil, false
	}
	count := map[*ssa.BasicBlock]int{}
	var blocks []*ssa.BasicBlock
	var lits []PLit
	// facts established by the branches taken so far, used to prune contradictory (infeasible) continuations:
	// the same value (after resolving phis along the path) tested again with the opposite outcome.
	type factKey struct {
		v    ssa.Value
		kind string
	}
	facts := map[factKey]bool{}
	factOf := func(l Lit) (factKey, bool, bool) {
		cur := &Path{Fn: fn, Blocks: blocks}
		at := len(blocks) - 1
		if x, eq, ok := l.nilTest(); ok {
			return factKey{cur.eval(x, at), "nil"}, eq, true
		}
		if op, x, y, ok := l.cmp(); ok && (op == token.EQL || op == token.NEQ) {
			if c, isC := stripConv(y).(*ssa.Const); isC && c.Value != nil {
				return factKey{cur.eval(x, at), "==" + c.Value.ExactString()}, op == token.EQL, true
			}
			return factKey{}, false, false
		}
		if _, isBin := l.Cond.(*ssa.BinOp); isBin {
			return factKey{}, false, false
		}
		return factKey{cur.eval(l.Cond, at), "true"}, l.Pos, true
	}
	var rec func(b *ssa.BasicBlock)
	rec = func(b *ssa.BasicBlock) {
		if overflow {
			return
		}
		if count[b] >= 2 {
			return
		}
		count[b]++
		blocks = append(blocks, b)
		defer func() {
			count[b]--
			blocks = blocks[:len(blocks)-1]
		}()
		last := b.Instrs[len(b.Instrs)-1]
		switch last.(type) {
		case *ssa.Return, *ssa.Panic:
			if len(paths) >= maxPaths {
				overflow = true
				return
			}
			_, isPanic := last.(*ssa.Panic)
			paths = append(paths, &Path{Fn: fn, Blocks: append([]*ssa.BasicBlock{}, blocks...),
				Lits: append([]PLit{}, lits...), Panics: isPanic})
			return
		}
		for _, s := range b.Succs {
			n := len(lits)
			var added *factKey
			if l, ok := edgeLit(b, s); ok {
				// a condition that is a phi of booleans (a compound condition computed as a value, e.g.
				// `ok := !all || n == len(b)`) is resolved along the path: it is a constant (then the edge is either
				// infeasible or uninformative) or another condition, which becomes the literal
				if _, isPhi := l.Cond.(*ssa.Phi); isPhi {
					cur := &Path{Fn: fn, Blocks: blocks}
					rc := cur.eval(l.Cond, len(blocks)-1)
					if isConstBool(rc, true) || isConstBool(rc, false) {
						if isConstBool(rc, true) != l.Pos {
							continue
						}
						rec(s)
						continue
					}
					if rc != l.Cond {
						l.Cond, l.Pos = normLit(rc, l.Pos)
					}
				}
				if k, truth, ok := factOf(l); ok {
					if k.kind == "nil" && truth && (loadedGlobal(k.v) != nil || isMakeInterface(k.v)) {
						continue // package-level error values and freshly boxed values are never nil
					}
					if k.kind == "nil" && !truth && isNil(k.v) {
						continue
					}
					if prev, known := facts[k]; known {
						if prev != truth {
							continue // contradicts a branch already taken on this path
						}
					} else if _, isPhi := k.v.(*ssa.Phi); !isPhi {
						facts[k] = truth
						kk := k
						added = &kk
					}
				}
				lits = append(lits, PLit{l, len(blocks) - 1})
			}
			rec(s)
			lits = lits[:n]
			if added != nil {
				delete(facts, *added)
			}
		}
	}
	rec(fn.Blocks[0])
	if !overflow {
		paths = expandClassifiers(paths)
	}
	return paths, overflow
}

// Instrs returns the instructions executed along the path, in order.
func (p *Path) Instrs() []ssa.Instruction {
	var out []ssa.Instruction
	for _, b := range p.Blocks {
		out = append(out, b.Instrs...)
	}
	return out
}

// Ret returns the return instruction ending the path (nil for a panic path).
func (p *Path) Ret() *ssa.Return {
	b := p.Blocks[len(p.Blocks)-1]
	r, _ := b.Instrs[len(b.Instrs)-1].(*ssa.Return)
	return r
}

// eval resolves phis according to the path: at position i (index into Blocks) a phi of Blocks[i] takes the edge of
// the predecessor Blocks[i-1]. pos is the index of the block in which the value is being used (phis are resolved
// using the last entry into their block at or before pos).
func (p *Path) eval(v ssa.Value, pos int) ssa.Value {
	for depth := 0; depth < 32; depth++ {
		v = strip(v)
		ph, ok := v.(*ssa.Phi)
		if !ok {
			return v
		}
		b := ph.Block()
		idx := -1
		for i := pos; i >= 1; i-- {
			if p.Blocks[i] == b {
				idx = i
				break
			}
		}
		if idx < 1 {
			return v
		}
		pred := p.Blocks[idx-1]
		found := false
		for k, pb := range b.Preds {
			if pb == pred {
				v = ph.Edges[k]
				found = true
				break
			}
		}
		if !found {
			return v
		}
		pos = idx - 1
	}
	return v
}

// evalEnd resolves v at the end of the path.
func (p *Path) evalEnd(v ssa.Value) ssa.Value { return p.eval(v, len(p.Blocks)-1) }

// has reports whether the path executes an instruction satisfying f.
func (p *Path) count(f func(ssa.Instruction) bool) int {
	n := 0
	for _, in := range p.Instrs() {
		if f(in) {
			n++
		}
	}
	return n
}

// nilness classifies an error-typed value at the end of a path: "nil", "nonnil" or "unknown".
func (p *Path) nilness(v ssa.Value) string {
	v = p.evalEnd(v)
	if isNil(v) {
		return "nil"
	}
	switch x := v.(type) {
	case *ssa.MakeInterface:
		return "nonnil"
	case *ssa.UnOp:
		if x.Op == token.MUL {
			if _, ok := x.X.(*ssa.Global); ok {
				return "nonnil" // package-level error values (errors.New at init)
			}
		}
	case *ssa.Call:
		if callee := x.Call.StaticCallee(); callee != nil {
			n := callee.String()
			if n == "errors.New" || n == "fmt.Errorf" || n == "os.NewSyscallError" {
				return "nonnil"
			}
		}
	}
	// literals on the path about this very value
	res := "unknown"
	for _, l := range p.Lits {
		x, eq, ok := l.nilTest()
		if !ok {
			if sx, isSent := sentinelEq(l.Lit, false); isSent && res == "unknown" && (p.eval(sx, l.At) == v || strip(sx) == v) {
				res = "nonnil"
			}
			continue
		}
		// the literal's operand must denote the same value under the path's phi resolution
		if p.eval(x, l.At) == v || strip(x) == v {
			if eq {
				res = "nil"
			} else {
				res = "nonnil"
			}
		}
	}
	return res
}

// String renders the path for diagnostics.
func (p *Path) String() string {
	s := "blocks"
	for _, b := range p.Blocks {
		s += " " + itoa(b.Index)
	}
	return s
}

func itoa(i int) string {
	if i == 0 {
		return "0"
	}
	neg := i < 0
	if neg {
		i = -i
	}
	var b []byte
	for i > 0 {
		b = append([]byte{byte('0' + i%10)}, b...)
		i /= 10
	}
	if neg {
		b = append([]byte{'-'}, b...)
	}
	return string(b)
}

// atomicAddDelta recognises `atomic.AddInt64(&x.f, c)` / AddInt32 / AddUint32 on field f and returns c.
func atomicAddDelta(in ssa.Instruction, f *types.Var) (int64, bool) {
	c, ok := in.(ssa.CallInstruction)
	if !ok {
		return 0, false
	}
	callee := c.Common().StaticCallee()
	if callee == nil || callee.Pkg == nil || callee.Pkg.Pkg.Path() != "sync/atomic" {
		return 0, false
	}
	switch callee.Name() {
	case "AddInt64", "AddInt32", "AddUint32", "AddUint64":
	default:
		return 0, false
	}
	args := c.Common().Args
	if len(args) != 2 {
		return 0, false
	}
	fv, _ := fieldAddrOf(args[0])
	if fv != f {
		return 0, false
	}
	d, ok := constInt(args[1])
	return d, ok
}

// plainDelta recognises `x.f = x.f + c` (or - c) stores on field f.
func plainDelta(in ssa.Instruction, f *types.Var) (int64, bool) {
	st, ok := in.(*ssa.Store)
	if !ok {
		return 0, false
	}
	fv, _ := fieldAddrOf(st.Addr)
	if fv != f {
		return 0, false
	}
	b, ok := stripConv(st.Val).(*ssa.BinOp)
	if !ok {
		return 0, false
	}
	if !loadOfField(b.X, f) {
		return 0, false
	}
	d, ok := constInt(b.Y)
	if !ok {
		return 0, false
	}
	switch b.Op {
	case token.ADD:
		return d, true
	case token.SUB:
		return -d, true
	}
	return 0, false
}

func isMakeInterface(v ssa.Value) bool {
	_, ok := v.(*ssa.MakeInterface)
	return ok
}

// ---------------------------------------------------------------------------------------------------------------------
// Classifier helpers. A refactoring may move a decision into a pure helper that returns a constant per outcome
// (`switch nextTransferStep(err, all, soFar, total) { case transferDone: ... }`, `if s.shouldReply(f) {`). A path that
// took the branch `helper(args) == K` is then replaced by one path per path of the helper that returns K, carrying the
// helper's own branch literals with its parameters bound to the arguments. Only helpers that do not exist on the pinned
// tree are expanded, so the paths of the unchanged tree are what they were.
// ---------------------------------------------------------------------------------------------------------------------

// classifierMemo is shared by the concurrently analysed variants and emptied at every load (it must not keep the
// programs of earlier variants alive).
var (
	classifierMu   sync.Mutex
	classifierMemo = map[*ssa.Function][]*Path{}
)

func resetClassifierMemo() {
	classifierMu.Lock()
	classifierMemo = map[*ssa.Function][]*Path{}
	classifierMu.Unlock()
}

// classifierPaths: the paths of h if h is a pure classifier (no stores, no go/defer/send/map updates; every path returns
// one constant as its single result), else nil.
func classifierPaths(h *ssa.Function) []*Path {
	if h == nil || h.Blocks == nil || h.Parent() != nil || h.Object() == nil || knownOnPinnedTree(h) {
		return nil
	}
	classifierMu.Lock()
	ps, ok := classifierMemo[h]
	if !ok {
		classifierMemo[h] = nil // a recursive classifier is none
	}
	classifierMu.Unlock()
	if ok {
		return ps
	}
	if h.Signature.Results().Len() != 1 {
		return nil
	}
	pure := true
	eachInstr(h, func(in ssa.Instruction) {
		switch in.(type) {
		case *ssa.Store, *ssa.MapUpdate, *ssa.Go, *ssa.Defer, *ssa.Send, *ssa.Panic:
			pure = false
		}
	})
	if !pure {
		return nil
	}
	ps, overflow := enumPaths(h)
	if overflow || len(ps) == 0 || len(ps) > 12 {
		return nil
	}
	for _, q := range ps {
		ret := q.Ret()
		if ret == nil || len(ret.Results) != 1 {
			return nil
		}
		if _, isK := stripConv(q.evalEnd(ret.Results[0])).(*ssa.Const); !isK {
			return nil
		}
	}
	classifierMu.Lock()
	classifierMemo[h] = ps
	classifierMu.Unlock()
	return ps
}

func expandClassifiers(paths []*Path) []*Path {
	var out []*Path
	changed := false
	for _, path := range paths {
		// constraints per classifier call on this path
		type constraint struct {
			eq  []string
			neq []string
			at  int
		}
		cons := map[*ssa.Call]*constraint{}
		var order []*ssa.Call
		note := func(call *ssa.Call, at int) *constraint {
			if c, ok := cons[call]; ok {
				return c
			}
			c := &constraint{at: at}
			cons[call] = c
			order = append(order, call)
			return c
		}
		for _, l := range path.Lits {
			if l.Subst != nil {
				continue
			}
			if call, ok := l.Cond.(*ssa.Call); ok && classifierPaths(call.Call.StaticCallee()) != nil {
				c := note(call, l.At)
				if l.Pos {
					c.eq = append(c.eq, "true")
				} else {
					c.eq = append(c.eq, "false")
				}
				continue
			}
			bo, ok := l.Cond.(*ssa.BinOp)
			if !ok || (bo.Op != token.EQL && bo.Op != token.NEQ) {
				continue
			}
			for _, pair := range [][2]ssa.Value{{bo.X, bo.Y}, {bo.Y, bo.X}} {
				call, isCall := stripConv(pair[0]).(*ssa.Call)
				k, isK := stripConv(pair[1]).(*ssa.Const)
				if !isCall || !isK || k.Value == nil || classifierPaths(call.Call.StaticCallee()) == nil {
					continue
				}
				c := note(call, l.At)
				if (bo.Op == token.EQL) == l.Pos {
					c.eq = append(c.eq, k.Value.ExactString())
				} else {
					c.neq = append(c.neq, k.Value.ExactString())
				}
			}
		}
		if len(order) == 0 {
			out = append(out, path)
			continue
		}
		changed = true
		cur := []*Path{path}
		for _, call := range order {
			c := cons[call]
			h := call.Call.StaticCallee()
			subst := map[ssa.Value]ssa.Value{}
			for i, q := range h.Params {
				if i < len(call.Call.Args) {
					subst[q] = call.Call.Args[i]
				}
			}
			var next []*Path
			for _, base := range cur {
				for _, q := range classifierPaths(h) {
					rv := stripConv(q.evalEnd(q.Ret().Results[0])).(*ssa.Const)
					val := "nil"
					if rv.Value != nil {
						val = rv.Value.ExactString()
					}
					okq := true
					for _, e := range c.eq {
						if e != val {
							okq = false
						}
					}
					for _, e := range c.neq {
						if e == val {
							okq = false
						}
					}
					if !okq {
						continue
					}
					np := &Path{Fn: base.Fn, Blocks: base.Blocks, Panics: base.Panics, Lits: append([]PLit{}, base.Lits...)}
					for _, ql := range q.Lits {
						cond := ql.Cond
						lit := Lit{Cond: cond, Pos: ql.Pos, If: ql.If, Subst: subst}
						if r, isPrm := subst[stripConv(cond)]; isPrm {
							lit.Cond, lit.Pos = normLit(r, ql.Pos)
							lit.Subst = nil
						}
						np.Lits = append(np.Lits, PLit{Lit: lit, At: c.at})
					}
					next = append(next, np)
				}
			}
			cur = next
			if len(cur) > 64 {
				cur = cur[:64]
			}
		}
		out = append(out, cur...)
	}
	if !changed {
		return paths
	}
	return out
}
