package main

// mutsweep: the opposite of astfuzz. Every eligible construct of a source file is mutated on its own (one statement
// deleted, one condition negated, one comparison moved by one), the variant is type-checked and every property's rules
// are run on it. The variants no rule reports are written out: run through the test suite by tools/mutsweep.py, the ones
// that also pass the existing tests are exactly the changes the brief asks about (compile, pass the tests) that the
// machinery does not see - to be triaged by hand into harmless / outside the properties / gap (DESIGN.md section 8.5).

import (
	"bytes"
	"encoding/json"
	"flag"
	"fmt"
	"go/ast"
	"go/format"
	"go/parser"
	"go/token"
	"os"
	"path/filepath"
	"sort"
	"strings"
)

type sweepMutant struct {
	ID     string   `json:"id"`
	File   string   `json:"file"`
	Line   int      `json:"line"`
	Func   string   `json:"func"`
	Kind   string   `json:"kind"`
	What   string   `json:"what"`
	Keys   []string `json:"keys,omitempty"`
	Infra  string   `json:"infra,omitempty"`
	Status string   `json:"status"` // reported | silent | nocompile
}

func cmdMutSweep(args []string) int {
	fs := flag.NewFlagSet("mutsweep", flag.ExitOnError)
	repo := fs.String("repo", "/repo", "repository")
	verif := fs.String("verif", "/verif", "verif dir (known findings)")
	files := fs.String("files", "", "comma separated repo-relative files")
	out := fs.String("out", "", "directory receiving silent variants and the report")
	kinds := fs.String("kinds", "delstmt,negcond,boundary", "mutation kinds")
	_ = fs.Parse(args)
	if *files == "" || *out == "" {
		fmt.Println("usage: mutsweep -files a.go,b.go -out dir")
		return 2
	}
	_ = os.MkdirAll(*out, 0o755)
	findings := loadFindings(filepath.Join(*verif, "known_findings.jsonl"))
	var ids []string
	for id := range registry {
		ids = append(ids, id)
	}
	sort.Strings(ids)
	runAll := func(overlay map[string][]byte) ([]string, string, bool) {
		p, err := Load(*repo, "amd64", overlay)
		if err != nil {
			return nil, err.Error(), strings.Contains(err.Error(), "type-check") || strings.Contains(err.Error(), "does not compile")
		}
		var keys []string
		infra := ""
		for _, id := range ids {
			r := runProperty(p, registry[id], findings)
			if r.InfraErr != "" {
				infra += id + ": " + r.InfraErr + "; "
			}
			for _, o := range r.Violations {
				keys = append(keys, o.Key)
			}
		}
		return keys, infra, false
	}
	want := map[string]bool{}
	for _, k := range strings.Split(*kinds, ",") {
		want[k] = true
	}
	var report []sweepMutant
	for _, rel := range strings.Split(*files, ",") {
		abs := filepath.Join(*repo, rel)
		src, err := os.ReadFile(abs)
		if err != nil {
			fmt.Println("skip", rel, err)
			continue
		}
		// enumerate sites on a first parse; each mutant re-parses and edits the i-th site
		count := func(kind string) int {
			_, n, _ := mutateNth(abs, src, kind, -1)
			return n
		}
		for _, kind := range []string{"delstmt", "negcond", "boundary"} {
			if !want[kind] {
				continue
			}
			n := count(kind)
			for i := 0; i < n; i++ {
				m, _, err := mutateNth(abs, src, kind, i)
				if err != nil || m == nil {
					continue
				}
				m.ID = fmt.Sprintf("%s_%s_%03d", strings.NewReplacer("/", "_", ".go", "").Replace(rel), kind, i)
				m.File = rel
				keys, infra, nocompile := runAll(map[string][]byte{abs: m.src})
				sm := sweepMutant{ID: m.ID, File: rel, Line: m.line, Func: m.fn, Kind: kind, What: m.what, Keys: keys, Infra: infra}
				switch {
				case nocompile:
					sm.Status = "nocompile"
				case len(keys) > 0 || infra != "":
					sm.Status = "reported"
				default:
					sm.Status = "silent"
					_ = os.WriteFile(filepath.Join(*out, m.ID+".go"), m.src, 0o644)
				}
				fmt.Printf("%-9s %s %s:%d %s %s\n", sm.Status, m.ID, rel, m.line, m.fn, m.what)
				report = append(report, sm)
			}
		}
	}
	b, _ := json.MarshalIndent(report, "", " ")
	name := "report_" + strings.NewReplacer("/", "_", ",", "+", ".go", "").Replace(*files) + ".json"
	if len(name) > 120 {
		name = name[:120] + ".json"
	}
	_ = os.WriteFile(filepath.Join(*out, name), b, 0o644)
	return 0
}

type nthMutant struct {
	ID, File string
	src      []byte
	line     int
	fn, what string
}

// mutateNth applies mutation `kind` to the idx-th eligible site of the file (idx < 0: only count the sites).
func mutateNth(filename string, src []byte, kind string, idx int) (*nthMutant, int, error) {
	fset := token.NewFileSet()
	f, err := parser.ParseFile(fset, filename, src, parser.ParseComments)
	if err != nil {
		return nil, 0, err
	}
	n := 0
	var res *nthMutant
	render := func(e ast.Node) string {
		var b bytes.Buffer
		_ = format.Node(&b, fset, e)
		s := b.String()
		s = strings.Join(strings.Fields(s), " ")
		if len(s) > 90 {
			s = s[:90] + "..."
		}
		return s
	}
	for _, d := range f.Decls {
		fd, ok := d.(*ast.FuncDecl)
		if !ok || fd.Body == nil {
			continue
		}
		fname := fd.Name.Name
		if fd.Recv != nil && len(fd.Recv.List) == 1 {
			fname = render(fd.Recv.List[0].Type) + "." + fname
		}
		switch kind {
		case "delstmt":
			var visitList func(list *[]ast.Stmt)
			var visitStmt func(s ast.Stmt)
			visitList = func(list *[]ast.Stmt) {
				for i := 0; i < len(*list); i++ {
					s := (*list)[i]
					eligible := false
					switch x := s.(type) {
					case *ast.ExprStmt:
						eligible = true
					case *ast.IncDecStmt:
						eligible = true
					case *ast.DeferStmt:
						eligible = true
					case *ast.AssignStmt:
						eligible = x.Tok != token.DEFINE
					}
					if eligible {
						if n == idx {
							res = &nthMutant{line: fset.Position(s.Pos()).Line, fn: fname, what: "delete: " + render(s)}
							*list = append(append([]ast.Stmt{}, (*list)[:i]...), (*list)[i+1:]...)
							n++
							return
						}
						n++
					}
					visitStmt(s)
					if res != nil {
						return
					}
				}
			}
			visitStmt = func(s ast.Stmt) {
				switch x := s.(type) {
				case *ast.BlockStmt:
					visitList(&x.List)
				case *ast.IfStmt:
					visitList(&x.Body.List)
					if x.Else != nil {
						visitStmt(x.Else)
					}
				case *ast.ForStmt:
					visitList(&x.Body.List)
				case *ast.RangeStmt:
					visitList(&x.Body.List)
				case *ast.SwitchStmt:
					for _, cc := range x.Body.List {
						visitList(&cc.(*ast.CaseClause).Body)
					}
				case *ast.TypeSwitchStmt:
					for _, cc := range x.Body.List {
						visitList(&cc.(*ast.CaseClause).Body)
					}
				case *ast.ExprStmt, *ast.AssignStmt, *ast.DeferStmt, *ast.GoStmt, *ast.ReturnStmt:
					// closures inside
					ast.Inspect(x, func(nd ast.Node) bool {
						if fl, ok := nd.(*ast.FuncLit); ok && res == nil {
							visitList(&fl.Body.List)
							return false
						}
						return res == nil
					})
				}
			}
			visitList(&fd.Body.List)
		case "negcond":
			ast.Inspect(fd.Body, func(nd ast.Node) bool {
				if res != nil {
					return false
				}
				if is, ok := nd.(*ast.IfStmt); ok {
					if n == idx {
						res = &nthMutant{line: fset.Position(is.Pos()).Line, fn: fname, what: "negate: if " + render(is.Cond)}
						is.Cond = &ast.UnaryExpr{Op: token.NOT, X: &ast.ParenExpr{X: is.Cond}}
					}
					n++
				}
				return true
			})
		case "boundary":
			ast.Inspect(fd.Body, func(nd ast.Node) bool {
				if res != nil {
					return false
				}
				if be, ok := nd.(*ast.BinaryExpr); ok {
					var to token.Token
					switch be.Op {
					case token.LSS:
						to = token.LEQ
					case token.LEQ:
						to = token.LSS
					case token.GTR:
						to = token.GEQ
					case token.GEQ:
						to = token.GTR
					default:
						return true
					}
					if n == idx {
						res = &nthMutant{line: fset.Position(be.Pos()).Line, fn: fname, what: fmt.Sprintf("boundary: %s -> %s", render(be), to)}
						be.Op = to
					}
					n++
				}
				return true
			})
		}
		if res != nil {
			break
		}
	}
	if idx < 0 || res == nil {
		return nil, n, nil
	}
	var b bytes.Buffer
	if err := format.Node(&b, fset, f); err != nil {
		return nil, n, err
	}
	res.src = b.Bytes()
	return res, n, nil
}
