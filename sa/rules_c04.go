package main

import (
	"fmt"
	"go/token"
	"go/types"

	"golang.org/x/tools/go/ssa"
)

func init() {
	register(&propertySpec{
		ID:    "C04",
		Title: "Timer guarantees: never early, at most once, never after cancel",
		Explanation: "Decides: (R1) closed is absorbing - every store of a non-closed value to (*Timer).state is guarded by a test that excludes " +
			"stateClosed, or lies in the expiry closure handed to the internal timer; (R2) never early - in the handler installed by the " +
			"internal timer the user function is only reached under a test of the result of read(2) on the timerfd, and the failing edge " +
			"re-registers the interest; (R3) scheduling typestate - the internal timer is armed only under state==ready, state=scheduled and the " +
			"pendingTimers insertion happen only on the success edge of arming, the expiry closure resets state and removes the timer from " +
			"pendingTimers before it calls the user function, Unset disarms the timerfd with a zero spec and removes the poller interest on every " +
			"path on which the interest is set, the armed spec has a zero interval (one-shot), Cancel/Close reach Unset, Cancel records " +
			"stateReady exactly on the success edge of Unset and Close records stateClosed on every path of an open timer, Scheduled() reports " +
			"state==scheduled; (R4) repetition - the repeating closure re-arms only under !cancelled and after the user callback, Cancel sets the " +
			"flag on its success path, ScheduleOnce clears it. The stale-batch-entry filter and one-shot dispatch of C01-R3 are shared. " +
			"Not decided: wall-clock statements (elapsed delay, interval spacing) and that the timer does fire.",
		Run: runC04,
	})
	addMutants("C04",
		mutant{"refused ScheduleOnce clears the repetition flag", "timer.go",
			"func (t *Timer) ScheduleOnce(delay time.Duration, cb func()) (err error) {\n\tif t.state == stateReady {", "func (t *Timer) ScheduleOnce(delay time.Duration, cb func()) (err error) {\n\tt.cancelled = false\n\tif t.state == stateReady {", "C04-R3"},
		mutant{"Cancel leaves the timer scheduled", "timer.go",
			"\t\tt.cancelled = true\n\t\tt.state = stateReady\n", "\t\tt.cancelled = true\n", "C04-R3"},
		mutant{"Cancel records ready before the disarm result is known", "timer.go",
			"\terr := t.it.Unset()\n\tif err == nil {\n\t\tt.cancelled = true\n\t\tt.state = stateReady\n\t}", "\terr := t.it.Unset()\n\tt.state = stateReady\n\tif err == nil {\n\t\tt.cancelled = true\n\t}", "C04-R3"},
		mutant{"Close does not record closed", "timer.go",
			"\t\tt.state = stateClosed\n\t\tdelete(t.ioc.pendingTimers, t)\n", "\t\tdelete(t.ioc.pendingTimers, t)\n", "C04-R3"},
		mutant{"Cancel revives a closed timer", "timer.go",
			"\tif t.state == stateClosed {\n\t\t// A closed timer no longer owns its descriptor and cannot be made ready again.\n\t\treturn nil\n\t}\n\n", "", "C04-R1"},
		mutant{"timer handler ignores the timerfd read", "internal/timer_linux.go",
			"\t\t\tif _, err := syscall.Read(t.fd, t.b[:]); err != nil {\n\t\t\t\t// The timer did not expire: this is a stale readiness event from before it was re-armed in the\n\t\t\t\t// same poll cycle. The poller already dropped the one-shot interest, so wait again.\n\t\t\t\t_ = t.poller.SetRead(&t.slot)\n\t\t\t\treturn\n\t\t\t}\n",
			"\t\t\t_, _ = syscall.Read(t.fd, t.b[:])\n", "C04-R2"},
		mutant{"stale timer event drops the interest", "internal/timer_linux.go",
			"\t\t\t\t_ = t.poller.SetRead(&t.slot)\n\t\t\t\treturn\n", "\t\t\t\treturn\n", "C04-R2"},
		mutant{"scheduling while scheduled re-arms", "timer.go",
			"\tif t.state == stateReady {\n\t\tif delay <= 0 {", "\tif t.state != stateClosed {\n\t\tif delay <= 0 {", "C04-R3"},
		mutant{"state set before arming succeeded", "timer.go",
			"\t\t\t\tt.cancelled = false\n\t\t\t\tt.ioc.pendingTimers[t] = struct{}{}\n\t\t\t\tt.state = stateScheduled\n\t\t\t}",
			"\t\t\t\tt.cancelled = false\n\t\t\t\tt.ioc.pendingTimers[t] = struct{}{}\n\t\t\t}\n\t\t\tt.state = stateScheduled", "C04-R3"},
		mutant{"expiry closure calls the user first", "timer.go",
			"\t\t\t\tdelete(t.ioc.pendingTimers, t)\n\t\t\t\tt.state = stateReady\n\t\t\t\tcb()", "\t\t\t\tdelete(t.ioc.pendingTimers, t)\n\t\t\t\tcb()\n\t\t\t\tt.state = stateReady", "C04-R3"},
		mutant{"Unset leaves the interest", "internal/timer_linux.go",
			"\tif err == nil {\n\t\terr = t.poller.Del(&t.slot)\n\t}\n\treturn err", "\treturn err", "C04-R3"},
		mutant{"Unset does not disarm", "internal/timer_linux.go",
			"\terr := unix.TimerfdSettime(t.fd, 0, &unix.ItimerSpec{}, nil)\n\tif err == nil {\n\t\terr = t.poller.Del(&t.slot)\n\t}\n\treturn err", "\treturn t.poller.Del(&t.slot)", "C04-R3"},
		mutant{"periodic timerfd", "internal/timer_linux.go",
			"\t\tInterval: unix.Timespec{},", "\t\tInterval: timespec,", "C04-R3"},
		mutant{"repeating timer ignores cancel from its callback", "timer.go",
			"\t\t\tif t.cancelled {\n\t\t\t\tt.cancelled = false\n\t\t\t} else {\n\t\t\t\t// TODO this error should not be ignored\n\t\t\t\t_ = t.ScheduleOnce(repeat, ccb)\n\t\t\t}",
			"\t\t\tt.cancelled = false\n\t\t\t_ = t.ScheduleOnce(repeat, ccb)", "C04-R4"},
		mutant{"repeating wrapper disarms after a refused re-arm", "timer.go",
			"\t\t\t} else {\n\t\t\t\t// TODO this error should not be ignored\n\t\t\t\t_ = t.ScheduleOnce(repeat, ccb)\n\t\t\t}", "\t\t\t} else if err := t.ScheduleOnce(repeat, ccb); err != nil {\n\t\t\t\t_ = t.it.Unset()\n\t\t\t}", "C04-R3"},
		mutant{"ScheduleRepeating clears the flag before validating", "timer.go",
			"func (t *Timer) ScheduleRepeating(repeat time.Duration, cb func()) error {\n", "func (t *Timer) ScheduleRepeating(repeat time.Duration, cb func()) error {\n\tt.cancelled = false\n", "C04-R4"},
		mutant{"Cancel flags only scheduled timers", "timer.go",
			"\terr := t.it.Unset()\n\tif err == nil {\n\t\tt.cancelled = true", "\terr := t.it.Unset()\n\tif err == nil && t.state == stateScheduled {\n\t\tt.cancelled = true", "C04-R4"},
		mutant{"interest registered although arming failed", "internal/timer_linux.go",
			"\t\terr = t.poller.SetRead(&t.slot)\n\t}\n\n\treturn err", "\t}\n\tif e2 := t.poller.SetRead(&t.slot); err == nil {\n\t\terr = e2\n\t}\n\n\treturn err", "C04-R2"},
		mutant{"immediate callback clears the repeat flag", "timer.go",
			"\tif t.state == stateReady {\n\t\tif delay <= 0 {", "\tif t.state == stateReady {\n\t\tt.cancelled = false\n\t\tif delay <= 0 {", "C04-R4"},
		mutant{"immediate callback on a closed timer", "timer.go",
			"func (t *Timer) ScheduleOnce(delay time.Duration, cb func()) (err error) {\n", "func (t *Timer) ScheduleOnce(delay time.Duration, cb func()) (err error) {\n\tif delay <= 0 && !t.Scheduled() {\n\t\tcb()\n\t\treturn nil\n\t}\n", "C04-R4"},
		mutant{"Cancel does not flag the repeating closure", "timer.go",
			"\t\tt.cancelled = true\n\t\tt.state = stateReady", "\t\tt.state = stateReady", "C04-R4"},
		mutant{"Scheduled reports ready timers", "timer.go",
			"return t.state == stateScheduled", "return t.state != stateClosed", "C04-R3"},
	)
}

// enumTest recognises literals comparing a load of field f with a constant.
func enumTest(l Lit, f *types.Var) (k int64, eq bool, ok bool) {
	op, x, y, isCmp := l.cmp()
	if !isCmp || (op != token.EQL && op != token.NEQ) {
		return 0, false, false
	}
	if loadOfField(x, f) {
		if kk, ok := constInt(y); ok {
			return kk, op == token.EQL, true
		}
	}
	if loadOfField(y, f) {
		if kk, ok := constInt(x); ok {
			return kk, op == token.EQL, true
		}
	}
	return 0, false, false
}

// allowedStates intersects the set of enum values compatible with the guards of block b (values 0..n-1).
func allowedStates(b *ssa.BasicBlock, f *types.Var, n int) map[int64]bool {
	out := map[int64]bool{}
	for i := 0; i < n; i++ {
		out[int64(i)] = true
	}
	for _, l := range guardsOf(b) {
		k, eq, ok := enumTest(l, f)
		if !ok {
			continue
		}
		if eq {
			for v := range out {
				if v != k {
					delete(out, v)
				}
			}
		} else {
			delete(out, k)
		}
	}
	return out
}

func isFreshAllocStore(st *ssa.Store) bool {
	_, fa := fieldAddrOf(st.Addr)
	if fa == nil {
		return false
	}
	_, ok := fa.X.(*ssa.Alloc)
	return ok
}

func runC04(c *Ctx) {
	p := c.P
	stateF := p.Field("sonic", "Timer", "state")
	cancelledF := p.Field("sonic", "Timer", "cancelled")
	pendingTimersF := p.Field("sonic", "IO", "pendingTimers")
	ready, _ := constantInt(p.Const("sonic", "stateReady"))
	scheduled, _ := constantInt(p.Const("sonic", "stateScheduled"))
	closedK, _ := constantInt(p.Const("sonic", "stateClosed"))
	itSet := p.Method("internal", "Timer", "Set")
	itUnset := p.Method("internal", "Timer", "Unset")
	itClose := p.Method("internal", "Timer", "Close")
	itSetI := p.IfaceMethod("internal", "ITimer", "Set")
	schedOnce := p.Method("sonic", "Timer", "ScheduleOnce")
	schedRep := p.Method("sonic", "Timer", "ScheduleRepeating")
	cancel := p.Method("sonic", "Timer", "Cancel")
	closeT := p.Method("sonic", "Timer", "Close")

	isArm := func(in ssa.Instruction) bool { return isCallToFn(in, itSet) || isCallTo(in, itSetI) }

	var timerFuncs []*ssa.Function
	for _, fn := range p.Funcs {
		pk, tn := recvTypeName(fn)
		if pk == modPath && tn == "Timer" {
			timerFuncs = append(timerFuncs, fn)
		}
	}

	// closures handed to the internal timer as expiry callbacks
	expiry := map[*ssa.Function]ssa.Instruction{}
	for _, fn := range timerFuncs {
		eachInstr(fn, func(in ssa.Instruction) {
			if !isArm(in) {
				return
			}
			for _, a := range in.(ssa.CallInstruction).Common().Args {
				if mc, ok := strip(a).(*ssa.MakeClosure); ok {
					expiry[mc.Fn.(*ssa.Function)] = in
					// func() { t.expired(cb) }: the method the closure forwards to is the expiry code
					if ft := forwardTarget(mc.Fn.(*ssa.Function)); ft != nil {
						expiry[ft] = in
					}
				} else if _, isCall := strip(a).(*ssa.Call); isCall {
					// the closure is built by a factory (t.fireOnce(cb))
					if hf, _, _ := handlerFunction(p, a); hf != nil {
						expiry[hf] = in
					}
				}
			}
		})
	}

	// ------------------------------------------------------------------------------------------------ R1
	c.rule("C04-R1", "closed is absorbing: a store of a non-closed state is guarded by a test excluding stateClosed (or lies in the expiry closure of a guarded arming)", 3)
	for _, fn := range p.Funcs {
		for _, a := range storesTo(fn, stateF) {
			st := a.Instr.(*ssa.Store)
			if isFreshAllocStore(st) {
				continue // constructor
			}
			k, isConst := constInt(st.Val)
			if isConst && k == closedK {
				c.ok(fn, "store closed", st.Pos(), "stores stateClosed")
				continue
			}
			if arm, isExpiry := expiry[fn]; isExpiry {
				al := allowedStates(arm.Block(), stateF, 3)
				c.check(!al[closedK], fn, "store in expiry closure", st.Pos(), "expiry closure of an arming that is only reached when the timer is not closed", "the expiry closure that resets the state belongs to an arming that is reachable with a closed timer")
				continue
			}
			al := allowedStatesCtx(p, st, stateF, 3, 2)
			c.check(!al[closedK], fn, "store non-closed", st.Pos(), "guarded by a test that excludes stateClosed", "a non-closed state is stored without testing that the timer is not closed: Close(); then this call revives the timer on a descriptor it no longer owns")
		}
	}

	// ------------------------------------------------------------------------------------------------ R2
	c.rule("C04-R2", "never early: the internal timer's handler calls the user function only after read(2) on the timerfd succeeded; otherwise it re-registers the read interest", 2)
	{
		sysRead := p.ExtFunc("syscall", "Read")
		fdF := p.Field("internal", "Timer", "fd")
		slotSet := p.Method("internal", "Slot", "Set").Object().(*types.Func)
		setReadI := p.IfaceMethod("internal", "Poller", "SetRead")
		found := 0
		for _, call := range callsTo(itSet, slotSet) {
			hf, _, whyNot := handlerFunction(p, call.Common().Args[2])
			if hf == nil {
				c.unproven(itSet, "handler", call.Pos(), "cannot resolve the timer handler: %s", whyNot)
				continue
			}
			c.touch(hf)
			// a closure that only forwards to a method of the timer (func(error) { t.onReadable(cb) }): that method is the
			// handler
			if ft := forwardTarget(hf); ft != nil {
				hf = ft
				c.touch(hf)
			}
			// the call of the captured user function
			eachInstr(hf, func(in ssa.Instruction) {
				cc, ok := in.(ssa.CallInstruction)
				if !ok || !isDynamicFuncCall(cc) {
					return
				}
				found++
				// guard: nil literal (== nil) on the error of syscall.Read(t.fd, ...), or count literal
				good := false
				var readCall *ssa.Call
				for _, l := range guardsOf(in.Block()) {
					var subject ssa.Value
					if x, eq, ok := l.nilTest(); ok && eq {
						subject = x
					} else if op, x, y, ok := l.cmp(); ok && (op == token.EQL || op == token.GEQ || op == token.GTR) {
						if _, isK := constInt(y); isK {
							subject = x
						}
					}
					if subject == nil {
						continue
					}
					ex, ok := strip(subject).(*ssa.Extract)
					if !ok {
						continue
					}
					rc, ok := ex.Tuple.(*ssa.Call)
					if !ok || !isCallTo(rc, sysRead) {
						continue
					}
					if loadedField(resolveCell(rc.Call.Args[0])) == fdF || loadOfField(rc.Call.Args[0], fdF) {
						good = true
						readCall = rc
					}
				}
				c.check(good, hf, "user function", in.Pos(), "reached only when the timerfd read reported an expiry", "the user function runs without checking that read(2) on the timerfd succeeded: a stale readiness event of a timer that was cancelled and re-armed in the same poll batch fires the new callback immediately")
				if readCall != nil {
					// failing edge re-registers
					for _, ret := range returnsOf(hf) {
						passesUser := false
						for _, l := range guardsOf(ret.Block()) {
							if x, eq, ok := l.nilTest(); ok && !eq {
								if ex, ok := strip(x).(*ssa.Extract); ok && ex.Tuple == ssa.Value(readCall) {
									passesUser = true
								}
							}
						}
						if !passesUser {
							continue
						}
						has := false
						for _, x := range ret.Block().Instrs {
							if isCallTo(x, setReadI) {
								has = true
							}
						}
						for d := ret.Block().Idom(); d != nil && !has; d = d.Idom() {
							// only blocks on the failing side
							stillFail := false
							for _, l := range guardsOf(d) {
								if x, eq, ok := l.nilTest(); ok && !eq {
									if ex, ok := strip(x).(*ssa.Extract); ok && ex.Tuple == ssa.Value(readCall) {
										stillFail = true
									}
								}
							}
							if !stillFail {
								break
							}
							for _, x := range d.Instrs {
								if isCallTo(x, setReadI) {
									has = true
								}
							}
						}
						c.check(has, hf, "stale event", exitPos(ret), "a stale event re-registers the read interest", "when the timerfd has not expired the handler returns without re-registering the interest the poller removed before dispatch: the re-armed timer never fires")
					}
				}
			})
		}
		if found == 0 {
			c.bad(itSet, "handler", itSet.Pos(), "the internal timer installs no handler that calls the user function")
		}
		// the read interest is registered only when the timerfd was armed: Set returns the arming error, and an interest
		// left behind for a timer that never fires stays counted (RunPending blocks) with Scheduled() false
		{
			settime := p.ExtFunc("golang.org/x/sys/unix", "TimerfdSettime")
			if len(callsTo(itSet, setReadI)) == 0 {
				c.bad(itSet, "interest after arming", itSet.Pos(), "Set arms the timerfd but never registers the read interest with the poller: the expiry is never dispatched")
			}
			for _, reg := range callsTo(itSet, setReadI) {
				good := false
				for _, st := range callsTo(itSet, settime) {
					if guardedNil(reg.(ssa.Instruction).Block(), st.(ssa.Value)) {
						good = true
					}
				}
				c.check(good, itSet, "interest after arming", reg.Pos(), "the read interest is registered on the success edge of timerfd_settime", "the read interest is registered although arming the timerfd may have failed: Set reports the error, the timer is not scheduled, yet an interest that can never fire stays registered and counted")
			}
		}
	}

	// ------------------------------------------------------------------------------------------------ R3
	c.rule("C04-R3", "scheduling typestate (arm only when ready; state/pendingTimers follow the success edge; expiry closure resets before the user runs; Unset disarms and removes the interest; one-shot spec; Cancel/Close reach Unset; Cancel records ready exactly on success, Close records closed; Scheduled())", 10)
	for _, fn := range timerFuncs {
		eachInstr(fn, func(in ssa.Instruction) {
			if !isArm(in) {
				return
			}
			al := allowedStates(in.Block(), stateF, 3)
			c.check(len(al) == 1 && al[ready], fn, "arm", in.Pos(), "the internal timer is armed only when state == stateReady", "the internal timer can be armed while the timer is scheduled or closed: an existing schedule is disturbed or a closed timer revived")
			// state = scheduled and pendingTimers insertion on the success edge
			armVal := in.(ssa.Value)
			hasSched, hasIns := false, false
			for _, a := range deepStoresTo(fn, stateF) {
				if k, ok := constInt(a.Store.Val); !ok || k != scheduled {
					continue
				}
				c.check(guardedNil(a.Site.Block(), armVal), fn, "state=scheduled", a.Site.Pos(), "stored on the success edge of arming", "stateScheduled is stored although arming may have failed: Scheduled() reports a callback that will never run")
				hasSched = true
			}
			isInsert := func(x ssa.Instruction) bool {
				mu, ok := x.(*ssa.MapUpdate)
				return ok && loadOfField(mu.Map, pendingTimersF)
			}
			eachInstr(fn, func(x ssa.Instruction) {
				if !doesDeep(x, isInsert) {
					return
				}
				c.check(guardedNil(x.Block(), armVal), fn, "pendingTimers insert", x.Pos(), "inserted on the success edge of arming", "the timer is inserted into pendingTimers although arming may have failed")
				hasIns = true
			})
			c.check(hasSched && hasIns, fn, "arm bookkeeping", in.Pos(), "a successful arming records stateScheduled and keeps the timer alive in pendingTimers", "a successful arming does not record stateScheduled / insert into pendingTimers (second schedule would not be refused; timer may be collected while armed)")
		})
	}
	for hf := range expiry {
		c.touch(hf)
		eachInstr(hf, func(in ssa.Instruction) {
			cc, ok := in.(ssa.CallInstruction)
			if !ok || !isDynamicFuncCall(cc) {
				return
			}
			var reset, del bool
			eachInstr(hf, func(x ssa.Instruction) {
				if !dominatesInstr(x, in) {
					return
				}
				if st, ok := x.(*ssa.Store); ok {
					if fv, _ := fieldAddrOf(st.Addr); fv == stateF && isConstInt(st.Val, ready) {
						reset = true
					}
				}
				if call, ok := x.(*ssa.Call); ok {
					if b, ok := call.Call.Value.(*ssa.Builtin); ok && b.Name() == "delete" && loadOfField(call.Call.Args[0], pendingTimersF) {
						del = true
					}
				}
			})
			c.check(reset && del, hf, "expiry closure", in.Pos(), "state reset and pendingTimers removal precede the user callback", "the expiry closure calls the user function before resetting state / leaving pendingTimers: a callback that re-schedules its own timer is refused or later overwritten")
		})
	}
	{
		// Unset
		eventsF := p.Field("internal", "Slot", "Events")
		settime := p.ExtFunc("golang.org/x/sys/unix", "TimerfdSettime")
		delI := p.IfaceMethod("internal", "Poller", "Del")
		paths, overflow := enumPaths(itUnset)
		if overflow {
			c.unproven(itUnset, "paths", itUnset.Pos(), "too many paths")
		}
		n := 0
		for _, path := range paths {
			idle := false
			for _, l := range path.Lits {
				if _, set, ok := bitTest(l.Lit, eventsF); ok && !set {
					idle = true
				}
			}
			if idle || path.Panics {
				continue
			}
			n++
			var st *ssa.Call
			nDel := 0
			for _, in := range path.Instrs() {
				if isCallTo(in, settime) {
					st, _ = in.(*ssa.Call)
				}
				if isCallTo(in, delI) {
					nDel++
				}
			}
			okDisarm := st != nil && zeroSpecArg(st)
			settimeFailed := false
			if st != nil {
				for _, l := range path.Lits {
					if x, eq, ok := l.nilTest(); ok && !eq && resolveCell(path.eval(x, l.At)) == ssa.Value(st) {
						settimeFailed = true
					}
				}
			}
			ret := path.Ret()
			c.check(okDisarm && (nDel == 1 || settimeFailed), itUnset, "interest set path", exitPos(ret), "disarms the timerfd with a zero spec and removes the poller interest", "with the interest set, Unset returns without disarming the timerfd (zero ItimerSpec) and removing the poller interest: a cancelled timer can still fire")
		}
		if n == 0 {
			c.bad(itUnset, "interest set path", itUnset.Pos(), "Unset has no path for a registered timer")
		}
		// one-shot spec in Set
		intervalF := p.extPkg("golang.org/x/sys/unix").Scope().Lookup("ItimerSpec").Type().Underlying().(*types.Struct)
		var ivar *types.Var
		for i := 0; i < intervalF.NumFields(); i++ {
			if intervalF.Field(i).Name() == "Interval" {
				ivar = intervalF.Field(i)
			}
		}
		nz := false
		for _, a := range fieldAccesses(itSet, ivar) {
			if a.Kind == "store" {
				if !isZeroValue(a.Val) {
					nz = true
				}
			} else if a.Kind == "addr" {
				nz = true
			}
		}
		// stores into sub-fields of Interval
		eachInstr(itSet, func(in ssa.Instruction) {
			if fa, ok := in.(*ssa.FieldAddr); ok {
				if fv, _ := fieldAddrOf(fa.X); fv == ivar {
					nz = true
				}
			}
		})
		c.check(!nz && len(callsTo(itSet, settime)) > 0, itSet, "one-shot spec", itSet.Pos(), "the armed ItimerSpec has a zero Interval", "the timerfd is armed with a non-zero interval: a one-shot timer fires repeatedly")
		// Cancel / Close reach Unset
		for _, fn := range []*ssa.Function{cancel, closeT} {
			reach := false
			eachInstr(fn, func(in ssa.Instruction) {
				if isCallToFn(in, itUnset) {
					reach = true
				}
				if isCallToFn(in, itClose) {
					eachInstr(itClose, func(y ssa.Instruction) {
						if isCallToFn(y, itUnset) {
							reach = true
						}
					})
				}
			})
			c.check(reach, fn, "reaches Unset", fn.Pos(), "disarms through Unset", fn.Name()+" does not disarm the internal timer")
		}
		// a refused schedule changes nothing: ScheduleOnce / ScheduleRepeating write the timer's fields only under
		// state == stateReady (a call on a scheduled or closed timer fails without disturbing the schedule it holds)
		{
			timerT := p.Named("sonic", "Timer")
			for _, fn := range []*ssa.Function{schedOnce, schedRep} {
				n := 0
				var visit func(f *ssa.Function, depth int)
				visit = func(f *ssa.Function, depth int) {
					eachInstr(f, func(in ssa.Instruction) {
						if st, ok := in.(*ssa.Store); ok {
							if fa, ok := st.Addr.(*ssa.FieldAddr); ok {
								if pt, ok := fa.X.Type().(*types.Pointer); ok && types.Identical(pt.Elem(), timerT) {
									n++
									al := allowedStatesCtx(p, in, stateF, 3, 2)
									fv, _ := fieldAddrOf(fa)
									c.check(len(al) == 1 && al[ready], f, "refused schedule", in.Pos(), "timer fields are written only when the timer is ready", fnName(fn)+" writes the timer's field "+fv.Name()+" without having tested state == stateReady: a call that is refused (timer scheduled or closed) has already altered the schedule the timer holds")
								}
							}
						}
						if call, ok := in.(*ssa.Call); ok && depth < 2 {
							if h := call.Call.StaticCallee(); isHelperOf(fn, h) && h != schedOnce && h != schedRep {
								visit(h, depth+1)
							}
						}
					})
				}
				visit(fn, 0)
				_ = n
			}
			// ... and says so: every path of ScheduleOnce on which the timer is not ready returns an error; on the ready
			// path the internal timer is armed (delay > 0) or the callback is run at once
			{
				paths, overflow := enumPaths(schedOnce)
				okErr, nRefused := !overflow, 0
				for _, path := range paths {
					if path.Panics || path.Ret() == nil {
						continue
					}
					refused := false
					for _, l := range path.Lits {
						if k, eq, ok := enumTest(l.Lit, stateF); ok && ((eq && k != ready) || (!eq && k == ready)) {
							refused = true
						}
					}
					if !refused {
						continue
					}
					nRefused++
					ret := path.Ret()
					if path.nilness(ret.Results[len(ret.Results)-1]) != "nonnil" {
						okErr = false
					}
				}
				c.check(okErr && nRefused > 0, schedOnce, "refused schedule reported", schedOnce.Pos(), "a schedule on a timer that is not ready returns an error", "ScheduleOnce can return nil for a timer that is scheduled or closed: the caller believes its callback is due although nothing was armed")
				arms := len(deepCallsTo(schedOnce, itSet)) > 0
				c.check(arms, schedOnce, "arms the timer", schedOnce.Pos(), "the internal timer is set", "ScheduleOnce never arms the internal timer: no scheduled callback ever runs")
				// the user's function is run by the expiry closure and by the immediate path
				cbParam := ssa.Value(schedOnce.Params[len(schedOnce.Params)-1])
				runsCb := func(f *ssa.Function) bool {
					return containsDeep(f, func(in ssa.Instruction) bool {
						call, ok := in.(ssa.CallInstruction)
						if !ok || !isDynamicFuncCall(call) {
							return false
						}
						v := resolveCell(strip(call.Common().Value))
						if v == cbParam {
							return true
						}
						if fv, ok := v.(*ssa.FreeVar); ok && fv.Name() == schedOnce.Params[len(schedOnce.Params)-1].Name() {
							return true
						}
						if u, ok := v.(*ssa.UnOp); ok {
							if fv, ok := u.X.(*ssa.FreeVar); ok && fv.Name() == schedOnce.Params[len(schedOnce.Params)-1].Name() {
								return true
							}
						}
						return false
					}, 2)
				}
				inClosure := false
				for _, cf := range schedOnce.AnonFuncs {
					if runsCb(cf) {
						inClosure = true
					}
				}
				if len(schedOnce.AnonFuncs) == 0 {
					inClosure = true // the expiry is a method (judged by the expiry rules)
				}
				direct := false
				eachInstr(schedOnce, func(in ssa.Instruction) {
					if call, ok := in.(ssa.CallInstruction); ok && isDynamicFuncCall(call) && resolveCell(strip(call.Common().Value)) == cbParam {
						direct = true
					}
				})
				c.check(inClosure && direct, schedOnce, "runs the callback", schedOnce.Pos(), "the callback is run on expiry and at once for a non-positive delay", fmt.Sprintf("ScheduleOnce does not run the user's function (on expiry=%v, at once for delay <= 0=%v): a scheduled callback never runs", inClosure, direct))
			}
		}
		// a repeating schedule has a positive interval: with zero, ScheduleOnce runs the wrapper at once, which schedules
		// itself again at once - unbounded recursion instead of "at least one interval apart"
		{
			okPos, nDirect := true, 0
			for _, call := range callsToFn(schedRep, schedOnce) {
				nDirect++
				pos := false
				for _, l := range guardsOf(call.(ssa.Instruction).Block()) {
					op, x, y, ok := l.cmp()
					if !ok {
						continue
					}
					if _, isPrm := stripConv(resolveCell(x)).(*ssa.Parameter); isPrm && ((op == token.GTR && isConstInt(y, 0)) || (op == token.GEQ && isConstInt(y, 1))) {
						pos = true
					}
				}
				if !pos {
					okPos = false
				}
			}
			// ... and the timerfd is armed only with a positive delay (a zero it_value disarms it: the callback would never run)
			okArm, nArm := true, 0
			for _, dc := range deepCallsTo(schedOnce, itSet) {
				nArm++
				pos := false
				for _, l := range guardsOf(dc.Site.Block()) {
					op, x, y, ok := l.cmp()
					if !ok {
						continue
					}
					if _, isPrm := stripConv(resolveCell(x)).(*ssa.Parameter); isPrm && ((op == token.GTR && isConstInt(y, 0)) || (op == token.GEQ && isConstInt(y, 1))) {
						pos = true
					}
				}
				if !pos {
					okArm = false
				}
			}
			c.check(okArm && nArm > 0, schedOnce, "positive delay armed", schedOnce.Pos(), "the internal timer is set only for a delay > 0", "ScheduleOnce arms the timerfd with a delay that may be zero: timerfd_settime with a zero value disarms the timer, the state says scheduled and the callback never runs")
			c.check(okPos && nDirect > 0, schedRep, "positive interval", schedRep.Pos(), "the repeating schedule is started only for an interval > 0", "ScheduleRepeating accepts an interval that is not strictly positive: with 0 the wrapper runs at once and re-schedules itself at once, recursing until the stack is exhausted")
		}
		// Cancel: stateReady is recorded exactly when Unset succeeded (a failed Unset leaves the timerfd armed: the timer
		// is still scheduled; a successful one leaves nothing due: Scheduled() must say so and a new schedule be accepted)
		{
			var unsetCalls []ssa.Value
			eachInstr(cancel, func(in ssa.Instruction) {
				if isCallToFn(in, itUnset) {
					unsetCalls = append(unsetCalls, in.(ssa.Value))
				}
			})
			isReadyStore := func(x ssa.Instruction) bool {
				st, ok := x.(*ssa.Store)
				if !ok {
					return false
				}
				fv, _ := fieldAddrOf(st.Addr)
				return fv == stateF && isConstInt(st.Val, ready)
			}
			for _, a := range storesDeep(cancel, stateF) {
				if k, ok := constInt(a.Val); !ok || k != ready {
					continue
				}
				g := false
				for _, uc := range unsetCalls {
					if guardedNil(a.Instr.Block(), uc) {
						g = true
					}
				}
				c.check(g, cancel, "state=ready", a.Instr.Pos(), "stored on the success edge of Unset", "Cancel records stateReady although disarming may have failed: the timerfd is still armed, Scheduled() denies the callback that will run and a second schedule is accepted on top of it")
			}
			paths, overflow := enumPaths(cancel)
			if overflow {
				c.unproven(cancel, "paths", cancel.Pos(), "too many paths")
			}
			nOK := 0
			for _, path := range paths {
				if path.Panics {
					continue
				}
				var uc ssa.Value
				recorded := false
				for _, in := range path.Instrs() {
					if isCallToFn(in, itUnset) {
						uc = in.(ssa.Value)
					}
					if doesDeep(in, isReadyStore) {
						recorded = true
					}
				}
				if uc == nil {
					continue
				}
				failed := false
				for _, l := range path.Lits {
					if x, eq, ok := l.nilTest(); ok && !eq {
						for _, leaf := range phiLeaves(resolveCell(path.eval(x, l.At))) {
							if resolveCell(leaf) == uc {
								failed = true
							}
						}
					}
				}
				if failed {
					continue
				}
				nOK++
				c.check(recorded, cancel, "cancel bookkeeping", exitPos(path.Ret()), "a successful Unset is followed by state = stateReady", "Cancel disarms the timer but leaves it scheduled: Scheduled() reports a callback that will never run and every later ScheduleOnce is refused")
			}
			if nOK == 0 {
				c.bad(cancel, "cancel bookkeeping", cancel.Pos(), "Cancel has no path on which Unset succeeds")
			}
		}
		// Close: every path of a not yet closed timer records stateClosed
		{
			isClosedStore := func(x ssa.Instruction) bool {
				st, ok := x.(*ssa.Store)
				if !ok {
					return false
				}
				fv, _ := fieldAddrOf(st.Addr)
				return fv == stateF && isConstInt(st.Val, closedK)
			}
			paths, overflow := enumPaths(closeT)
			if overflow {
				c.unproven(closeT, "paths", closeT.Pos(), "too many paths")
			}
			n := 0
			for _, path := range paths {
				if path.Panics {
					continue
				}
				already := false
				for _, l := range path.Lits {
					if k, eq, ok := enumTest(l.Lit, stateF); ok && eq && k == closedK {
						already = true
					}
				}
				if already {
					continue
				}
				n++
				recorded := false
				for _, in := range path.Instrs() {
					if doesDeep(in, isClosedStore) {
						recorded = true
					}
				}
				c.check(recorded, closeT, "close bookkeeping", exitPos(path.Ret()), "Close records stateClosed", "Close returns without recording stateClosed: the timer can be scheduled again on a descriptor it no longer owns")
			}
			if n == 0 {
				c.bad(closeT, "close bookkeeping", closeT.Pos(), "Close has no path for an open timer")
			}
		}
		// Scheduled()
		sf := p.Method("sonic", "Timer", "Scheduled")
		good := false
		for _, r := range returnsOf(sf) {
			// the comparison itself, or a named predicate (t.inState(stateScheduled)): read it as a literal
			if k, eq, ok := enumTest(Lit{Cond: strip(r.Results[0]), Pos: true}, stateF); ok && eq && k == scheduled {
				good = true
			}
		}
		c.check(good, sf, "Scheduled", sf.Pos(), "reports state == stateScheduled", "Scheduled() does not report state == stateScheduled")
	}

	// who may disarm: only Cancel and Close reach the internal timer's Unset / Close. Anything else that disarms (the
	// repeating wrapper "cleaning up" after a refused re-arm, say) cancels a schedule the user's callback has just made
	{
		itUnsetI := p.IfaceMethod("internal", "ITimer", "Unset")
		itCloseI := p.IfaceMethod("internal", "ITimer", "Close")
		for _, fn := range timerFuncs {
			top := fn
			for top.Parent() != nil {
				top = top.Parent()
			}
			eachInstr(fn, func(in ssa.Instruction) {
				if !(isCallToFn(in, itUnset, itClose) || isCallTo(in, itUnsetI, itCloseI)) {
					return
				}
				okCaller := top == cancel || top == closeT || allCallersSatisfy(p, top, 2, func(c2 *ssa.Function) bool { return c2 == cancel || c2 == closeT })
				c.check(okCaller, fn, "disarm", in.Pos(), "the timer is disarmed by Cancel / Close only", "the internal timer is disarmed outside Cancel and Close: a schedule made by the user's callback (the reason a re-arm was refused) is silently cancelled, while Scheduled() still reports it")
			})
		}
	}

	// ------------------------------------------------------------------------------------------------ R4
	c.rule("C04-R4", "repetition: re-arm only under !cancelled and after the user callback; Cancel sets the flag on success; ScheduleOnce clears it where a schedule begins; the immediate callback needs a ready timer", 6)
	{
		// the repeating wrapper: the closure (of ScheduleRepeating or of a helper it uses) that re-arms through ScheduleOnce
		var rep *ssa.Function
		for _, fn := range timerFuncs {
			if fn.Parent() == nil && (fn == schedRep || fn == schedOnce || fn.Object() == nil || fn.Object().Exported()) {
				continue // a closure, or an unexported method the timer installs as its own tick
			}
			if len(callsToFn(fn, schedOnce)) > 0 && len(fieldAccesses(fn, cancelledF)) > 0 {
				rep = fn
			}
		}
		if rep == nil {
			for _, a := range schedRep.AnonFuncs {
				rep = a
			}
		}
		if rep == nil {
			infra("anchor: repeating closure of ScheduleRepeating not found")
		}
		c.touch(rep)
		n := 0
		eachInstr(rep, func(in ssa.Instruction) {
			if !isCallToFn(in, schedOnce) {
				return
			}
			n++
			notCancelled := false
			for _, l := range guardsOf(in.Block()) {
				if loadOfField(l.Cond, cancelledF) && !l.Pos {
					notCancelled = true
				}
			}
			c.check(notCancelled, rep, "re-arm guard", in.Pos(), "re-armed only when the callback did not cancel", "the repeating closure re-arms the timer even when its own callback cancelled it")
			userFirst := false
			eachInstr(rep, func(x ssa.Instruction) {
				if cc, ok := x.(ssa.CallInstruction); ok && isDynamicFuncCall(cc) && dominatesInstr(x, in) {
					userFirst = true
				}
			})
			c.check(userFirst, rep, "re-arm order", in.Pos(), "the user callback runs before the re-arm", "the timer is re-armed before the user callback runs (a Cancel from the callback would then be overridden)")
		})
		if n == 0 {
			c.bad(rep, "re-arm", rep.Pos(), "the repeating closure never re-arms")
		}
		setOnSuccess := false
		for _, a := range deepStoresTo(cancel, cancelledF) {
			if isConstBool(a.Store.Val, true) {
				for _, call := range callsToFn(cancel, itUnset) {
					// on every successful cancellation of a live timer: whatever state it is in (a repeating timer that
					// cancels itself from its own callback is stateReady at that moment)
					al := allowedStates(a.Site.Block(), stateF, 3)
					if guardedNil(a.Site.Block(), call.(ssa.Value)) && al[ready] && al[scheduled] {
						setOnSuccess = true
					}
				}
			}
		}
		c.check(setOnSuccess, cancel, "cancelled=true", cancel.Pos(), "Cancel flags the repeating closure on its success path", "Cancel does not set the cancelled flag on success: a repeating timer cancelled from its own callback re-arms itself")
		cleared := false
		for _, a := range deepStoresTo(schedOnce, cancelledF) {
			if isConstBool(a.Store.Val, false) {
				cleared = true
			}
		}
		c.check(cleared, schedOnce, "cancelled=false", schedOnce.Pos(), "ScheduleOnce clears the flag", "ScheduleOnce does not clear the cancelled flag: a timer cancelled earlier and scheduled again stops repeating after one shot")
		// who may clear the flag: ScheduleOnce (where a schedule begins, checked below) and the repeating wrapper when it
		// consumes a cancellation (under `if cancelled`). A clear anywhere else - e.g. at the top of ScheduleRepeating, before
		// its argument is validated - loses a Cancel issued from inside the repeating callback.
		for _, fn := range timerFuncs {
			for _, a := range storesTo(fn, cancelledF) {
				if !isConstBool(a.Val, false) {
					continue
				}
				top := fn
				for top.Parent() != nil {
					top = top.Parent()
				}
				okSite := top == schedOnce || allCallersSatisfy(p, top, 2, func(c2 *ssa.Function) bool { return c2 == schedOnce })
				if fn == rep {
					for _, l := range guardsOf(a.Instr.Block()) {
						if loadOfField(l.Cond, cancelledF) && l.Pos {
							okSite = true
						}
					}
				}
				if isFreshAllocStore(a.Instr.(*ssa.Store)) {
					okSite = true
				}
				c.check(okSite, fn, "clears cancelled", a.Instr.Pos(), "the flag is cleared by ScheduleOnce or by the wrapper consuming it", "the cancelled flag is cleared outside ScheduleOnce and the repeating wrapper's own acknowledgement: a call that is then refused (for example ScheduleRepeating with a non-positive interval, from inside the callback that just cancelled) makes the cancelled repetition re-arm itself")
			}
		}
		// ... but only where a schedule begins: the immediate-callback path (delay <= 0) arms nothing, and clearing the flag
		// there loses a Cancel issued from inside a repeating timer's own callback (the wrapper would re-arm)
		// and the immediate callback runs only on a ready timer (a closed one is not revived, a scheduled one not disturbed)
		{
			paths, overflow := enumPaths(schedOnce)
			if overflow {
				c.unproven(schedOnce, "paths", schedOnce.Pos(), "too many paths")
			}
			lost := ""
			nImm := 0
			for _, path := range paths {
				clears, immediate := false, false
				for _, in := range path.Instrs() {
					if doesDeep(in, func(x ssa.Instruction) bool {
						st, ok := x.(*ssa.Store)
						if !ok {
							return false
						}
						fv, _ := fieldAddrOf(st.Addr)
						return fv == cancelledF && isConstBool(st.Val, false)
					}) {
						clears = true
					}
					if cc, ok := in.(ssa.CallInstruction); ok && isDynamicFuncCall(cc) {
						if _, isPrm := resolveCell(strip(cc.Common().Value)).(*ssa.Parameter); isPrm {
							immediate = true
						}
					}
				}
				if immediate {
					nImm++
				}
				if immediate && clears {
					lost = path.String()
				}
			}
			c.check(lost == "", schedOnce, "immediate path keeps the flag", schedOnce.Pos(), "the flag is cleared only on paths that arm the timer", "the path that runs the callback at once (non-positive delay) clears the cancelled flag although it arms nothing ("+lost+"): a repeating timer whose callback cancels it and then schedules an immediate callback re-arms itself and keeps repeating")
			eachInstr(schedOnce, func(in ssa.Instruction) {
				cc, ok := in.(ssa.CallInstruction)
				if !ok || !isDynamicFuncCall(cc) {
					return
				}
				if _, isPrm := resolveCell(strip(cc.Common().Value)).(*ssa.Parameter); !isPrm {
					return
				}
				al := allowedStates(in.Block(), stateF, 3)
				c.check(len(al) == 1 && al[ready], schedOnce, "immediate callback", in.Pos(), "the callback is run at once only when state == stateReady", "ScheduleOnce runs the callback at once without having established state == stateReady: a closed timer is revived (its callback runs and nil is returned) or an existing schedule is bypassed")
			})
		}
	}
}

// guardedNil: block b is only entered when value v (an error) was nil.
func guardedNil(b *ssa.BasicBlock, v ssa.Value) bool {
	for _, l := range guardsOf(b) {
		if x, eq, ok := l.nilTest(); ok && eq {
			for _, leaf := range phiLeaves(resolveCell(x)) {
				if resolveCell(leaf) == v {
					return true
				}
			}
		}
	}
	return false
}

// zeroSpecArg: the third argument of TimerfdSettime is a freshly allocated ItimerSpec with no field stored.
func zeroSpecArg(call *ssa.Call) bool {
	if len(call.Call.Args) < 3 {
		return false
	}
	a, ok := call.Call.Args[2].(*ssa.Alloc)
	if !ok {
		return false
	}
	refs := a.Referrers()
	if refs == nil {
		return true
	}
	for _, r := range *refs {
		switch x := r.(type) {
		case *ssa.FieldAddr:
			if frefs := x.Referrers(); frefs != nil {
				for _, fr := range *frefs {
					if st, ok := fr.(*ssa.Store); ok && !isZeroValue(st.Val) {
						return false
					}
					if _, ok := fr.(*ssa.FieldAddr); ok {
						return false
					}
				}
			}
		case *ssa.Store:
			if x.Addr == ssa.Value(a) && !isZeroValue(x.Val) {
				return false
			}
		}
	}
	return true
}

func isZeroValue(v ssa.Value) bool {
	c, ok := strip(v).(*ssa.Const)
	if !ok {
		return false
	}
	if c.Value == nil {
		return true // zero value of aggregate / nil
	}
	if k, ok := constInt(c); ok {
		return k == 0
	}
	return false
}

// allowedStatesCtx: the states possible at instruction `at`, taking into account - when `at` lies in an unexported
// helper - the guards at every call site of that helper (union over call sites, intersected with the local guards).
func allowedStatesCtx(p *Prog, at ssa.Instruction, f *types.Var, n int, depth int) map[int64]bool {
	local := allowedStates(at.Block(), f, n)
	fn := at.Parent()
	if depth == 0 || fn.Parent() != nil || fn.Object() == nil || fn.Object().Exported() {
		return local
	}
	sites := p.callers(fn)
	if len(sites) == 0 {
		return local
	}
	ctx := map[int64]bool{}
	for _, s := range sites {
		for k := range allowedStatesCtx(p, s.(ssa.Instruction), f, n, depth-1) {
			ctx[k] = true
		}
	}
	for k := range local {
		if !ctx[k] {
			delete(local, k)
		}
	}
	return local
}
