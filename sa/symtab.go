package main

// Rename tolerance. The rules name their anchors (functions, methods, fields, types, constants) as they are spelled on
// the pinned tree. A behaviour-preserving rename of an unexported identifier must not turn into an unresolved anchor,
// so the identifiers of the pinned tree are frozen in symtab.json (`sonicsa symtab -write`, embedded into the binary)
// and compared with the tree under analysis: a pinned identifier that is gone and a new identifier of the same kind,
// in the same container, with the same signature / type / value are taken to be the same object under a new name. The
// anchor look-ups, recvTypeName and fnName then speak in pinned names. Anything ambiguous is left unresolved (the
// look-up fails as before: an infrastructure failure, never a silent pass).

import (
	_ "embed"
	"encoding/json"
	"fmt"
	"go/types"
	"os"
	"regexp"
	"sort"
	"strings"
	"sync"

	"golang.org/x/tools/go/packages"
	"golang.org/x/tools/go/ssa"
)

//go:embed symtab.json
var pinnedSymtabJSON []byte

type symEntry struct {
	Kind      string   `json:"kind"`      // func | type | const | var | field | method
	Pkg       string   `json:"pkg"`       // package path
	Container string   `json:"container"` // type name for field / method
	Name      string   `json:"name"`
	Sig       string   `json:"sig"`              // type / signature / constant value
	Index     int      `json:"index"`            // field index, else 0
	Params    []string `json:"params,omitempty"` // func / method: receiver and parameter names in order
}

func (s symEntry) key() string { return s.Kind + "|" + s.Pkg + "|" + s.Container + "|" + s.Name }

func collectSymbols(pkgs map[string]*packages.Package) []symEntry {
	var out []symEntry
	for _, pk := range pkgs {
		qual := func(p *types.Package) string { return p.Name() }
		sc := pk.Types.Scope()
		for _, name := range sc.Names() {
			obj := sc.Lookup(name)
			switch o := obj.(type) {
			case *types.Func:
				out = append(out, symEntry{Kind: "func", Pkg: pk.PkgPath, Name: name, Sig: types.TypeString(o.Type(), qual), Params: paramNames(o)})
			case *types.Const:
				out = append(out, symEntry{Kind: "const", Pkg: pk.PkgPath, Name: name, Sig: types.TypeString(o.Type(), qual) + "=" + o.Val().ExactString()})
			case *types.Var:
				out = append(out, symEntry{Kind: "var", Pkg: pk.PkgPath, Name: name, Sig: types.TypeString(o.Type(), qual)})
			case *types.TypeName:
				if o.IsAlias() {
					continue
				}
				nt, ok := o.Type().(*types.Named)
				if !ok {
					continue
				}
				// shape of the type: kind of the underlying type, member names
				var members []string
				if st, ok := nt.Underlying().(*types.Struct); ok {
					for i := 0; i < st.NumFields(); i++ {
						f := st.Field(i)
						members = append(members, "f:"+f.Name())
						out = append(out, symEntry{Kind: "field", Pkg: pk.PkgPath, Container: name, Name: f.Name(), Sig: types.TypeString(f.Type(), qual), Index: i})
					}
				}
				for i := 0; i < nt.NumMethods(); i++ {
					m := nt.Method(i)
					members = append(members, "m:"+m.Name())
					sig := m.Type().(*types.Signature)
					ms := types.TypeString(types.NewSignatureType(nil, nil, nil, sig.Params(), sig.Results(), sig.Variadic()), qual)
					out = append(out, symEntry{Kind: "method", Pkg: pk.PkgPath, Container: name, Name: m.Name(), Sig: ms, Params: paramNames(m)})
				}
				sort.Strings(members)
				out = append(out, symEntry{Kind: "type", Pkg: pk.PkgPath, Name: name, Sig: fmt.Sprintf("%T|%s", nt.Underlying(), strings.Join(members, ","))})
			}
		}
	}
	sort.Slice(out, func(i, j int) bool { return out[i].key() < out[j].key() })
	return out
}

// aliasTable maps pinned names to the names they carry in the tree under analysis (and back).
type aliasTable struct {
	fwd map[string]string // pinned key -> current name
	rev map[string]string // current key -> pinned name
	log []string
}

func (a *aliasTable) current(kind, pkg, container, name string) string {
	if a == nil {
		return name
	}
	if n, ok := a.fwd[kind+"|"+pkg+"|"+container+"|"+name]; ok {
		return n
	}
	return name
}

func (a *aliasTable) pinned(kind, pkg, container, name string) string {
	if a == nil {
		return name
	}
	if n, ok := a.rev[kind+"|"+pkg+"|"+container+"|"+name]; ok {
		return n
	}
	return name
}

func wordReplace(s string, names map[string]bool) string {
	if len(names) == 0 {
		return s
	}
	var alts []string
	for n := range names {
		alts = append(alts, regexp.QuoteMeta(n))
	}
	sort.Strings(alts)
	re := regexp.MustCompile(`\b(` + strings.Join(alts, "|") + `)\b`)
	return re.ReplaceAllString(s, "§")
}

// resolveRenames compares the pinned symbol table with the symbols of the loaded program.
func resolveRenames(pinned, cur []symEntry) *aliasTable {
	a := &aliasTable{fwd: map[string]string{}, rev: map[string]string{}}
	curKeys, pinKeys := map[string]bool{}, map[string]bool{}
	for _, s := range cur {
		curKeys[s.key()] = true
	}
	for _, s := range pinned {
		pinKeys[s.key()] = true
	}
	var missing, fresh []symEntry
	for _, s := range pinned {
		if !curKeys[s.key()] {
			missing = append(missing, s)
		}
	}
	for _, s := range cur {
		if !pinKeys[s.key()] {
			fresh = append(fresh, s)
		}
	}
	if len(missing) == 0 {
		return a
	}
	// 1. types (their members are reported missing / new as well: resolved in step 2 through the container mapping)
	typeFwd := map[string]string{} // pkg|old -> new
	typeRev := map[string]string{}
	renamedTypeNames := map[string]bool{}
	for _, m := range missing {
		if m.Kind != "type" {
			continue
		}
		var cands []symEntry
		for _, f := range fresh {
			if f.Kind == "type" && f.Pkg == m.Pkg && f.Sig == m.Sig {
				cands = append(cands, f)
			}
		}
		if len(cands) == 1 {
			typeFwd[m.Pkg+"|"+m.Name] = cands[0].Name
			typeRev[m.Pkg+"|"+cands[0].Name] = m.Name
			renamedTypeNames[m.Name], renamedTypeNames[cands[0].Name] = true, true
			a.fwd[m.key()] = cands[0].Name
			a.rev[cands[0].key()] = m.Name
			a.log = append(a.log, fmt.Sprintf("type %s.%s is now %s", m.Pkg, m.Name, cands[0].Name))
		}
	}
	norm := func(sig string) string { return wordReplace(sig, renamedTypeNames) }
	curContainer := func(s symEntry) string {
		if n, ok := typeFwd[s.Pkg+"|"+s.Container]; ok {
			return n
		}
		return s.Container
	}
	// 2. everything else
	used := map[string]bool{}
	for _, m := range missing {
		if m.Kind == "type" {
			continue
		}
		cc := curContainer(m)
		if cc != m.Container {
			// member of a renamed type: present under the same member name?
			same := symEntry{Kind: m.Kind, Pkg: m.Pkg, Container: cc, Name: m.Name}
			if curKeys[same.key()] {
				continue // only the container changed; look-ups translate the container
			}
		}
		var cands []symEntry
		for _, f := range fresh {
			if f.Kind != m.Kind || f.Pkg != m.Pkg || f.Container != cc || used[f.key()] {
				continue
			}
			if f.Container != "" && typeRev[f.Pkg+"|"+f.Container] == "" && f.Container != m.Container {
				continue
			}
			if norm(f.Sig) != norm(m.Sig) {
				continue
			}
			// a member of a renamed type that kept its name is not a rename candidate
			if cc != m.Container && pinKeys[symEntry{Kind: f.Kind, Pkg: f.Pkg, Container: m.Container, Name: f.Name}.key()] {
				continue
			}
			cands = append(cands, f)
		}
		if len(cands) > 1 && m.Kind == "field" {
			var byIndex []symEntry
			for _, f := range cands {
				if f.Index == m.Index {
					byIndex = append(byIndex, f)
				}
			}
			cands = byIndex
		}
		if len(cands) == 1 {
			used[cands[0].key()] = true
			a.fwd[m.key()] = cands[0].Name
			a.rev[symEntry{Kind: m.Kind, Pkg: m.Pkg, Container: m.Container, Name: cands[0].Name}.key()] = m.Name
			where := m.Pkg
			if m.Container != "" {
				where += "." + m.Container
			}
			a.log = append(a.log, fmt.Sprintf("%s %s.%s is now %s", m.Kind, where, m.Name, cands[0].Name))
		}
	}
	sort.Strings(a.log)
	return a
}

func loadPinnedSymtab() []symEntry {
	var out []symEntry
	if len(pinnedSymtabJSON) == 0 {
		return nil
	}
	if err := json.Unmarshal(pinnedSymtabJSON, &out); err != nil {
		return nil
	}
	return out
}

// cmdSymtab: sonicsa symtab -repo /repo -write sa/symtab.json : freezes the identifiers of the tree.
func cmdSymtab(args []string) int {
	repo, out := "/repo", ""
	for i := 0; i < len(args); i++ {
		switch args[i] {
		case "-repo":
			i++
			repo = args[i]
		case "-write":
			i++
			out = args[i]
		}
	}
	p, err := Load(repo, "amd64", nil)
	if err != nil {
		fmt.Println("INFRASTRUCTURE-FAILURE", err)
		return 2
	}
	syms := collectSymbols(p.Pkgs)
	data, _ := json.MarshalIndent(syms, "", " ")
	if out == "" {
		fmt.Println(string(data))
		return 0
	}
	if err := os.WriteFile(out, append(data, '\n'), 0o644); err != nil {
		fmt.Println("INFRASTRUCTURE-FAILURE", err)
		return 2
	}
	fmt.Printf("%d symbols written to %s\n", len(syms), out)
	return 0
}

func paramNames(f *types.Func) []string {
	sig := f.Type().(*types.Signature)
	var out []string
	if sig.Recv() != nil {
		out = append(out, sig.Recv().Name())
	}
	for i := 0; i < sig.Params().Len(); i++ {
		out = append(out, sig.Params().At(i).Name())
	}
	return out
}

var (
	pinnedParamsOnce sync.Once
	pinnedParams     map[string][]string
)

// pinParamName: the name a parameter (or receiver) of a package-level function / method carries on the pinned tree.
func pinParamName(prm *ssa.Parameter) string {
	fn := prm.Parent()
	if fn == nil || fn.Parent() != nil {
		return prm.Name()
	}
	pinnedParamsOnce.Do(func() {
		pinnedParams = map[string][]string{}
		for _, e := range loadPinnedSymtab() {
			if e.Kind == "func" || e.Kind == "method" {
				pinnedParams[e.key()] = e.Params
			}
		}
	})
	pk := fnTypesPkg(fn)
	if pk == nil {
		return prm.Name()
	}
	root := fn
	if o := fn.Origin(); o != nil {
		root = o
	}
	key := "func|" + pk.Path() + "||" + pinName(root)
	if _, tn := recvTypeName(root); tn != "" {
		key = "method|" + pk.Path() + "|" + tn + "|" + pinName(root)
	}
	names, ok := pinnedParams[key]
	if !ok || len(names) != len(fn.Params) {
		return prm.Name()
	}
	for i, q := range fn.Params {
		if q == prm && names[i] != "" && names[i] != "_" {
			return names[i]
		}
	}
	return prm.Name()
}

var (
	pinnedFuncsOnce sync.Once
	pinnedFuncs     map[string]bool
)

// knownOnPinnedTree: the function or method exists on the pinned tree (possibly under another name).
func knownOnPinnedTree(fn *ssa.Function) bool {
	pinnedFuncsOnce.Do(func() {
		pinnedFuncs = map[string]bool{}
		for _, e := range loadPinnedSymtab() {
			if e.Kind == "func" || e.Kind == "method" {
				pinnedFuncs[e.key()] = true
			}
		}
	})
	if len(pinnedFuncs) == 0 {
		return true
	}
	root := fn
	for root.Parent() != nil {
		root = root.Parent()
	}
	if o := root.Origin(); o != nil {
		root = o
	}
	pk := fnTypesPkg(root)
	if pk == nil {
		return true
	}
	key := "func|" + pk.Path() + "||" + pinName(root)
	if _, tn := recvTypeName(root); tn != "" {
		key = "method|" + pk.Path() + "|" + tn + "|" + pinName(root)
	}
	return pinnedFuncs[key]
}
