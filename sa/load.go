package main

import (
	"fmt"
	"go/token"
	"go/types"
	"os"
	"sort"
	"strings"
	"sync"

	"golang.org/x/tools/go/packages"
	"golang.org/x/tools/go/ssa"
	"golang.org/x/tools/go/ssa/ssautil"
)

const modPath = "github.com/talostrading/sonic"

// The analysed program: the ten library packages of sonic (DESIGN section 2).
var scopePatterns = []string{
	".", "./internal", "./bytes", "./codec/frame", "./codec/websocket", "./multicast",
	"./net/ipv4", "./util", "./sonicerrors", "./sonicopts",
}

var scopePkgPaths = []string{
	modPath, modPath + "/internal", modPath + "/bytes", modPath + "/codec/frame", modPath + "/codec/websocket",
	modPath + "/multicast", modPath + "/net/ipv4", modPath + "/util", modPath + "/sonicerrors", modPath + "/sonicopts",
}

type infraError struct{ msg string }

func (e infraError) Error() string { return e.msg }

func infra(format string, args ...any) {
	panic(infraError{fmt.Sprintf(format, args...)})
}

// Prog is the loaded, type-checked program lowered to SSA.
type Prog struct {
	RepoDir string
	GOARCH  string
	Fset    *token.FileSet
	Pkgs    map[string]*packages.Package
	SSA     *ssa.Program
	SSAPkgs map[string]*ssa.Package
	// Funcs holds every function with a body that belongs to an in-scope package, including anonymous functions
	// and instantiations, sorted by position.
	Funcs []*ssa.Function

	nFiles   int
	nCanon   int         // operand pairs reordered by canonicaliseOperands
	alias    *aliasTable // pinned identifier -> identifier in this tree (renamed unexported objects)
	expanded []string    // call sites of new single-expression helpers that were expanded before the build
}

func goEnv(goarch string) []string {
	goos := "linux"
	if i := strings.IndexByte(goarch, '/'); i >= 0 {
		goos, goarch = goarch[:i], goarch[i+1:]
	}
	env := []string{}
	for _, kv := range os.Environ() {
		k := kv
		if i := strings.IndexByte(kv, '='); i >= 0 {
			k = kv[:i]
		}
		switch k {
		case "GOFLAGS", "GOWORK", "GOPROXY", "GOTOOLCHAIN", "GOARCH", "GOOS", "GOSUMDB", "CGO_ENABLED":
			continue
		}
		env = append(env, kv)
	}
	env = append(env, "GOFLAGS=-mod=mod", "GOWORK=off", "GOPROXY=off", "GOTOOLCHAIN=local", "GOOS="+goos,
		"GOARCH="+goarch, "CGO_ENABLED=0")
	// go/packages runs `go list` from PATH: make sure it is the pinned toolchain.
	for i, kv := range env {
		if strings.HasPrefix(kv, "PATH=") {
			env[i] = "PATH=/opt/veriftools/go1.26.8/bin:" + kv[5:]
		}
	}
	return env
}

// Load loads the ten packages from repoDir's working tree. overlay maps absolute file names to replacement
// contents (used for self-validation variants only).
func Load(repoDir, goarch string, overlay map[string][]byte) (p *Prog, err error) {
	resetClassifierMemo()
	return loadRound(repoDir, goarch, overlay, 0, nil)
}

func loadRound(repoDir, goarch string, overlay map[string][]byte, round int, expanded []string) (p *Prog, err error) {
	defer func() {
		if r := recover(); r != nil {
			if ie, ok := r.(infraError); ok {
				err = ie
				return
			}
			panic(r)
		}
	}()
	cfg := &packages.Config{
		Mode:    packages.LoadAllSyntax,
		Dir:     repoDir,
		Env:     goEnv(goarch),
		Tests:   false,
		Overlay: overlay,
	}
	pkgs, err := packages.Load(cfg, scopePatterns...)
	if err != nil {
		return nil, infraError{"packages.Load: " + err.Error()}
	}
	p = &Prog{RepoDir: repoDir, GOARCH: goarch, Pkgs: map[string]*packages.Package{}, SSAPkgs: map[string]*ssa.Package{}}
	var errs []string
	packages.Visit(pkgs, nil, func(pkg *packages.Package) {
		for _, e := range pkg.Errors {
			errs = append(errs, e.Error())
		}
	})
	if len(errs) > 0 {
		return nil, infraError{"load/type-check errors: " + strings.Join(errs, "; ")}
	}
	for _, pkg := range pkgs {
		p.Pkgs[pkg.PkgPath] = pkg
		p.Fset = pkg.Fset
		p.nFiles += len(pkg.Syntax)
	}
	for _, want := range scopePkgPaths {
		if p.Pkgs[want] == nil {
			return nil, infraError{"package not loaded: " + want}
		}
	}
	if len(p.Pkgs) != len(scopePkgPaths) {
		return nil, infraError{fmt.Sprintf("expected %d packages, loaded %d", len(scopePkgPaths), len(p.Pkgs))}
	}
	if os.Getenv("SONICSA_NOALIAS") == "" {
		if pinned := loadPinnedSymtab(); pinned != nil {
			p.alias = resolveRenames(pinned, collectSymbols(p.Pkgs))
			// new single-expression helpers are expanded at their call sites (normalize.go); at most three rounds
			if round < 5 && os.Getenv("SONICSA_NONORMALISE") == "" {
				extra, log := normaliseSources(pkgs, p.alias, pinned, overlay)
				if extra == nil {
					// no expression-level helper left: straight-line helpers called as statements (normalize_stmt.go)
					extra, log = normaliseStatements(pkgs, p.alias, pinned, overlay)
				}
				if extra != nil {
					merged := map[string][]byte{}
					for k, v := range overlay {
						merged[k] = v
					}
					for k, v := range extra {
						merged[k] = v
					}
					if q, err2 := loadRound(repoDir, goarch, merged, round+1, append(expanded, log...)); err2 == nil {
						return q, nil
					}
					// the expansion does not type-check (an implicit conversion went missing, say): analyse the tree as it is
				}
			}
			p.expanded = expanded
			if os.Getenv("SONICSA_SHOWEXPANDED") != "" {
				for _, l := range expanded {
					fmt.Fprintln(os.Stderr, "expanded:", l)
				}
			}
			for _, pkg := range p.Pkgs {
				aliasByPkg.Store(pkg.Types, p.alias)
				sc := pkg.Types.Scope()
				for _, name := range sc.Names() {
					if tn, ok := sc.Lookup(name).(*types.TypeName); ok {
						if st, ok := tn.Type().Underlying().(*types.Struct); ok {
							for i := 0; i < st.NumFields(); i++ {
								fieldOwner.Store(st.Field(i), [2]string{pkg.PkgPath, name})
							}
						}
					}
				}
			}
		}
	}
	prog, ssaPkgs := ssautil.AllPackages(pkgs, ssa.InstantiateGenerics)
	prog.Build()
	p.SSA = prog
	for i, sp := range ssaPkgs {
		if sp == nil {
			return nil, infraError{"no SSA for " + pkgs[i].PkgPath}
		}
		p.SSAPkgs[pkgs[i].PkgPath] = sp
	}
	inScope := map[*types.Package]bool{}
	for _, pkg := range p.Pkgs {
		inScope[pkg.Types] = true
	}
	for fn := range ssautil.AllFunctions(prog) {
		if fn.Blocks == nil {
			continue
		}
		pk := fnTypesPkg(fn)
		if pk == nil || !inScope[pk] {
			continue
		}
		if fn.Synthetic != "" && !strings.Contains(fn.Synthetic, "instance of") {
			// wrappers, bound method thunks, package initialisers
			if !strings.HasPrefix(fn.Synthetic, "package initializer") {
				continue
			}
		}
		p.Funcs = append(p.Funcs, fn)
	}
	// the recover block go/ssa adds to every function with a defer is dead unless some deferred function calls recover()
	moduleUsesRecover = false
	for _, fn := range p.Funcs {
		for _, b := range fn.Blocks {
			for _, in := range b.Instrs {
				if call, ok := in.(ssa.CallInstruction); ok {
					if bi, ok := call.Common().Value.(*ssa.Builtin); ok && bi.Name() == "recover" {
						moduleUsesRecover = true
					}
				}
			}
		}
	}
	if os.Getenv("SONICSA_NOCANON") == "" {
		for _, fn := range p.Funcs {
			p.nCanon += canonicaliseOperands(fn)
		}
	}
	sort.Slice(p.Funcs, func(i, j int) bool {
		a, b := p.Funcs[i], p.Funcs[j]
		if a.Pos() != b.Pos() {
			return a.Pos() < b.Pos()
		}
		return a.String() < b.String()
	})
	if len(p.Funcs) == 0 {
		return nil, infraError{"no functions loaded"}
	}
	// a helper every call of which was expanded (normalize*.go) is dead code: it is analysed where it was expanded
	if len(p.expanded) > 0 {
		names := map[string]bool{}
		for _, l := range p.expanded {
			if i := strings.LastIndex(l, ": "); i >= 0 {
				names[strings.TrimSuffix(strings.TrimSuffix(l[i+2:], " expanded (statements)"), " expanded")] = true
			}
		}
		used := map[*ssa.Function]bool{}
		for _, fn := range p.Funcs {
			for _, b := range fn.Blocks {
				for _, in := range b.Instrs {
					for _, op := range in.Operands(nil) {
						if f, ok := (*op).(*ssa.Function); ok {
							used[f] = true
						}
					}
				}
			}
		}
		var kept []*ssa.Function
		for _, fn := range p.Funcs {
			root := fn
			for root.Parent() != nil {
				root = root.Parent()
			}
			if names[root.Name()] && !used[root] && root.Object() != nil && !knownOnPinnedTree(root) {
				continue
			}
			kept = append(kept, fn)
		}
		p.Funcs = kept
	}
	return p, nil
}

// fnTypesPkg returns the package a function's source belongs to (following closures and generic origins).
func fnTypesPkg(fn *ssa.Function) *types.Package {
	for f := fn; f != nil; f = f.Parent() {
		if f.Pkg != nil {
			return f.Pkg.Pkg
		}
		if o := f.Origin(); o != nil && o.Pkg != nil {
			return o.Pkg.Pkg
		}
		if obj := f.Object(); obj != nil && obj.Pkg() != nil {
			return obj.Pkg()
		}
	}
	return nil
}

func (p *Prog) pkg(short string) *packages.Package {
	path := modPath
	if short != "" && short != "sonic" {
		path = modPath + "/" + short
	}
	pk := p.Pkgs[path]
	if pk == nil {
		infra("anchor: package %q not loaded", short)
	}
	return pk
}

// Pos renders a position relative to the repository root.
func (p *Prog) Pos(pos token.Pos) string {
	if !pos.IsValid() {
		return "-"
	}
	ps := p.Fset.Position(pos)
	f := strings.TrimPrefix(ps.Filename, p.RepoDir+"/")
	return fmt.Sprintf("%s:%d", f, ps.Line)
}

// moduleUsesRecover: some in-scope function calls recover() (then the synthetic recover blocks are live code).
var moduleUsesRecover bool

// aliasByPkg: *types.Package -> *aliasTable of the program the package was loaded for (recvTypeName and fnName have no Prog).
var aliasByPkg sync.Map

func aliasFor(pk *types.Package) *aliasTable {
	if pk == nil {
		return nil
	}
	if v, ok := aliasByPkg.Load(pk); ok {
		return v.(*aliasTable)
	}
	return nil
}

// fieldOwner: struct field -> (package path, name of the named struct type that declares it).
var fieldOwner sync.Map

// pinFieldName: the name of a struct field as spelled on the pinned tree.
func pinFieldName(f *types.Var) string {
	if f == nil {
		return ""
	}
	o := f.Origin()
	v, ok := fieldOwner.Load(o)
	if !ok {
		return f.Name()
	}
	own := v.([2]string)
	t := aliasFor(f.Pkg())
	if t == nil || len(t.rev) == 0 {
		return f.Name()
	}
	return t.pinned("field", own[0], t.pinned("type", own[0], "", own[1]), f.Name())
}
