package main

import (
	"strings"
	"go/token"
	"go/types"

	"golang.org/x/tools/go/ssa"
)

func init() {
	register(&propertySpec{
		ID:    "C17",
		Title: "WebSocket reads and writes in flight together each complete exactly once",
		Explanation: "Decides: (R1) a single outstanding transport write - the function that starts a transport write for the stream (AsyncFlush -> " +
			"CodecConn.AsyncWriteNext -> ByteBuffer.AsyncWriteTo -> AsyncWriter.AsyncWriteAll, over one write buffer and one write reactor) must either be guarded by an " +
			"in-flight flag (tested false before, stored true before, stored false in the completion) or be started from one entry family only; on the pinned tree it " +
			"is started, unguarded, both by the read family (AsyncNextFrame, to flush control replies) and by the write family (AsyncWrite/AsyncWriteFrame/AsyncClose), so a " +
			"read issued while an application write is in flight (or the reverse) starts a second transport write on the same buffer and write reactor: the continuation of " +
			"one of them is overwritten and lost and bytes already written are written again - recorded as a known finding (D11), keyed by the read family's call site; " +
			"(R2) linear completion - every callback-taking function of Stream, CodecConn and ByteBuffer (AsyncNextFrame/-Message, AsyncWrite/-Frame, AsyncFlush, AsyncClose, " +
			"AsyncHandshake, AsyncReadNext/-WriteNext, AsyncReadFrom/-WriteTo and their helpers/closures) discharges its callback exactly once on every terminating path, " +
			"through all implementations of the transport interfaces; (R3) the completion of a transport write releases the frame and continues the flush only on success; " +
			"(R4) buffer sides - the encode/write paths of the frame codecs and of CodecConn call no ByteBuffer method on the read buffer (a Reserve there moves the storage a parked read writes into), the decode/read paths none on the write buffer. " +
			"Not decided: interleavings relative to poll cycles (schedules).",
		Run: runC17,
	})
	addMutants("C17",
		mutant{"Encode reserves the read buffer", "codec/websocket/frame_codec.go",
			"\tdst.Reserve(frame.PayloadLength() + frameMaxHeaderLength)", "\tc.src.Reserve(frame.PayloadLength() + frameMaxHeaderLength)", "C17-R4"},
		mutant{"flush error swallowed", "codec/websocket/stream.go",
			"\t\t\tif err != nil {\n\t\t\t\tcallback(err)\n\t\t\t} else {\n\t\t\t\ts.AsyncFlush(callback)\n\t\t\t}", "\t\t\tif err == nil {\n\t\t\t\ts.AsyncFlush(callback)\n\t\t\t}", "C17-R2"},
		mutant{"too-big message completes twice", "codec/websocket/stream.go",
			"\tif len(b) > s.maxMessageSize {\n\t\tcallback(ErrMessageTooBig)\n\t\treturn\n\t}\n\n\tif s.state == StateActive {\n\t\tf := s.AcquireFrame().\n\t\t\tSetFIN().\n\t\t\tSetOpcode(Opcode(messageType)).\n\t\t\tSetPayload(b)\n\t\ts.prepareWrite(f)\n\t\ts.AsyncFlush(callback)",
			"\tif len(b) > s.maxMessageSize {\n\t\tcallback(ErrMessageTooBig)\n\t}\n\n\tif s.state == StateActive {\n\t\tf := s.AcquireFrame().\n\t\t\tSetFIN().\n\t\t\tSetOpcode(Opcode(messageType)).\n\t\t\tSetPayload(b)\n\t\ts.prepareWrite(f)\n\t\ts.AsyncFlush(callback)", "C17-R2"},
		mutant{"async read drops the callback on read error", "codec.go",
			"\t\t\tif err != nil {\n\t\t\t\tcb(err, c.emptyDec)\n\t\t\t} else {\n\t\t\t\tc.AsyncReadNext(cb)\n\t\t\t}", "\t\t\tif err == nil {\n\t\t\t\tc.AsyncReadNext(cb)\n\t\t\t}", "C17-R2"},
		mutant{"control frame in a message both recurses and completes", "codec/websocket/stream.go",
			"\t\t\t\ts.asyncNextMessage(b, readBytes, continuation, messageType, callback)\n\t\t\t} else {\n\t\t\t\tif messageType == TypeNone {", "\t\t\t\ts.asyncNextMessage(b, readBytes, continuation, messageType, callback)\n\t\t\t\tcallback(nil, readBytes, messageType)\n\t\t\t} else {\n\t\t\t\tif messageType == TypeNone {", "C17-R2"},
		mutant{"close in a non-active state never completes", "codec/websocket/stream.go",
			"\tcase StateClosedByUs, StateHandshake:\n\t\tcallback(sonicerrors.ErrCancelled)\n\tdefault:\n\t\tcallback(io.EOF)\n\t}\n}\n\n// Close sends", "\tcase StateClosedByUs, StateHandshake:\n\t\tcallback(sonicerrors.ErrCancelled)\n\tdefault:\n\t}\n}\n\n// Close sends", "C17-R2"},
		mutant{"frame released before the write completes", "codec/websocket/stream.go",
			"\t\ts.codecConn.AsyncWriteNext(*sent, func(err error, _ int) {\n\t\t\ts.releaseFrame(sent)\n", "\t\ts.releaseFrame(sent)\n\t\ts.codecConn.AsyncWriteNext(*sent, func(err error, _ int) {\n", "C17-R3"},
		mutant{"AsyncWriteFrame releases the frame it queued", "codec/websocket/stream.go",
			"\tif s.state == StateActive {\n\t\ts.prepareWrite(f)\n\t\ts.AsyncFlush(callback)\n\t} else {", "\tif s.state == StateActive {\n\t\ts.prepareWrite(f)\n\t\ts.AsyncFlush(func(err error) {\n\t\t\ts.releaseFrame(f)\n\t\t\tcallback(err)\n\t\t})\n\t} else {", "C17-R3"},
		mutant{"AsyncClose flushes in ClosedByPeer", "codec/websocket/stream.go",
			"\tcase StateClosedByUs, StateHandshake:\n\t\tcallback(sonicerrors.ErrCancelled)\n\tdefault:\n\t\tcallback(io.EOF)\n\t}\n}\n\n// Close sends", "\tcase StateClosedByUs, StateHandshake:\n\t\tcallback(sonicerrors.ErrCancelled)\n\tcase StateClosedByPeer:\n\t\ts.AsyncFlush(func(error) {\n\t\t\tcallback(io.EOF)\n\t\t})\n\tdefault:\n\t\tcallback(io.EOF)\n\t}\n}\n\n// Close sends", "C17-R1"},
		mutant{"frame dequeued only when its write completed", "codec/websocket/stream.go",
			"\t\tsent := s.pendingFrames[0]\n\t\ts.pendingFrames = s.pendingFrames[1:]\n\n\t\ts.codecConn.AsyncWriteNext(*sent, func(err error, _ int) {\n\t\t\ts.releaseFrame(sent)\n",
			"\t\tsent := s.pendingFrames[0]\n\n\t\ts.codecConn.AsyncWriteNext(*sent, func(err error, _ int) {\n\t\t\ts.pendingFrames = s.pendingFrames[1:]\n\t\t\ts.releaseFrame(sent)\n", "C17-R3"},
		mutant{"second write family site on the read path", "codec/websocket/stream.go",
			"func (s *Stream) asyncNextFrame(callback AsyncFrameCallback) {\n", "func (s *Stream) asyncNextFrame(callback AsyncFrameCallback) {\n\ts.AsyncFlush(func(error) {})\n", "C17-R1|(*codec/websocket.Stream).asyncNextFrame"},
	)
}

func runC17(c *Ctx) {
	p := c.P
	ws := "codec/websocket"
	w := wsAnchor(p)
	e := newE2(p)

	// ------------------------------------------------------------------------------------------------ R1
	c.rule("C17-R1", "a single outstanding transport write: the flush that starts a transport write is guarded by an in-flight flag or is started from one entry family only", 4)
	{
		readFamily := map[string]bool{"AsyncNextFrame": true, "asyncNextFrame": true, "AsyncNextMessage": true, "asyncNextMessage": true, "NextFrame": true, "nextFrame": true, "NextMessage": true}
		// in-flight flag idiom in AsyncFlush
		guarded := false
		st := p.Named(ws, "Stream").Underlying().(*types.Struct)
		for i := 0; i < st.NumFields(); i++ {
			f := st.Field(i)
			if b, ok := f.Type().Underlying().(*types.Basic); !ok || b.Kind() != types.Bool {
				continue
			}
			var setTrue, setFalse, tested bool
			for _, fn := range withClosures(w.asyncFlush) {
				for _, a := range storesTo(fn, f) {
					if isConstBool(a.Instr.(*ssa.Store).Val, true) && fn == w.asyncFlush {
						setTrue = true
					}
					if isConstBool(a.Instr.(*ssa.Store).Val, false) && fn != w.asyncFlush {
						setFalse = true
					}
				}
			}
			for _, call := range callsByName(w.asyncFlush, "AsyncWriteNext") {
				for _, l := range guardsOf(call.(ssa.Instruction).Block()) {
					if loadOfField(l.Cond, f) && !l.Pos {
						tested = true
					}
				}
			}
			if setTrue && setFalse && tested {
				guarded = true
			}
		}
		families := map[string]bool{}
		type site struct {
			fn   *ssa.Function
			call ssa.CallInstruction
			fam  string
		}
		var sites []site
		for _, fn := range wsFuncs(p) {
			top := fn
			for top.Parent() != nil {
				top = top.Parent()
			}
			if top == w.asyncFlush {
				continue // the chained continuation of the same flush
			}
			for _, call := range callsToFn(fn, w.asyncFlush) {
				fam := "write"
				if readFamily[pinName(top)] {
					fam = "read"
				}
				families[fam] = true
				sites = append(sites, site{fn, call, fam})
			}
		}
		for _, s := range sites {
			switch {
			case guarded:
				c.ok(s.fn, "AsyncFlush", s.call.Pos(), "transport writes are serialised by an in-flight flag")
			case len(families) == 1:
				c.ok(s.fn, "AsyncFlush", s.call.Pos(), "only the %s family starts transport writes", s.fam)
			case s.fam == "read":
				c.bad(s.fn, "AsyncFlush", s.call.Pos(), "the read path starts a transport write (flushing control replies) without any in-flight guard while application writes start transport writes too: with a read and a write in flight together two AsyncWriteAll operations share one write buffer and one write reactor, the second overwrites the first's continuation (its callback is lost) and re-sends bytes")
			default:
				c.ok(s.fn, "AsyncFlush", s.call.Pos(), "write family")
			}
			// an application operation starts a flush for what it has just queued, not otherwise: a flush started in a state
			// in which the operation queues nothing can only run into a write that is already in flight
			if s.fam == "write" && !guarded {
				queued := false
				eachInstr(s.fn, func(in ssa.Instruction) {
					if dominatesInstr(in, s.call.(ssa.Instruction)) && doesDeep(in, func(x ssa.Instruction) bool { return isCallToFn(x, w.prepareWrite, w.prepareClose) }) {
						queued = true
					}
				})
				c.check(queued, s.fn, "flush what was queued", s.call.Pos(), "the flush follows the queuing of this operation's frame", "an application call starts a transport flush without having queued a frame itself (for example Close in a state in which it only reports end-of-stream): the extra flush overlaps an application write that is still in flight, re-initialises the single write reactor and that write's callback is never invoked")
			}
		}
	}

	// ------------------------------------------------------------------------------------------------ R2
	c.rule("C17-R2", "linear completion of every callback-taking function of Stream, CodecConn and ByteBuffer", 14)
	owners := map[string]bool{modPath + "/codec/websocket.Stream": true, modPath + ".CodecConn": true, modPath + ".ByteBuffer": true, modPath + "/codec/websocket.MockStream": true}
	checkCompletionEntries(c, e, owners, map[string]string{
		"(*codec/websocket.MockStream).AsyncClose": "mock used by tests only; it ignores its callback",
	})
	// closures that are themselves completions (handed to lower layers) are covered through the summaries above.

	// ------------------------------------------------------------------------------------------------ R3
	c.rule("C17-R3", "the completion of a transport write releases the frame, continues the flush only on success and reports the error otherwise; queued frames are released by the flush only", 6)
	{
		release := p.Method(ws, "Stream", "releaseFrame")
		for _, call := range callsByName(w.asyncFlush, "AsyncWriteNext") {
			in := call.(ssa.Instruction)
			// no release before the write is started
			early := false
			for _, rc := range callsToFn(w.asyncFlush, release) {
				if dominatesInstr(rc.(ssa.Instruction), in) {
					early = true
				}
			}
			c.check(!early, w.asyncFlush, "frame lifetime", in.Pos(), "the frame is released by the completion, not before", "the frame is returned to the pool before the transport write completes: a concurrent AcquireFrame reuses and overwrites a frame that is still being encoded/written")
			// the frame leaves the queue before its write is started: a flush started meanwhile (every asynchronous read begins
			// with one) must not find it again
			popped := false
			for _, a := range storesTo(w.asyncFlush, w.pendingFrames) {
				if sl, ok := stripConv(a.Val).(*ssa.Slice); ok && loadOfField(sl.X, w.pendingFrames) && sl.Low != nil && dominatesInstr(a.Instr, in) {
					if k, ok := constInt(sl.Low); ok && k >= 1 {
						popped = true
					}
				}
			}
			_ = 0
			c.check(popped, w.asyncFlush, "dequeue before write", in.Pos(), "the frame is removed from the pending queue before its transport write starts", "the frame stays in the pending queue while its transport write is in flight: a read (which flushes first) or another write started before the completion re-encodes and sends the same frame again and overwrites the first write's continuation")
			for _, a := range call.Common().Args {
				mc, ok := strip(a).(*ssa.MakeClosure)
				if !ok {
					continue
				}
				cf := mc.Fn.(*ssa.Function)
				c.touch(cf)
				rel := len(callsToFn(cf, release)) > 0
				cont := false
				for _, rc := range callsToFn(cf, w.asyncFlush) {
					if guardedNil(rc.(ssa.Instruction).Block(), cf.Params[0]) {
						cont = true
					}
				}
				c.check(rel && cont, cf, "write completion", cf.Pos(), "releases the frame and continues only on success", "the completion of the transport write does not release the frame / continue the flush under err == nil")
			}
		}
	}
	// a frame handed to the queue belongs to the flush, which releases it exactly once: nobody who queued a frame releases
	// it as well (a frame released twice is handed out twice by the pool and two queued frames become one object)
	{
		release := p.Method(ws, "Stream", "releaseFrame")
		sameFrame := func(a, b ssa.Value) bool {
			ra, rb := resolveCell(strip(a)), resolveCell(strip(b))
			if ra == rb {
				return true
			}
			// a captured parameter inside a closure: compare with the binding in the parent
			if fv, ok := strip(a).(*ssa.FreeVar); ok {
				if bnd := bindingOf(fv.Parent(), fv); bnd != nil && resolveCell(strip(bnd)) == rb {
					return true
				}
			}
			if u, ok := strip(a).(*ssa.UnOp); ok {
				if fv, ok := u.X.(*ssa.FreeVar); ok {
					if bnd := bindingOf(fv.Parent(), fv); bnd != nil {
						if cell := cellOf(bnd); cell != nil {
							if st := singleStore(cell); st != nil && resolveCell(strip(st.Val)) == rb {
								return true
							}
						}
					}
				}
			}
			return false
		}
		n := 0
		for _, top := range wsFuncs(p) {
			if top.Parent() != nil {
				continue
			}
			for _, pc := range callsToFn(top, w.prepareWrite) {
				n++
				queuedArg := pc.Common().Args[1]
				bad := ""
				var pos token.Pos = pc.Pos()
				for _, f := range withClosures(top) {
					for _, rc := range callsToFn(f, release) {
						if !sameFrame(rc.Common().Args[1], queuedArg) {
							continue
						}
						if f == top {
							if reachesFrom(pc.(ssa.Instruction), rc.(ssa.Instruction)) {
								bad, pos = "released after it was queued", rc.Pos()
							}
						} else {
							bad, pos = "released by a completion created in "+fnName(top), rc.Pos()
						}
					}
				}
				c.check(bad == "", top, "queued frame released once", pos, "the frame queued here is released by the flush only", "a frame that was handed to the pending queue is released again by its submitter ("+bad+"): the pool hands the same frame out twice, a later Pong/Close and an application frame become one object and overwrite each other on the wire")
			}
		}
		if n == 0 {
			c.bad(w.asyncFlush, "queued frame released once", w.asyncFlush.Pos(), "no frame is ever queued (anchor moved)")
		}
	}
	// ------------------------------------------------------------------------------------------------ R4
	// the read buffer belongs to the read side: while a read is parked the transport holds a slice of its storage, so a
	// write that reserves, resets or fills the read buffer (or a read that touches the write buffer while a transport
	// write drains it) moves the storage from under the operation in flight
	c.rule("C17-R4", "buffer sides: the encode/write paths of the frame codecs and of CodecConn never call a method on the read buffer (field src), the decode/read paths never on the write buffer (field dst)", 8)
	{
		bbT := p.Named("sonic", "ByteBuffer")
		onByteBuffer := func(callee *ssa.Function) bool {
			if callee == nil || callee.Signature.Recv() == nil {
				return false
			}
			t := callee.Signature.Recv().Type()
			if pt, ok := t.(*types.Pointer); ok {
				t = pt.Elem()
			}
			return types.Identical(t, bbT)
		}
		n := 0
		owners := map[string]bool{modPath + "/" + ws + ".FrameCodec": true, modPath + "/codec/frame.Codec": true, modPath + ".CodecConn": true}
		for _, fn := range p.Funcs {
			if fn.Parent() != nil {
				continue
			}
			pk, tn := recvTypeName(fn)
			if !owners[pk+"."+tn] {
				continue
			}
			side := ""
			switch name := pinName(fn); {
			case strings.HasPrefix(name, "Encode"), strings.HasPrefix(name, "WriteNext"), strings.HasPrefix(name, "AsyncWriteNext"):
				side = "write"
			case strings.HasPrefix(name, "Decode"), strings.HasPrefix(name, "ReadNext"), strings.HasPrefix(name, "AsyncReadNext"), name == "resetDecode":
				side = "read"
			default:
				continue
			}
			foreign, fname := "dst", "write buffer (dst)"
			if side == "write" {
				foreign, fname = "src", "read buffer (src)"
			}
			n++
			var badPos token.Pos
			for _, g := range withClosures(fn) {
				eachInstrDeep(g, func(in, site ssa.Instruction, tr func(ssa.Value) ssa.Value) {
					call, ok := in.(ssa.CallInstruction)
					if !ok || !onByteBuffer(call.Common().StaticCallee()) || len(call.Common().Args) == 0 {
						return
					}
					if f := loadedField(stripConv(tr(call.Common().Args[0]))); f != nil && pinFieldName(f) == foreign {
						badPos = site.Pos()
					}
				})
			}
			c.check(badPos == token.NoPos, fn, side+" side", firstPos(badPos, fn.Pos()), "touches only its own buffer", "the "+side+" path calls a ByteBuffer method on the "+fname+": its storage can be reallocated, reset or filled while the operation of the other direction is parked on a slice of it - bytes of the peer land in an orphaned array, or bytes in flight are overwritten")
		}
		if n < 8 {
			c.bad(w.asyncFlush, "write side", w.asyncFlush.Pos(), "the encode/decode entry points of the codecs were not found (anchor moved): %d", n)
		}
	}
	_ = token.ADD
}

func firstPos(a, b token.Pos) token.Pos {
	if a != token.NoPos {
		return a
	}
	return b
}
