package main

import (
	"fmt"
	"go/token"
	"go/types"
	"sort"
	"strings"

	"golang.org/x/tools/go/ssa"
)

func init() {
	register(&propertySpec{
		ID:    "C15",
		Title: "WebSocket protocol violations are reported, never delivered as data",
		Explanation: "Decides: (R1) opcode exhaustiveness - IsReserved is exactly the complement of the declared opcode constants, IsControl is exactly " +
			"{Close,Ping,Pong}, handleFrame routes control opcodes to a switch whose cases are exactly those opcodes with an erroring default, and " +
			"handleDataFrame's success return is guarded by !IsReserved(); (R2) checks dominate effects - in handleControlFrame every state change and " +
			"queued frame is guarded by IsFIN() and PayloadLength() <= 125, both frame handlers are reached only when verifyFrame returned nil, " +
			"verifyFrame's nil return requires RSV1-3 clear and the mask bit matching the role, and every frame read from the codec passes " +
			"handleFrame before it is returned or handed to the callback; (R3) a verification error in StateActive queues Close(1002) and leaves " +
			"StateActive on every such path; (R4) the message-level rules (unexpected continuation, expected continuation, message too big) are present " +
			"in NextMessage and asyncNextMessage with their error values, and the erroring paths do not report success; (R5) the frame size limit in the " +
			"decoder dominates its success return. Not decided: behaviour under every segmentation (runtime values).",
		Run: runC15,
	})
	addMutants("C15",
		mutant{"pong accepted before the control-frame checks", "codec/websocket/stream.go",
			"func (s *Stream) handleControlFrame(f Frame) (err error) {\n\tif !f.IsFIN() {", "func (s *Stream) handleControlFrame(f Frame) (err error) {\n\tif f.Opcode() == OpcodePong {\n\t\treturn nil\n\t}\n\tif !f.IsFIN() {", "C15-R2"},
		mutant{"opcode 3 no longer reserved", "codec/websocket/rfc6455.go",
			"\treturn c != OpcodeContinuation &&\n\t\tc != OpcodeText &&", "\treturn c > OpcodeBinary && c != 3 &&\n\t\tc != OpcodeText &&", "C15-R1"},
		mutant{"reserved data opcodes delivered", "codec/websocket/stream.go",
			"\tif f.Opcode().IsReserved() {\n\t\treturn ErrReservedOpcode\n\t}\n", "", "C15-R1"},
		mutant{"unknown control opcode accepted", "codec/websocket/stream.go",
			"\tdefault:\n\t\terr = ErrInvalidControlFrame\n\t}\n\n\treturn\n}", "\tdefault:\n\t}\n\n\treturn\n}", "C15-R1"},
		mutant{"fragmented control frame accepted", "codec/websocket/stream.go",
			"\tif !f.IsFIN() {\n\t\treturn ErrInvalidControlFrame\n\t}\n", "", "C15-R2"},
		mutant{"control payload limit off by one", "codec/websocket/stream.go",
			"if f.PayloadLength() > MaxControlFramePayloadLength {", "if f.PayloadLength() > MaxControlFramePayloadLength+1 {", "C15-R2"},
		mutant{"RSV2 not checked", "codec/websocket/stream.go",
			"if f.IsRSV1() || f.IsRSV2() || f.IsRSV3() {", "if f.IsRSV1() || f.IsRSV3() {", "C15-R2"},
		mutant{"masked server frames accepted", "codec/websocket/stream.go",
			"\tif s.role == RoleClient && f.IsMasked() {\n\t\treturn ErrMaskedFramesFromServer\n\t}\n", "", "C15-R2"},
		mutant{"handlers run before verification", "codec/websocket/stream.go",
			"\terr = s.verifyFrame(f)\n\n\tif err == nil {\n\t\tif f.Opcode().IsControl() {", "\terr = s.verifyFrame(f)\n\n\tif true {\n\t\tif f.Opcode().IsControl() {", "C15-R2"},
		mutant{"violations swallowed once closing", "codec/websocket/stream.go",
			"\tif err != nil && s.state == StateActive {\n\t\t// Only start the closing handshake if we did not already send a close frame: at most one goes on the wire.\n\t\ts.state = StateClosedByUs\n\t\t// TODO consider flushing the close\n\t\ts.prepareClose(EncodeCloseFramePayload(CloseProtocolError, \"\"))\n\t}\n\n\treturn err", "\tif err == nil || s.state != StateActive {\n\t\treturn nil\n\t}\n\n\ts.state = StateClosedByUs\n\ts.prepareClose(EncodeCloseFramePayload(CloseProtocolError, \"\"))\n\n\treturn err", "C15-R3"},
		mutant{"decoder reports reserved bits itself", "codec/websocket/frame_codec.go",
			"\t// read the extended payload length (0, 2 or 8 bytes) and check if within bounds\n", "\tif c.decodeFrame.IsRSV1() || c.decodeFrame.IsRSV2() || c.decodeFrame.IsRSV3() {\n\t\tc.decodeFrame = nil\n\t\treturn nil, ErrNonZeroReservedBits\n\t}\n", "C15-R3"},
		mutant{"async frames bypass handleFrame", "codec/websocket/stream.go",
			"\t\tif err == nil {\n\t\t\terr = s.handleFrame(f)\n\n\t\t\t// If we get an EOF error, TCP stream was closed", "\t\tif err == nil {\n\t\t\terr = nil\n\n\t\t\t// If we get an EOF error, TCP stream was closed", "C15-R2"},
		mutant{"violation queues close 1000", "codec/websocket/stream.go",
			"s.prepareClose(EncodeCloseFramePayload(CloseProtocolError, \"\"))", "s.prepareClose(EncodeCloseFramePayload(CloseNormal, \"\"))", "C15-R3"},
		mutant{"unexpected continuation delivered (sync)", "codec/websocket/stream.go",
			"\t\t\t\tcontinuation = !f.IsFIN() //nolint:ineffassign\n\t\t\t\tif f.Opcode().IsContinuation() {\n\t\t\t\t\terr = ErrUnexpectedContinuation\n\t\t\t\t}", "\t\t\t\tcontinuation = !f.IsFIN() //nolint:ineffassign", "C15-R4"},
		mutant{"interleaved data frame accepted (async)", "codec/websocket/stream.go",
			"\t\t\t\t\tcontinuation = !f.IsFIN()\n\t\t\t\t\tif !f.Opcode().IsContinuation() {\n\t\t\t\t\t\terr = ErrExpectedContinuation\n\t\t\t\t\t}", "\t\t\t\t\tcontinuation = !f.IsFIN()", "C15-R4"},
		mutant{"message limit not enforced (async)", "codec/websocket/stream.go",
			"\t\t\t\tif readBytes > s.maxMessageSize || n != f.PayloadLength() {\n\t\t\t\t\terr = ErrMessageTooBig\n\t\t\t\t\ts.AsyncClose(", "\t\t\t\tif n != f.PayloadLength() {\n\t\t\t\t\terr = ErrMessageTooBig\n\t\t\t\t\ts.AsyncClose(", "C15-R4"},
		mutant{"size limit applied before the fragment is counted (async)", "codec/websocket/stream.go",
			"\t\t\t\tn := copy(b[readBytes:], f.Payload())\n\t\t\t\treadBytes += n\n\n\t\t\t\tif readBytes > s.maxMessageSize || n != f.PayloadLength() {\n\t\t\t\t\terr = ErrMessageTooBig\n\t\t\t\t\ts.AsyncClose(",
			"\t\t\t\tn := copy(b[readBytes:], f.Payload())\n\n\t\t\t\tif readBytes > s.maxMessageSize || n != f.PayloadLength() {\n\t\t\t\t\terr = ErrMessageTooBig\n\t\t\t\t\ts.AsyncClose(", "C15-R4"},
		mutant{"frame limit checked after buffering", "codec/websocket/frame_codec.go",
			"\tif payloadLength < 0 || payloadLength > c.maxMessageSize {\n\t\t// A 64-bit length with the top bit set comes out negative.\n\t\tc.decodeFrame = nil\n\t\treturn nil, ErrPayloadOverMaxSize\n\t}\n", "", "C15-R5"},
	)
}

// neqChainConsts collects the constants k of literals `recv != k` / `recv == k` found in fn where recv is the receiver.
func cmpConstsWith(fn *ssa.Function, subject func(ssa.Value) bool, op token.Token) map[int64]bool {
	out := map[int64]bool{}
	eachInstr(fn, func(in ssa.Instruction) {
		bo, ok := in.(*ssa.BinOp)
		if !ok || bo.Op != op {
			return
		}
		if subject(bo.X) {
			if k, ok := constInt(bo.Y); ok {
				out[k] = true
			}
		}
	})
	return out
}

func setString(m map[int64]bool) string {
	var ks []int64
	for k := range m {
		ks = append(ks, k)
	}
	sort.Slice(ks, func(i, j int) bool { return ks[i] < ks[j] })
	return fmt.Sprint(ks)
}

func sameSet(a, b map[int64]bool) bool {
	if len(a) != len(b) {
		return false
	}
	for k := range a {
		if !b[k] {
			return false
		}
	}
	return true
}

func runC15(c *Ctx) {
	p := c.P
	w := wsAnchor(p)
	// the function that verifies a frame and routes it to the control or data handler: handleFrame itself, or the
	// unexported helper it delegates that part to
	route := w.handleFrame
	if len(callsToFn(route, w.handleControl)) == 0 {
		eachInstr(w.handleFrame, func(in ssa.Instruction) {
			if call, ok := in.(*ssa.Call); ok {
				if h := call.Call.StaticCallee(); isHelperOf(w.handleFrame, h) && len(callsToFn(h, w.handleControl)) > 0 {
					route = h
				}
			}
		})
	}
	ws := "codec/websocket"
	opT := p.Named(ws, "Opcode")
	opM := func(n string) *ssa.Function { return p.Method(ws, "Opcode", n) }
	isReserved, isControl, isCont := opM("IsReserved"), opM("IsControl"), opM("IsContinuation")

	// declared opcode constants
	declared := map[int64]bool{}
	sc := p.pkg(ws).Types.Scope()
	for _, name := range sc.Names() {
		if k, ok := sc.Lookup(name).(*types.Const); ok && types.Identical(k.Type(), opT) {
			v, _ := constantInt(k.Val())
			declared[v] = true
		}
	}
	rfcOpcodes := map[int64]bool{0: true, 1: true, 2: true, 8: true, 9: true, 10: true}
	rfcControl := map[int64]bool{8: true, 9: true, 10: true}

	// ------------------------------------------------------------------------------------------------ R1
	c.rule("C15-R1", "opcode exhaustiveness: reserved = complement of the declared opcodes; control = {8,9,10}; control switch cases = control opcodes with an erroring default; data handler rejects reserved opcodes", 5)
	c.check(sameSet(declared, rfcOpcodes), isReserved, "declared opcodes", isReserved.Pos(), "declared opcodes are "+setString(declared), "the declared opcode constants "+setString(declared)+" differ from RFC 6455 "+setString(rfcOpcodes))
	{
		recv := isReserved.Params[0]
		isRecv := func(v ssa.Value) bool { return stripConv(v) == ssa.Value(recv) }
		neq := cmpConstsWith(isReserved, isRecv, token.NEQ)
		// shape: the function must be a pure conjunction of != tests: every other comparison is suspicious
		other := 0
		eachInstr(isReserved, func(in ssa.Instruction) {
			if bo, ok := in.(*ssa.BinOp); ok && bo.Op != token.NEQ {
				other++
			}
		})
		// result true only when all tests passed: the return of `true` must be guarded by all NEQ literals
		c.check(sameSet(neq, declared) && other == 0, isReserved, "IsReserved", isReserved.Pos(), "reserved iff not one of "+setString(declared),
			"IsReserved() tests "+setString(neq)+" (plus "+fmt.Sprint(other)+" other comparisons): it is not the complement of the declared opcodes "+setString(declared)+", so some undefined opcode is delivered as data")
	}
	{
		ctl := map[int64]bool{}
		for _, name := range []string{"IsPing", "IsPong", "IsClose"} {
			f := opM(name)
			recv := f.Params[0]
			for k := range cmpConstsWith(f, func(v ssa.Value) bool { return stripConv(v) == ssa.Value(recv) }, token.EQL) {
				ctl[k] = true
			}
		}
		uses := 0
		eachInstr(isControl, func(in ssa.Instruction) {
			if isCallToFn(in, opM("IsPing"), opM("IsPong"), opM("IsClose")) {
				uses++
			}
		})
		c.check(sameSet(ctl, rfcControl) && uses == 3, isControl, "IsControl", isControl.Pos(), "control opcodes are {8,9,10}", "IsControl() does not cover exactly the control opcodes {8,9,10}: got "+setString(ctl))
	}
	{
		fn := w.handleControl
		cases := map[int64]bool{}
		eachInstr(fn, func(in ssa.Instruction) {
			bo, ok := in.(*ssa.BinOp)
			if !ok || bo.Op != token.EQL {
				return
			}
			if call, ok := strip(bo.X).(*ssa.Call); ok && isCallToFn(call, w.opcodeM) {
				if k, ok := constInt(bo.Y); ok {
					cases[k] = true
				}
			}
		})
		// default: the block reached when all case tests are false yields a non-nil error
		defaultErr := false
		for _, b := range fn.Blocks {
			neg := map[int64]bool{}
			for _, l := range guardsOf(b) {
				op, x, y, ok := l.cmp()
				if ok && op == token.NEQ {
					if call, ok := strip(x).(*ssa.Call); ok && isCallToFn(call, w.opcodeM) {
						if k, ok := constInt(y); ok {
							neg[k] = true
						}
					}
				}
			}
			if !sameSet(neg, cases) || len(neg) == 0 {
				continue
			}
			for _, in := range b.Instrs {
				if v, ok := in.(ssa.Value); ok && loadedGlobal(v) != nil && types.Identical(v.Type(), types.Universe.Lookup("error").Type()) {
					defaultErr = true
				}
			}
		}
		c.check(sameSet(cases, rfcControl) && defaultErr, fn, "control switch", fn.Pos(), "cases {8,9,10}, default errors", "the control-frame switch handles "+setString(cases)+" and its default does not produce an error: an unknown control opcode is accepted silently")
	}
	{
		fn := w.handleData
		nilRets := 0
		for _, r := range returnsOf(fn) {
			if !isNil(r.Results[0]) {
				continue
			}
			nilRets++
			good := false
			for _, l := range guardsOf(r.Block()) {
				if _, pos, ok := callLit(l, isReserved); ok && !pos {
					good = true
				}
			}
			c.check(good, fn, "data frame accepted", exitPos(r), "accepted only when the opcode is not reserved", "a data frame is accepted without IsReserved() having been tested false: frames with undefined opcodes are delivered as data")
		}
		if nilRets == 0 {
			c.bad(fn, "data frame accepted", fn.Pos(), "handleDataFrame never accepts a frame")
		}
	}
	{
		// routing in handleFrame: IsControl decides the handler
		fn := route
		okCtl, okData := false, false
		for _, call := range callsToFn(fn, w.handleControl) {
			for _, l := range guardsOf(call.(ssa.Instruction).Block()) {
				if _, pos, ok := callLit(l, isControl); ok && pos {
					okCtl = true
				}
			}
		}
		for _, call := range callsToFn(fn, w.handleData) {
			for _, l := range guardsOf(call.(ssa.Instruction).Block()) {
				if _, pos, ok := callLit(l, isControl); ok && !pos {
					okData = true
				}
			}
		}
		c.check(okCtl && okData, fn, "routing", fn.Pos(), "control opcodes go to the control handler, all others to the data handler", "handleFrame does not route frames by IsControl(): some opcodes reach neither handler's checks")
	}

	// ------------------------------------------------------------------------------------------------ R2
	c.rule("C15-R2", "checks dominate effects: FIN and <=125 before any control-frame effect; verifyFrame (RSV, mask by role) before both handlers; every decoded frame passes handleFrame", 12)
	{
		fn := w.handleControl
		maxCtl, _ := constantInt(p.Const(ws, "MaxControlFramePayloadLength"))
		var effects []ssa.Instruction
		viaSite := map[ssa.Instruction]ssa.Instruction{} // effect inside a per-opcode helper -> the call in handleControlFrame
		var gather func(g *ssa.Function, site ssa.Instruction, depth int)
		gather = func(g *ssa.Function, site ssa.Instruction, depth int) {
			eachInstr(g, func(in ssa.Instruction) {
				isEffect := false
				if st, ok := in.(*ssa.Store); ok {
					if fv, _ := fieldAddrOf(st.Addr); fv == w.state {
						isEffect = true
					}
				}
				if isCallToFn(in, w.prepareWrite, w.prepareClose) {
					isEffect = true
				}
				if isEffect {
					effects = append(effects, in)
					if site != nil {
						viaSite[in] = site
					}
					return
				}
				if call, ok := in.(*ssa.Call); ok && depth < 2 {
					if h := call.Call.StaticCallee(); isHelperOf(fn, h) && h != w.prepareWrite && h != w.prepareClose {
						s2 := site
						if s2 == nil {
							s2 = in
						}
						gather(h, s2, depth+1)
					}
				}
			})
		}
		gather(fn, nil, 0)
		// a validator: a function whose nil results are all guarded by FIN and payload <= 125
		finSmall := func(b *ssa.BasicBlock) (bool, bool) {
			fin, small := false, false
			for _, l := range guardsOf(b) {
				if _, pos, ok := callLit(l, w.isFIN); ok && pos {
					fin = true
				}
				op, x, y, ok := l.cmp()
				if ok && ((op == token.LEQ && isConstInt(y, maxCtl)) || (op == token.LSS && isConstInt(y, maxCtl+1))) {
					if call, ok := strip(x).(*ssa.Call); ok && isCallToFn(call, w.payloadLen) {
						small = true
					}
				}
			}
			return fin, small
		}
		isValidator := func(v *ssa.Function) bool {
			if v == nil || v.Blocks == nil {
				return false
			}
			n := 0
			for _, r := range returnsOf(v) {
				if len(r.Results) != 1 {
					return false
				}
				if isNil(r.Results[0]) {
					n++
					if f1, s1 := finSmall(r.Block()); !f1 || !s1 {
						return false
					}
				}
			}
			return n > 0
		}
		validated := func(b *ssa.BasicBlock) bool {
			for _, l := range guardsOf(b) {
				if x, eq, ok := l.nilTest(); ok && eq {
					for _, leaf := range phiLeaves(resolveCell(x)) {
						if call, ok := resolveCell(leaf).(*ssa.Call); ok && isValidator(call.Call.StaticCallee()) {
							return true
						}
					}
				}
			}
			return false
		}
		for _, ef := range effects {
			fin, small := finSmall(ef.Block())
			if validated(ef.Block()) {
				fin, small = true, true
			}
			if site := viaSite[ef]; site != nil {
				f2, s2 := finSmall(site.Block())
				fin, small = fin || f2, small || s2
				if validated(site.Block()) {
					fin, small = true, true
				}
			}
			for _, l := range guardsOf(ef.Block()) {
				if _, pos, ok := callLit(l, w.isFIN); ok && pos {
					fin = true
				}
				op, x, y, ok := l.cmp()
				if ok && op == token.LEQ && isConstInt(y, maxCtl) {
					if call, ok := strip(x).(*ssa.Call); ok && isCallToFn(call, w.payloadLen) {
						small = true
					}
				}
				if ok && op == token.LSS && isConstInt(y, maxCtl+1) {
					if call, ok := strip(x).(*ssa.Call); ok && isCallToFn(call, w.payloadLen) {
						small = true
					}
				}
			}
			c.check(fin && small, fn, "control effect", ef.Pos(), "guarded by FIN and payload <= 125", "a control frame changes the stream state / queues a reply without the FIN bit and the 125-byte limit having been checked: fragmented or oversized control frames are acted upon")
		}
		// every control frame that is accepted (nil result) was found to carry FIN and at most 125 payload bytes - also the
		// ones that have no effect (a Pong): a fragmented or oversized control frame is a protocol violation to report
		{
			litsOK := func(path *Path) bool {
				fin, small := false, false
				for _, l := range path.Lits {
					if _, pos, ok := callLit(l.Lit, w.isFIN); ok && pos {
						fin = true
					}
					op, x, y, ok := l.cmp()
					if ok && ((op == token.LEQ && isConstInt(y, maxCtl)) || (op == token.LSS && isConstInt(y, maxCtl+1))) {
						if call, ok := strip(x).(*ssa.Call); ok && isCallToFn(call, w.payloadLen) {
							small = true
						}
					}
					if x, eq, ok := l.nilTest(); ok && eq {
						if call, ok := resolveCell(path.eval(x, l.At)).(*ssa.Call); ok && isValidator(call.Call.StaticCallee()) {
							fin, small = true, true
						}
					}
				}
				return fin && small
			}
			var okNil func(g *ssa.Function, depth int) (bool, token.Pos)
			okNil = func(g *ssa.Function, depth int) (bool, token.Pos) {
				paths, overflow := enumPaths(g)
				if overflow {
					return false, g.Pos()
				}
				for _, path := range paths {
					ret := path.Ret()
					if path.Panics || ret == nil || len(ret.Results) == 0 {
						continue
					}
					v := path.evalEnd(ret.Results[len(ret.Results)-1])
					if path.nilness(v) == "nonnil" || litsOK(path) {
						continue
					}
					if call, ok := resolveCell(v).(*ssa.Call); ok && depth > 0 {
						if h := call.Call.StaticCallee(); h != nil && h.Blocks != nil && fnTypesPkg(h) == fnTypesPkg(g) {
							if isValidator(h) {
								continue
							}
							if okh, _ := okNil(h, depth-1); okh {
								continue
							}
						}
					}
					return false, exitPos(ret)
				}
				return true, token.NoPos
			}
			okAll, at := okNil(fn, 2)
			c.check(okAll, fn, "control frame accepted", at, "a control frame is accepted only with FIN set and at most 125 payload bytes", "a control frame can be accepted (nil result) without the FIN bit and the 125-byte limit having been checked on that path: a fragmented or oversized control frame (a Pong, say) is not reported as the protocol violation it is")
		}
		if len(effects) == 0 {
			c.bad(fn, "control effect", fn.Pos(), "handleControlFrame has no effect")
		}
	}
	{
		fn := route
		vcalls := callsToFn(fn, w.verifyFrame)
		for _, h := range []*ssa.Function{w.handleControl, w.handleData} {
			for _, call := range callsToFn(fn, h) {
				good := false
				for _, vc := range vcalls {
					if guardedNil(call.(ssa.Instruction).Block(), vc.(ssa.Value)) {
						good = true
					}
				}
				c.check(good, fn, "verify before "+h.Name(), call.Pos(), "handler reached only when verifyFrame returned nil", "a frame handler runs although verifyFrame may have failed (RSV bits / masking): a malformed frame is acted upon")
			}
		}
	}
	{
		fn := w.verifyFrame
		fm := func(n string) *ssa.Function { return p.Method(ws, "Frame", n) }
		rsv := []*ssa.Function{fm("IsRSV1"), fm("IsRSV2"), fm("IsRSV3")}
		roleClient, _ := constantInt(p.Const(ws, "RoleClient"))
		roleServer, _ := constantInt(p.Const(ws, "RoleServer"))
		paths, overflow := enumPaths(fn)
		if overflow {
			c.unproven(fn, "paths", fn.Pos(), "too many paths")
		}
		n := 0
		for _, path := range paths {
			ret := path.Ret()
			if ret == nil || !isNil(path.evalEnd(ret.Results[0])) {
				continue
			}
			n++
			rsvClear := map[*ssa.Function]bool{}
			roleEq := map[int64]bool{}
			roleNot := map[int64]bool{}
			maskedT, maskedF := false, false
			for _, l := range path.Lits {
				for _, r := range rsv {
					if _, pos, ok := callLit(l.Lit, r); ok && !pos {
						rsvClear[r] = true
					}
				}
				// the three bits tested at once: f[0] & M == 0 with M covering RSV1|RSV2|RSV3
				if op, x, y, ok := l.cmp(); ok && op == token.EQL && isConstInt(y, 0) {
					if and, ok := stripConv(x).(*ssa.BinOp); ok && and.Op == token.AND {
						for _, pair := range [][2]ssa.Value{{and.X, and.Y}, {and.Y, and.X}} {
							m, isK := constInt(pair[1])
							u, isLoad := stripConv(pair[0]).(*ssa.UnOp)
							if !isK || !isLoad || u.Op != token.MUL {
								continue
							}
							ia, isIA := u.X.(*ssa.IndexAddr)
							if !isIA || !isConstInt(ia.Index, 0) || resolveCell(ia.X) != ssa.Value(fn.Params[1]) && stripConv(ia.X) != ssa.Value(fn.Params[1]) {
								continue
							}
							for i, r := range rsv {
								bit, _ := constantInt(p.Const(ws, []string{"bitRSV1", "bitRSV2", "bitRSV3"}[i]))
								if m&bit == bit {
									rsvClear[r] = true
								}
							}
						}
					}
				}
				if k, eq, ok := enumTest(l.Lit, w.role); ok {
					if eq {
						roleEq[k] = true
					} else {
						roleNot[k] = true
					}
				}
				if _, pos, ok := callLit(l.Lit, w.isMasked); ok {
					if pos {
						maskedT = true
					} else {
						maskedF = true
					}
				}
			}
			// the role and the mask bit do not change inside the function: contradictory paths are infeasible
			infeasible := len(roleEq) > 1 || (maskedT && maskedF)
			for k := range roleEq {
				if roleNot[k] {
					infeasible = true
				}
			}
			if infeasible {
				n--
				continue
			}
			possible := map[int64]bool{}
			for _, r := range []int64{roleClient, roleServer} {
				if (len(roleEq) == 0 || roleEq[r]) && !roleNot[r] {
					possible[r] = true
				}
			}
			good := len(rsvClear) == 3
			why := "a frame with a reserved bit set passes verification"
			if good {
				if possible[roleClient] && !maskedF {
					good, why = false, "a client can accept a frame without the mask bit having been tested clear (masked frames from a server must be rejected)"
				}
				if possible[roleServer] && !maskedT {
					good, why = false, "a server can accept a frame without the mask bit having been tested set (unmasked frames from a client must be rejected)"
				}
			}
			c.check(good, fn, "accept "+path.String(), exitPos(ret), "RSV1-3 clear and mask bit consistent with the role", why)
		}
		if n == 0 {
			c.bad(fn, "accept", fn.Pos(), "verifyFrame never accepts")
		}
	}
	{
		// every decoded frame passes handleFrame: nextFrame (sync) and the completion closure of asyncNextFrame
		// handleFrame itself, or a post-processing helper shared by both readers every nil-error return of which passed
		// handleFrame
		verified := map[*ssa.Function]bool{}
		isHF := func(in ssa.Instruction) bool {
			if isCallToFn(in, w.handleFrame) {
				return true
			}
			call, ok := in.(*ssa.Call)
			if !ok {
				return false
			}
			h := call.Call.StaticCallee()
			if !isHelperOf(w.nextFrame, h) || h == w.handleFrame {
				return false
			}
			if v, done := verified[h]; done {
				return v
			}
			verified[h] = false
			paths, overflow := enumPaths(h)
			okAll := !overflow && len(callsToFn(h, w.handleFrame)) > 0
			for _, path := range paths {
				ret := path.Ret()
				if path.Panics || ret == nil || len(ret.Results) == 0 {
					continue
				}
				called := path.count(func(x ssa.Instruction) bool { return isCallToFn(x, w.handleFrame) }) > 0
				if !called && path.nilness(ret.Results[len(ret.Results)-1]) != "nonnil" {
					okAll = false
				}
			}
			verified[h] = okAll
			return okAll
		}
		readNext := callsByName(w.nextFrame, "ReadNext")
		c.check(len(readNext) == 1, w.nextFrame, "ReadNext", w.nextFrame.Pos(), "frames come from CodecConn.ReadNext", "nextFrame does not read from the codec connection exactly once")
		for _, rc := range readNext {
			errv := extractOf(rc.(*ssa.Call), 1)
			good := false
			eachInstr(w.nextFrame, func(in ssa.Instruction) {
				if isHF(in) {
					good = true
				}
			})
			// every return with a nil error passes handleFrame
			okAll := true
			for _, r := range returnsOf(w.nextFrame) {
				passes := !reachableAvoiding(r, isHF)
				nonNilOnly := false
				for _, l := range guardsOf(r.Block()) {
					if x, eq, ok := l.nilTest(); ok && !eq && errv != nil && strip(x) == errv {
						nonNilOnly = true
					}
				}
				_ = nonNilOnly
				if !passes {
					// acceptable only if the returned error is the (non-nil) read error: path-based
					paths, _ := enumPaths(w.nextFrame)
					for _, path := range paths {
						if path.Ret() != r {
							continue
						}
						called := path.count(isHF) > 0
						if !called && path.nilness(r.Results[1]) != "nonnil" {
							okAll = false
						}
					}
				}
			}
			c.check(good && okAll, w.nextFrame, "frame passes handleFrame", rc.Pos(), "no frame is returned without having passed handleFrame", "nextFrame can return a frame with a nil error without handleFrame having verified it")
		}
		for _, cf := range w.asyncNextFrame.AnonFuncs {
			c.touch(cf)
			paths, overflow := enumPaths(cf)
			if overflow {
				c.unproven(cf, "paths", cf.Pos(), "too many paths")
				continue
			}
			okAll := true
			for _, path := range paths {
				pi := newPathIndex(path)
				handled := false
				for i, in := range pi.instrs {
					if isHF(in) {
						handled = true
					}
					cc, ok := in.(ssa.CallInstruction)
					if !ok || !isDynamicFuncCall(cc) || len(cc.Common().Args) != 2 {
						continue
					}
					if !handled && pi.nilnessAt(cc.Common().Args[0], i, false) != "nonnil" {
						okAll = false
					}
				}
			}
			c.check(okAll, cf, "frame passes handleFrame", cf.Pos(), "the callback never receives an unverified frame with a nil error", "the asynchronous read hands a frame to the callback with a nil error without handleFrame having verified it")
		}
	}

	// ------------------------------------------------------------------------------------------------ R3
	c.rule("C15-R3", "a verification error in StateActive queues Close(1002) and leaves StateActive; it is returned in every state; framing violations are raised only by the checks under handleFrame", 8)
	{
		fn := w.handleFrame
		protoErr, _ := constantInt(p.Const(ws, "CloseProtocolError"))
		paths, overflow := enumPaths(fn)
		if overflow {
			c.unproven(fn, "paths", fn.Pos(), "too many paths")
		}
		n := 0
		bad := ""
		for _, path := range paths {
			ret := path.Ret()
			if ret == nil {
				continue
			}
			pi := newPathIndex(path)
			if st := pi.nilnessAt(ret.Results[0], len(pi.instrs)-1, false); st != "nonnil" {
				// the result of a verification / handler call returned as it is may be an error as well
				direct := false
				if call, ok := resolveCell(path.evalEnd(ret.Results[0])).(*ssa.Call); ok && st == "unknown" && isCallToFn(call, w.verifyFrame, w.handleControl, w.handleData) {
					direct = true
				}
				if !direct {
					continue
				}
			}
			active := false
			for _, l := range path.Lits {
				if k, eq, ok := enumTest(l.Lit, w.state); ok && eq && k == w.stActive {
					active = true
				}
			}
			notActive := false
			for _, l := range path.Lits {
				if k, eq, ok := enumTest(l.Lit, w.state); ok && !eq && k == w.stActive {
					notActive = true
				}
			}
			if notActive {
				continue // already closing: nothing more to send
			}
			n++
			queued, left := false, false
			for _, in := range pi.instrs {
				// a helper that starts the closing handshake itself when (and only when) the stream is active
				if call, ok := in.(*ssa.Call); ok {
					if h := call.Call.StaticCallee(); isHelperOf(fn, h) && h != w.prepareClose {
						if idx, ok := startsCloseWhenActive(w, h); ok && idx < len(call.Call.Args) && isConstInt(call.Call.Args[idx], protoErr) {
							queued, left, active = true, true, true
						}
					}
				}
				if call, ok := in.(*ssa.Call); ok && isCallToFn(call, w.prepareClose) {
					if pc, ok := strip(call.Call.Args[1]).(*ssa.Call); ok && isCallToFn(pc, w.encodeClosePayload, w.encodeCloseCode) && isConstInt(pc.Call.Args[0], protoErr) {
						queued = true
					}
				}
				if st, ok := in.(*ssa.Store); ok {
					if fv, _ := fieldAddrOf(st.Addr); fv == w.state {
						if k, ok := constInt(st.Val); ok && k != w.stActive {
							left = true
						}
					}
				}
			}
			if !(queued && left && active) {
				bad = fmt.Sprintf("a path returning a verification error (%s) does not queue Close(1002) and leave StateActive (queued=%v left=%v activeTested=%v)", path, queued, left, active)
			}
		}
		c.check(n > 0 && bad == "", fn, "violation response", fn.Pos(), fmt.Sprintf("all %d erroring paths of an active stream queue Close(1002) and stop application writes", n), bad)
		// the violation is reported in every state: no path on which a check (verifyFrame / the handlers) returned an error
		// ends in a nil return
		swallowed := ""
		for _, path := range paths {
			ret := path.Ret()
			if ret == nil {
				continue
			}
			pi := newPathIndex(path)
			if pi.nilnessAt(ret.Results[0], len(pi.instrs)-1, false) != "nil" {
				continue
			}
			for _, l := range path.Lits {
				x, eq, ok := l.nilTest()
				if !ok || eq {
					continue
				}
				for _, leaf := range phiLeaves(resolveCell(path.eval(x, l.At))) {
					if call, ok := resolveCell(leaf).(*ssa.Call); ok && isCallToFn(call, w.verifyFrame, w.handleControl, w.handleData, route) {
						swallowed = path.String()
					}
				}
			}
		}
		c.check(swallowed == "", fn, "violation reported", fn.Pos(), "an error found by the checks is returned on every path", "handleFrame returns nil on a path on which a check reported a violation ("+swallowed+"): after the client started closing (or after a first violation) violating frames are delivered as data / to the control callback")
	}
	// who may report a framing violation: only the checks under handleFrame, so that the response above applies. The
	// decoder (or any other layer) returning one of these errors by-passes the Close(1002) / no-more-writes reaction.
	{
		allowed := map[*ssa.Function]bool{w.verifyFrame: true, w.handleControl: true, w.handleData: true, w.handleFrame: true, route: true}
		violationErrs := []string{"ErrNonZeroReservedBits", "ErrReservedOpcode", "ErrMaskedFramesFromServer", "ErrUnmaskedFramesFromClient", "ErrInvalidControlFrame", "ErrControlFrameTooBig"}
		n := 0
		for _, name := range violationErrs {
			g := p.GlobalVar(ws, name)
			for _, fn := range p.Funcs {
				if pk := fnTypesPkg(fn); pk == nil || pk.Path() != modPath+"/codec/websocket" {
					continue
				}
				top := fn
				for top.Parent() != nil {
					top = top.Parent()
				}
				if top.Name() == "init" || strings.HasPrefix(fnName(top), "(*codec/websocket.Mock") {
					continue
				}
				eachInstr(fn, func(in ssa.Instruction) {
					u, ok := in.(*ssa.UnOp)
					if !ok || !isLoadOfGlobal(u, g) {
						return
					}
					n++
					inTree := allowed[top] || allCallersSatisfy(p, top, 2, func(caller *ssa.Function) bool { return allowed[caller] })
					c.check(inTree, fn, "reports "+name, in.Pos(), "raised by the checks under handleFrame", name+" is raised outside the checks handleFrame runs: the error reaches the reader but the Close(1002) / refuse-further-writes reaction of handleFrame is by-passed")
				})
			}
		}
		if n == 0 {
			c.bad(w.handleFrame, "violation errors", w.handleFrame.Pos(), "no framing-violation error is raised anywhere (anchor moved)")
		}
	}

	// ------------------------------------------------------------------------------------------------ R4
	c.rule("C15-R4", "message-level rules present in NextMessage and asyncNextMessage: unexpected / expected continuation, message too big; erroring paths do not report success", 6)
	{
		errUnexp := p.GlobalVar(ws, "ErrUnexpectedContinuation")
		errExp := p.GlobalVar(ws, "ErrExpectedContinuation")
		errBig := p.GlobalVar(ws, "ErrMessageTooBig")
		nm := p.Method(ws, "Stream", "NextMessage")
		anm := p.Method(ws, "Stream", "asyncNextMessage")
		var twins []*ssa.Function
		twins = append(twins, nm)
		twins = append(twins, anm.AnonFuncs...)
		for _, fn := range twins {
			c.touch(fn)
			top := fn
			for top.Parent() != nil {
				top = top.Parent()
			}
			// blocks loading each error value
			// helperSite: for a block inside an unexported helper the reader calls (and whose result it uses), the call
			helperSite := map[*ssa.BasicBlock]*ssa.Call{}
			find := func(g *types.Var) []*ssa.BasicBlock {
				var out []*ssa.BasicBlock
				eachInstr(fn, func(in ssa.Instruction) {
					if v, ok := in.(ssa.Value); ok && isLoadOfGlobal(v, g) {
						out = append(out, in.Block())
					}
					call, ok := in.(*ssa.Call)
					if !ok || call.Referrers() == nil || len(*call.Referrers()) == 0 {
						return
					}
					if h := call.Call.StaticCallee(); isHelperOf(top, h) {
						eachInstr(h, func(hin ssa.Instruction) {
							if v, ok := hin.(ssa.Value); ok && isLoadOfGlobal(v, g) {
								out = append(out, hin.Block())
								helperSite[hin.Block()] = call
							}
						})
					}
				})
				return out
			}
			var flagOf func(l Lit, blk *ssa.BasicBlock) (bool, bool)
			flagOf = func(l Lit, blk *ssa.BasicBlock) (bool, bool) {
				// a literal on a plain boolean variable (parameter, phi, or load of a captured cell): the continuation flag
				switch x := l.Cond.(type) {
				case *ssa.Parameter:
					// inside a helper: the flag is what the reader passes for this parameter (possibly negated)
					if call := helperSite[blk]; call != nil {
						for i, prm := range x.Parent().Params {
							if prm == x && i < len(call.Call.Args) {
								arg, pos := strip(call.Call.Args[i]), l.Pos
								for {
									u, ok := arg.(*ssa.UnOp)
									if !ok || u.Op != token.NOT {
										break
									}
									arg, pos = strip(u.X), !pos
								}
								return flagOf(Lit{Cond: arg, Pos: pos}, nil)
							}
						}
						return false, false
					}
					return l.Pos, true
				case *ssa.Phi:
					return l.Pos, true
				case *ssa.UnOp:
					if x.Op == token.MUL {
						if cellOf(x.X) != nil || isFreeVar(x.X) {
							if b, ok := x.Type().Underlying().(*types.Basic); ok && b.Kind() == types.Bool {
								return l.Pos, true
							}
						}
					}
				}
				return false, false
			}
			check := func(g *types.Var, wantCont, wantFlag bool, what string) {
				good := false
				for _, b := range find(g) {
					contOK, flagOK := false, false
					for _, l := range guardsOf(b) {
						if _, pos, ok := callLit(l, isCont); ok && pos == wantCont {
							contOK = true
						}
						if v, ok := flagOf(l, b); ok && v == wantFlag {
							flagOK = true
						}
					}
					if contOK && flagOK {
						good = true
					}
				}
				c.check(good, fn, what, fn.Pos(), what+" is reported", "the rule '"+what+"' is missing: the frame sequence is delivered as if it were a well-formed message")
			}
			check(errUnexp, true, false, "continuation frame with no message in progress")
			check(errExp, false, true, "new data frame inside a fragmented message")
			// message too big: the block using ErrMessageTooBig is reached from tests (readBytes > maxMessageSize) and (n != PayloadLength)
			good := false
			for _, b := range find(errBig) {
				gt, ne := false, false
				for _, pr := range b.Preds {
					if len(pr.Instrs) == 0 {
						continue
					}
					ifi, ok := pr.Instrs[len(pr.Instrs)-1].(*ssa.If)
					if !ok {
						continue
					}
					bo, ok := ifi.Cond.(*ssa.BinOp)
					if !ok {
						continue
					}
					isMax := func(v ssa.Value) bool { return loadOfField(v, w.maxMsg) }
					// total > max  (either spelling)
					if op, _, _, ok := binCmpWhere(bo, isMax); ok && op == token.LSS && pr.Succs[0] == b {
						gt = true
					}
					if bo.Op == token.NEQ && pr.Succs[0] == b {
						for _, o := range []ssa.Value{bo.X, bo.Y} {
							if call, ok := strip(o).(*ssa.Call); ok && isCallToFn(call, w.payloadLen) {
								ne = true
							}
						}
					}
				}
				if gt && ne {
					good = true
				}
			}
			c.check(good, fn, "message too big", fn.Pos(), "size limit and truncation are reported", "the message size rule (total > maxMessageSize or payload did not fit the buffer) is missing or weakened: an oversized or truncated message is delivered as data")
			// ... and the total compared includes the fragment just copied
			fresh := false
			// (the comparison may live in the helper that appends a fragment and reports ErrMessageTooBig)
			scan := []*ssa.Function{fn}
			eachInstr(fn, func(in ssa.Instruction) {
				if call, ok := in.(*ssa.Call); ok {
					if h := call.Call.StaticCallee(); isHelperOf(top, h) && call.Referrers() != nil && len(*call.Referrers()) > 0 {
						scan = append(scan, h)
					}
				}
			})
			for _, sf := range scan {
				eachInstr(sf, func(in ssa.Instruction) {
					bo, ok := in.(*ssa.BinOp)
					if !ok {
						return
					}
					// max < total  <=>  total > max: orient with the limit on the left
					op0, _, tot, ok0 := binCmpWhere(bo, func(v ssa.Value) bool { return loadOfField(v, w.maxMsg) })
					if !ok0 || op0 != token.LSS {
						return
					}
					x := stripConv(tot)
					// blocking reader: total + copy(...)
					if add, ok := x.(*ssa.BinOp); ok && add.Op == token.ADD {
						for _, op := range []ssa.Value{add.X, add.Y} {
							if cc, ok := stripConv(op).(*ssa.Call); ok {
								if b, ok := cc.Call.Value.(*ssa.Builtin); ok && b.Name() == "copy" {
									fresh = true
								}
							}
						}
					}
					// asynchronous reader: a load of the captured total, after the store of total + copy(...)
					if u, ok := x.(*ssa.UnOp); ok && u.Op == token.MUL {
						eachInstr(fn, func(y ssa.Instruction) {
							st, ok := y.(*ssa.Store)
							if !ok || st.Addr != u.X || !dominatesInstr(st, u) {
								return
							}
							if add, ok := stripConv(st.Val).(*ssa.BinOp); ok && add.Op == token.ADD {
								for _, op := range []ssa.Value{add.X, add.Y} {
									if cc, ok := stripConv(op).(*ssa.Call); ok {
										if b, ok := cc.Call.Value.(*ssa.Builtin); ok && b.Name() == "copy" {
											fresh = true
										}
									}
								}
							}
						})
					}
				})
			}
			c.check(fresh, fn, "message size uses the new total", fn.Pos(), "the limit is applied to the total including the fragment just copied", "the message size limit is applied to the total before the current fragment is added: a message that exceeds the maximum only with its last fragment is delivered")
		}
	}

	// ------------------------------------------------------------------------------------------------ R5
	c.rule("C15-R5", "the decoder's frame size limit dominates its success return", 1)
	{
		dec := p.Method(ws, "FrameCodec", "Decode")
		maxF := p.Field(ws, "FrameCodec", "maxMessageSize")
		n := 0
		for _, r := range returnsOf(dec) {
			if !isNil(r.Results[1]) {
				continue
			}
			n++
			upper, lower := false, false
			for _, l := range guardsOf(r.Block()) {
				op, x, y, ok := l.cmpWhere(func(v ssa.Value) bool {
					call, ok := strip(v).(*ssa.Call)
					return ok && isCallToFn(call, w.payloadLen)
				})
				if !ok {
					continue
				}
				if call, ok := strip(x).(*ssa.Call); ok && isCallToFn(call, w.payloadLen) {
					if op == token.LEQ && loadOfField(y, maxF) {
						upper = true
					}
					if op == token.GEQ && isConstInt(y, 0) {
						lower = true
					}
				}
			}
			c.check(upper && lower, dec, "frame yielded", exitPos(r), "a frame is yielded only when 0 <= declared length <= maximum", "the decoder yields a frame without having bounded its declared payload length by the configured maximum (and below by zero)")
		}
		if n == 0 {
			c.bad(dec, "frame yielded", dec.Pos(), "Decode never succeeds")
		}
		// the limit is only as good as the length it is applied to: the accessor must hand the wire value through unmodified
		checkLengthTables(c, "C15")
	}
}

func isFreeVar(v ssa.Value) bool {
	_, ok := v.(*ssa.FreeVar)
	return ok
}

// callsByName: calls in fn whose static callee (possibly a generic instantiation) has the given name.
func callsByName(fn *ssa.Function, name string) []ssa.CallInstruction {
	var out []ssa.CallInstruction
	eachInstr(fn, func(in ssa.Instruction) {
		call, ok := in.(ssa.CallInstruction)
		if !ok {
			return
		}
		if callee := call.Common().StaticCallee(); callee != nil && callee.Name() == name {
			out = append(out, call)
		}
	})
	return out
}

// startsCloseWhenActive: every path of h either observes state != StateActive and does nothing to the stream, or
// observes state == StateActive, leaves that state and queues a close frame whose code is h's parameter idx.
func startsCloseWhenActive(w *wsAnchors, h *ssa.Function) (int, bool) {
	if h == nil || h.Blocks == nil {
		return 0, false
	}
	paths, overflow := enumPaths(h)
	if overflow || len(paths) == 0 {
		return 0, false
	}
	idx, starts := -1, 0
	for _, path := range paths {
		if path.Panics {
			continue
		}
		active, notActive := false, false
		for _, l := range path.Lits {
			if k, eq, ok := enumTest(l.Lit, w.state); ok && k == w.stActive {
				if eq {
					active = true
				} else {
					notActive = true
				}
			}
		}
		queued, left := false, false
		for _, in := range path.Instrs() {
			if call, ok := in.(*ssa.Call); ok && isCallToFn(call, w.prepareClose) {
				if pc, ok := strip(call.Call.Args[1]).(*ssa.Call); ok && isCallToFn(pc, w.encodeClosePayload, w.encodeCloseCode) {
					for i, q := range h.Params {
						if stripConv(pc.Call.Args[0]) == ssa.Value(q) {
							if idx >= 0 && idx != i {
								return 0, false
							}
							idx, queued = i, true
						}
					}
				}
			}
			if st, ok := in.(*ssa.Store); ok {
				if fv, _ := fieldAddrOf(st.Addr); fv == w.state {
					if k, ok := constInt(st.Val); ok && k != w.stActive {
						left = true
					}
				}
			}
		}
		switch {
		case active && queued && left:
			starts++
		case notActive && !queued && !left:
		default:
			return 0, false
		}
	}
	return idx, starts > 0 && idx >= 0
}
