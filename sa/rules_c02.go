package main

import (
	"fmt"
	"go/token"
	"go/types"

	"golang.org/x/tools/go/ssa"
)

func init() {
	register(&propertySpec{
		ID:    "C02",
		Title: "Byte-stream fidelity and the ReadAll/WriteAll contract",
		Explanation: "Decides for file/conn and AsyncAdapter: (R1) progress/offset agreement - the transfer is issued on b[progress:], the new progress is progress + the count " +
			"the transfer returned, that value (and no other) is what every completion and every re-schedule receives, the reactor field carrying progress across the poller is " +
			"stored from the value passed to schedule* and read back by the handler as the offset of the retry and as the count of an error completion, and an operation starts with " +
			"progress 0; (R2) success only when complete - every completion with a nil error constant is only reached when the transfer's error was nil and either the all-flag is clear " +
			"or progress == len(b); (R3) errno/EOF mapping - file.Read/Write map EAGAIN/EWOULDBLOCK to ErrWouldBlock and a zero count to io.EOF, every error return carries count 0, " +
			"a successful return carries the kernel's count; in the *Now functions ErrWouldBlock leads to schedule* and to no completion. " +
			"Not decided: that the bytes are the peer's bytes in order (kernel and runtime values); arbitrary io.ReadWriter under the adapter.",
		Run: runC02,
	})
	addMutants("C02",
		mutant{"read restarts at the beginning of the buffer", "file.go", "\tn, err := f.Read(b[readSoFar:])\n", "\tn, err := f.Read(b)\n", "C02-R1"},
		mutant{"completion reports only the last chunk", "file.go", "\t\tcb(nil, wroteSoFar)\n\t\treturn", "\t\tcb(nil, n)\n\t\treturn", "C02-R1"},
		mutant{"progress reset when re-arming", "async_adapter.go", "\ta.scheduleRead(readBytes, cb)\n}", "\ta.scheduleRead(0, cb)\n}", "C02-R1"},
		mutant{"handler retries from offset zero", "file.go", "\t\tr.file.asyncWriteNow(r.b, r.wroteSoFar, r.writeAll, r.cb)", "\t\tr.file.asyncWriteNow(r.b, 0, r.writeAll, r.cb)", "C02-R1"},
		mutant{"scheduled progress not recorded", "async_adapter.go", "\ta.writeReactor.wroteSoFar = writtenBytes\n", "", "C02-R1"},
		mutant{"ReadAll succeeds on a short read", "file.go", "if err == nil && !(readAll && readSoFar != len(b)) {", "if err == nil {", "C02-R2"},
		mutant{"WriteAll complete test weakened", "async_adapter.go", "if err == nil && !(writeAll && writtenBytes != len(b)) {", "if err == nil && !(writeAll && writtenBytes > len(b)) {", "C02-R2"},
		mutant{"error return carries a count", "file.go", "\t\treturn 0, err\n\t}\n\n\tif n == 0 {\n\t\treturn 0, io.EOF\n\t}\n\n\tif n < 0 {\n\t\tn = 0\n\t}\n\n\treturn n, err\n}\n\nfunc (f *file) Write(", "\t\treturn n, err\n\t}\n\n\tif n == 0 {\n\t\treturn 0, io.EOF\n\t}\n\n\tif n < 0 {\n\t\tn = 0\n\t}\n\n\treturn n, err\n}\n\nfunc (f *file) Write(", "C02-R3"},
		mutant{"would-block completes with an error", "file.go", "\tif err == nil || err == sonicerrors.ErrWouldBlock {\n\t\t// err == nil: a short write, the kernel took only part of the buffer. Continue when it is writable again.\n\t\tf.scheduleWrite(wroteSoFar, cb)\n\t} else {\n\t\tcb(err, wroteSoFar)\n\t}", "\tif err == nil {\n\t\tf.scheduleWrite(wroteSoFar, cb)\n\t} else {\n\t\tcb(err, wroteSoFar)\n\t}", "C02-R3"},
		mutant{"short read completes ReadAll with a partial count", "file.go", "\tif err == nil || err == sonicerrors.ErrWouldBlock {\n\t\t// If readAll == true then read some without errors (err == nil: a short read, the rest has not arrived yet).", "\tif err == sonicerrors.ErrWouldBlock {\n\t\t// If readAll == true then read some without errors (err == nil: a short read, the rest has not arrived yet).", "C02-R2"},
		mutant{"adapter read-all re-arms with the wrong flag semantics", "async_adapter.go", "func (a *AsyncAdapter) AsyncReadAll(b []byte, cb AsyncCallback) {\n\ta.readReactor.init(b, true, cb)", "func (a *AsyncAdapter) AsyncReadAll(b []byte, cb AsyncCallback) {\n\ta.readReactor.init(b, false, cb)", "C02-R1|(*sonic.AsyncAdapter).AsyncReadAll"},
	)
}

func runC02(c *Ctx) {
	p := c.P
	errWouldBlock := p.GlobalVar("sonicerrors", "ErrWouldBlock")
	eofVar := p.extPkg("io").Scope().Lookup("EOF").(*types.Var)

	type xfer struct {
		owner, now, sched, handlerType, handler, progField, allField string
		isFile                                                       bool
	}
	specs := []xfer{
		{"file", "asyncReadNow", "scheduleRead", "fileReadReactor", "onRead", "readSoFar", "readAll", true},
		{"file", "asyncWriteNow", "scheduleWrite", "fileWriteReactor", "onWrite", "wroteSoFar", "writeAll", true},
		{"AsyncAdapter", "asyncReadNow", "scheduleRead", "asyncAdapterReadReactor", "onRead", "readSoFar", "readAll", false},
		{"AsyncAdapter", "asyncWriteNow", "scheduleWrite", "asyncAdapterWriteReactor", "onWrite", "wroteSoFar", "writeAll", false},
	}

	// ------------------------------------------------------------------------------------------------ R1
	c.rule("C02-R1", "progress/offset agreement across inline attempts, re-scheduling and the reactor", 24)
	type nowInfo struct {
		fn        *ssa.Function
		xferCall  ssa.CallInstruction
		progParam *ssa.Parameter
		newProg   ssa.Value
		errv      ssa.Value
		bufParam  *ssa.Parameter
		allParam  *ssa.Parameter
	}
	var nows []nowInfo
	roleSched, roleNow := map[*ssa.Function]bool{}, map[*ssa.Function]bool{} // the park functions and the attempt functions, by role
	for _, sp := range specs {
		now := p.Method("sonic", sp.owner, sp.now)
		handler := p.Method("sonic", sp.handlerType, sp.handler)
		sched := p.TryMethod("sonic", sp.owner, sp.sched)
		if sched == nil {
			// found by role: the function of the owner that installs this reactor's handler (the two directions may share one)
			slotSet := p.Method("internal", "Slot", "Set").Object().(*types.Func)
			for _, fn := range p.Funcs {
				if pk, tn := recvTypeName(fn); pk != modPath || tn != sp.owner || fn.Parent() != nil {
					continue
				}
				for _, call := range callsTo(fn, slotSet) {
					if a := call.Common().Args; len(a) == 3 {
						if hf, _, _ := handlerFunction(p, a[2]); hf == handler {
							sched = fn
						}
					}
				}
			}
			if sched == nil {
				infra("anchor: the function of sonic.%s that installs %s.%s not found", sp.owner, sp.handlerType, sp.handler)
			}
		}
		roleSched[sched], roleNow[now] = true, true
		schedCountIdx := 1
		for i, prm := range sched.Params {
			if b, ok := prm.Type().Underlying().(*types.Basic); ok && b.Kind() == types.Int {
				schedCountIdx = i
			}
		}
		progF := p.Field("sonic", sp.handlerType, sp.progField)
		bF := p.Field("sonic", sp.handlerType, "b")
		allF := p.Field("sonic", sp.handlerType, sp.allField)
		initM := p.Method("sonic", sp.handlerType, "init")

		// the transfer: a call whose argument is a slice of the buffer parameter
		var info nowInfo
		info.fn = now
		eachInstr(now, func(in ssa.Instruction) {
			call, ok := in.(ssa.CallInstruction)
			if !ok || info.xferCall != nil {
				return
			}
			args := call.Common().Args
			for _, a := range args {
				sl, ok := stripConv(a).(*ssa.Slice)
				if !ok {
					if prm, ok := stripConv(a).(*ssa.Parameter); ok && isByteSlice(prm.Type()) && (call.Common().IsInvoke() || call.Common().StaticCallee() != nil) {
						// whole buffer passed: offset missing
						if name := calleeName(call); name == "Read" || name == "Write" {
							info.xferCall = call
							info.bufParam = prm
						}
					}
					continue
				}
				prm, ok := stripConv(sl.X).(*ssa.Parameter)
				if !ok || !isByteSlice(prm.Type()) {
					continue
				}
				info.xferCall = call
				info.bufParam = prm
				if lp, ok := stripConv(sl.Low).(*ssa.Parameter); ok && sl.High == nil {
					info.progParam = lp
				}
			}
		})
		if info.xferCall == nil {
			c.bad(now, "transfer", now.Pos(), "%s does not transfer into/out of the caller's buffer", sp.now)
			continue
		}
		c.check(info.progParam != nil, now, "transfer offset", info.xferCall.Pos(), "the transfer is issued on b[progress:]", "the transfer is not issued on b[progress:]: after a partial transfer the next one overwrites / re-sends the beginning of the buffer")
		if info.progParam == nil {
			continue
		}
		nres := extractOfInstr(info.xferCall.(ssa.Instruction), 0)
		info.errv = extractOfInstr(info.xferCall.(ssa.Instruction), 1)
		// newProg = progParam + n
		eachInstr(now, func(in ssa.Instruction) {
			bo, ok := in.(*ssa.BinOp)
			if !ok || bo.Op != token.ADD {
				return
			}
			if (stripConv(bo.X) == ssa.Value(info.progParam) && stripConv(bo.Y) == nres) || (stripConv(bo.Y) == ssa.Value(info.progParam) && stripConv(bo.X) == nres) {
				info.newProg = bo
			}
		})
		c.check(info.newProg != nil, now, "progress update", info.xferCall.Pos(), "progress advances by the count the transfer returned", "progress is not advanced by exactly the count the transfer returned")
		if info.newProg == nil {
			continue
		}
		for _, prm := range now.Params {
			if b, ok := prm.Type().Underlying().(*types.Basic); ok && b.Kind() == types.Bool {
				info.allParam = prm
			}
		}
		// every completion / re-schedule receives newProg
		eachInstr(now, func(in ssa.Instruction) {
			call, ok := in.(ssa.CallInstruction)
			if !ok || in == info.xferCall.(ssa.Instruction) {
				return
			}
			var count ssa.Value
			what := ""
			if isDynamicFuncCall(call) && len(call.Common().Args) == 2 {
				count, what = call.Common().Args[1], "completion"
			} else if isCallToFn(in, sched) && schedCountIdx < len(call.Common().Args) {
				count, what = call.Common().Args[schedCountIdx], "re-schedule"
			}
			if what == "" {
				return
			}
			c.check(stripConv(count) == info.newProg, now, what+" count", in.Pos(), "receives progress + n", "the "+what+" receives a count other than the running total (progress + n): the callback's count differs from the bytes moved, or a partial transfer restarts from a wrong offset")
		})
		nows = append(nows, info)

		// schedule*: reactor field := parameter; error completions carry the parameter (or 0 for the closed case)
		{
			var progPrm *ssa.Parameter
			for _, prm := range sched.Params {
				if b, ok := prm.Type().Underlying().(*types.Basic); ok && b.Kind() == types.Int {
					progPrm = prm
				}
			}
			stored := false
			for _, a := range storesTo(sched, progF) {
				if progPrm != nil && stripConv(a.Val) == ssa.Value(progPrm) {
					stored = true
				}
			}
			c.check(stored, sched, "record progress", sched.Pos(), "the reactor records the progress it is scheduled with", "schedule* does not store the progress it was given into the reactor: when the descriptor becomes ready the handler resumes from a stale offset")
		}
		// handler: retry with (r.b, r.progress, r.all, r.cb); error completion with r.progress
		{
			n := 0
			for _, call := range callsToFn(handler, now) {
				n++
				a := call.Common().Args
				good := len(a) == 5 && loadOfField(a[1], bF) && loadOfField(a[2], progF) && loadOfField(a[3], allF)
				c.check(good, handler, "retry", call.Pos(), "the handler retries with the recorded buffer, progress and all-flag", "the handler does not retry with the reactor's buffer, recorded progress and all-flag")
			}
			if n == 0 {
				c.bad(handler, "retry", handler.Pos(), "the handler never retries the transfer")
			}
			eachInstr(handler, func(in ssa.Instruction) {
				call, ok := in.(ssa.CallInstruction)
				if ok && isDynamicFuncCall(call) && len(call.Common().Args) == 2 {
					c.check(loadOfField(call.Common().Args[1], progF), handler, "error completion count", in.Pos(), "an error completion reports the bytes moved so far", "the handler's error completion does not report the recorded progress")
				}
			})
		}
		// init resets progress; entry points pass 0 (and the right all-flag)
		{
			zero := false
			for _, a := range storesDeep(initM, progF) {
				if isConstInt(a.Val, 0) {
					zero = true
				}
			}
			c.check(zero, initM, "progress starts at 0", initM.Pos(), "a new operation starts with progress 0", "a new operation does not start with progress 0")
		}
	}
	// entry points: first attempt / schedule with progress 0, all-flag consistent with the API name
	for _, owner := range []string{"file", "AsyncAdapter"} {
		for _, api := range []struct {
			name string
			all  bool
		}{{"AsyncRead", false}, {"AsyncReadAll", true}, {"AsyncWrite", false}, {"AsyncWriteAll", true}} {
			fn := p.Method("sonic", owner, api.name)
			// follow one level of delegation (file.AsyncRead -> asyncRead)
			flagOK, zeroOK := false, true
			var visit func(f *ssa.Function, allVal ssa.Value, depth int)
			visit = func(f *ssa.Function, allVal ssa.Value, depth int) {
				eachInstr(f, func(in ssa.Instruction) {
					call, ok := in.(ssa.CallInstruction)
					if !ok {
						return
					}
					callee := call.Common().StaticCallee()
					if callee == nil {
						return
					}
					args := call.Common().Args
					for i, a := range args {
						if i >= len(callee.Params) {
							continue
						}
						prm := callee.Params[i]
						if b, ok := prm.Type().Underlying().(*types.Basic); ok && b.Kind() == types.Bool {
							v := a
							if pp, ok := stripConv(a).(*ssa.Parameter); ok && allVal != nil && pp.Parent() == f {
								v = allVal
							}
							if isConstBool(v, api.all) && (pinName(callee) == "init" || pinName(callee) == "asyncRead" || pinName(callee) == "asyncWrite") {
								flagOK = true
							}
							if depth == 0 && (pinName(callee) == "asyncRead" || pinName(callee) == "asyncWrite") {
								visit(callee, v, depth+1)
							}
						}
						if b, ok := prm.Type().Underlying().(*types.Basic); ok && b.Kind() == types.Int {
							if roleNow[callee] || roleSched[callee] {
								if !isConstInt(a, 0) {
									zeroOK = false
								}
							}
						}
					}
				})
			}
			visit(fn, nil, 0)
			c.check(flagOK && zeroOK, fn, "entry", fn.Pos(), fmt.Sprintf("starts at progress 0 with all=%v", api.all), fmt.Sprintf("%s does not start its operation with progress 0 and all-flag %v: %s", api.name, api.all, map[bool]string{true: "a partial transfer is reported as complete", false: "a partial transfer is never reported"}[api.all]))
		}
	}

	// ------------------------------------------------------------------------------------------------ R2
	c.rule("C02-R2", "success is reported only when the transfer succeeded and (all-flag clear or progress == len(b))", 4)
	for _, info := range nows {
		fn := info.fn
		paths, overflow := enumPaths(fn)
		if overflow {
			c.unproven(fn, "paths", fn.Pos(), "too many paths")
			continue
		}
		n := 0
		bad := ""
		for _, path := range paths {
			for _, in := range path.Instrs() {
				call, ok := in.(ssa.CallInstruction)
				if !ok || !isDynamicFuncCall(call) || len(call.Common().Args) != 2 {
					continue
				}
				// a completion that reports success: the error argument is the nil constant, or it is the transfer's error
				// on a path on which that error was observed to be nil
				errArgNil := isNil(call.Common().Args[0])
				if !errArgNil && strip(call.Common().Args[0]) == info.errv {
					for _, l := range path.Lits {
						if x, eq, ok := l.nilTest(); ok && eq && strip(x) == info.errv {
							errArgNil = true
						}
					}
				}
				if !errArgNil {
					continue
				}
				n++
				errNil, allClear, complete := false, false, false
				for _, l := range path.Lits {
					if x, eq, ok := l.nilTest(); ok && eq && strip(x) == info.errv {
						errNil = true
					}
					if info.allParam != nil && l.Cond == ssa.Value(info.allParam) && !l.Pos {
						allClear = true
					}
					op, x, y, ok := l.cmp()
					if ok && op == token.EQL {
						isLen := func(v ssa.Value) bool {
							lc, ok := stripConv(v).(*ssa.Call)
							if !ok {
								return false
							}
							b, ok := lc.Call.Value.(*ssa.Builtin)
							return ok && b.Name() == "len" && stripConv(lc.Call.Args[0]) == ssa.Value(info.bufParam)
						}
						if (stripConv(x) == info.newProg && isLen(y)) || (stripConv(y) == info.newProg && isLen(x)) {
							complete = true
						}
					}
					// the same statement on the remaining part: n == / >= len(b[old:]) with progress = old + n
					if ok && (op == token.EQL || op == token.GEQ || op == token.LEQ) {
						remLen := func(v ssa.Value) ssa.Value {
							lc, ok := stripConv(v).(*ssa.Call)
							if !ok {
								return nil
							}
							b, ok := lc.Call.Value.(*ssa.Builtin)
							if !ok || b.Name() != "len" {
								return nil
							}
							sl, ok := stripConv(lc.Call.Args[0]).(*ssa.Slice)
							if !ok || stripConv(sl.X) != ssa.Value(info.bufParam) || sl.High != nil || sl.Low == nil {
								return nil
							}
							return stripConv(sl.Low)
						}
						sumsTo := func(old, n ssa.Value) bool {
							bo, ok := stripConv(info.newProg).(*ssa.BinOp)
							if !ok || bo.Op != token.ADD {
								return false
							}
							a, b := stripConv(bo.X), stripConv(bo.Y)
							return (a == old && b == stripConv(n)) || (b == old && a == stripConv(n))
						}
						if old := remLen(y); old != nil && sumsTo(old, x) && (op == token.EQL || op == token.GEQ) {
							complete = true
						}
						if old := remLen(x); old != nil && sumsTo(old, y) && (op == token.EQL || op == token.LEQ) {
							complete = true
						}
					}
				}
				if !(errNil && (allClear || complete)) {
					bad = fmt.Sprintf("a nil-error completion is reachable with transfer-ok=%v all-flag-clear=%v complete=%v (%s)", errNil, allClear, complete, path)
				}
			}
		}
		c.check(n > 0 && bad == "", fn, "success completion", fn.Pos(), "success only after a successful transfer that is complete (or not an *All operation)", "success can be reported for an incomplete *All transfer or after a failed transfer: "+bad)
	}

	// ------------------------------------------------------------------------------------------------ R3
	c.rule("C02-R3", "errno/EOF mapping of file.Read/Write; ErrWouldBlock re-schedules instead of completing", 10)
	for _, name := range []string{"Read", "Write"} {
		fn := p.Method("sonic", "file", name)
		var sc *ssa.Call
		eachInstr(fn, func(in ssa.Instruction) {
			if call, ok := in.(*ssa.Call); ok && call.Call.StaticCallee() != nil && call.Call.StaticCallee().Pkg != nil && call.Call.StaticCallee().Pkg.Pkg.Path() == "syscall" {
				sc = call
			}
		})
		if sc == nil {
			c.bad(fn, "syscall", fn.Pos(), "no syscall in file.%s", name)
			continue
		}
		nres, eres := extractOf(sc, 0), extractOf(sc, 1)
		wbAgain, wbWould, eofOK, okCount := false, false, false, false
		errZero := true
		for _, r := range returnsOf(fn) {
			cnt, ev := r.Results[0], r.Results[1]
			if isLoadOfGlobal(ev, errWouldBlock) {
				// reached through EAGAIN or EWOULDBLOCK: the block has two predecessors (||)
				for _, pr := range r.Block().Preds {
					if l, ok := edgeLit(pr, r.Block()); ok {
						op, x, y, ok := l.cmp()
						if ok && op == token.EQL && stripConv(x) == eres {
							if isErrnoConst(y, "EAGAIN") {
								wbAgain = true
							}
							if isErrnoConst(y, "EWOULDBLOCK") {
								wbWould = true
							}
						}
					}
				}
				for _, l := range guardsOf(r.Block()) {
					op, x, y, ok := l.cmp()
					if ok && op == token.EQL && stripConv(x) == eres && (isErrnoConst(y, "EAGAIN") || isErrnoConst(y, "EWOULDBLOCK")) {
						wbAgain, wbWould = true, true // same value on Linux
					}
				}
			}
			if isLoadOfGlobal(ev, eofVar) {
				for _, l := range guardsOf(r.Block()) {
					op, x, y, ok := l.cmp()
					if ok && op == token.EQL && stripConv(x) == nres && isConstInt(y, 0) {
						eofOK = true
					}
				}
			}
			if !isNil(ev) && !(stripConv(ev) == eres && false) {
				// an error return (constant error, or the syscall error on its non-nil side)
				isErrRet := isLoadOfGlobal(ev, errWouldBlock) || isLoadOfGlobal(ev, eofVar)
				for _, l := range guardsOf(r.Block()) {
					if x, eq, ok := l.nilTest(); ok && !eq && stripConv(x) == eres {
						isErrRet = true
					}
				}
				if isErrRet && !isConstInt(cnt, 0) {
					errZero = false
				}
			}
			// success return: count derives from the syscall count
			for _, l := range guardsOf(r.Block()) {
				if x, eq, ok := l.nilTest(); ok && eq && stripConv(x) == eres {
					for _, leaf := range phiLeaves(cnt) {
						if stripConv(leaf) == nres {
							okCount = true
						}
					}
				}
			}
		}
		c.check(wbAgain && wbWould, fn, "would-block", fn.Pos(), "EAGAIN and EWOULDBLOCK are mapped to ErrWouldBlock", "EAGAIN/EWOULDBLOCK are not both mapped to ErrWouldBlock: a would-block in the middle of a ReadAll/WriteAll surfaces as an error instead of re-arming")
		c.check(eofOK, fn, "zero count", fn.Pos(), "a zero count is mapped to io.EOF", "a zero-byte transfer is not mapped to io.EOF: a closed peer makes ReadAll spin / report success with 0 bytes")
		c.check(errZero, fn, "error count", fn.Pos(), "error returns carry count 0", "an error return carries a non-zero (possibly negative) count: the completion count exceeds the bytes transferred")
		c.check(okCount, fn, "success count", fn.Pos(), "the success return carries the kernel's count", "the count returned on success is not the kernel's count")
	}
	for _, info := range nows {
		if pk, tn := recvTypeName(info.fn); pk != modPath || tn != "file" {
			continue
		}
		fn := info.fn
		good := true
		noCb := true
		nWB := 0
		paths, _ := enumPaths(fn)
		for _, path := range paths {
			isWB := false
			for _, l := range path.Lits {
				op, x, y, ok := l.cmp()
				if ok && op == token.EQL && ((stripConv(x) == info.errv && isLoadOfGlobal(y, errWouldBlock)) || (stripConv(y) == info.errv && isLoadOfGlobal(x, errWouldBlock))) {
					isWB = true
				}
			}
			if !isWB {
				continue
			}
			nWB++
			sched := false
			for _, in := range path.Instrs() {
				call, ok := in.(ssa.CallInstruction)
				if !ok {
					continue
				}
				if callee := call.Common().StaticCallee(); callee != nil && roleSched[callee] {
					sched = true
				}
				if isDynamicFuncCall(call) {
					noCb = false
				}
			}
			if !sched {
				good = false
			}
		}
		if nWB == 0 {
			good = false
		}
		c.check(good && noCb, fn, "would-block re-arms", fn.Pos(), "ErrWouldBlock schedules the operation and completes nothing", "on ErrWouldBlock the operation is completed (with an error) instead of being scheduled: a ReadAll/WriteAll fails as soon as the kernel buffer is empty/full")
	}
}

func isByteSlice(t types.Type) bool {
	s, ok := t.Underlying().(*types.Slice)
	if !ok {
		return false
	}
	b, ok := s.Elem().Underlying().(*types.Basic)
	return ok && b.Kind() == types.Byte
}

func calleeName(call ssa.CallInstruction) string {
	if call.Common().IsInvoke() {
		return call.Common().Method.Name()
	}
	if callee := call.Common().StaticCallee(); callee != nil {
		return callee.Name()
	}
	return ""
}
