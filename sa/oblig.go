package main

import (
	"bufio"
	"crypto/sha1"
	"encoding/json"
	"fmt"
	"go/token"
	"os"
	"path/filepath"
	"sort"
	"strings"
	"time"

	"golang.org/x/tools/go/ssa"
)

// Obligation is one instance of one rule: a construct of the program on which the rule was evaluated.
type Obligation struct {
	Property string `json:"property"`
	Rule     string `json:"rule"`
	Key      string `json:"key"` // rule|function|construct|ordinal - never a line number
	Pos      string `json:"pos"` // informational
	Status   string `json:"status"`
	Detail   string `json:"detail,omitempty"`
}

const (
	stDischarged = "discharged"
	stViolated   = "violated"
	stUnproven   = "unproven"
	stKnown      = "known-finding"
)

// RuleInfo documents a rule in the evidence file.
type RuleInfo struct {
	ID        string `json:"id"`
	Text      string `json:"text"`
	MinInst   int    `json:"min_instances"` // frozen minimum number of instances (vacuity guard)
	Instances int    `json:"instances"`
}

// Ctx is what a property's rules write to.
type Ctx struct {
	P        *Prog
	Prop     string
	Obls     []*Obligation
	Rules    []*RuleInfo
	keyCount map[string]int
	cur      *RuleInfo
	Analysed map[string]bool // functions looked at
	Notes    []string
}

func newCtx(p *Prog, prop string) *Ctx {
	return &Ctx{P: p, Prop: prop, keyCount: map[string]int{}, Analysed: map[string]bool{}}
}

// rule starts a rule; min is the number of instances confirmed by reading the pinned tree.
func (c *Ctx) rule(id, text string, min int) {
	c.cur = &RuleInfo{ID: id, Text: text, MinInst: min}
	c.Rules = append(c.Rules, c.cur)
}

func (c *Ctx) touch(fn *ssa.Function) {
	if fn != nil {
		c.Analysed[fnName(fn)] = true
	}
}

func (c *Ctx) add(status string, fn *ssa.Function, construct string, pos token.Pos, format string, args ...any) *Obligation {
	if c.cur == nil {
		infra("obligation outside a rule")
	}
	c.touch(fn)
	base := c.cur.ID + "|" + fnName(fn) + "|" + construct
	c.keyCount[base]++
	key := fmt.Sprintf("%s|%d", base, c.keyCount[base])
	o := &Obligation{Property: c.Prop, Rule: c.cur.ID, Key: key, Pos: c.P.Pos(pos), Status: status,
		Detail: fmt.Sprintf(format, args...)}
	c.Obls = append(c.Obls, o)
	c.cur.Instances++
	return o
}

func (c *Ctx) ok(fn *ssa.Function, construct string, pos token.Pos, format string, args ...any) {
	c.add(stDischarged, fn, construct, pos, format, args...)
}

func (c *Ctx) bad(fn *ssa.Function, construct string, pos token.Pos, format string, args ...any) {
	c.add(stViolated, fn, construct, pos, format, args...)
}

func (c *Ctx) unproven(fn *ssa.Function, construct string, pos token.Pos, format string, args ...any) {
	c.add(stUnproven, fn, construct, pos, format, args...)
}

// check records discharged or violated depending on cond.
func (c *Ctx) check(cond bool, fn *ssa.Function, construct string, pos token.Pos, okMsg, badMsg string) bool {
	if cond {
		c.ok(fn, construct, pos, "%s", okMsg)
	} else {
		c.bad(fn, construct, pos, "%s", badMsg)
	}
	return cond
}

// ---------------------------------------------------------------------------------------------------------------------
// Known findings
// ---------------------------------------------------------------------------------------------------------------------

type Finding struct {
	Status   string `json:"status"` // known | fixed
	Property string `json:"property"`
	Key      string `json:"key"`
	Commit   string `json:"commit,omitempty"`
	What     string `json:"what"`
}

func loadFindings(path string) []Finding {
	f, err := os.Open(path)
	if err != nil {
		return nil
	}
	defer f.Close()
	var out []Finding
	sc := bufio.NewScanner(f)
	sc.Buffer(make([]byte, 1<<20), 1<<20)
	for sc.Scan() {
		line := strings.TrimSpace(sc.Text())
		if line == "" || strings.HasPrefix(line, "#") {
			continue
		}
		var fd Finding
		if err := json.Unmarshal([]byte(line), &fd); err != nil {
			infra("known_findings: bad line %q: %v", line, err)
		}
		out = append(out, fd)
	}
	return out
}

// ---------------------------------------------------------------------------------------------------------------------
// Evidence and verdict
// ---------------------------------------------------------------------------------------------------------------------

type propertySpec struct {
	ID          string
	Title       string
	Explanation string // what is decided / not decided
	Run         func(c *Ctx)
	Assumptions []string
}

type runResult struct {
	Violations []*Obligation
	Known      []*Obligation
	InfraErr   string
	Ctx        *Ctx
}

// runProperty evaluates the rules of one property on a loaded program.
func runProperty(p *Prog, spec *propertySpec, findings []Finding) (res runResult) {
	c := newCtx(p, spec.ID)
	res.Ctx = c
	func() {
		defer func() {
			if r := recover(); r != nil {
				if ie, ok := r.(infraError); ok {
					res.InfraErr = ie.msg
					return
				}
				res.InfraErr = fmt.Sprintf("checker panic: %v", r)
				if os.Getenv("SONICSA_DEBUG") != "" {
					panic(r)
				}
			}
		}()
		spec.Run(c)
	}()
	if res.InfraErr != "" {
		return
	}
	vacuous := ""
	for _, r := range c.Rules {
		// the frozen count is what was confirmed on the pinned tree; a refactoring may legitimately merge duplicated
		// constructs (two identical closures into one helper), so the guard trips only when fewer than 40% are left
		if r.Instances*10 < r.MinInst*4 && vacuous == "" {
			vacuous = fmt.Sprintf("rule %s matched %d instances, fewer than the %d confirmed on the pinned tree: an anchor moved and the rule would pass vacuously",
				r.ID, r.Instances, r.MinInst)
		}
	}
	defer func() {
		// a violated obligation is reported as such; vacuity only matters when nothing else was found
		if len(res.Violations) == 0 && vacuous != "" {
			res.InfraErr = vacuous
		}
	}()
	known := map[string]Finding{}
	for _, f := range findings {
		if f.Status == "known" && f.Property == spec.ID {
			known[f.Key] = f
		}
	}
	for _, o := range c.Obls {
		if o.Status == stViolated || o.Status == stUnproven {
			if f, ok := known[o.Key]; ok {
				o.Status = stKnown
				o.Detail += " [known finding: " + f.What + "]"
				res.Known = append(res.Known, o)
				continue
			}
			res.Violations = append(res.Violations, o)
		}
	}
	return
}

func keyHash(k string) string {
	h := sha1.Sum([]byte(k))
	return fmt.Sprintf("%x", h[:6])
}

func writeJSON(path string, v any) error {
	if err := os.MkdirAll(filepath.Dir(path), 0o755); err != nil {
		return err
	}
	b, err := json.MarshalIndent(v, "", " ")
	if err != nil {
		return err
	}
	return os.WriteFile(path, append(b, '\n'), 0o644)
}

type selftestSummary struct {
	Mutants  int      `json:"mutants_applied"`
	Killed   int      `json:"mutants_killed"`
	Skipped  int      `json:"mutants_skipped_text_not_found"`
	Survived []string `json:"mutants_survived,omitempty"`
	Details  []string `json:"details,omitempty"`
}

func writeEvidence(verifDir string, spec *propertySpec, tier string, seed int64, configs []string, results []runResult,
	wall time.Duration, self *selftestSummary) error {
	obls, disch, viol, knownN := 0, 0, 0, 0
	var samples []any
	var rules []*RuleInfo
	funcs := map[string]bool{}
	nonDis := []any{}
	for ci, r := range results {
		if r.Ctx == nil {
			continue
		}
		for f := range r.Ctx.Analysed {
			funcs[f] = true
		}
		if ci == 0 {
			rules = r.Ctx.Rules
		}
		for _, o := range r.Ctx.Obls {
			obls++
			switch o.Status {
			case stDischarged:
				disch++
			case stKnown:
				knownN++
			default:
				viol++
			}
			if o.Status != stDischarged {
				nonDis = append(nonDis, map[string]any{"config": configs[ci], "obligation": o})
			}
		}
	}
	// a deterministic spread of discharged obligations as samples
	if len(results) > 0 && results[0].Ctx != nil {
		all := results[0].Ctx.Obls
		step := len(all)/12 + 1
		for i := 0; i < len(all); i += step {
			samples = append(samples, all[i])
		}
	}
	samples = append(samples, nonDis...)
	if len(samples) == 0 {
		samples = append(samples, "no obligations were generated")
	}
	fl := make([]string, 0, len(funcs))
	for f := range funcs {
		fl = append(fl, f)
	}
	sort.Strings(fl)
	p := (*Prog)(nil)
	if len(results) > 0 && results[0].Ctx != nil {
		p = results[0].Ctx.P
	}
	cov := map[string]any{
		"explanation":    spec.Explanation,
		"obligations":    obls,
		"discharged":     disch,
		"known_findings": knownN,
		"rules":          rules,
		"samples":        samples,
		"checker_cmd":    fmt.Sprintf("/verif/bin/sonicsa check -p %s -tier %s", spec.ID, tier),
		"trusted_base": []string{
			"go/types and go/ssa of golang.org/x/tools v0.50.0 (vendored), Go 1.26.8 front end",
			"the frozen reference tables in the checker (RFC 6455 framing constants and close codes, Linux IP_* option numbers, epoll HUP/ERR semantics)",
			"functions outside the ten analysed packages (syscall, net/http, ...) behave as documented",
		},
		"build_configurations": configs,
		"functions_examined":   fl,
	}
	if p != nil {
		cov["program"] = map[string]any{"packages": len(p.Pkgs), "source_files": p.nFiles, "functions_with_bodies": len(p.Funcs), "operand_pairs_canonicalised": p.nCanon}
	}
	if self != nil {
		cov["self_validation"] = self
	}
	ev := map[string]any{
		"property_id": spec.ID,
		"tier":        tier,
		"seed":        seed,
		"level":       "other",
		"coverage":    cov,
		"assumptions": append([]string{
			"static necessary-condition analysis: the rules decide structural clauses of the property on every path of the analysed functions; they do not execute sonic and do not decide value-level or timing clauses (listed in the explanation)",
		}, spec.Assumptions...),
		"wall_s":     wall.Seconds(),
		"violations": viol,
	}
	return writeJSON(filepath.Join(verifDir, "evidence", spec.ID+".json"), ev)
}
