package main

import (
	"fmt"
	"go/token"
	"go/types"
	"strings"

	"golang.org/x/tools/go/ssa"
)

func init() {
	register(&propertySpec{
		ID:    "C01",
		Title: "Exactly-once completion of every asynchronous operation",
		Explanation: "Decides with a counting dataflow over every CFG path and interprocedural summaries (least fixpoint): (R1) every function of " +
			"file/conn, AsyncAdapter, listener, packetConn, UDPPeer and ByteBuffer that receives a completion callback discharges it exactly " +
			"once on every terminating path - by invoking it, by handing it to a callee that does, or by parking it (success edge of " +
			"SetRead/SetWrite with a handler for that direction installed before); (R2) every handler installed with Slot.Set discharges the " +
			"parked callback exactly once on every path; (R2b) arming: an operation whose handler is a reactor method stores its own callback " +
			"in the reactor before it can be parked; (R3) in the poll loop every handler invocation is guarded by a fresh read of the slot's " +
			"interest mask and-ed with the kernel mask and the direction flag (stale batch entries are skipped) and preceded by the " +
			"removal of that interest (one-shot); (R4) Cancel removes the interest before calling the continuation, only when it is " +
			"registered, with a non-nil error; Close removes both interests before closing the descriptor; (R5) hang-up/error events " +
			"are folded into the registered directions before dispatch. Not decided: that the kernel reports readiness, peer behaviour, " +
			"liveness of the loop, user code starting two reads on one object.",
		Run: runC01,
	})
	addMutants("C01",
		mutant{"cancel completes the write handler twice", "file.go",
			"\t\tf.slot.Handlers[internal.WriteEvent](err)\n\t}\n}\n\nfunc (f *file) RawFd", "\t\tf.slot.Handlers[internal.WriteEvent](err)\n\t\tf.slot.Handlers[internal.WriteEvent](err)\n\t}\n}\n\nfunc (f *file) RawFd", "C01-R4"},
		mutant{"adapter write reactor without back-pointer", "async_adapter.go",
			"\t\ta.writeReactor = asyncAdapterWriteReactor{adapter: a}", "\t\ta.writeReactor = asyncAdapterWriteReactor{}", "C01-R2b"},
		mutant{"file write reactor bound to nothing", "file.go",
			"\tf.writeReactor = fileWriteReactor{file: f}", "\tf.writeReactor = fileWriteReactor{}", "C01-R2b"},
		mutant{"missing return after inline completion (file read)", "file.go",
			"\t\tcb(nil, readSoFar)\n\t\treturn\n\t}\n\n\t// handles (readAll == false)", "\t\tcb(nil, readSoFar)\n\t}\n\n\t// handles (readAll == false)", "C01-R1"},
		mutant{"callback dropped when registration fails (adapter write)", "async_adapter.go",
			"\tif err := a.ioc.SetWrite(&a.slot); err != nil {\n\t\tcb(err, writtenBytes)\n\t} else {", "\tif err := a.ioc.SetWrite(&a.slot); err != nil {\n\t\t_ = err\n\t} else {", "C01-R1"},
		mutant{"closed object completes and still parks (packet read)", "packet.go",
			"\t\tcb(io.EOF, readBytes, nil)\n\t\treturn\n\t}\n\n\thandler := c.getReadHandler", "\t\tcb(io.EOF, readBytes, nil)\n\t}\n\n\thandler := c.getReadHandler", "C01-R1"},
		mutant{"handler completes and retries (multicast read)", "multicast/reactor.go",
			"\tif err != nil {\n\t\tr.fn(err, 0, netip.AddrPort{})\n\t} else {\n\t\tr.peer.asyncReadNow(r.b, r.fn)\n\t}", "\tif err != nil {\n\t\tr.fn(err, 0, netip.AddrPort{})\n\t}\n\tr.peer.asyncReadNow(r.b, r.fn)", "C01-R2"},
		mutant{"accept handler drops the error", "listen_conn.go",
			"\t\tif err != nil {\n\t\t\tcb(err, nil)\n\t\t} else {\n\t\t\tconn, err := l.accept()", "\t\tif err != nil {\n\t\t\treturn\n\t\t} else {\n\t\t\tconn, err := l.accept()", "C01-R2"},
		mutant{"write handler installed for the read direction", "file.go",
			"f.slot.Set(internal.WriteEvent, f.writeReactor.onWrite)", "f.slot.Set(internal.ReadEvent, f.writeReactor.onWrite)", "C01-R"},
		mutant{"reactor not armed with this operation's callback", "file.go",
			"func (f *file) asyncWrite(b []byte, writeAll bool, cb AsyncCallback) {\n\tf.writeReactor.init(b, writeAll, cb)\n", "func (f *file) asyncWrite(b []byte, writeAll bool, cb AsyncCallback) {\n", "C01-R2b"},
		mutant{"at-limit write parks before the reactor is armed (multicast)", "multicast/peer.go",
			"\tp.write.b = b\n\tp.write.addr = addr\n\tp.write.fn = fn\n\n\tif p.ioc.Dispatched < sonic.MaxCallbackDispatch {\n\t\tp.asyncWriteNow(b, addr, func(err error, n int) {\n\t\t\tp.ioc.Dispatched++\n\t\t\tfn(err, n)\n\t\t\tp.ioc.Dispatched--\n\t\t})\n\t} else {\n\t\tp.scheduleWrite(fn)\n\t}",
			"\tif p.ioc.Dispatched >= sonic.MaxCallbackDispatch {\n\t\tp.scheduleWrite(fn)\n\t\treturn\n\t}\n\n\tp.write.b = b\n\tp.write.addr = addr\n\tp.write.fn = fn\n\n\tp.asyncWriteNow(b, addr, func(err error, n int) {\n\t\tp.ioc.Dispatched++\n\t\tfn(err, n)\n\t\tp.ioc.Dispatched--\n\t})", "C01-R2b"},
		mutant{"parked write keeps the previous destination", "multicast/peer.go",
			"\tp.write.b = b\n\tp.write.addr = addr\n\tp.write.fn = fn", "\tp.write.b = b\n\tp.write.fn = fn", "C01-R2b"},
		mutant{"cancel clears the handler after invoking it", "file.go",
			"\t\tf.slot.Handlers[internal.ReadEvent](err)\n\t}\n}\n\nfunc (f *file) cancelWrites() {", "\t\tf.slot.Handlers[internal.ReadEvent](err)\n\t\tf.slot.Handlers[internal.ReadEvent] = nil\n\t}\n}\n\nfunc (f *file) cancelWrites() {", "C01-R2"},
		mutant{"interest not removed before dispatch (write)", "internal/poll_linux.go",
			"\t\t\t_ = p.DelWrite(slot)\n\t\t\tslot.Handlers[WriteEvent](nil)", "\t\t\tslot.Handlers[WriteEvent](nil)", "C01-R3"},
		mutant{"stale batch entries dispatched (read)", "internal/poll_linux.go",
			"if events&slot.Events&PollerReadEvent == PollerReadEvent {", "if events&PollerReadEvent == PollerReadEvent {", "C01-R3"},
		mutant{"interest mask read once per batch entry", "internal/poll_linux.go",
			"\t\tif events&slot.Events&PollerReadEvent == PollerReadEvent {\n\t\t\t// TODO this errors should be reported\n\t\t\t_ = p.DelRead(slot)\n\t\t\tslot.Handlers[ReadEvent](nil)\n\t\t}\n\n\t\tif events&slot.Events&PollerWriteEvent == PollerWriteEvent {",
			"\t\tinterest := slot.Events\n\t\tif events&interest&PollerReadEvent == PollerReadEvent {\n\t\t\t// TODO this errors should be reported\n\t\t\t_ = p.DelRead(slot)\n\t\t\tslot.Handlers[ReadEvent](nil)\n\t\t}\n\n\t\tif events&interest&PollerWriteEvent == PollerWriteEvent {", "C01-R3"},
		mutant{"cancel calls the continuation while still registered", "file.go",
			"\t\terr := f.ioc.poller.DelRead(&f.slot)\n\t\tif err == nil {\n\t\t\terr = sonicerrors.ErrCancelled\n\t\t}\n\t\tf.slot.Handlers[internal.ReadEvent](err)",
			"\t\tvar err error = sonicerrors.ErrCancelled\n\t\tf.slot.Handlers[internal.ReadEvent](err)", "C01-R4"},
		mutant{"cancel can pass a nil error", "async_adapter.go",
			"\t\terr := a.ioc.poller.DelWrite(&a.slot)\n\t\tif err == nil {\n\t\t\terr = sonicerrors.ErrCancelled\n\t\t}\n\t\ta.slot.Handlers[internal.WriteEvent](err)",
			"\t\terr := a.ioc.poller.DelWrite(&a.slot)\n\t\ta.slot.Handlers[internal.WriteEvent](err)", "C01-R4"},
		mutant{"cancel of an idle object calls a stale handler", "file.go",
			"func (f *file) cancelWrites() {\n\tif f.slot.Events&internal.PollerWriteEvent == internal.PollerWriteEvent {", "func (f *file) cancelWrites() {\n\tif f.slot.Handlers[internal.WriteEvent] != nil {", "C01-R4"},
		mutant{"cancel also wipes whatever its callbacks re-armed", "file.go",
			"func (f *file) Cancel() {\n\tf.cancelReads()\n\tf.cancelWrites()\n}", "func (f *file) Cancel() {\n\tf.cancelReads()\n\tf.cancelWrites()\n\t_ = f.ioc.UnsetReadWrite(&f.slot)\n}", "C01-R4"},
		mutant{"close forgets the poller", "packet.go",
			"\t_ = c.ioc.UnsetReadWrite(&c.slot)\n\tc.ioc.Deregister(&c.slot)\n\treturn syscall.Close(c.slot.Fd)", "\tc.ioc.Deregister(&c.slot)\n\treturn syscall.Close(c.slot.Fd)", "C01-R4"},
		mutant{"hang-up no longer dispatched", "internal/poll_linux.go",
			"\t\t\tevents |= PollerReadEvent | PollerWriteEvent\n", "\t\t\tevents |= PollerReadEvent\n", "C01-R5"},
	)
}

// asyncOwnerTypes lists the receiver types whose callback-taking methods are completion entry points.
func recvTypeName(fn *ssa.Function) (pkgPath, name string) {
	root := fn
	for root.Parent() != nil {
		root = root.Parent()
	}
	if o := root.Origin(); o != nil {
		root = o
	}
	sig := root.Signature
	if sig.Recv() == nil {
		return "", ""
	}
	t := sig.Recv().Type()
	if pt, ok := t.(*types.Pointer); ok {
		t = pt.Elem()
	}
	if n, ok := t.(*types.Named); ok && n.Obj().Pkg() != nil {
		// spelled as on the pinned tree (an unexported receiver type may have been renamed)
		return n.Obj().Pkg().Path(), aliasFor(n.Obj().Pkg()).pinned("type", n.Obj().Pkg().Path(), "", n.Obj().Name())
	}
	return "", ""
}

// checkCompletionEntries evaluates rule `linear completion` on every method of the given receiver types that has a
// completion-callback parameter which it does more with than storing it.
func checkCompletionEntries(c *Ctx, e *e2, owners map[string]bool, skip map[string]string) int {
	n := 0
	for _, fn := range c.P.Funcs {
		if fn.Parent() != nil {
			continue
		}
		pk, tn := recvTypeName(fn)
		if !owners[pk+"."+tn] {
			continue
		}
		if o := fn.Origin(); o != nil && o != fn {
			// instantiation: analysed as well (its calls are resolved more precisely)
		}
		for i, prm := range fn.Params {
			if !isCallbackType(prm.Type()) {
				continue
			}
			if _, isSig := prm.Type().Underlying().(*types.Signature); !isSig {
				continue
			}
			if why, ok := skip[fnName(fn)]; ok {
				c.Notes = append(c.Notes, fnName(fn)+": not an exactly-once entry: "+why)
				continue
			}
			if paramOnlyStored(fn, i) {
				continue // arming function (reactor init, setters): stores the callback, discharges nothing
			}
			if _, _, isFactory := factoryClosure(fn, i); isFactory {
				continue // handler factory: verified where the handler is installed
			}
			src := e2src{fn: fn, kind: srcParam, idx: i}
			got := e.get(src)
			n++
			switch {
			case got == c1:
				c.ok(fn, "callback "+prm.Name(), fn.Pos(), "discharged exactly once on every terminating path")
			case got == 0:
				c.unproven(fn, "callback "+prm.Name(), fn.Pos(), "no terminating path found for %s", src)
			default:
				kind := "completion may be "
				if got&c0 != 0 {
					kind += "dropped"
				}
				if got&c2 != 0 {
					if got&c0 != 0 {
						kind += " or "
					}
					kind += "delivered twice"
				}
				c.bad(fn, "callback "+prm.Name(), fn.Pos(), "%s: discharge counts %s; %s", kind, got, e.describeReturns(src))
			}
		}
	}
	return n
}

// handlerFunction resolves the function a handler value denotes and the sources through which it reaches the parked
// callback: for a closure its callback-typed captured variables, for a bound method value the callback-typed fields
// of the receiver that the method reads.
func handlerFunction(p *Prog, h ssa.Value) (*ssa.Function, []e2src, string) {
	h = strip(h)
	if call, ok := h.(*ssa.Call); ok {
		if callee := call.Call.StaticCallee(); callee != nil {
			// a factory that returns the method value of an object it has just filled in (op := &readOp{...}; return
			// op.onReadable): the bound method, with the callback fields it reads, is the handler
			for _, r := range returnsOf(callee) {
				if len(r.Results) == 1 {
					if mc, ok := strip(r.Results[0]).(*ssa.MakeClosure); ok {
						if bf, ok := mc.Fn.(*ssa.Function); ok && strings.Contains(bf.Synthetic, "bound method wrapper") {
							return handlerFunction(p, mc)
						}
					}
				}
			}
			for j := range call.Call.Args {
				if cf, _, ok := factoryClosure(callee, j); ok {
					return closureSources(cf)
				}
			}
			// factory without callback parameter: take its returned closure
			for _, r := range returnsOf(callee) {
				if len(r.Results) == 1 {
					if mc, ok := strip(r.Results[0]).(*ssa.MakeClosure); ok {
						return closureSources(mc.Fn.(*ssa.Function))
					}
				}
			}
		}
		return nil, nil, "handler is the result of a call that does not return a closure literal"
	}
	mc, ok := h.(*ssa.MakeClosure)
	if !ok {
		return nil, nil, "handler is not a closure or method value"
	}
	fn := mc.Fn.(*ssa.Function)
	if strings.Contains(fn.Synthetic, "bound method wrapper") {
		obj, _ := fn.Object().(*types.Func)
		if obj == nil {
			return nil, nil, "cannot resolve bound method"
		}
		m := p.SSA.FuncValue(obj)
		if m == nil || m.Blocks == nil {
			return nil, nil, "bound method has no body"
		}
		// callback-typed fields of the receiver struct read by the method
		var srcs []e2src
		seen := map[*types.Var]bool{}
		eachInstr(m, func(in ssa.Instruction) {
			v, ok := in.(ssa.Value)
			if !ok {
				return
			}
			f := loadedField(v)
			if f == nil || seen[f] || !isCallbackType(f.Type()) {
				return
			}
			if _, isSig := f.Type().Underlying().(*types.Signature); !isSig {
				return
			}
			seen[f] = true
			srcs = append(srcs, e2src{fn: m, kind: srcField, field: f})
		})
		return m, srcs, ""
	}
	return closureSources(fn)
}

func closureSources(cf *ssa.Function) (*ssa.Function, []e2src, string) {
	var srcs []e2src
	for i, fv := range cf.FreeVars {
		t := fv.Type()
		if pt, ok := t.(*types.Pointer); ok {
			t = pt.Elem()
		}
		if _, isSig := t.Underlying().(*types.Signature); isSig && isCallbackType(t) {
			srcs = append(srcs, e2src{fn: cf, kind: srcFree, idx: i})
		}
	}
	return cf, srcs, ""
}

// handlerIndexOf: v is `slot.Handlers[k]` loaded; returns k.
func handlerIndexOf(v ssa.Value, handlersF *types.Var) (int64, ssa.Value, bool) {
	u, ok := strip(v).(*ssa.UnOp)
	if !ok || u.Op != token.MUL {
		return 0, nil, false
	}
	ia, ok := u.X.(*ssa.IndexAddr)
	if !ok {
		return 0, nil, false
	}
	fv, fa := fieldAddrOf(ia.X)
	if fv != handlersF {
		return 0, nil, false
	}
	k, ok := constInt(ia.Index)
	if !ok {
		return 0, nil, false
	}
	return k, fa.X, true
}

// handlerIndexValue: v is `slot.Handlers[x]` loaded with a non-constant x; returns x.
func handlerIndexValue(v ssa.Value, handlersF *types.Var) ssa.Value {
	u, ok := strip(v).(*ssa.UnOp)
	if !ok || u.Op != token.MUL {
		return nil
	}
	ia, ok := u.X.(*ssa.IndexAddr)
	if !ok {
		return nil
	}
	if fv, _ := fieldAddrOf(ia.X); fv != handlersF {
		return nil
	}
	if _, isK := constInt(ia.Index); isK {
		return nil
	}
	return stripConv(ia.Index)
}

// nonNilAt: value v is non-nil whenever control reaches block b (error values: package-level error variables are
// non-nil; otherwise a dominating `v != nil` literal, examined per phi edge).
func nonNilAt(v ssa.Value, b *ssa.BasicBlock, depth int) bool {
	v = strip(v)
	if depth > 6 {
		return false
	}
	if loadedGlobal(v) != nil {
		return true
	}
	if _, ok := v.(*ssa.MakeInterface); ok {
		return true
	}
	for _, l := range guardsOf(b) {
		if x, eq, ok := l.nilTest(); ok && !eq && strip(x) == v {
			return true
		}
	}
	// the result of an in-scope function every return of which is non-nil (e.g. a helper mapping nil to ErrCancelled)
	if call, ok := v.(*ssa.Call); ok {
		if callee := call.Call.StaticCallee(); callee != nil && callee.Blocks != nil && callee.Signature.Results().Len() == 1 {
			rets := returnsOf(callee)
			all := len(rets) > 0
			for _, r := range rets {
				if !nonNilAt(r.Results[0], r.Block(), depth+1) {
					all = false
				}
			}
			if all {
				return true
			}
		}
	}
	if ph, ok := v.(*ssa.Phi); ok {
		for i, e := range ph.Edges {
			pred := ph.Block().Preds[i]
			// the literal of the edge pred -> phi block, plus the guards of pred
			okEdge := nonNilAt(e, pred, depth+1)
			if !okEdge {
				if l, ok := edgeLit(pred, ph.Block()); ok {
					if x, eq, ok := l.nilTest(); ok && !eq && strip(x) == strip(e) {
						okEdge = true
					}
				}
			}
			if !okEdge {
				return false
			}
		}
		return true
	}
	return false
}

func reachesAvoidingBlock(from, to, avoid *ssa.BasicBlock) bool {
	if from == to {
		return true
	}
	seen := map[*ssa.BasicBlock]bool{from: true}
	stack := []*ssa.BasicBlock{from}
	for len(stack) > 0 {
		b := stack[len(stack)-1]
		stack = stack[:len(stack)-1]
		for _, s := range b.Succs {
			if s == avoid || seen[s] {
				continue
			}
			if s == to {
				return true
			}
			seen[s] = true
			stack = append(stack, s)
		}
	}
	return false
}

// containsLoadOf collects, from the operand tree of v, the loads of field f.
func loadsInTree(v ssa.Value, f *types.Var, depth int, out *[]ssa.Instruction, consts *[]int64) {
	if depth > 10 || v == nil {
		return
	}
	v = stripConv(v)
	if k, ok := constInt(v); ok {
		*consts = append(*consts, k)
		return
	}
	if loadOfField(v, f) {
		if in, ok := v.(ssa.Instruction); ok {
			*out = append(*out, in)
		}
		return
	}
	switch x := v.(type) {
	case *ssa.BinOp:
		loadsInTree(x.X, f, depth+1, out, consts)
		loadsInTree(x.Y, f, depth+1, out, consts)
	case *ssa.Phi:
		for _, e := range x.Edges {
			loadsInTree(e, f, depth+1, out, consts)
		}
	case *ssa.UnOp:
		if x.Op != token.MUL {
			loadsInTree(x.X, f, depth+1, out, consts)
		}
	}
}

func runC01(c *Ctx) {
	p := c.P
	e := newE2(p)
	eventsF := p.Field("internal", "Slot", "Events")
	handlersF := p.Field("internal", "Slot", "Handlers")
	readFlag, _ := constantInt(p.Const("internal", "PollerReadEvent"))
	writeFlag, _ := constantInt(p.Const("internal", "PollerWriteEvent"))
	delRead := []*types.Func{p.IfaceMethod("internal", "Poller", "DelRead"), p.Method("internal", "poller", "DelRead").Object().(*types.Func), p.Method("sonic", "IO", "UnsetRead").Object().(*types.Func)}
	delWrite := []*types.Func{p.IfaceMethod("internal", "Poller", "DelWrite"), p.Method("internal", "poller", "DelWrite").Object().(*types.Func), p.Method("sonic", "IO", "UnsetWrite").Object().(*types.Func)}
	delBoth := []*types.Func{p.IfaceMethod("internal", "Poller", "Del"), p.Method("internal", "poller", "Del").Object().(*types.Func), p.Method("sonic", "IO", "UnsetReadWrite").Object().(*types.Func)}

	// ------------------------------------------------------------------------------------------------ R1
	c.rule("C01-R1", "linear completion: every function that receives a completion callback discharges it exactly once on every terminating path (invoke / hand to a callee that does / park on the success edge of a registration with a handler installed)", 30)
	owners := map[string]bool{
		modPath + ".file": true, modPath + ".conn": true, modPath + ".AsyncAdapter": true, modPath + ".listener": true,
		modPath + ".packetConn": true, modPath + ".ByteBuffer": true, modPath + "/multicast.UDPPeer": true,
	}
	checkCompletionEntries(c, e, owners, map[string]string{})
	// constructors that report through a callback (NewAsyncAdapter): the same obligation
	for _, fn := range p.Funcs {
		if fn.Parent() != nil || fn.Signature.Recv() != nil || fn.Object() == nil || !fn.Object().Exported() || fnTypesPkg(fn) == nil || fnTypesPkg(fn).Path() != modPath {
			continue
		}
		for i, prm := range fn.Params {
			if _, isSig := prm.Type().Underlying().(*types.Signature); !isSig || !isCallbackType(prm.Type()) || paramOnlyStored(fn, i) {
				continue
			}
			src := e2src{fn: fn, kind: srcParam, idx: i}
			got := e.get(src)
			switch {
			case got == c1:
				c.ok(fn, "callback "+prm.Name(), fn.Pos(), "discharged exactly once on every terminating path")
			case got == 0:
				c.unproven(fn, "callback "+prm.Name(), fn.Pos(), "no terminating path found for %s", src)
			default:
				c.bad(fn, "callback "+prm.Name(), fn.Pos(), "the constructor's completion may be dropped or delivered twice: discharge counts %s; %s", got, e.describeReturns(src))
			}
		}
	}

	// ------------------------------------------------------------------------------------------------ R2
	c.rule("C01-R2", "every handler installed with Slot.Set (outside the timer) discharges the parked callback exactly once on every path, and is installed for the direction that is then registered", 9)
	type reactorInfo struct {
		method *ssa.Function
		field  *types.Var
	}
	var reactorHandlers []reactorInfo
	for _, fn := range p.Funcs {
		pk := fnTypesPkg(fn)
		if pk == nil || pk.Path() == modPath+"/internal" {
			continue // the timer's handler is C04's
		}
		for _, call := range callsTo(fn, e.slotSet) {
			args := call.Common().Args
			if len(args) != 3 {
				continue
			}
			dirConst, ok := constInt(args[1])
			if !ok {
				// a direction parameter, decided by the case of the switch on it that the call lies in
				for _, l := range guardsOf(call.(ssa.Instruction).Block()) {
					if op, x, y, isCmp := l.cmpWith(args[1]); isCmp && op == token.EQL && stripConv(x) == stripConv(args[1]) {
						if k, isK := constInt(y); isK {
							dirConst, ok = k, true
						}
					}
				}
			}
			dir := "?"
			if ok && dirConst == e.readEv {
				dir = "read"
			} else if ok && dirConst == e.writeEv {
				dir = "write"
			}
			hf, srcs, why := handlerFunction(p, args[2])
			if hf == nil {
				c.unproven(fn, "Slot.Set "+dir, call.Pos(), "%s", why)
				continue
			}
			c.touch(hf)
			if len(srcs) == 0 {
				c.bad(fn, "Slot.Set "+dir, call.Pos(), "the installed handler %s has no access to a completion callback", fnName(hf))
				continue
			}
			for _, s := range srcs {
				got := e.get(s)
				if s.kind == srcField {
					reactorHandlers = append(reactorHandlers, reactorInfo{hf, s.field})
				}
				if got == c1 {
					c.ok(fn, "Slot.Set "+dir+" handler "+fnName(hf), call.Pos(), "handler discharges %s exactly once", s)
				} else {
					c.bad(fn, "Slot.Set "+dir+" handler "+fnName(hf), call.Pos(), "handler discharge counts %s for %s; %s", got, s, e.describeReturns(s))
				}
			}
			// the registration that follows must be for the same direction and on the same slot field
			matched := false
			eachInstr(fn, func(in ssa.Instruction) {
				d := e.regDir(in)
				if d == "" || !dominatesInstr(call.(ssa.Instruction), in) {
					return
				}
				if d == dir {
					matched = true
				}
			})
			anyReg := false
			eachInstr(fn, func(in ssa.Instruction) {
				if e.regDir(in) != "" {
					anyReg = true
				}
			})
			if anyReg {
				c.check(matched, fn, "Slot.Set "+dir+" direction", call.Pos(), "handler direction matches the registration that follows", "a handler is installed for the "+dir+" direction but the registration that follows is for the other direction: the event would invoke a stale or nil handler")
			}
		}
	}

	// the handler table of a slot is written by Slot.Set only: a handler cleared or replaced anywhere else (for example
	// after a cancellation callback that re-issued the operation and installed a new one) loses a parked operation
	{
		slotSetFn := p.Method("internal", "Slot", "Set")
		for _, fn := range p.Funcs {
			eachInstr(fn, func(in ssa.Instruction) {
				st, ok := in.(*ssa.Store)
				if !ok {
					return
				}
				ia, ok := st.Addr.(*ssa.IndexAddr)
				if !ok {
					return
				}
				if fv, _ := fieldAddrOf(ia.X); fv != handlersF {
					return
				}
				c.check(fn == slotSetFn, fn, "handler table write", st.Pos(), "Slot.Set is the only writer of Slot.Handlers", "Slot.Handlers is written outside Slot.Set: a handler installed for a parked (possibly just re-issued) operation is overwritten or cleared, and the operation never completes - or a nil handler is dispatched")
			})
		}
	}

	// ------------------------------------------------------------------------------------------------ R2b arming
	c.rule("C01-R2b", "arming: before an operation can be parked with a reactor-method handler, its own callback has been stored in the reactor field the handler reads", 6)
	{
		seenF := map[*types.Var]bool{}
		for _, rh := range reactorHandlers {
			if seenF[rh.field] {
				continue
			}
			seenF[rh.field] = true
			checkArming(c, e, rh.method, rh.field)
		}
	}

	// ------------------------------------------------------------------------------------------------ R3
	c.rule("C01-R3", "poll loop: each handler invocation is guarded by kernel-mask & current interest & direction flag, the interest being re-read after any earlier handler of the same batch entry, and preceded by removing that interest", 2)
	pollEntry := p.Method("internal", "poller", "Poll")
	// the dispatching function: Poll itself or the helper(s) of package internal that invoke the slot handlers
	var dispatchFns []*ssa.Function
	for _, fn := range p.Funcs {
		if pk := fnTypesPkg(fn); pk == nil || pk.Path() != modPath+"/internal" {
			continue
		}
		has := false
		eachInstr(fn, func(in ssa.Instruction) {
			if call, ok := in.(ssa.CallInstruction); ok && isDynamicFuncCall(call) {
				if _, _, ok := handlerIndexOf(call.Common().Value, handlersF); ok {
					has = true
				}
				if handlerIndexValue(call.Common().Value, handlersF) != nil {
					has = true // the direction is a parameter of a helper shared by both directions
				}
			}
		})
		if has {
			dispatchFns = append(dispatchFns, fn)
		}
	}
	pollHandlerCalls := 0
	dispatched := map[int64]bool{}
	for _, pollFn := range dispatchFns {
		pollFn := pollFn
		eachInstr(pollFn, func(in ssa.Instruction) {
			call, ok := in.(ssa.CallInstruction)
			if !ok || !isDynamicFuncCall(call) {
				return
			}
			k, _, ok := handlerIndexOf(call.Common().Value, handlersF)
			if !ok {
				// fire(slot, ready, flag, which, unset): judged once per call site, with the constants (and the removal
				// function) the site passes
				if iv := handlerIndexValue(call.Common().Value, handlersF); iv != nil {
					pollHandlerCalls++
					dispatched[e.readEv], dispatched[e.writeEv] = true, true // the call sites are judged by checkParamDispatch
					checkParamDispatch(c, p, e, pollFn, in, iv, eventsF, readFlag, writeFlag, delRead, delWrite)
				}
				return
			}
			pollHandlerCalls++
			dispatched[k] = true
			flag, dels, dname := readFlag, delRead, "read"
			if k == e.writeEv {
				flag, dels, dname = writeFlag, delWrite, "write"
			}
			// (i) guard
			var guard *Lit
			var guardLoads []ssa.Instruction
			for _, l := range guardsOf(in.Block()) {
				l := l
				op, x, y, isCmp := l.cmp()
				if !isCmp {
					continue
				}
				var loads []ssa.Instruction
				var consts []int64
				loadsInTree(x, eventsF, 0, &loads, &consts)
				loadsInTree(y, eventsF, 0, &loads, &consts)
				hasFlag := false
				for _, k := range consts {
					if k == flag {
						hasFlag = true
					}
				}
				if len(loads) > 0 && hasFlag && ((op == token.EQL && sameValueConst(y, flag)) || (op == token.NEQ && isConstInt(y, 0))) {
					guard = &l
					guardLoads = loads
				}
			}
			if guard == nil {
				c.bad(pollFn, "dispatch "+dname+" guard", in.Pos(), "the %s handler is invoked without testing kernel mask & slot.Events & %s flag: a batch entry for an interest that an earlier handler removed (cancel/close) would still be dispatched", dname, dname)
			} else {
				// freshness: no handler invocation lies between the load of slot.Events and the guard
				stale := false
				eachInstr(pollFn, func(x ssa.Instruction) {
					xc, ok := x.(ssa.CallInstruction)
					if !ok || !isDynamicFuncCall(xc) || x == in {
						return
					}
					if _, _, ok := handlerIndexOf(xc.Common().Value, handlersF); !ok {
						return
					}
					for _, ld := range guardLoads {
						lb := ld.Block()
						if lb == x.Block() && instrIndex(ld) > instrIndex(x) {
							continue
						}
						afterLoad := (lb == x.Block() && instrIndex(ld) < instrIndex(x)) || (lb != x.Block() && lb.Dominates(x.Block()))
						if afterLoad && reachesAvoidingBlock(x.Block(), guard.If.Block(), lb) && lb != guard.If.Block() {
							stale = true
						}
					}
				})
				c.check(!stale, pollFn, "dispatch "+dname+" guard", in.Pos(), "guarded by kernel mask & freshly read interest & flag", "the interest mask used to guard the "+dname+" handler was read before another handler of the same batch entry ran: a handler that cancels or closes the object does not prevent the stale dispatch")
			}
			// (ii) one-shot
			var del ssa.Instruction
			eachInstr(pollFn, func(x ssa.Instruction) {
				if xc, isCall := x.(ssa.CallInstruction); isCall && (isCallTo(x, dels...) || clearsBitCall(xc, eventsF, flag)) && dominatesInstr(x, in) && guard != nil {
					gb := guard.If.Block()
					tb := gb.Succs[0]
					if !guard.Pos {
						tb = gb.Succs[1]
					}
					_ = tb
					if gb.Dominates(x.Block()) && x.Block() != gb {
						del = x
					}
				}
			})
			c.check(del != nil, pollFn, "dispatch "+dname+" one-shot", in.Pos(), "the interest is removed before the handler runs", "the "+dname+" interest is not removed before its handler is invoked: a level-triggered event fires the same completion again")
		})
	}
	if pollHandlerCalls == 0 {
		c.bad(pollEntry, "dispatch", pollEntry.Pos(), "Poll no longer invokes slot handlers")
	} else {
		c.check(dispatched[e.readEv] && dispatched[e.writeEv], pollEntry, "dispatch both directions", pollEntry.Pos(), "ready read and write interests are both dispatched", "the poll loop does not invoke the handler of one direction at all: every operation parked in that direction is deregistered (or left armed) and never completed")
	}

	// ------------------------------------------------------------------------------------------------ R4
	c.rule("C01-R4", "Cancel: interest tested, removed, then the continuation is called with a non-nil error; Close: both interests are removed before the descriptor is closed", 9)
	for _, fn := range p.Funcs {
		if pk := fnTypesPkg(fn); pk != nil && pk.Path() == modPath+"/internal" {
			continue // the poll loop's own dispatch is R3
		}
		eachInstr(fn, func(in ssa.Instruction) {
			call, ok := in.(ssa.CallInstruction)
			if !ok || !isDynamicFuncCall(call) {
				return
			}
			k, _, ok := handlerIndexOf(call.Common().Value, handlersF)
			if !ok {
				return
			}
			flag, dels, dname := readFlag, delRead, "read"
			if k == e.writeEv {
				flag, dels, dname = writeFlag, delWrite, "write"
			}
			guarded := false
			for _, l := range guardsOf(in.Block()) {
				if x, set, ok := bitTest(l, eventsF); ok && set && isConstInt(x, flag) {
					guarded = true
				}
			}
			if !guarded {
				guarded = sitesTestBit(p, fn, eventsF, flag)
			}
			c.check(guarded, fn, "cancel "+dname+" guard", in.Pos(), "continuation invoked only while the "+dname+" interest is registered", "the "+dname+" continuation is invoked without testing that the interest is registered: cancelling an idle object calls a stale (or nil) handler, completing an operation twice")
			var del ssa.Instruction
			eachInstr(fn, func(x ssa.Instruction) {
				if isCallTo(x, dels...) && dominatesInstr(x, in) {
					del = x
				}
				if isCallTo(x, delBoth...) && dominatesInstr(x, in) {
					del = x
				}
			})
			c.check(del != nil, fn, "cancel "+dname+" removes interest", in.Pos(), "interest removed before the continuation runs", "the continuation is called with the "+dname+" interest still registered: the poller will complete the same operation again")
			args := call.Common().Args
			good := len(args) == 1 && nonNilAt(args[0], in.Block(), 0)
			c.check(good, fn, "cancel "+dname+" error", in.Pos(), "the continuation receives a non-nil error", "the continuation may be called with a nil error: the handler would retry the operation instead of completing it with a cancellation error")
		})
	}
	// R4p: per path (and, for a helper shared by both directions, per call site): a path that completes a parked operation
	// through Handlers[k] tests the interest bit of direction k, removes that interest first, and completes it exactly once
	for _, fn := range p.Funcs {
		if pk := fnTypesPkg(fn); pk != nil && pk.Path() == modPath+"/internal" {
			continue
		}
		type hcall struct {
			in  ssa.Instruction
			k   int64     // constant direction, or
			idx ssa.Value // the value selecting it
		}
		var hcalls []hcall
		eachInstr(fn, func(in ssa.Instruction) {
			call, ok := in.(ssa.CallInstruction)
			if !ok || !isDynamicFuncCall(call) {
				return
			}
			if k, _, ok := handlerIndexOf(call.Common().Value, handlersF); ok {
				hcalls = append(hcalls, hcall{in, k, nil})
			} else if iv := handlerIndexValue(call.Common().Value, handlersF); iv != nil {
				hcalls = append(hcalls, hcall{in, -1, iv})
			}
		})
		if len(hcalls) == 0 {
			continue
		}
		// contexts: constants bound to the parameters at each call site (one empty context when no index is a parameter)
		contexts := []map[ssa.Value]int64{{}}
		fnContexts := []map[ssa.Value]*types.Func{{}} // function-valued parameters bound to a method value at the call site
		needCtx := false
		for _, h := range hcalls {
			if h.idx != nil {
				needCtx = true
			}
		}
		if needCtx {
			contexts, fnContexts = nil, nil
			top := fn
			for top.Parent() != nil {
				top = top.Parent()
			}
			if top != fn {
				continue
			}
			for _, site := range p.callers(fn) {
				ctx := map[ssa.Value]int64{}
				fctx := map[ssa.Value]*types.Func{}
				for i, prm := range fn.Params {
					if i < len(site.Common().Args) {
						if k, ok := constInt(site.Common().Args[i]); ok {
							ctx[prm] = k
						}
						// a method value (x.UnsetRead) handed in as the operation that removes the interest
						if mc, ok := strip(site.Common().Args[i]).(*ssa.MakeClosure); ok {
							if bf, ok := mc.Fn.(*ssa.Function); ok && strings.Contains(bf.Synthetic, "bound method wrapper") {
								if mo, _ := bf.Object().(*types.Func); mo != nil {
									fctx[prm] = mo
								}
							}
						}
					}
				}
				contexts = append(contexts, ctx)
				fnContexts = append(fnContexts, fctx)
			}
			if len(contexts) == 0 {
				c.bad(fn, "cancel paths", fn.Pos(), "the direction of the handler invoked by %s is not a constant and the function has no call site to take it from", fnName(fn))
				continue
			}
		}
		paths, overflow := enumPaths(fn)
		if overflow {
			c.unproven(fn, "cancel paths", fn.Pos(), "too many paths")
			continue
		}
		valOf := func(ctx map[ssa.Value]int64, v ssa.Value) (int64, bool) {
			if k, ok := constInt(v); ok {
				return k, true
			}
			k, ok := ctx[stripConv(v)]
			return k, ok
		}
		bad := ""
		var badPos token.Pos
		for ci, ctx := range contexts {
			fctx := fnContexts[ci]
			for _, path := range paths {
				if path.Panics {
					continue
				}
				feasible := true
				for _, l := range path.Lits {
					if op, x, y, ok := l.cmp(); ok {
						a, okA := valOf(ctx, x)
						b, okB := valOf(ctx, y)
						if okA && okB && ((op == token.EQL && a != b) || (op == token.NEQ && a == b)) {
							feasible = false
						}
					}
				}
				if !feasible {
					continue
				}
				count := map[int64]int{}
				removed := map[int64]bool{}
				instrs := path.Instrs()
				for _, in := range instrs {
					switch {
					case isCallTo(in, delRead...):
						removed[e.readEv] = true
					case isCallTo(in, delWrite...):
						removed[e.writeEv] = true
					case isCallTo(in, delBoth...):
						removed[e.readEv], removed[e.writeEv] = true, true
					}
					if dc, ok := in.(ssa.CallInstruction); ok && isDynamicFuncCall(dc) {
						if mo := fctx[stripConv(dc.Common().Value)]; mo != nil {
							switch {
							case isOneOf(mo, delRead):
								removed[e.readEv] = true
							case isOneOf(mo, delWrite):
								removed[e.writeEv] = true
							case isOneOf(mo, delBoth):
								removed[e.readEv], removed[e.writeEv] = true, true
							}
						}
					}
					for _, h := range hcalls {
						if h.in != in {
							continue
						}
						k := h.k
						if h.idx != nil {
							kk, ok := valOf(ctx, h.idx)
							if !ok {
								bad, badPos = "the direction of the handler invoked is not determined at a call site", in.Pos()
								continue
							}
							k = kk
						}
						count[k]++
						flag := readFlag
						if k == e.writeEv {
							flag = writeFlag
						}
						tested, stale := false, false
						for _, l := range path.Lits {
							if x, set, ok := bitTest(l.Lit, eventsF); ok && set {
								if m, ok := valOf(ctx, x); ok && m == flag {
									tested = true
									// the mask tested was read after the last handler that ran on this path: a completion handler
									// (the user's callback) may close or cancel the object and so change the registered interests
									for _, ld := range eventsLoadsIn(l.Cond, eventsF, 0) {
										li, hi := -1, -1
										for i, x := range instrs {
											if x == ssa.Instruction(ld) {
												li = i
											}
											if x == in {
												hi = i
											}
										}
										for i := li + 1; li >= 0 && i < hi; i++ {
											if cc, ok := instrs[i].(ssa.CallInstruction); ok && isDynamicFuncCall(cc) && fctx[stripConv(cc.Common().Value)] == nil {
												stale = true // a handler (user code) ran; a method value bound at the call site is library code
											}
										}
									}
								}
							}
						}
						if tested && stale {
							bad, badPos = "a handler is completed under an interest mask that was read before an earlier handler (and the user's callback) ran", in.Pos()
						}
						if !tested && sitesTestBit(p, fn, eventsF, flag) {
							tested = true // the guard was moved to every caller ("must only be called while armed")
						}
						if !tested {
							bad, badPos = "a handler is completed on a path that did not test the interest bit of its own direction", in.Pos()
						}
						if !removed[k] {
							bad, badPos = "a handler is completed on a path that did not remove the interest of its own direction first", in.Pos()
						}
					}
				}
				for _, n := range count {
					if n > 1 {
						bad, badPos = "a path completes the same parked operation more than once", fn.Pos()
					}
				}
			}
		}
		if bad != "" {
			c.bad(fn, "cancel paths", badPos, "%s: the callback of one operation runs twice, or a stale / nil handler of the other direction is called", bad)
		} else {
			c.ok(fn, "cancel paths", fn.Pos(), "%d handler completions: own interest bit tested, own interest removed first, at most once per path (%d contexts)", len(hcalls), len(contexts))
		}
	}
	// R2d: an operation is parked on an object that is open: where a park function tests Closed(), the registration sits
	// on the branch on which it is false (the other branch completes with an error)
	for _, fn := range p.Funcs {
		pk, tn := recvTypeName(fn)
		if !c14Owners[pk+"."+tn] {
			continue
		}
		eachInstr(fn, func(in ssa.Instruction) {
			if e.regDir(in) == "" {
				return
			}
			for _, l := range guardsOf(in.Block()) {
				call, ok := l.Cond.(*ssa.Call)
				if !ok || call.Call.StaticCallee() == nil || pinName(call.Call.StaticCallee()) != "Closed" {
					continue
				}
				c.check(!l.Pos, fn, "parks when open", in.Pos(), "the registration is made when Closed() is false", "the operation is registered with the poller on the branch on which the object is closed (and refused with an error while it is open): every operation that has to wait fails at once, and a closed descriptor number is handed to epoll")
			}
		})
	}
	// R2c: every object that embeds a Slot gives it its descriptor: a slot whose Fd was never set registers descriptor 0
	{
		slotT := p.Named("internal", "Slot")
		fdF := p.Field("internal", "Slot", "Fd")
		nSlots := 0
		for _, pk := range p.Pkgs {
			scope := pk.Types.Scope()
			for _, name := range scope.Names() {
				tn, ok := scope.Lookup(name).(*types.TypeName)
				if !ok {
					continue
				}
				st, ok := tn.Type().Underlying().(*types.Struct)
				if !ok {
					continue
				}
				for i := 0; i < st.NumFields(); i++ {
					sf := st.Field(i)
					if !types.Identical(sf.Type(), slotT) {
						continue
					}
					nSlots++
					set := false
					var where *ssa.Function
					for _, fn := range p.Funcs {
						eachInstr(fn, func(in ssa.Instruction) {
							st, ok := in.(*ssa.Store)
							if !ok {
								return
							}
							fa, ok := st.Addr.(*ssa.FieldAddr)
							if !ok {
								return
							}
							if fv, _ := fieldAddrOf(fa); fv != fdF {
								return
							}
							if inner, ok := fa.X.(*ssa.FieldAddr); ok {
								if fv2, _ := fieldAddrOf(inner); fv2 == sf {
									set = true
								}
							}
							// composite literal T{slot: Slot{Fd: fd}}: the Slot is built in a temporary and stored as a whole
							if tmp, ok := fa.X.(*ssa.Alloc); ok {
								eachInstr(fn, func(x ssa.Instruction) {
									st2, ok := x.(*ssa.Store)
									if !ok {
										return
									}
									if fv2, _ := fieldAddrOf(st2.Addr); fv2 != sf {
										return
									}
									if u, ok := st2.Val.(*ssa.UnOp); ok && u.Op == token.MUL && u.X == ssa.Value(tmp) {
										set = true
									}
								})
							}
						})
						if where == nil && fn.Pkg != nil && fn.Pkg.Pkg == pk.Types {
							where = fn
						}
					}
					if where != nil {
						c.check(set, where, "slot descriptor "+tn.Name(), tn.Pos(), "the embedded slot is given the object's descriptor", "no function stores a descriptor into "+tn.Name()+"."+sf.Name()+".Fd: every registration of such an object names descriptor 0 (standard input) instead of its own")
					}
				}
			}
		}
		if nSlots < 5 {
			c.bad(p.Method("internal", "Slot", "Set"), "slot descriptor", p.Method("internal", "Slot", "Set").Pos(), "the owners of embedded slots were not found (anchor moved): %d", nSlots)
		}
	}
	// R4c: Cancel reaches a completion for every direction in which the type parks operations
	{
		type dirs struct{ read, write bool }
		installs := map[string]*dirs{}
		for _, fn := range p.Funcs {
			pk, tn := recvTypeName(fn)
			if !c14Owners[pk+"."+tn] {
				continue
			}
			for _, call := range callsTo(fn, e.slotSet) {
				args := call.Common().Args
				if len(args) != 3 {
					continue
				}
				d := installs[pk+"."+tn]
				if d == nil {
					d = &dirs{}
					installs[pk+"."+tn] = d
				}
				if k, ok := constInt(args[1]); ok {
					if k == e.readEv {
						d.read = true
					} else if k == e.writeEv {
						d.write = true
					}
				} else {
					d.read, d.write = true, true // direction given by a parameter: both
				}
			}
		}
		for _, fn := range p.Funcs {
			if fn.Parent() != nil || pinName(fn) != "Cancel" {
				continue
			}
			pk, tn := recvTypeName(fn)
			d := installs[pk+"."+tn]
			if d == nil {
				continue
			}
			completes := func(dir int64) bool {
				return containsDeep(fn, func(in ssa.Instruction) bool {
					call, ok := in.(ssa.CallInstruction)
					if !ok || !isDynamicFuncCall(call) {
						return false
					}
					if k, _, ok := handlerIndexOf(call.Common().Value, handlersF); ok {
						return k == dir
					}
					return handlerIndexValue(call.Common().Value, handlersF) != nil
				}, 3)
			}
			if d.read {
				c.check(completes(e.readEv), fn, "cancel covers read", fn.Pos(), "a parked read is completed by Cancel", "Cancel never invokes the read handler although "+tn+" parks reads: a read in flight survives Cancel and completes later (or never), its callback not told")
			}
			if d.write {
				c.check(completes(e.writeEv), fn, "cancel covers write", fn.Pos(), "a parked write is completed by Cancel", "Cancel never invokes the write handler although "+tn+" parks writes: a write in flight survives Cancel and completes later (or never), its callback not told")
			}
		}
	}
	// R4b: outside Close (and the timer), removing an interest without completing the parked operation drops it silently
	for _, fn := range p.Funcs {
		pk, tn := recvTypeName(fn)
		if !c14Owners[pk+"."+tn] {
			continue
		}
		top := fn
		for top.Parent() != nil {
			top = top.Parent()
		}
		if top.Name() == "Close" || allCallersSatisfy(p, top, 2, func(caller *ssa.Function) bool { return caller.Name() == "Close" }) {
			continue // closing the object (or a helper only Close uses): its operations are dropped by contract (no callback after Close)
		}
		eachInstr(fn, func(in ssa.Instruction) {
			var dirs []int64
			switch {
			case isCallTo(in, delRead...):
				dirs = []int64{e.readEv}
			case isCallTo(in, delWrite...):
				dirs = []int64{e.writeEv}
			case isCallTo(in, delBoth...):
				dirs = []int64{e.readEv, e.writeEv}
			default:
				return
			}
			for _, d := range dirs {
				d := d
				okp, why := mustPass(in, func(x ssa.Instruction) bool {
					call, ok := x.(ssa.CallInstruction)
					if !ok || !isDynamicFuncCall(call) {
						return false
					}
					if k, _, ok := handlerIndexOf(call.Common().Value, handlersF); ok {
						return k == d
					}
					// the direction is a parameter of a helper shared by both directions (Handlers[et]): the removal must then
					// have been selected by a test of that same parameter
					if iv := handlerIndexValue(call.Common().Value, handlersF); iv != nil {
						for _, l := range guardsOf(in.Block()) {
							if _, a, b, ok := l.cmp(); ok && (stripConv(a) == iv || stripConv(b) == iv) {
								return true
							}
						}
					}
					return false
				})
				dn := "read"
				if d == e.writeEv {
					dn = "write"
				}
				c.check(okp, fn, "removal completes "+dn, in.Pos(), "the operation whose interest is removed is completed through its handler", "the "+dn+" interest is removed outside Close without invoking the parked operation's handler ("+why+"): an operation in flight (e.g. one re-issued from a cancellation callback) is dropped and its callback never runs")
			}
		})
	}
	sysClose := p.ExtFunc("syscall", "Close")
	sockClose := p.Method("sonic", "Socket", "Close")
	for _, spec := range [][2]string{{"sonic", "file"}, {"sonic", "AsyncAdapter"}, {"sonic", "listener"}, {"sonic", "packetConn"}, {"multicast", "UDPPeer"}} {
		fn := p.Method(spec[0], spec[1], "Close")
		var closes []ssa.Instruction
		eachInstr(fn, func(in ssa.Instruction) {
			if isCallTo(in, sysClose) || isCallToFn(in, sockClose) {
				closes = append(closes, in)
			}
		})
		if len(closes) == 0 {
			// the release sequence may live in an unexported helper Close delegates to: analyse it there
			eachInstr(fn, func(in ssa.Instruction) {
				call, ok := in.(ssa.CallInstruction)
				if !ok || len(closes) > 0 {
					return
				}
				if h := call.Common().StaticCallee(); isHelperOf(fn, h) {
					var hc []ssa.Instruction
					eachInstr(h, func(x ssa.Instruction) {
						if isCallTo(x, sysClose) || isCallToFn(x, sockClose) {
							hc = append(hc, x)
						}
					})
					if len(hc) > 0 {
						fn, closes = h, hc
					}
				}
			})
		}
		if len(closes) == 0 {
			c.bad(fn, "close", fn.Pos(), "Close does not close the descriptor")
			continue
		}
		for _, cl := range closes {
			var del ssa.Instruction
			eachInstr(fn, func(x ssa.Instruction) {
				if isCallTo(x, delBoth...) && dominatesInstr(x, cl) {
					del = x
				}
			})
			c.check(del != nil, fn, "close after Del", cl.Pos(), "both interests are removed before close(2)", "the descriptor is closed without removing its poller interests first: a pending handler stays registered (and counted) for a descriptor number that can be reused")
		}
	}

	// ------------------------------------------------------------------------------------------------ R5
	c.rule("C01-R5", "EPOLLHUP/EPOLLERR are folded into both directions before the dispatch guards (they are reported without EPOLLIN/EPOLLOUT, e.g. FIFO writer gone)", 1)
	for _, df := range dispatchFns {
		checkHangupFolding(c, df, readFlag, writeFlag)
	}
	if len(dispatchFns) == 0 {
		c.bad(pollEntry, "hang-up folding", pollEntry.Pos(), "no dispatching function found")
	}
}

func sameValueConst(v ssa.Value, k int64) bool { return isConstInt(v, k) }

// checkArming implements R2b for one reactor handler method / callback field.
func checkArming(c *Ctx, e *e2, handler *ssa.Function, field *types.Var) {
	p := c.P
	// functions that install this handler
	var installers []*ssa.Function
	// an installer shared by both directions installs this handler only under `param == constant`: calls that pass
	// another constant do not install it
	type cond struct {
		idx int
		k   int64
	}
	installCond := map[*ssa.Function]cond{}
	for _, fn := range p.Funcs {
		for _, call := range callsTo(fn, e.slotSet) {
			args := call.Common().Args
			if len(args) == 3 {
				if hf, _, _ := handlerFunction(p, args[2]); hf == handler {
					installers = append(installers, fn)
					for _, l := range guardsOf(call.(ssa.Instruction).Block()) {
						if op, x, y, isCmp := l.cmp(); isCmp && op == token.EQL {
							for i, q := range fn.Params {
								if k, isK := constInt(y); isK && stripConv(x) == ssa.Value(q) {
									installCond[fn] = cond{i, k}
								}
								if k, isK := constInt(x); isK && stripConv(y) == ssa.Value(q) {
									installCond[fn] = cond{i, k}
								}
							}
						}
					}
				}
			}
		}
	}
	// arming functions: store parameter j into the field
	type armer struct {
		fn  *ssa.Function
		idx int
	}
	var armers []armer
	for _, fn := range p.Funcs {
		for _, st := range storesTo(fn, field) {
			for j, prm := range fn.Params {
				if strip(st.Val) == ssa.Value(prm) {
					armers = append(armers, armer{fn, j})
				}
			}
		}
	}
	// ... or hand parameter j to a function that does (an init whose body moved into a helper)
	for changed := true; changed; {
		changed = false
		for _, fn := range p.Funcs {
			eachInstr(fn, func(in ssa.Instruction) {
				call, ok := in.(ssa.CallInstruction)
				if !ok || call.Common().StaticCallee() == nil {
					return
				}
				for _, a := range armers {
					if a.fn != call.Common().StaticCallee() || a.idx >= len(call.Common().Args) {
						continue
					}
					for j, prm := range fn.Params {
						if resolveCell(strip(call.Common().Args[a.idx])) != ssa.Value(prm) {
							continue
						}
						dup := false
						for _, b := range armers {
							if b.fn == fn && b.idx == j {
								dup = true
							}
						}
						if !dup {
							armers = append(armers, armer{fn, j})
							changed = true
						}
					}
				}
			})
		}
	}
	// sibling operands: the other fields of the same reactor that the handler reads and that some function fills from a
	// parameter (buffer, destination, all-flag, progress): wherever the callback is armed they must be armed as well
	type sib struct {
		f      *types.Var
		armers map[*ssa.Function]bool
	}
	var siblings []sib
	for _, pk := range p.Pkgs {
		sc := pk.Types.Scope()
		for _, name := range sc.Names() {
			tn, ok := sc.Lookup(name).(*types.TypeName)
			if !ok {
				continue
			}
			stt, ok := tn.Type().Underlying().(*types.Struct)
			if !ok {
				continue
			}
			owns := false
			for i := 0; i < stt.NumFields(); i++ {
				if stt.Field(i) == field {
					owns = true
				}
			}
			if !owns {
				continue
			}
			for i := 0; i < stt.NumFields(); i++ {
				g := stt.Field(i)
				if g == field {
					continue
				}
				loaded := false
				for _, a := range fieldAccesses(handler, g) {
					if a.Kind == "load" {
						loaded = true
					}
				}
				if !loaded {
					continue
				}
				arm := map[*ssa.Function]bool{}
				for _, fn := range p.Funcs {
					for _, st := range storesTo(fn, g) {
						if _, isPrm := resolveCell(strip(st.Val)).(*ssa.Parameter); isPrm {
							arm[fn] = true
						}
					}
				}
				for changed := true; changed; {
					changed = false
					for _, fn := range p.Funcs {
						if arm[fn] {
							continue
						}
						eachInstr(fn, func(in ssa.Instruction) {
							call, ok := in.(ssa.CallInstruction)
							if !ok || call.Common().StaticCallee() == nil || !arm[call.Common().StaticCallee()] || !isHelperOf(fn, call.Common().StaticCallee()) {
								return
							}
							for _, a := range call.Common().Args {
								if _, isPrm := resolveCell(strip(a)).(*ssa.Parameter); isPrm && !arm[fn] {
									arm[fn] = true
									changed = true
								}
							}
						})
					}
				}
				// the back-pointer to the owning object is set once by the constructor
				if pt, isPtr := g.Type().(*types.Pointer); isPtr {
					if nt, isNamed := pt.Elem().(*types.Named); isNamed && nt.Obj().Pkg() != nil && c14Owners[nt.Obj().Pkg().Path()+"."+nt.Obj().Name()] {
						// ... by every constructor: a function that allocates the owner stores it into this field (directly, or
						// through the composite literal of the reactor), so the handler never follows a nil back-pointer
						nCtor := 0
						// a per-operation object (allocated on its own, not a field of the owner) is wired where it is built
						ownerHolds := false
						if ost, ok := nt.Underlying().(*types.Struct); ok {
							for k := 0; k < ost.NumFields(); k++ {
								if types.Identical(ost.Field(k).Type(), tn.Type()) {
									ownerHolds = true
								}
							}
						}
						if !ownerHolds {
							for _, fn := range p.Funcs {
								eachInstr(fn, func(in ssa.Instruction) {
									a, ok := in.(*ssa.Alloc)
									if !ok {
										return
									}
									if apt, ok := a.Type().(*types.Pointer); !ok || !types.Identical(apt.Elem(), tn.Type()) {
										return
									}
									nCtor++
									wired := false
									for _, st := range storesTo(fn, g) {
										if fa, ok := st.Instr.(*ssa.Store).Addr.(*ssa.FieldAddr); ok && fa.X == ssa.Value(a) && !isNil(st.Val) {
											wired = true
										}
									}
									c.check(wired, fn, "wires "+objName(g), a.Pos(), "the operation object is built with its back-pointer", fnName(fn)+" builds a "+tn.Name()+" without setting "+objName(g)+": its handler runs on a nil back-pointer")
								})
							}
							if nCtor == 0 {
								c.bad(handler, "wires "+objName(g), handler.Pos(), "no function allocates %s (anchor moved)", tn.Name())
							}
							continue
						}
						for _, fn := range p.Funcs {
							var owner *ssa.Alloc
							eachInstr(fn, func(in ssa.Instruction) {
								if a, ok := in.(*ssa.Alloc); ok && a.Heap {
									if apt, ok := a.Type().(*types.Pointer); ok && types.Identical(apt.Elem(), nt) {
										owner = a
									}
								}
							})
							if owner == nil {
								continue
							}
							nCtor++
							wired := false
							top := fn
							for top.Parent() != nil {
								top = top.Parent()
							}
							for _, scope := range withClosures(top) {
								for _, d := range deepStoresTo(scope, g) {
									v := resolveCell(d.translate(d.Store.Val))
									if v == ssa.Value(owner) || (scope != fn && dependsOnLoose(v, owner)) {
										wired = true
									}
									if cell := cellOf(strip(d.translate(d.Store.Val))); cell == owner {
										wired = true
									}
									if u, ok := strip(d.translate(d.Store.Val)).(*ssa.UnOp); ok && u.Op == token.MUL {
										if resolveCell(u) == ssa.Value(owner) {
											wired = true
										}
									}
								}
							}
							c.check(wired, fn, "wires "+objName(g), owner.Pos(), "the constructor stores the new object into the reactor's back-pointer", fnName(fn)+" allocates a "+nt.Obj().Name()+" but does not store it into "+objName(g)+": the first operation that has to be parked runs its handler on a nil back-pointer")
						}
						if nCtor == 0 {
							c.bad(handler, "wires "+objName(g), handler.Pos(), "no function allocates %s (anchor moved)", nt.Obj().Name())
						}
						continue
					}
				}
				siblings = append(siblings, sib{g, arm})
			}
		}
	}
	siblingsArmed := func(fn *ssa.Function, at ssa.Instruction) string {
		for _, sb := range siblings {
			ok := false
			eachInstr(fn, func(in ssa.Instruction) {
				if in != at && !dominatesInstr(in, at) {
					return
				}
				if st, isSt := in.(*ssa.Store); isSt {
					if fv, _ := fieldAddrOf(st.Addr); fv == sb.f {
						ok = true
					}
				}
				if call, isCall := in.(ssa.CallInstruction); isCall {
					if callee := call.Common().StaticCallee(); callee != nil && sb.armers[callee] {
						ok = true
					}
				}
			})
			if !ok {
				return sb.f.Name()
			}
		}
		return ""
	}
	armsBefore := func(fn *ssa.Function, prmIdx int, before ssa.Instruction) bool {
		prm := fn.Params[prmIdx]
		ok := false
		eachInstr(fn, func(in ssa.Instruction) {
			if !dominatesInstr(in, before) {
				return
			}
			if st, isSt := in.(*ssa.Store); isSt {
				if fv, _ := fieldAddrOf(st.Addr); fv == field && resolveCell(st.Val) == ssa.Value(prm) {
					ok = true
				}
			}
			if call, isCall := in.(ssa.CallInstruction); isCall {
				if callee := call.Common().StaticCallee(); callee != nil {
					for _, a := range armers {
						if a.fn == callee && a.idx < len(call.Common().Args) && resolveCell(call.Common().Args[a.idx]) == ssa.Value(prm) {
							ok = true
						}
					}
				}
			}
		})
		return ok
	}
	// needs: function -> index of the callback parameter that must have been armed by the caller
	needs := map[*ssa.Function]int{}
	for _, fn := range installers {
		for i, prm := range fn.Params {
			if isCallbackType(prm.Type()) {
				if _, isSig := prm.Type().Underlying().(*types.Signature); isSig {
					// an installer that fills in a fresh operation object with its own callback parameter before it
					// installs the handler (handler := x.getReadHandler(..., cb)) has armed it itself
					selfArmed := false
					for _, call := range callsTo(fn, e.slotSet) {
						if armsBefore(fn, i, call.(ssa.Instruction)) && siblingsArmed(fn, call.(ssa.Instruction)) == "" {
							selfArmed = true
						}
					}
					if selfArmed {
						c.ok(fn, "arms "+field.Name(), fn.Pos(), "the installer arms a fresh operation object with its own callback and operands")
						continue
					}
					needs[fn] = i
				}
			}
		}
	}
	reported := map[*ssa.Function]bool{}
	unarmedSite := map[*ssa.Function]ssa.Instruction{}
	for changed := true; changed; {
		changed = false
		for _, fn := range p.Funcs {
			if fn.Parent() != nil {
				continue
			}
			eachInstr(fn, func(in ssa.Instruction) {
				call, ok := in.(ssa.CallInstruction)
				if !ok {
					return
				}
				callee := call.Common().StaticCallee()
				if callee == nil {
					return
				}
				need, ok := needs[callee]
				if !ok || need >= len(call.Common().Args) {
					return
				}
				if ic, has := installCond[callee]; has && ic.idx < len(call.Common().Args) {
					if k, isK := constInt(call.Common().Args[ic.idx]); isK && k != ic.k {
						return // this call selects the other direction's handler
					}
				}
				arg := call.Common().Args[need]
				if loadedField(arg) == field {
					return // the handler re-issues with the armed callback itself
				}
				// which of fn's parameters does the argument carry?
				for i := range fn.Params {
					if _, isSig := fn.Params[i].Type().Underlying().(*types.Signature); !isSig {
						continue
					}
					if _, carried := e.percall(e2src{fn: fn, kind: srcParam, idx: i}, arg, 0); !carried {
						continue
					}
					if armsBefore(fn, i, in) {
						if missing := siblingsArmed(fn, in); missing != "" {
							if !reported[fn] {
								reported[fn] = true
								c.bad(fn, "arms "+field.Name(), in.Pos(), "%s arms the reactor's callback but not its field %s before %s can park the operation: the handler retries with the previous operation's %s (wrong buffer, destination or mode)", fnName(fn), missing, callee.Name(), missing)
							}
							return
						}
						if !reported[fn] {
							reported[fn] = true
							c.ok(fn, "arms "+field.Name(), in.Pos(), "the reactor is armed with this operation's callback and operands before %s can park it", callee.Name())
						}
						return
					}
					if _, seen := unarmedSite[fn]; !seen {
						unarmedSite[fn] = in
					}
					if _, already := needs[fn]; !already {
						needs[fn] = i
						changed = true
					}
					return
				}
			})
		}
	}
	// roots that still need arming: exported entry points (or functions without in-scope callers)
	for fn := range needs {
		isInstaller := false
		for _, x := range installers {
			if x == fn {
				isInstaller = true
			}
		}
		callersN := len(p.callers(fn))
		exported := fn.Object() != nil && fn.Object().Exported()
		_, hasUnarmed := unarmedSite[fn]
		if (exported || callersN == 0) && (!reported[fn] || hasUnarmed) {
			what := "can park the operation"
			if !isInstaller {
				what = "reaches a function that can park the operation"
			}
			c.bad(fn, "arms "+field.Name(), fn.Pos(), "%s %s without having stored its callback in %s: the handler would complete a previous operation's callback (or a nil one)", fnName(fn), what, objName(field))
		}
	}
}

// checkHangupFolding: the kernel mask value used by the dispatch guards must, on the path where EPOLLERR|EPOLLHUP is
// set in the raw mask, have both direction flags or-ed in.
func checkHangupFolding(c *Ctx, pollFn *ssa.Function, readFlag, writeFlag int64) {
	p := c.P
	maskF := p.Field("internal", "Event", "Mask")
	eventsF := p.Field("internal", "Slot", "Events")
	handlersF := p.Field("internal", "Slot", "Handlers")
	hup, _ := constantInt(p.extPkg("syscall").Scope().Lookup("EPOLLHUP").(*types.Const).Val())
	errc, _ := constantInt(p.extPkg("syscall").Scope().Lookup("EPOLLERR").(*types.Const).Val())
	// for each handler-call guard find the kernel-mask operand (the operand of the AND chain that derives from Event.Mask)
	found := 0
	eachInstr(pollFn, func(in ssa.Instruction) {
		call, ok := in.(ssa.CallInstruction)
		if !ok || !isDynamicFuncCall(call) {
			return
		}
		if _, _, ok := handlerIndexOf(call.Common().Value, handlersF); !ok && handlerIndexValue(call.Common().Value, handlersF) == nil {
			return
		}
		for _, l := range guardsOf(in.Block()) {
			_, x, y0, isCmp := l.cmp()
			if !isCmp {
				continue
			}
			var loads []ssa.Instruction
			var consts []int64
			loadsInTree(x, eventsF, 0, &loads, &consts)
			if len(loads) == 0 {
				// the AND tree is the other operand (the mask compared with is a parameter, which sorts first)
				loadsInTree(y0, eventsF, 0, &loads, &consts)
				if len(loads) == 0 {
					continue
				}
				x = y0
			}
			// kernel operand: leaves of the AND tree deriving from Event.Mask
			var kernelOps []ssa.Value
			var collect func(v ssa.Value, d int)
			collect = func(v ssa.Value, d int) {
				v = stripConv(v)
				if bo, ok := v.(*ssa.BinOp); ok && bo.Op == token.AND && d < 6 {
					collect(bo.X, d+1)
					collect(bo.Y, d+1)
					return
				}
				if derivesFromField(v, maskF, 0) {
					kernelOps = append(kernelOps, v)
				}
				// the dispatching helper receives the (already widened) readiness mask as an argument: judge the argument
				// at every call site
				if prm, isPrm := v.(*ssa.Parameter); isPrm && prm.Parent() == pollFn && !loadOfField(v, eventsF) {
					for i, q := range pollFn.Params {
						if q != prm {
							continue
						}
						for _, site := range p.callers(pollFn) {
							if i < len(site.Common().Args) && derivesFromField(site.Common().Args[i], maskF, 0) {
								kernelOps = append(kernelOps, site.Common().Args[i])
							}
						}
					}
				}
			}
			collect(x, 0)
			for _, kv := range kernelOps {
				found++
				good := foldsHangup(kv, maskF, hup|errc, readFlag|writeFlag)
				c.check(good, pollFn, "hang-up folding", in.Pos(), "EPOLLHUP|EPOLLERR imply both direction flags in the mask tested by the guard",
					"the kernel mask tested by the dispatch guard does not include the direction flags when only EPOLLHUP/EPOLLERR is reported: a peer hang-up on a FIFO/pipe never completes the pending read and the level-triggered event spins the loop")
			}
		}
	})
	if found == 0 {
		c.bad(pollFn, "hang-up folding", pollFn.Pos(), "cannot find the kernel-mask operand of the dispatch guards")
	}
}

func derivesFromField(v ssa.Value, f *types.Var, depth int) bool {
	v = stripConv(v)
	if depth > 8 {
		return false
	}
	if loadOfField(v, f) {
		return true
	}
	switch x := v.(type) {
	case *ssa.Call:
		// a helper of the same package that computes the events to wake up from the kernel mask
		if h := x.Call.StaticCallee(); h != nil && x.Parent() != nil && isHelperOf(x.Parent(), h) {
			for _, a := range x.Call.Args {
				if derivesFromField(a, f, depth+1) {
					return true
				}
			}
		}
	case *ssa.Phi:
		for _, e := range x.Edges {
			if derivesFromField(e, f, depth+1) {
				return true
			}
		}
	case *ssa.BinOp:
		return derivesFromField(x.X, f, depth+1) || derivesFromField(x.Y, f, depth+1)
	}
	return false
}

// foldsHangup: v is phi[raw, raw|both] where the or-ed edge is taken exactly when raw&(HUP|ERR) != 0, or v is an
// unconditional expression that ors both flags under that test. Recognised shape: a phi one of whose edges is
// BinOp(OR, raw, C) with C containing `both`, coming from a block guarded by (raw & M) != 0 with M containing hupErr.
func foldsHangup(v ssa.Value, maskF *types.Var, hupErr, both int64) bool {
	return foldsHangupRaw(v, func(x ssa.Value) bool { return derivesFromField(x, maskF, 0) }, hupErr, both)
}

func foldsHangupRaw(v ssa.Value, isRaw func(ssa.Value) bool, hupErr, both int64) bool {
	v = stripConv(v)
	if call, isCall := v.(*ssa.Call); isCall {
		// the widening lives in a helper: every value it returns is the widened form of its parameter
		h := call.Call.StaticCallee()
		if h == nil || call.Parent() == nil || !isHelperOf(call.Parent(), h) {
			return false
		}
		var derivesFromParam func(x ssa.Value, d int) bool
		derivesFromParam = func(x ssa.Value, d int) bool {
			x = stripConv(x)
			if d > 8 {
				return false
			}
			if _, isP := x.(*ssa.Parameter); isP {
				return true
			}
			switch y := x.(type) {
			case *ssa.Phi:
				for _, e := range y.Edges {
					if derivesFromParam(e, d+1) {
						return true
					}
				}
			case *ssa.BinOp:
				return derivesFromParam(y.X, d+1) || derivesFromParam(y.Y, d+1)
			}
			return false
		}
		rets := returnsOf(h)
		if len(rets) == 0 {
			return false
		}
		for _, r := range rets {
			if len(r.Results) != 1 || !foldsHangupRaw(r.Results[0], func(x ssa.Value) bool { return derivesFromParam(x, 0) }, hupErr, both) {
				return false
			}
		}
		return true
	}
	ph, ok := v.(*ssa.Phi)
	if !ok {
		return false
	}
	// the test split in two (`e&ERR != 0 || e&HUP != 0`): every edge that carries the mask as the kernel gave it is
	// reached only with all of the hang-up / error bits tested clear, and the other edges carry the widened mask
	{
		widened, rawOK, nRaw := 0, true, 0
		for i, e := range ph.Edges {
			if bo, ok := stripConv(e).(*ssa.BinOp); ok && bo.Op == token.OR {
				if k, ok := constInt(bo.Y); ok && k&both == both && isRaw(bo.X) {
					widened++
					continue
				}
			}
			if !isRaw(e) {
				rawOK = false
				continue
			}
			nRaw++
			var clear int64
			for _, l := range litsAt(ph.Block(), ph.Block().Preds[i]) {
				op, x, y, isCmp := l.cmp()
				if !isCmp || op != token.EQL || !isConstInt(y, 0) {
					continue
				}
				if and, ok := stripConv(x).(*ssa.BinOp); ok && and.Op == token.AND {
					if m, ok := constInt(and.Y); ok && isRaw(and.X) {
						clear |= m
					}
				}
			}
			if clear&hupErr != hupErr {
				rawOK = false
			}
		}
		if widened > 0 && nRaw > 0 && rawOK {
			return true
		}
	}
	for i, e := range ph.Edges {
		bo, ok := stripConv(e).(*ssa.BinOp)
		if !ok || bo.Op != token.OR {
			continue
		}
		k, ok := constInt(bo.Y)
		if !ok || k&both != both {
			continue
		}
		if !isRaw(bo.X) {
			continue
		}
		pred := ph.Block().Preds[i]
		for _, l := range guardsOf(pred) {
			op, x, y, isCmp := l.cmp()
			if !isCmp || op != token.NEQ || !isConstInt(y, 0) {
				continue
			}
			and, ok := stripConv(x).(*ssa.BinOp)
			if !ok || and.Op != token.AND {
				continue
			}
			m, ok := constInt(and.Y)
			if ok && m&hupErr == hupErr && isRaw(and.X) {
				return true
			}
		}
	}
	return false
}

var _ = fmt.Sprintf

// eventsLoadsIn collects the loads of field f that the condition v is computed from.
func eventsLoadsIn(v ssa.Value, f *types.Var, depth int) []*ssa.UnOp {
	if depth > 6 || v == nil {
		return nil
	}
	v = stripConv(v)
	switch x := v.(type) {
	case *ssa.UnOp:
		if x.Op == token.MUL && loadOfField(x, f) {
			return []*ssa.UnOp{x}
		}
		return eventsLoadsIn(x.X, f, depth+1)
	case *ssa.BinOp:
		return append(eventsLoadsIn(x.X, f, depth+1), eventsLoadsIn(x.Y, f, depth+1)...)
	case *ssa.Call:
		var out []*ssa.UnOp
		for _, a := range x.Call.Args {
			out = append(out, eventsLoadsIn(a, f, depth+1)...)
		}
		return out
	}
	return nil
}

// clearsBitCall: the call (of a function of the analysed packages) clears the given interest bit of Slot.Events, in its
// own body or in an unexported helper, the bit being a constant there or the parameter the call binds to that constant.
func clearsBitCall(call ssa.CallInstruction, eventsF *types.Var, flag int64) bool {
	callee := call.Common().StaticCallee()
	if callee == nil || callee.Blocks == nil {
		return false
	}
	for _, d := range deepStoresTo(callee, eventsF) {
		ev := classifyEventsStore(d.Store, eventsF)
		if ev.kind != "clear" {
			continue
		}
		m := stripConv(d.translate(ev.mask))
		if k, ok := constInt(m); ok && k == flag {
			return true
		}
		if prm, ok := m.(*ssa.Parameter); ok {
			for i, q := range callee.Params {
				if q == prm && i < len(call.Common().Args) {
					if k, ok := constInt(call.Common().Args[i]); ok && k == flag {
						return true
					}
				}
			}
		}
	}
	return false
}

// sitesTestBit: fn is an unexported function (or one that is new) with at least one call site, and every call site is
// reached only under a test that the given interest bit of Slot.Events is set.
func sitesTestBit(p *Prog, fn *ssa.Function, eventsF *types.Var, flag int64) bool {
	if fn.Parent() != nil || fn.Object() == nil || (fn.Object().Exported() && knownOnPinnedTree(fn)) {
		return false
	}
	sites := p.callers(fn)
	if len(sites) == 0 {
		return false
	}
	for _, site := range sites {
		ok := false
		for _, l := range guardsOf(site.(ssa.Instruction).Block()) {
			if x, set, isBT := bitTest(l, eventsF); isBT && set && isConstInt(x, flag) && !staleMaskAt(l, site.(ssa.Instruction), eventsF) {
				ok = true
			}
		}
		if !ok {
			return false
		}
	}
	return true
}

// staleMaskAt: the Slot.Events value tested by literal l was loaded before code that may run a handler (a call through
// a function value, or of a function of the module that makes one) which can execute before the call site: that
// handler (the user's callback) may cancel or close the object, so the mask no longer says what is armed.
func staleMaskAt(l Lit, site ssa.Instruction, eventsF *types.Var) bool {
	fn := site.Parent()
	stale := false
	for _, ld := range eventsLoadsIn(l.Cond, eventsF, 0) {
		if ld.Parent() != fn {
			continue
		}
		eachInstr(fn, func(x ssa.Instruction) {
			cc, ok := x.(ssa.CallInstruction)
			if !ok || x == site || stale {
				return
			}
			if _, isDefer := x.(*ssa.Defer); isDefer {
				return
			}
			runs := isDynamicFuncCall(cc)
			if h := cc.Common().StaticCallee(); !runs && h != nil && h.Blocks != nil && h.Pkg != nil && strings.HasPrefix(h.Pkg.Pkg.Path(), modPath) {
				runs = containsDeep(h, func(y ssa.Instruction) bool {
					yc, ok := y.(ssa.CallInstruction)
					return ok && isDynamicFuncCall(yc)
				}, 2)
			}
			if !runs {
				return
			}
			after := (ld.Block() == x.Block() && instrIndex(ld) < instrIndex(x)) || (ld.Block() != x.Block() && ld.Block().Dominates(x.Block()))
			if after && reachesFrom(x, site) {
				stale = true
			}
		})
	}
	return stale
}

// checkParamDispatch: R3 for a dispatching helper whose direction (handler index, interest flag, removal operation) is
// given by parameters: every call site must pass a consistent triple, the guard tests kernel-mask & slot.Events & flag
// with slot.Events read inside the helper (hence after any handler an earlier call ran), and the removal runs before
// the handler.
func checkParamDispatch(c *Ctx, p *Prog, e *e2, fn *ssa.Function, in ssa.Instruction, iv ssa.Value, eventsF *types.Var, readFlag, writeFlag int64, delRead, delWrite []*types.Func) {
	idxOf := func(v ssa.Value) int {
		for i, q := range fn.Params {
			if stripConv(v) == ssa.Value(q) {
				return i
			}
		}
		return -1
	}
	whichIdx := idxOf(iv)
	// the guard: a literal over slot.Events with a parameter as the mask
	flagIdx := -1
	var guard *Lit
	for _, l := range guardsOf(in.Block()) {
		l := l
		if x, set, ok := bitTest(l, eventsF); ok && set {
			if i := idxOf(x); i >= 0 {
				flagIdx, guard = i, &l
			}
		}
	}
	// the removal: a call, dominating the handler, of a function-valued parameter (or of a Del* directly under a test of
	// the direction)
	unsetIdx := -1
	eachInstr(fn, func(x ssa.Instruction) {
		cc, ok := x.(ssa.CallInstruction)
		if !ok || !isDynamicFuncCall(cc) || !dominatesInstr(x, in) {
			return
		}
		if i := idxOf(cc.Common().Value); i >= 0 {
			unsetIdx = i
		}
	})
	sites := p.callers(fn)
	good := whichIdx >= 0 && flagIdx >= 0 && unsetIdx >= 0 && guard != nil && len(sites) > 0
	why := "the dispatching helper does not test kernel mask & slot.Events & flag, remove the interest and then run the handler, all for the direction its parameters name"
	if good {
		// freshness: slot.Events is loaded inside the helper
		if len(eventsLoadsIn(guard.Cond, eventsF, 0)) == 0 {
			good, why = false, "the interest mask tested by the dispatching helper is not read inside it: a handler run by an earlier call may have changed it"
		}
	}
	for _, site := range sites {
		if !good {
			break
		}
		a := site.Common().Args
		k, okK := constInt(a[whichIdx])
		fl, okF := constInt(a[flagIdx])
		var un *types.Func
		switch f := stripConv(a[unsetIdx]).(type) {
		case *ssa.Function:
			un, _ = f.Object().(*types.Func)
			if un == nil && f.Synthetic != "" {
				// a thunk of a method expression: the method it forwards to
				eachInstr(f, func(x ssa.Instruction) {
					if cc, ok := x.(ssa.CallInstruction); ok && cc.Common().StaticCallee() != nil {
						un, _ = cc.Common().StaticCallee().Object().(*types.Func)
					}
				})
			}
		case *ssa.MakeClosure:
			if bf, ok := f.Fn.(*ssa.Function); ok {
				un, _ = bf.Object().(*types.Func)
			}
		}
		wantFlag, dels := readFlag, delRead
		if okK && k == e.writeEv {
			wantFlag, dels = writeFlag, delWrite
		}
		if !okK || !okF || fl != wantFlag || un == nil || !isOneOf(un, dels) {
			good, why = false, "a call of the dispatching helper passes a handler index, an interest flag and a removal operation that do not belong to one direction: the handler of one direction runs for an event of the other, or its interest is not the one removed"
		}
	}
	c.check(good, fn, "dispatch by parameter", in.Pos(), "guarded by kernel mask & freshly read interest & flag, interest removed first, consistent direction at every call", why)
}
