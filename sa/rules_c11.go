package main

import (
	"fmt"
	"go/token"
	"go/types"
	"sort"

	"golang.org/x/tools/go/ssa"
)

func init() {
	register(&propertySpec{
		ID:    "C11",
		Title: "MirroredBuffer is a contiguous-claim ring for every accepted size",
		Explanation: "Decides: (R1) wrap arithmetic sound for every accepted size - every store to head/tail is 0, x % size, the conditional-subtract idiom (x += n; if x >= size " +
			"{ x -= size }) with the amount bounded by size, or x & mask only when the constructor validates a power of two; (R2) clamps - the amounts of Claim/Commit/Consume " +
			"are min(n, FreeSpace()) / min(n, UsedSpace()) before they reach a slice bound or cursor arithmetic; Claim slices the double mapping at tail; " +
			"(R3) accounting - used and the cursor move by the same clamped amount in the same direction, FreeSpace() = size - used, UsedSpace() = used, Full() = (used == size), " +
			"Reset zeroes head, tail and used; (R4) construction - the size is rounded up to a page multiple and rejected when <= 0, the anonymous reservation is 2*size, the file " +
			"is truncated to size and mapped twice with MAP_FIXED|MAP_SHARED at slice[0] and slice[size], each of length size at file offset 0; release of the mapping, the temp " +
			"file and its descriptor on every path is decided by C13-R1/R2 (shared). Not decided: that the two mappings alias (MMU); negative amounts (outside the quantifier).",
		Run: runC11,
	})
	addMutants("C11",
		mutant{"mask wrap for arbitrary sizes", "bytes/mirrored_buffer.go",
			"\tif b.tail += n; b.tail >= b.size {\n\t\tb.tail -= b.size\n\t}", "\tb.tail = (b.tail + n) & b.sizeMask", "C11-R1"},
		mutant{"wrap test off by one", "bytes/mirrored_buffer.go",
			"\tif b.head += n; b.head >= b.size {\n\t\tb.head -= b.size\n\t}", "\tif b.head += n; b.head > b.size {\n\t\tb.head -= b.size\n\t}", "C11-R1"},
		mutant{"commit not clamped to the free space", "bytes/mirrored_buffer.go",
			"func (b *MirroredBuffer) Commit(n int) int {\n\tif free := b.FreeSpace(); n > free {\n\t\tn = free\n\t}\n", "func (b *MirroredBuffer) Commit(n int) int {\n", "C11-R2"},
		mutant{"consume clamped to the free space", "bytes/mirrored_buffer.go",
			"\tif used := b.UsedSpace(); n > used {\n\t\tn = used\n\t}", "\tif used := b.FreeSpace(); n > used {\n\t\tn = used\n\t}", "C11-R2"},
		mutant{"claim sliced at head", "bytes/mirrored_buffer.go", "\tclaim := b.slice[b.tail:]\n", "\tclaim := b.slice[b.head:]\n", "C11-R2"},
		mutant{"used not updated on consume", "bytes/mirrored_buffer.go", "\tb.used -= n\n\tif b.head += n;", "\tif b.head += n;", "C11-R3"},
		mutant{"free space ignores the size", "bytes/mirrored_buffer.go", "\treturn b.size - b.used\n", "\treturn len(b.slice) - b.used\n", "C11-R3"},
		mutant{"reset keeps the used count", "bytes/mirrored_buffer.go", "\tb.head = 0\n\tb.tail = 0\n\tb.used = 0\n}", "\tb.head = 0\n\tb.tail = 0\n}", "C11-R3"},
		mutant{"first half mapped twice", "bytes/mirrored_buffer.go", "\tif err = remap(secondAddr); err != nil {", "\tif err = remap(firstAddr); err != nil {", "C11-R4"},
		mutant{"second mapping at the wrong offset", "bytes/mirrored_buffer.go", "\t\tsecondAddr = uintptr(unsafe.Pointer(&b.slice[size]))", "\t\tsecondAddr = uintptr(unsafe.Pointer(&b.slice[size-1]))", "C11-R4"},
		mutant{"reservation not doubled", "bytes/mirrored_buffer.go", "\tb.slice, err = mmapAllocate(2*size, prefault)", "\tb.slice, err = mmapAllocate(size, prefault)", "C11-R4"},
		mutant{"private mapping", "bytes/mirrored_buffer.go", "\t\tflags := syscall.MAP_FIXED | syscall.MAP_SHARED", "\t\tflags := syscall.MAP_FIXED | syscall.MAP_PRIVATE", "C11-R4"},
		mutant{"size not rounded to a page", "bytes/mirrored_buffer.go", "\tif remainder := size % pageSize; remainder > 0 {\n\t\tsize += pageSize - remainder\n\t}\n", "\t_ = pageSize\n", "C11-R4"},
	)
}

func runC11(c *Ctx) {
	p := c.P
	T := "MirroredBuffer"
	f := func(n string) *types.Var { return p.Field("bytes", T, n) }
	head, tail, used, size, sliceF := f("head"), f("tail"), f("used"), f("size"), f("slice")
	m := func(n string) *ssa.Function { return p.Method("bytes", T, n) }
	var methods []*ssa.Function
	for _, fn := range p.Funcs {
		if pk, tn := recvTypeName(fn); pk == modPath+"/bytes" && tn == T && fn.Parent() == nil {
			methods = append(methods, fn)
		}
	}
	ctor := p.Fn("bytes", "NewMirroredBuffer")

	// ------------------------------------------------------------------------------------------------ R1
	c.rule("C11-R1", "every store to head/tail wraps correctly for any accepted size (0, % size, or add then conditional subtract of size)", 4)
	type curStore struct {
		fn    *ssa.Function
		cur   *types.Var
		st    *ssa.Store
		isCur func(ssa.Value) bool
		all   []*ssa.Store
	}
	var work []curStore
	for _, fn := range methods {
		for _, cur := range []*types.Var{head, tail} {
			cur := cur
			var all []*ssa.Store
			for _, a := range storesTo(fn, cur) {
				all = append(all, a.Instr.(*ssa.Store))
			}
			for _, st := range all {
				work = append(work, curStore{fn, cur, st, func(v ssa.Value) bool { return loadOfField(v, cur) }, all})
			}
		}
		// a cursor updated through a pointer parameter (advance(&b.tail, n)): the stores `*q = ...` of the function that
		// receives the pointer, judged as updates of the cursor every call binds q to
		for _, q := range fn.Params {
			q := q
			var bound *types.Var
			okAll := true
			for _, site := range p.callers(fn) {
				for i, prm := range fn.Params {
					if prm != q || i >= len(site.Common().Args) {
						continue
					}
					fv, _ := fieldAddrOf(stripConv(site.Common().Args[i]))
					if fv != head && fv != tail {
						okAll = false
					} else if bound == nil || fv == head || fv == tail {
						bound = fv
					}
				}
			}
			if bound == nil || !okAll {
				continue
			}
			var all []*ssa.Store
			eachInstr(fn, func(in ssa.Instruction) {
				if st, ok := in.(*ssa.Store); ok && st.Addr == ssa.Value(q) {
					all = append(all, st)
				}
			})
			isDeref := func(v ssa.Value) bool {
				u, ok := stripConv(v).(*ssa.UnOp)
				return ok && u.Op == token.MUL && u.X == ssa.Value(q)
			}
			for _, st := range all {
				work = append(work, curStore{fn, bound, st, isDeref, all})
			}
		}
	}
	{
		{
			for _, wk := range work {
				fn, cur, st, isCur := wk.fn, wk.cur, wk.st, wk.isCur
				var stores []fieldAccess
				for _, s2 := range wk.all {
					stores = append(stores, fieldAccess{Instr: s2, Val: s2.Val})
				}
				v := stripConv(st.Val)
				what := "store " + cur.Name()
				if isConstInt(v, 0) {
					c.ok(fn, what, st.Pos(), "reset to 0")
					continue
				}
				if wc, ok := v.(*ssa.Call); ok {
					// the wrap moved into a helper: cur = wrap(cur + amount)
					if callee := wc.Call.StaticCallee(); callee != nil && isWrapHelper(callee, size) && len(wc.Call.Args) == 3 {
						if isCur(wc.Call.Args[1]) != isCur(wc.Call.Args[2]) {
							c.ok(fn, what, st.Pos(), "advance wrapped by "+callee.Name())
							continue
						}
					}
					if callee := wc.Call.StaticCallee(); callee != nil && isWrapHelper(callee, size) && len(wc.Call.Args) == 2 {
						if add, ok := stripConv(wc.Call.Args[1]).(*ssa.BinOp); ok && add.Op == token.ADD && (isCur(add.X) || isCur(add.Y)) {
							c.ok(fn, what, st.Pos(), "advance wrapped by "+callee.Name())
							continue
						}
					}
				}
				bo, ok := v.(*ssa.BinOp)
				if !ok {
					c.bad(fn, what, st.Pos(), "unrecognised update of %s", cur.Name())
					continue
				}
				switch {
				case bo.Op == token.REM && loadOfField(bo.Y, size):
					c.ok(fn, what, st.Pos(), "modulo size")
				case bo.Op == token.AND:
					// mask: only sound for powers of two
					c.check(ctorValidatesPow2(ctor, size), fn, what, st.Pos(), "masked; the constructor only accepts powers of two", "the cursor is wrapped with a bit mask although the constructor accepts sizes that are not a power of two: after the first wrap the cursor lands on a wrong offset and claims alias committed bytes")
				case bo.Op == token.SUB && isCur(bo.X) && loadOfField(bo.Y, size):
					// the conditional subtract: guarded by cur >= size
					good := false
					for _, l := range guardsOf(st.Block()) {
						op, x, y, ok := l.cmpWhere(isCur)
						if ok && op == token.GEQ && isCur(x) && loadOfField(y, size) {
							good = true
						}
					}
					c.check(good, fn, what, st.Pos(), "subtracts size exactly when the cursor reached it", "size is subtracted from the cursor under a test other than cursor >= size: a cursor equal to size is left outside the ring (or a valid one is wrapped)")
				case bo.Op == token.ADD && (isCur(bo.X) || isCur(bo.Y)):
					// must be followed on every path by the wrap test
					okp, why := mustPass(st, func(in ssa.Instruction) bool {
						ifi, ok := in.(*ssa.If)
						if !ok {
							return false
						}
						cond, _ := normLit(ifi.Cond, true)
						b2, ok := cond.(*ssa.BinOp)
						if !ok {
							return false
						}
						op2, x2, y2, ok2 := binCmpWhere(b2, isCur)
						return ok2 && (op2 == token.GEQ || op2 == token.LSS) && isCur(x2) && loadOfField(y2, size)
					})
					// and the subtract must exist
					hasSub := false
					for _, s2 := range stores {
						if b3, ok := stripConv(s2.Val).(*ssa.BinOp); ok && b3.Op == token.SUB && loadOfField(b3.Y, size) {
							hasSub = true
						}
					}
					c.check(okp && hasSub, fn, what, st.Pos(), "advance followed by the wrap test on every path", "the cursor is advanced without being wrapped at size on every path ("+why+"): it runs past the ring")
				default:
					c.bad(fn, what, st.Pos(), "unrecognised update of %s: %s", cur.Name(), exprString(v, nil, 0))
				}
			}
		}
	}

	// ------------------------------------------------------------------------------------------------ R2
	c.rule("C11-R2", "amounts are clamped by FreeSpace()/UsedSpace() before use; Claim slices the double mapping at tail", 4)
	clampOf := map[string]string{"Claim": "FreeSpace", "Commit": "FreeSpace", "Consume": "UsedSpace"}
	amounts := map[string]ssa.Value{}
	for name, lim := range clampOf {
		fn := m(name)
		limit := m(lim)
		var amount ssa.Value
		eachInstr(fn, func(in ssa.Instruction) {
			ph, isVal := in.(ssa.Value)
			if !isVal {
				return
			}
			_, isPhi := in.(*ssa.Phi)
			_, isCall := in.(*ssa.Call)
			if !isPhi && !isCall {
				return
			}
			if big, small, ok := minOf(ph); ok {
				// min(n, limit()): minPhi returns (big, small) = (the one tested greater, the other)
				var call *ssa.Call
				var prm bool
				for _, v := range []ssa.Value{big, small} {
					if cc, ok := v.(*ssa.Call); ok && isCallToFn(cc, limit) {
						call = cc
					}
					if _, ok := v.(*ssa.Parameter); ok {
						prm = true
					}
				}
				if call != nil && prm {
					amount = ph
				}
			}
		})
		c.check(amount != nil, fn, "clamp", fn.Pos(), "amount = min(n, "+lim+"())", name+" does not clamp its amount to "+lim+"(): committing/consuming/claiming more than is available makes used exceed size or go negative and claims alias live data")
		if amount == nil {
			continue
		}
		amounts[name] = amount
		// every use of the raw parameter other than the clamp comparison is suspicious
		prm := fn.Params[1]
		rawUse := false
		if refs := prm.Referrers(); refs != nil {
			for _, r := range *refs {
				switch x := r.(type) {
				case *ssa.Phi, *ssa.DebugRef:
				case *ssa.Call:
					if bi, isB := x.Call.Value.(*ssa.Builtin); !isB || bi.Name() != "min" {
						rawUse = true
					}
				case *ssa.BinOp:
					if x.Op != token.GTR && x.Op != token.LSS && x.Op != token.LEQ && x.Op != token.GEQ {
						rawUse = true
					}
				default:
					rawUse = true
				}
			}
		}
		c.check(!rawUse, fn, "raw amount", fn.Pos(), "only the clamped amount is used", name+" uses its unclamped argument in arithmetic or as a bound")
	}
	{
		fn := m("Claim")
		good := false
		for _, r := range returnsOf(fn) {
			sl, ok := stripConv(r.Results[0]).(*ssa.Slice)
			if !ok || sl.High == nil {
				continue
			}
			inner, ok := stripConv(sl.X).(*ssa.Slice)
			if ok && loadOfField(inner.X, sliceF) && loadOfField(inner.Low, tail) && inner.High == nil && stripConv(sl.High) == amounts["Claim"] && sl.Low == nil {
				good = true
			}
			if loadOfField(sl.X, sliceF) && loadOfField(sl.Low, tail) {
				if am, ok := incrementOf(sl.High, tail); ok && stripConv(am) == amounts["Claim"] {
					good = true
				}
			}
		}
		c.check(good, fn, "claim slice", fn.Pos(), "the claim is slice[tail:][:amount]", "Claim does not hand out the double mapping starting at tail with the clamped length: it aliases committed bytes or is not contiguous")
	}

	// ------------------------------------------------------------------------------------------------ R3
	c.rule("C11-R3", "accounting: used and the cursor move by the same clamped amount; FreeSpace/UsedSpace/Full formulas; Reset", 6)
	for _, spec := range []struct {
		name string
		cur  *types.Var
		op   token.Token
	}{{"Commit", tail, token.ADD}, {"Consume", head, token.SUB}} {
		fn := m(spec.name)
		am := amounts[spec.name]
		usedOK, curOK := false, false
		for _, a := range storesTo(fn, used) {
			if bo, ok := stripConv(a.Val).(*ssa.BinOp); ok && bo.Op == spec.op && loadOfField(bo.X, used) && stripConv(bo.Y) == am {
				usedOK = true
			}
		}
		// the cursor advanced through a pointer to it: advance(&b.tail, amount) with `*cursor += n` inside
		for _, d := range deepStoresTo(fn, spec.cur) {
			q, viaPtr := d.Store.Addr.(*ssa.Parameter)
			if !viaPtr {
				continue
			}
			if bo, ok := stripConv(d.Store.Val).(*ssa.BinOp); ok && bo.Op == token.ADD {
				isDeref := func(v ssa.Value) bool {
					u, ok := stripConv(v).(*ssa.UnOp)
					return ok && u.Op == token.MUL && u.X == ssa.Value(q)
				}
				var inc ssa.Value
				if isDeref(bo.X) {
					inc = bo.Y
				} else if isDeref(bo.Y) {
					inc = bo.X
				}
				if inc != nil && stripConv(d.translate(inc)) == am {
					curOK = true
				}
			}
		}
		for _, a := range storesTo(fn, spec.cur) {
			v := stripConv(a.Val)
			if wc, ok := v.(*ssa.Call); ok && wc.Call.StaticCallee() != nil && isWrapHelper(wc.Call.StaticCallee(), size) && len(wc.Call.Args) == 2 {
				v = stripConv(wc.Call.Args[1])
			}
			if inc, ok := incrementOf(v, spec.cur); ok && stripConv(inc) == am {
				curOK = true
			}
			// cur = advance(cur, amount)
			if wc, ok := v.(*ssa.Call); ok && wc.Call.StaticCallee() != nil && isWrapHelper(wc.Call.StaticCallee(), size) && len(wc.Call.Args) == 3 {
				a1, a2 := stripConv(wc.Call.Args[1]), stripConv(wc.Call.Args[2])
				if (loadOfField(a1, spec.cur) && a2 == am) || (loadOfField(a2, spec.cur) && a1 == am) {
					curOK = true
				}
			}
		}
		retOK := false
		for _, r := range returnsOf(fn) {
			if stripConv(r.Results[0]) == am {
				retOK = true
			}
		}
		c.check(am != nil && usedOK && curOK && retOK, fn, "accounting", fn.Pos(), "used, the cursor and the result all use the clamped amount", spec.name+" does not move used ("+spec.op.String()+") and "+spec.cur.Name()+" (+) by the one clamped amount it returns: used + free no longer equals size, or the ring position drifts from the byte count")
	}
	exprOf := func(fn *ssa.Function) string {
		s := ""
		for _, r := range returnsOf(fn) {
			s = exprString(r.Results[0], nil, 0)
		}
		return s
	}
	c.check(exprOf(m("FreeSpace")) == "(size-used)", m("FreeSpace"), "formula", m("FreeSpace").Pos(), "size - used", "FreeSpace() is "+exprOf(m("FreeSpace"))+", expected size - used")
	c.check(exprOf(m("UsedSpace")) == "used", m("UsedSpace"), "formula", m("UsedSpace").Pos(), "used", "UsedSpace() is "+exprOf(m("UsedSpace"))+", expected used")
	c.check(exprOf(m("Size")) == "size", m("Size"), "formula", m("Size").Pos(), "size", "Size() is "+exprOf(m("Size"))+", expected size")
	{
		fn := m("Reset")
		z := map[*types.Var]bool{}
		for _, cur := range []*types.Var{head, tail, used} {
			for _, a := range storesDeep(fn, cur) {
				if isConstInt(a.Val, 0) {
					z[cur] = true
				}
			}
		}
		c.check(len(z) == 3, fn, "reset", fn.Pos(), "head, tail and used are zeroed", "Reset does not zero head, tail and used together")
	}

	// ------------------------------------------------------------------------------------------------ R4
	c.rule("C11-R4", "construction: page rounding, positive size, 2*size reservation, file of size bytes mapped twice MAP_FIXED|MAP_SHARED at slice[0] and slice[size]", 6)
	{
		fn := ctor
		mapFixed, _ := constantInt(p.extPkg("syscall").Scope().Lookup("MAP_FIXED").(*types.Const).Val())
		mapShared, _ := constantInt(p.extPkg("syscall").Scope().Lookup("MAP_SHARED").(*types.Const).Val())
		sysMmap, _ := constantInt(p.extPkg("syscall").Scope().Lookup("SYS_MMAP").(*types.Const).Val())
		all := withClosures(fn)
		// parts of the construction may sit in helpers a refactoring split off the constructor (the mapping routine, the
		// creation of the backing file, the whole mirroring step as a method): they and their closures are searched too
		helperSites := map[*ssa.Function][]*ssa.Call{}
		for _, g := range withClosures(fn) {
			for _, hc := range allCalls(g) {
				if h := hc.Call.StaticCallee(); isHelperOf(fn, h) && !knownOnPinnedTree(h) {
					if len(helperSites[h]) == 0 {
						all = append(all, withClosures(h)...)
					}
					helperSites[h] = append(helperSites[h], hc)
				}
			}
		}
		topOf := func(g *ssa.Function) *ssa.Function {
			for g != nil && g.Parent() != nil {
				g = g.Parent()
			}
			return g
		}
		// isSize: v is the (rounded) size the constructor stores into the size field: in the constructor's frame a
		// load of the same local; in a helper called after that store a load of the field itself (directly or through
		// a local that holds nothing else), or a parameter bound to the size at every call
		var isSize func(v ssa.Value, depth int) bool
		isSize = func(v ssa.Value, depth int) bool {
			v = stripConv(v)
			if depth > 4 {
				return false
			}
			for _, st := range storesTo(fn, size) {
				if sameCellLoad(st.Val, v) {
					return true
				}
			}
			var g *ssa.Function
			switch x := v.(type) {
			case *ssa.Parameter:
				g = x.Parent()
			case ssa.Instruction:
				g = x.Parent()
			}
			h := topOf(g)
			sites := helperSites[h]
			if h == nil || len(sites) == 0 {
				return false
			}
			if prm, isPrm := v.(*ssa.Parameter); isPrm && g == h {
				for i, q := range h.Params {
					if q == prm {
						for _, hc := range sites {
							if !isSize(hc.Call.Args[i], depth+1) {
								return false
							}
						}
						return true
					}
				}
				return false
			}
			u, isLoad := v.(*ssa.UnOp)
			if !isLoad || u.Op != token.MUL {
				return false
			}
			if loadOfField(u, size) {
				// the field has been set by the time the helper runs
				for _, hc := range sites {
					set := false
					for _, st := range storesTo(fn, size) {
						if dominatesInstr(st.Instr, hc) {
							set = true
						}
					}
					if !set {
						return false
					}
				}
				return true
			}
			if c := cellOf(u.X); c != nil {
				n := 0
				okAll := true
				for _, cf := range withClosures(c.Parent()) {
					eachInstr(cf, func(in ssa.Instruction) {
						if st, ok := in.(*ssa.Store); ok && cellOf(st.Addr) == c {
							n++
							if !isSize(st.Val, depth+1) {
								okAll = false
							}
						}
					})
				}
				return n > 0 && okAll
			}
			return false
		}
		// size variable: parameter 0 spilled into a cell and updated
		sizeExprs := func(v ssa.Value) string { return exprString(resolveLoadsOfCell(v), nil, 0) }
		_ = sizeExprs
		// rounding
		rounded := false
		for _, g := range all {
			eachInstr(g, func(in ssa.Instruction) {
				bo, ok := in.(*ssa.BinOp)
				if ok && bo.Op == token.REM {
					if call, ok := stripConv(bo.Y).(*ssa.Call); ok && call.Call.StaticCallee() != nil && call.Call.StaticCallee().Name() == "Getpagesize" {
						rounded = true
					}
				}
			})
		}
		c.check(rounded, fn, "page rounding", fn.Pos(), "the size is rounded up to a multiple of the page size", "the requested size is not rounded up to a page multiple: the second mapping cannot start at slice[size] on a page boundary")
		positive := false
		for _, r := range returnsOf(fn) {
			for _, l := range guardsOf(r.Block()) {
				op, _, y, ok := l.cmp()
				if ok && op == token.LEQ && isConstInt(y, 0) {
					positive = true
				}
			}
		}
		c.check(positive, fn, "positive size", fn.Pos(), "non-positive sizes are rejected", "a non-positive size is not rejected before mapping")
		// reservation
		res := false
		for _, g := range all {
			for _, call := range callsToFn(g, p.Fn("bytes", "mmapAllocate")) {
				if bo, ok := stripConv(call.Common().Args[0]).(*ssa.BinOp); ok && bo.Op == token.MUL && (isConstInt(bo.X, 2) || isConstInt(bo.Y, 2)) {
					res = true
				}
			}
		}
		c.check(res, fn, "reservation", fn.Pos(), "2*size bytes of address space are reserved", "the anonymous reservation is not 2*size bytes: the second mapping overwrites unrelated memory or fails")
		// the two remaps: addresses &slice[0] and &slice[size]
		var idx []string
		for _, g := range all {
			eachInstr(g, func(in ssa.Instruction) {
				ia, ok := in.(*ssa.IndexAddr)
				if !ok || !loadOfField(ia.X, sliceF) {
					return
				}
				idx = append(idx, exprString(resolveLoadsOfCell(ia.Index), nil, 0))
			})
		}
		sort.Strings(idx)
		goodIdx := len(idx) == 2 && idx[0] == "0"
		// stricter: second index must be the size value that is also stored into the size field
		second := false
		for _, g := range all {
			eachInstr(g, func(in ssa.Instruction) {
				ia, ok := in.(*ssa.IndexAddr)
				if !ok || !loadOfField(ia.X, sliceF) || isConstInt(ia.Index, 0) {
					return
				}
				if isSize(ia.Index, 0) {
					second = true
				}
			})
		}
		c.check(goodIdx && second, fn, "mapping addresses", fn.Pos(), "the file is mapped at slice[0] and slice[size]", fmt.Sprintf("the two mappings are not placed at slice[0] and slice[size] (indices %v): the mirror does not start where the ring ends", idx))
		// mmap call: length size, flags FIXED|SHARED, offset 0
		okMap := false
		why := "no mmap of the file"
		for _, g := range all {
			eachInstr(g, func(in ssa.Instruction) {
				call, ok := in.(*ssa.Call)
				if !ok || call.Call.StaticCallee() == nil || call.Call.StaticCallee().String() != "syscall.Syscall6" {
					return
				}
				a := call.Call.Args
				if !isConstInt(a[0], sysMmap) {
					return
				}
				flags, isK := constInt(resolveLoadsOfCell(a[4]))
				lenOK := isSize(a[2], 0)
				offOK := isConstInt(a[6], 0)
				switch {
				case !isK || flags != mapFixed|mapShared:
					why = "the file is not mapped with MAP_FIXED|MAP_SHARED (writes through one mapping are not visible through the other, or the kernel chooses another address)"
				case !lenOK:
					why = "each mapping is not exactly size bytes long"
				case !offOK:
					why = "the mappings do not both start at file offset 0"
				default:
					okMap = true
				}
			})
		}
		c.check(okMap, fn, "mapping parameters", fn.Pos(), "size bytes, MAP_FIXED|MAP_SHARED, file offset 0", why)
		// both addresses are actually mapped: the mapping routine is invoked once with each of them
		{
			var mapper *ssa.Function
			for _, g := range all {
				eachInstr(g, func(in ssa.Instruction) {
					if call, ok := in.(*ssa.Call); ok && call.Call.StaticCallee() != nil && call.Call.StaticCallee().String() == "syscall.Syscall6" && isConstInt(call.Call.Args[0], sysMmap) {
						mapper = g
					}
				})
			}
			mappedIdx := map[string]int{}
			// the function that invokes the mapping routine: the one defining the closure; for a named routine its caller
			host := fn
			if mapper != nil && mapper.Parent() != nil {
				host = mapper.Parent()
			} else if mapper != nil && len(helperSites[mapper]) > 0 {
				host = helperSites[mapper][0].Parent()
			}
			if mapper != nil && mapper != fn {
				eachInstr(host, func(in ssa.Instruction) {
					call, ok := in.(*ssa.Call)
					if !ok || len(call.Call.Args) == 0 {
						return
					}
					mc, ok := resolveCell(strip(call.Call.Value)).(*ssa.MakeClosure)
					if (!ok || mc.Fn != mapper) && call.Call.StaticCallee() != mapper {
						return
					}
					eachInstr(host, func(x ssa.Instruction) {
						ia, ok := x.(*ssa.IndexAddr)
						if !ok || !loadOfField(ia.X, sliceF) {
							return
						}
						for _, arg := range call.Call.Args {
							if dependsOn(arg, ia) {
								mappedIdx[exprString(resolveLoadsOfCell(ia.Index), nil, 0)]++
							}
						}
					})
				})
			}
			c.check(mapper == host || (len(mappedIdx) == 2 && mappedIdx["0"] == 1), fn, "both halves mapped", fn.Pos(), "the file is mapped once at each of the two addresses", fmt.Sprintf("the mapping routine is not invoked once with each of the two addresses (invoked for indices %v): one half of the ring keeps the anonymous memory and bytes written near the end do not appear at the start", mappedIdx))
		}
		// file truncated to size
		trunc := false
		for _, g := range all {
			eachInstr(g, func(in ssa.Instruction) {
				call, ok := in.(*ssa.Call)
				if ok && call.Call.StaticCallee() != nil && call.Call.StaticCallee().Name() == "Truncate" {
					if isSize(call.Call.Args[1], 0) {
						trunc = true
					}
				}
			})
		}
		c.check(trunc, fn, "backing file", fn.Pos(), "the backing file is truncated to size", "the backing file is not sized to exactly size bytes: touching the ring beyond the file raises SIGBUS")
	}
}

// ctorValidatesPow2: the constructor rejects sizes that are not a power of two (a literal size & (size-1) test).
func ctorValidatesPow2(ctor *ssa.Function, size *types.Var) bool {
	found := false
	for _, g := range withClosures(ctor) {
		eachInstr(g, func(in ssa.Instruction) {
			bo, ok := in.(*ssa.BinOp)
			if !ok || bo.Op != token.AND {
				return
			}
			if sub, ok := stripConv(bo.Y).(*ssa.BinOp); ok && sub.Op == token.SUB && isConstInt(sub.Y, 1) {
				if sameCellLoad(bo.X, sub.X) {
					found = true
				}
			}
		})
	}
	return found
}

// resolveLoadsOfCell: if v is a load of a local cell, returns the cell itself as identity (all loads of one cell compare equal);
// used only where no store intervenes by construction (constructor locals after their last assignment).
func resolveLoadsOfCell(v ssa.Value) ssa.Value {
	v = stripConv(v)
	if r := resolveCell(v); r != v {
		return r
	}
	return v
}

// sameCellLoad: both values are (conversions of) loads of the same local variable cell, or the same SSA value.
func sameCellLoad(a, b ssa.Value) bool {
	a, b = stripConv(a), stripConv(b)
	if a == b {
		return true
	}
	ua, ok1 := a.(*ssa.UnOp)
	ub, ok2 := b.(*ssa.UnOp)
	if !ok1 || !ok2 || ua.Op != token.MUL || ub.Op != token.MUL {
		return false
	}
	ca, cb := cellOf(ua.X), cellOf(ub.X)
	return ca != nil && ca == cb
}

// isWrapHelper: f(index) returns index when index < size and index - size otherwise (or index % size).
func isWrapHelper(f *ssa.Function, size *types.Var) bool {
	if f.Blocks == nil {
		return false
	}
	if len(f.Params) == 3 {
		return isAdvanceHelper(f, size)
	}
	if len(f.Params) != 2 {
		return false
	}
	return wrapsValue(f, f.Params[1], size)
}

// isAdvanceHelper: f(recv, pos, n) returns pos+n wrapped at size.
func isAdvanceHelper(f *ssa.Function, size *types.Var) bool {
	var sum ssa.Value
	eachInstr(f, func(in ssa.Instruction) {
		if bo, ok := in.(*ssa.BinOp); ok && bo.Op == token.ADD {
			x, y := stripConv(bo.X), stripConv(bo.Y)
			if (x == ssa.Value(f.Params[1]) && y == ssa.Value(f.Params[2])) || (x == ssa.Value(f.Params[2]) && y == ssa.Value(f.Params[1])) {
				sum = bo
			}
		}
	})
	return sum != nil && wrapsValue(f, sum, size)
}

// wrapsValue: the single result of f is prm wrapped at size (prm % size, or prm when prm < size and prm - size otherwise).
func wrapsValue(f *ssa.Function, prm ssa.Value, size *types.Var) bool {
	rets := returnsOf(f)
	if len(rets) != 1 || len(rets[0].Results) != 1 {
		return false
	}
	v := stripConv(rets[0].Results[0])
	if bo, ok := v.(*ssa.BinOp); ok && bo.Op == token.REM && stripConv(bo.X) == prm && loadOfField(bo.Y, size) {
		return true
	}
	ph, ok := v.(*ssa.Phi)
	if !ok || len(ph.Edges) != 2 {
		return false
	}
	same, sub := false, false
	for i, e := range ph.Edges {
		e = stripConv(e)
		ls := litsAt(ph.Block(), ph.Block().Preds[i])
		if e == prm {
			for _, l := range ls {
				op, x, y, ok := l.cmpWith(prm)
				if ok && op == token.LSS && stripConv(x) == prm && loadOfField(y, size) {
					same = true
				}
			}
		}
		if bo, ok := e.(*ssa.BinOp); ok && bo.Op == token.SUB && stripConv(bo.X) == prm && loadOfField(bo.Y, size) {
			for _, l := range ls {
				op, x, y, ok := l.cmpWith(prm)
				if ok && op == token.GEQ && stripConv(x) == prm && loadOfField(y, size) {
					sub = true
				}
			}
		}
	}
	return same && sub
}
