package main

import (
	"fmt"
	"go/token"
	"go/types"
	"sort"
	"strings"

	"golang.org/x/tools/go/ssa"
)

func init() {
	register(&propertySpec{
		ID:    "C09",
		Title: "ByteBuffer behaves as three adjacent FIFO regions",
		Explanation: "Decides: (R1) argument sanitisation - in every exported method of ByteBuffer each integer that comes from the caller (int parameters, the fields of a Slot " +
			"parameter, the value returned by the user function of Claim) and reaches cursor arithmetic (si/ri/wi), a slice bound of the storage or a copy range is, at that " +
			"point, bounded below (n > 0 / n >= 0 / early return) and above by a quantity that does not depend on it (clamp n > L -> n = L, or test n <= L), or the point is " +
			"guarded by a validator function whose own body is checked to be overflow-free comparisons; guards of the overflow-prone form cursor + n <= cap are rejected; " +
			"documented exception: Reserve (an allocation request cannot be clamped); (R2) wi and len(data) move together - after every store to wi every path to the exit " +
			"re-slices data to that wi; (R3) Read returns a nil error with the bytes copied only when the read area is non-empty (so ReadByte never yields a stale byte), " +
			"reads come from data[si:ri], and the three cursors keep their order in the shifting methods (Consume/Discard subtract the same amount from every cursor above " +
			"the removed range). Not decided: content/order preservation across memmoves (values); the relational invariant si <= ri <= wi as an inductive proof.",
		Run: runC09,
	})
	addMutants("C09",
		mutant{"ShrinkTo measured against the whole buffer", "byte_buffer.go",
			"\treturn b.ShrinkBy(b.WriteLen() - n)", "\treturn b.ShrinkBy(b.Len() - n)", "C09-R5"},
		mutant{"Consume moves the wrong tail", "byte_buffer.go",
			"\t\tcopy(b.data[b.si:], b.data[b.si+n:b.wi])\n\n\t\tb.ri -= n\n\t\tb.wi -= n", "\t\tcopy(b.data[b.si:], b.data[b.ri:b.wi])\n\n\t\tb.ri -= n\n\t\tb.wi -= n", "C09-R3"},
		mutant{"Save records the index after moving si", "byte_buffer.go",
			"\tslot.Index = b.si\n\tb.si += n", "\tb.si += n\n\tslot.Index = b.si", "C09-R5"},
		mutant{"Reset keeps the save area", "byte_buffer.go",
			"func (b *ByteBuffer) Reset() {\n\tb.si = 0\n", "func (b *ByteBuffer) Reset() {\n", "C09-R5"},
		mutant{"UnreadByte can cut into the read area", "byte_buffer.go",
			"\tif b.WriteLen() > 0 {\n\t\tb.wi -= 1", "\tif b.Len() > 0 {\n\t\tb.wi -= 1", "C09-R5"},
		mutant{"Write advances by the capacity of its argument", "byte_buffer.go",
			"\tb.data = append(b.data, bb...)\n\tn := len(bb)", "\tb.data = append(b.data, bb...)\n\tn := cap(bb)", "C09-R5"},
		mutant{"ClaimFixed allows one byte past the capacity", "byte_buffer.go",
			"\tif n >= 0 && n <= cap(b.data)-b.wi {\n\t\tclaimed = b.data[b.wi : b.wi+n]", "\tif n >= 0 && n <= cap(b.data)-b.wi+1 {\n\t\tclaimed = b.data[b.wi : b.wi+n]", "C09-R5"},
		mutant{"ShrinkBy clamps to the read length", "byte_buffer.go",
			"\tif length := b.WriteLen(); n > length {\n\t\tn = length\n\t}\n\tb.wi -= n", "\tif length := b.ReadLen(); n > length {\n\t\tn = length\n\t}\n\tb.wi -= n", "C09-R5"},
		mutant{"validator accepts a slot ending past the save area", "byte_buffer.go",
			"slot.Index <= b.si-slot.Length", "slot.Index <= b.si", "C09-R5"},
		mutant{"PrepareRead commits although it refuses", "byte_buffer.go",
			"\t\tif b.WriteLen() >= need {\n\t\t\tb.Commit(need)\n\t\t} else {\n\t\t\terr = sonicerrors.ErrNeedMore\n\t\t}", "\t\tif b.WriteLen() < need {\n\t\t\terr = sonicerrors.ErrNeedMore\n\t\t}\n\t\tb.Commit(need)", "C09-R4"},
		mutant{"PrepareRead bounded by the whole buffer length", "byte_buffer.go",
			"\t\tif b.WriteLen() >= need {", "\t\tif b.Len() >= n {", "C09-R4"},
		mutant{"PrepareRead commits without checking the write area", "byte_buffer.go",
			"\t\tif b.WriteLen() >= need {\n\t\t\tb.Commit(need)\n\t\t} else {\n\t\t\terr = sonicerrors.ErrNeedMore\n\t\t}", "\t\tif b.WriteLen() < 0 {\n\t\t\terr = sonicerrors.ErrNeedMore\n\t\t}\n\t\tb.Commit(need)", "C09-R4"},
		mutant{"Consume not clamped to the read area", "byte_buffer.go",
			"\tif readLen := b.ReadLen(); n > readLen {\n\t\tn = readLen\n\t}\n\n\tif n > 0 {\n\t\t// TODO this can be smarter", "\tif n > 0 {\n\t\t// TODO this can be smarter", "C09-R1"},
		mutant{"Commit clamps after adding (overflow)", "byte_buffer.go",
			"\tif writeLen := b.WriteLen(); n > writeLen {\n\t\tn = writeLen\n\t}\n\tb.ri += n\n", "\tb.ri += n\n\tif b.ri > b.wi {\n\t\tb.ri = b.wi\n\t}\n", "C09-R1"},
		mutant{"Save accepts negative amounts", "byte_buffer.go",
			"\tif n <= 0 {\n\t\treturn\n\t}\n\tslot.Length = n", "\tif n == 0 {\n\t\treturn\n\t}\n\tslot.Length = n", "C09-R1"},
		mutant{"ClaimFixed guard overflows", "byte_buffer.go",
			"\tif n >= 0 && n <= cap(b.data)-b.wi {\n\t\tclaimed = b.data[b.wi : b.wi+n]", "\tif n >= 0 && b.wi+n <= cap(b.data) {\n\t\tclaimed = b.data[b.wi : b.wi+n]", "C09-R1"},
		mutant{"Discard trusts the slot", "byte_buffer.go",
			"\tif !b.inSaveArea(slot) {\n\t\treturn 0\n\t}\n\n\tcopy(b.data[slot.Index:]", "\tif slot.Length <= 0 {\n\t\treturn 0\n\t}\n\n\tcopy(b.data[slot.Index:]", "C09-R1"},
		mutant{"validator adds before comparing", "byte_buffer.go",
			"return slot.Length > 0 && slot.Index >= 0 && slot.Length <= b.si && slot.Index <= b.si-slot.Length", "return slot.Length > 0 && slot.Index >= 0 && slot.Index+slot.Length <= b.si", "C09-R1"},
		mutant{"ShrinkBy forgets to re-slice", "byte_buffer.go",
			"\tb.wi -= n\n\tb.data = b.data[:b.wi]\n\treturn n\n}", "\tb.wi -= n\n\treturn n\n}", "C09-R2"},
		mutant{"Consume leaves the write index behind", "byte_buffer.go",
			"\t\tb.ri -= n\n\t\tb.wi -= n\n\t\tb.data = b.data[:b.wi]\n\t}\n}", "\t\tb.ri -= n\n\t\tb.data = b.data[:b.wi-n]\n\t}\n}", "C09-R"},
		mutant{"Read reports success on an empty read area", "byte_buffer.go",
			"\tif b.ReadLen() == 0 {\n\t\treturn 0, io.EOF\n\t}\n", "\tif b.ri == 0 {\n\t\treturn 0, io.EOF\n\t}\n", "C09-R3"},
		mutant{"Read exposes uncommitted bytes", "byte_buffer.go",
			"\tn := copy(dst, b.data[b.si:b.ri])\n\tb.Consume(n)", "\tn := copy(dst, b.data[b.si:b.wi])\n\tb.Consume(n)", "C09-R3"},
		mutant{"Discard skips the memmove when the read area is empty", "byte_buffer.go",
			"\tcopy(b.data[slot.Index:], b.data[slot.Index+slot.Length:b.wi])\n\tb.si -= slot.Length", "\tif slot.Index+slot.Length < b.ri {\n\t\tcopy(b.data[slot.Index:], b.data[slot.Index+slot.Length:b.wi])\n\t}\n\tb.si -= slot.Length", "C09-R3"},
		mutant{"Discard does not shift the read index", "byte_buffer.go",
			"\tb.si -= slot.Length\n\tb.ri -= slot.Length\n\tb.wi -= slot.Length", "\tb.si -= slot.Length\n\tb.wi -= slot.Length", "C09-R3"},
	)
}

// taintCtx identifies caller-controlled integers in one function.
type taintCtx struct {
	fn     *ssa.Function
	leaves map[ssa.Value]string // tainted leaf values -> description
}

func newTaintCtx(fn *ssa.Function) *taintCtx {
	t := &taintCtx{fn: fn, leaves: map[ssa.Value]string{}}
	isInt := func(ty types.Type) bool {
		b, ok := ty.Underlying().(*types.Basic)
		return ok && b.Info()&types.IsInteger != 0
	}
	for i, prm := range fn.Params {
		if i == 0 && fn.Signature.Recv() != nil {
			continue
		}
		if isInt(prm.Type()) {
			t.leaves[prm] = "parameter " + prm.Name()
		}
		if st, ok := prm.Type().Underlying().(*types.Struct); ok {
			// integer fields of a struct parameter (Slot): loads through the local copy, or Field extractions
			eachInstr(fn, func(in ssa.Instruction) {
				switch x := in.(type) {
				case *ssa.Field:
					if x.X == ssa.Value(prm) && isInt(st.Field(x.Field).Type()) {
						t.leaves[x] = prm.Name() + "." + st.Field(x.Field).Name()
					}
				case *ssa.UnOp:
					if x.Op != token.MUL {
						return
					}
					fa, ok := x.X.(*ssa.FieldAddr)
					if !ok {
						return
					}
					al, ok := fa.X.(*ssa.Alloc)
					if !ok {
						return
					}
					if s := singleStore(al); s != nil && s.Val == ssa.Value(prm) {
						fv, _ := fieldAddrOf(fa)
						if fv != nil && isInt(fv.Type()) {
							t.leaves[x] = prm.Name() + "." + fv.Name()
						}
					}
				}
			})
		}
	}
	// results of calling a caller-supplied function
	eachInstr(fn, func(in ssa.Instruction) {
		call, ok := in.(*ssa.Call)
		if !ok || !isDynamicFuncCall(call) {
			return
		}
		if _, isPrm := resolveCell(call.Call.Value).(*ssa.Parameter); isPrm && isInt(call.Type()) {
			t.leaves[call] = "result of the caller's function"
		}
	})
	return t
}

// taintedLeaves decomposes v through arithmetic/conversions into its tainted leaves (parameters, phis over them).
func (t *taintCtx) taintedOperands(v ssa.Value) []ssa.Value {
	var out []ssa.Value
	seen := map[ssa.Value]bool{}
	var rec func(v ssa.Value, d int)
	rec = func(v ssa.Value, d int) {
		v = stripConv(v)
		if d > 10 || seen[v] {
			return
		}
		seen[v] = true
		if _, ok := t.leaves[v]; ok {
			out = append(out, v)
			return
		}
		switch x := v.(type) {
		case *ssa.BinOp:
			switch x.Op {
			case token.ADD, token.SUB, token.MUL:
				rec(x.X, d+1)
				rec(x.Y, d+1)
			}
		case *ssa.Phi:
			if t.derived(x, 0) {
				out = append(out, x)
			}
		case *ssa.Call:
			if _, _, ok := minMaxCall(x); ok && t.derived(x, 0) {
				out = append(out, x)
			}
		}
	}
	rec(v, 0)
	return out
}

func (t *taintCtx) derived(v ssa.Value, d int) bool {
	v = stripConv(v)
	if d > 10 {
		return false
	}
	if _, ok := t.leaves[v]; ok {
		return true
	}
	if _, args, ok := minMaxCall(v); ok {
		for _, a := range args {
			if t.derived(a, d+1) {
				return true
			}
		}
		return false
	}
	switch x := v.(type) {
	case *ssa.BinOp:
		return t.derived(x.X, d+1) || t.derived(x.Y, d+1)
	case *ssa.Phi:
		for _, e := range x.Edges {
			if stripConv(e) != ssa.Value(x) && t.derived(e, d+1) {
				return true
			}
		}
	}
	return false
}

// litsAt: guard literals holding at block b, plus (optionally) the literal of a specific incoming edge.
func litsAt(b *ssa.BasicBlock, pred *ssa.BasicBlock) []Lit {
	if pred == nil {
		return guardsOf(b)
	}
	ls := guardsOf(pred)
	if l, ok := edgeLit(pred, b); ok {
		ls = append(ls, l)
	}
	return ls
}

// validatedBy: some literal is a positive call of an in-scope bool function that receives a tainted value (or the struct it
// came from); returns the validator.
func (t *taintCtx) validatedBy(ls []Lit) *ssa.Function {
	for _, l := range ls {
		call, ok := l.Cond.(*ssa.Call)
		if !ok || !l.Pos {
			continue
		}
		callee := call.Call.StaticCallee()
		if callee == nil || callee.Blocks == nil {
			continue
		}
		for _, a := range call.Call.Args {
			a = resolveCell(a)
			for _, prm := range t.fn.Params {
				if a == ssa.Value(prm) {
					return callee
				}
			}
			if _, ok := t.leaves[stripConv(a)]; ok {
				return callee
			}
		}
	}
	return nil
}

// minMaxCall recognises the builtins min and max.
func minMaxCall(v ssa.Value) (string, []ssa.Value, bool) {
	call, ok := stripConv(v).(*ssa.Call)
	if !ok {
		return "", nil, false
	}
	if bi, isB := call.Call.Value.(*ssa.Builtin); isB && (bi.Name() == "min" || bi.Name() == "max") {
		return bi.Name(), call.Call.Args, true
	}
	return "", nil, false
}

func (t *taintCtx) upperOK(v ssa.Value, ls []Lit, d int) bool {
	v = stripConv(v)
	if d > 6 {
		return false
	}
	if !t.derived(v, 0) {
		return true
	}
	if t.validatedBy(ls) != nil {
		return true
	}
	for _, l := range ls {
		op, x, y, ok := l.cmp()
		if !ok {
			continue
		}
		if stripConv(x) == v && (op == token.LEQ || op == token.LSS) && !t.derived(y, 0) {
			return true
		}
		if stripConv(y) == v && (op == token.GEQ || op == token.GTR) && !t.derived(x, 0) {
			return true
		}
	}
	if name, args, ok := minMaxCall(v); ok {
		// min is bounded above as soon as one operand is; max only when all are
		n := 0
		for _, a := range args {
			if t.upperOK(a, ls, d+1) {
				n++
			}
		}
		return (name == "min" && n > 0) || n == len(args)
	}
	if ph, ok := v.(*ssa.Phi); ok {
		for i, e := range ph.Edges {
			if !t.upperOK(e, litsAt(ph.Block(), ph.Block().Preds[i]), d+1) {
				return false
			}
		}
		return true
	}
	return false
}

func (t *taintCtx) lowerOK(v ssa.Value, ls []Lit, d int) bool {
	v = stripConv(v)
	if d > 6 {
		return false
	}
	if !t.derived(v, 0) {
		return true
	}
	if t.validatedBy(ls) != nil {
		return true
	}
	for _, l := range ls {
		op, x, y, ok := l.cmp()
		if !ok {
			continue
		}
		if stripConv(x) == v && (op == token.GTR || op == token.GEQ) {
			if k, isK := constInt(y); isK && k >= 0 {
				return true
			}
		}
	}
	if name, args, ok := minMaxCall(v); ok {
		// max is bounded below as soon as one operand is; min only when all are
		n := 0
		for _, a := range args {
			if k, isK := constInt(a); isK && k < 0 {
				continue // a negative constant bounds nothing from below
			}
			if t.lowerOK(a, ls, d+1) {
				n++
			}
		}
		return (name == "max" && n > 0) || n == len(args)
	}
	if ph, ok := v.(*ssa.Phi); ok {
		for i, e := range ph.Edges {
			if !t.lowerOK(e, litsAt(ph.Block(), ph.Block().Preds[i]), d+1) {
				return false
			}
		}
		return true
	}
	return false
}

func runC09(c *Ctx) {
	p := c.P
	bbT := "ByteBuffer"
	si, ri, wi, dataF := p.Field("sonic", bbT, "si"), p.Field("sonic", bbT, "ri"), p.Field("sonic", bbT, "wi"), p.Field("sonic", bbT, "data")
	cursors := map[*types.Var]bool{si: true, ri: true, wi: true}
	var methods []*ssa.Function
	for _, fn := range p.Funcs {
		pk, tn := recvTypeName(fn)
		if pk == modPath && tn == bbT && fn.Parent() == nil {
			methods = append(methods, fn)
		}
	}

	// ------------------------------------------------------------------------------------------------ R1
	c.rule("C09-R1", "caller-controlled integers are bounded below and above (by a quantity independent of them) where they reach cursor arithmetic, storage slice bounds or copy ranges", 12)
	exceptions := map[string]string{"Reserve": "an allocation request cannot be clamped; it only feeds make/append"}
	validators := map[*ssa.Function]bool{}
	for _, fn := range methods {
		if fn.Object() == nil || !fn.Object().Exported() {
			continue
		}
		if why, ok := exceptions[fn.Name()]; ok {
			c.Notes = append(c.Notes, fn.Name()+": "+why)
			continue
		}
		t := newTaintCtx(fn)
		if len(t.leaves) == 0 {
			continue
		}
		type sink struct {
			in   ssa.Instruction
			v    ssa.Value
			what string
		}
		var sinks []sink
		eachInstr(fn, func(in ssa.Instruction) {
			switch x := in.(type) {
			case *ssa.Store:
				if fv, _ := fieldAddrOf(x.Addr); cursors[fv] && t.derived(x.Val, 0) {
					sinks = append(sinks, sink{in, x.Val, "store to " + fv.Name()})
				}
			case *ssa.Slice:
				for _, bnd := range []ssa.Value{x.Low, x.High, x.Max} {
					if bnd != nil && t.derived(bnd, 0) {
						sinks = append(sinks, sink{in, bnd, "slice bound"})
					}
				}
			}
		})
		for _, s := range sinks {
			ls := guardsOf(s.in.Block())
			if v := t.validatedBy(ls); v != nil {
				validators[v] = true
			}
			ops := t.taintedOperands(s.v)
			good := len(ops) > 0
			why := ""
			for _, op := range ops {
				up, lo := t.upperOK(op, ls, 0), t.lowerOK(op, ls, 0)
				if !up || !lo {
					good = false
					why = fmt.Sprintf("upper bound=%v, lower bound=%v", up, lo)
				}
			}
			c.check(good, fn, s.what, s.in.Pos(), "bounded on both sides before use", "a caller-controlled amount reaches a "+s.what+" without being bounded on both sides by quantities independent of it ("+why+"): a negative or huge argument (also one that makes cursor+n wrap around) corrupts the indices or panics")
		}
	}
	for v := range validators {
		// validator: pure comparisons, no addition involving two caller-controlled values, contains > 0 / >= 0 tests and upper tests
		t := newTaintCtx(v)
		adds := 0
		lower, upper := 0, 0
		eachInstr(v, func(in ssa.Instruction) {
			bo, ok := in.(*ssa.BinOp)
			if !ok {
				return
			}
			switch bo.Op {
			case token.ADD, token.MUL:
				if t.derived(bo.X, 0) || t.derived(bo.Y, 0) {
					adds++
				}
			case token.GTR, token.GEQ:
				if t.derived(bo.X, 0) {
					if k, ok := constInt(bo.Y); ok && k >= 0 {
						lower++
					}
				}
			case token.LEQ, token.LSS:
				if t.derived(bo.X, 0) {
					upper++
				}
			}
		})
		_, _ = lower, upper // which comparisons it makes is decided exactly (per branch polarity) by C09-R5 "save-area validator"
		c.check(adds == 0, v, "validator", v.Pos(), "no addition on caller-controlled values (cannot wrap around)", fmt.Sprintf("the validator %s is not a set of overflow-free bounds on both slot fields (additions on caller values=%d, lower tests=%d, upper tests=%d): a slot whose Index+Length wraps around passes", v.Name(), adds, lower, upper))
	}

	// ------------------------------------------------------------------------------------------------ R2
	c.rule("C09-R2", "after every store to wi, every path to the exit re-slices data to that wi", 10)
	// resliceFor: the instruction stores data = data[:k] with k the new wi (a load of wi, the stored value itself, or the
	// same constant), directly or as the unconditional effect of an unexported helper
	isReslice := func(in ssa.Instruction, val ssa.Value) bool {
		s2, ok := in.(*ssa.Store)
		if !ok {
			return false
		}
		if fv, _ := fieldAddrOf(s2.Addr); fv != dataF {
			return false
		}
		sl, ok := stripConv(s2.Val).(*ssa.Slice)
		if !ok || !loadOfField(sl.X, dataF) || sl.Low != nil || sl.High == nil {
			return false
		}
		if loadOfField(sl.High, wi) {
			return true
		}
		if val == nil {
			return false
		}
		if k1, ok1 := constInt(sl.High); ok1 {
			if k2, ok2 := constInt(val); ok2 && k1 == k2 {
				return true
			}
		}
		return stripConv(sl.High) == stripConv(val)
	}
	resliceFor := func(val ssa.Value) func(ssa.Instruction) bool {
		return func(in ssa.Instruction) bool {
			if isReslice(in, val) {
				return true
			}
			if call, ok := in.(*ssa.Call); ok {
				if h := call.Call.StaticCallee(); h != nil && in.Parent() != nil && isHelperOf(in.Parent(), h) && len(h.Blocks) > 0 {
					okh, _ := mustPassAt(h.Blocks[0], 0, func(x ssa.Instruction) bool { return isReslice(x, nil) })
					return okh
				}
			}
			return false
		}
	}
	for _, fn := range methods {
		for _, a := range storesTo(fn, wi) {
			st := a.Instr.(*ssa.Store)
			ok, why := mustPass(st, resliceFor(st.Val))
			if !ok && fn.Parent() == nil && fn.Object() != nil && !fn.Object().Exported() {
				// the store lives in an unexported helper: judged where the helper is called
				sites := p.callers(fn)
				all := len(sites) > 0
				for _, site := range sites {
					if okS, _ := mustPass(site.(ssa.Instruction), resliceFor(nil)); !okS {
						all = false
					}
				}
				if all {
					ok = true
				}
			}
			if !ok {
				// a constant wi: the matching constant re-slice may as well come first (data[:0]; wi = 0), as long as
				// nothing touches data in between
				if k2, isK := constInt(st.Val); isK {
					for _, d := range storesTo(fn, dataF) {
						sl, isSl := stripConv(d.Val).(*ssa.Slice)
						if !isSl || !loadOfField(sl.X, dataF) || sl.Low != nil || sl.High == nil {
							continue
						}
						if k1, ok1 := constInt(sl.High); ok1 && k1 == k2 && dominatesInstr(d.Instr, st) {
							later := false
							for _, d2 := range storesTo(fn, dataF) {
								if d2.Instr != d.Instr && dominatesInstr(d.Instr, d2.Instr) {
									later = true
								}
							}
							if !later {
								ok = true
							}
						}
					}
				}
			}
			c.check(ok, fn, "wi store", st.Pos(), "data is re-sliced to the new wi", "wi changes but a path leaves the method without re-slicing data to it ("+why+"): len(data) and wi disagree, later appends/slices use the wrong end")
		}
	}

	// ------------------------------------------------------------------------------------------------ R3
	c.rule("C09-R3", "Read succeeds only on a non-empty read area and copies from data[si:ri]; shifting methods move every cursor above the removed range by the same amount", 4)
	{
		read := p.Method("sonic", bbT, "Read")
		readLen := p.Method("sonic", bbT, "ReadLen")
		n := 0
		for _, r := range returnsOf(read) {
			if !isNil(r.Results[1]) {
				continue
			}
			cp, ok := stripConv(r.Results[0]).(*ssa.Call)
			if !ok {
				continue // the len(dst)==0 shortcut returns the constant 0
			}
			if b, ok := cp.Call.Value.(*ssa.Builtin); !ok || b.Name() != "copy" {
				continue
			}
			n++
			nonEmpty := false
			for _, l := range guardsOf(r.Block()) {
				op, x, y, ok := l.cmp()
				if !ok {
					continue
				}
				if call, ok := stripConv(x).(*ssa.Call); ok && isCallToFn(call, readLen) {
					if (op == token.NEQ && isConstInt(y, 0)) || (op == token.GTR && isConstInt(y, 0)) {
						nonEmpty = true
					}
				}
				if (op == token.NEQ || op == token.LSS) && loadOfField(x, si) && loadOfField(y, ri) {
					nonEmpty = true
				}
			}
			src, okS := stripConv(cp.Call.Args[1]).(*ssa.Slice)
			rng := okS && loadOfField(src.X, dataF) && loadOfField(src.Low, si) && loadOfField(src.High, ri)
			c.check(nonEmpty, read, "non-empty", exitPos(r), "a nil error is returned only when the read area holds bytes", "Read can return (n, nil) although the read area is empty (saved bytes in front of it do not count): ReadByte then returns a stale byte with a nil error")
			c.check(rng, read, "source range", cp.Pos(), "bytes are copied from data[si:ri]", "Read does not copy from the read area data[si:ri]: saved or uncommitted bytes become visible to readers")
		}
		if n == 0 {
			c.bad(read, "non-empty", read.Pos(), "Read never returns copied bytes")
		}
		// shifting methods
		for _, spec := range []struct {
			name  string
			moved []*types.Var
		}{{"Consume", []*types.Var{ri, wi}}, {"Discard", []*types.Var{si, ri, wi}}} {
			fn := p.Method("sonic", bbT, spec.name)
			amounts := map[*types.Var]ssa.Value{}
			keys := map[*types.Var]valKey{}
			var sites []ssa.Instruction
			for _, f := range spec.moved {
				for _, d := range deepStoresTo(fn, f) {
					if bo, ok := stripConv(d.Store.Val).(*ssa.BinOp); ok && bo.Op == token.SUB && loadOfField(bo.X, f) {
						amounts[f] = stripConv(d.translate(bo.Y))
						keys[f] = d.key(bo.Y)
						sites = append(sites, d.Site)
					}
				}
			}
			good := len(amounts) == len(spec.moved)
			var first ssa.Value
			var firstKey valKey
			for _, f := range spec.moved {
				v := amounts[f]
				if v == nil {
					good = false
					continue
				}
				if first == nil {
					first, firstKey = v, keys[f]
				} else if !sameAmount(first, v) && keys[f] != firstKey {
					good = false
				}
			}
			if first != nil && firstKey.base != nil && firstKey.path != "" {
				// the amount as it is spelled in the method itself (for the memmove comparison below)
				eachInstr(fn, func(in ssa.Instruction) {
					if v, ok := in.(ssa.Value); ok && keyOf(v, nil) == firstKey {
						first = v
					}
				})
			}
			// the memmove over the removed range runs on every path that shifts the cursors, up to the end of the buffer
			moved := false
			eachInstr(fn, func(in ssa.Instruction) {
				call, ok := in.(*ssa.Call)
				if !ok {
					return
				}
				if b, ok := call.Call.Value.(*ssa.Builtin); !ok || b.Name() != "copy" {
					return
				}
				src, ok := stripConv(call.Call.Args[1]).(*ssa.Slice)
				if !ok || !loadOfField(src.X, dataF) || !loadOfField(src.High, wi) {
					return
				}
				dom := len(sites) > 0
				for _, site := range sites {
					if !dominatesInstr(call, site) {
						dom = false
					}
				}
				// the tail starts exactly `amount` bytes above its destination: copy(data[x:], data[x+amount:wi])
				dst, okD := stripConv(call.Call.Args[0]).(*ssa.Slice)
				exact := false
				if okD && loadOfField(dst.X, dataF) && dst.Low != nil && src.Low != nil && first != nil {
					want := strings.Fields(signedLeaves(dst.Low))
					want = append(want, "+"+exprString(first, nil, 0))
					sort.Strings(want)
					exact = strings.Join(want, " ") == signedLeaves(src.Low)
				}
				if dom && exact {
					moved = true
				}
			})
			if !moved {
				// the memmove and the cursor updates live in one helper (cutOut(index, n)): judged inside it, with the
				// amount as the helper names it
				for _, hc := range allCalls(fn) {
					h := hc.Call.StaticCallee()
					if !isHelperOf(fn, h) {
						continue
					}
					var raw ssa.Value
					var hsites []ssa.Instruction
					for _, f := range spec.moved {
						for _, a := range storesTo(h, f) {
							if bo, ok := stripConv(a.Val).(*ssa.BinOp); ok && bo.Op == token.SUB && loadOfField(bo.X, f) {
								raw = stripConv(bo.Y)
								hsites = append(hsites, a.Instr)
							}
						}
					}
					if raw == nil {
						continue
					}
					eachInstr(h, func(in ssa.Instruction) {
						call, ok := in.(*ssa.Call)
						if !ok {
							return
						}
						if b, ok := call.Call.Value.(*ssa.Builtin); !ok || b.Name() != "copy" {
							return
						}
						src, ok := stripConv(call.Call.Args[1]).(*ssa.Slice)
						dst, okD := stripConv(call.Call.Args[0]).(*ssa.Slice)
						if !ok || !okD || !loadOfField(src.X, dataF) || !loadOfField(src.High, wi) || !loadOfField(dst.X, dataF) || dst.Low == nil || src.Low == nil {
							return
						}
						dom := len(hsites) > 0
						for _, site := range hsites {
							if !dominatesInstr(call, site) {
								dom = false
							}
						}
						want := strings.Fields(signedLeaves(dst.Low))
						want = append(want, "+"+exprString(raw, nil, 0))
						sort.Strings(want)
						if dom && strings.Join(want, " ") == signedLeaves(src.Low) {
							moved = true
						}
					})
				}
			}
			if !moved {
				good = false
			}
			var names []string
			for _, f := range spec.moved {
				names = append(names, f.Name())
			}
			c.check(good, fn, "shift", fn.Pos(), strings.Join(names, ", ")+" move down by the same amount", spec.name+" does not move "+strings.Join(names, ", ")+" down by one and the same amount after copying data[..:wi] over the removed range on that same path: the regions overlap or a cursor points past the data after the memmove")
		}
	}

	// ------------------------------------------------------------------------------------------------ R5
	c.rule("C09-R5", "exact amounts and bounds of the remaining cursor updates: Save's slot, Reset, shrinking (UnreadByte/ShrinkBy), appends (Write*), claims (Claim/ClaimFixed) and the save-area validator", 9)
	{
		m := func(n string) *ssa.Function { return p.Method("sonic", bbT, n) }
		guardSet := func(b *ssa.BasicBlock) map[string]bool {
			out := map[string]bool{}
			for _, l := range guardsOf(b) {
				if op, x, y, ok := l.cmp(); ok {
					out[cmpString(op, exprString(x, nil, 0), exprString(y, nil, 0))] = true
					// the same comparison with the buffer's own one-expression accessors (Reserved(), WriteLen(), ...)
					// spelled out from their bodies on this tree
					if xs, ys := getterSpelledOut(x), getterSpelledOut(y); xs != "" || ys != "" {
						if xs == "" {
							xs = exprString(x, nil, 0)
						}
						if ys == "" {
							ys = exprString(y, nil, 0)
						}
						out[cmpString(op, xs, ys)] = true
					}
				}
			}
			return out
		}
		// Save: the slot starts at the old si and has the (clamped) length si moves by
		{
			fn := m("Save")
			var siStore *ssa.Store
			for _, a := range storesTo(fn, si) {
				siStore = a.Instr.(*ssa.Store)
			}
			good := false
			why := "Save does not move si"
			if siStore != nil {
				why = "the slot Save returns does not describe the bytes it saved (Index = old si, Length = the amount si moved by)"
				bo, ok := stripConv(siStore.Val).(*ssa.BinOp)
				idxOK, lenOK := false, false
				eachInstr(fn, func(in ssa.Instruction) {
					st, ok2 := in.(*ssa.Store)
					if !ok2 {
						return
					}
					fv, _ := fieldAddrOf(st.Addr)
					if fv == nil {
						return
					}
					switch fv.Name() {
					case "Index":
						if u, isLoad := stripConv(st.Val).(*ssa.UnOp); isLoad && loadOfField(u, si) && dominatesInstr(u, siStore) {
							idxOK = true
						}
					case "Length":
						if ok && bo.Op == token.ADD && (stripConv(bo.Y) == stripConv(st.Val) || stripConv(bo.X) == stripConv(st.Val)) {
							lenOK = true
						}
					}
				})
				good = ok && idxOK && lenOK
			}
			c.check(good, fn, "slot", fn.Pos(), "slot = {old si, amount}", why+": Discard/SavedSlot later address the wrong bytes")
		}
		// Reset
		{
			fn := m("Reset")
			zero := 0
			for _, f := range []*types.Var{si, ri, wi} {
				for _, a := range storesDeep(fn, f) {
					if isConstInt(a.Val, 0) {
						zero++
					}
				}
			}
			resl := false
			for _, a := range storesDeep(fn, dataF) {
				if sl, ok := stripConv(a.Val).(*ssa.Slice); ok && loadOfField(sl.X, dataF) && sl.High != nil && isConstInt(sl.High, 0) {
					resl = true
				}
			}
			c.check(zero == 3 && resl, fn, "reset", fn.Pos(), "si = ri = wi = 0, data[:0]", "Reset leaves a cursor or the data length behind: the next session starts with stale saved/readable bytes or cursors that disagree with len(data)")
		}
		// shrinking: wi decreases by an amount that is bounded by WriteLen()
		for _, name := range []string{"UnreadByte", "ShrinkBy"} {
			fn := m(name)
			// (the decrement may sit in a helper both share - retractWriteEnd(n): the amount is then the argument, the
			// guards those of the call)
			for _, a := range deepStoresTo(fn, wi) {
				bo, ok := stripConv(a.Store.Val).(*ssa.BinOp)
				if !ok || bo.Op != token.SUB || !loadOfField(bo.X, wi) {
					c.bad(fn, "shrink", a.Store.Pos(), name+" does not decrease wi by an amount")
					continue
				}
				amount := a.translate(bo.Y)
				good := false
				if k, isK := constInt(amount); isK {
					gs := guardSet(a.Site.Block())
					good = (k == 1 && (gs[cmpString(token.GTR, "WriteLen()", "0")] || gs[cmpString(token.NEQ, "WriteLen()", "0")])) || gs[cmpString(token.GEQ, "WriteLen()", fmt.Sprint(k))]
				} else if big, small, isMin := minOf(amount); isMin {
					bs, ss := exprString(big, nil, 0), exprString(small, nil, 0)
					good = bs == "WriteLen()" || ss == "WriteLen()"
				}
				c.check(good, fn, "shrink", a.Site.Pos(), "the write area shrinks by at most WriteLen()", name+" can move wi below ri (the amount is not bounded by WriteLen()): committed, unread bytes are cut off")
			}
		}
		for _, name := range []string{"UnreadByte", "ShrinkBy"} {
			if len(storesDeep(m(name), wi)) == 0 {
				c.bad(m(name), "shrink", m(name).Pos(), name+" does not move wi at all: the byte(s) it reports as removed stay in the write area")
			}
		}
		// Read copies from the read area and consumes exactly what it copied
		{
			fn := m("Read")
			good := false
			why := "Read does not copy out of data[si:ri]"
			eachInstr(fn, func(in ssa.Instruction) {
				call, ok := in.(*ssa.Call)
				if !ok {
					return
				}
				b, isB := call.Call.Value.(*ssa.Builtin)
				if !isB || b.Name() != "copy" {
					return
				}
				why = "Read does not consume the number of bytes it copied on its way to the success return"
				for _, cc := range deepCallsTo(fn, m("Consume")) {
					if stripConv(cc.translate(cc.Call.Call.Args[1])) != ssa.Value(call) {
						continue
					}
					okRet := true
					for _, r := range returnsOf(fn) {
						if stripConv(r.Results[0]) == ssa.Value(call) && !dominatesInstr(cc.Site, r) {
							okRet = false
						}
					}
					if okRet {
						good = true
					}
				}
			})
			c.check(good, fn, "read consumes", fn.Pos(), "Consume(n) with n the count copied, before n is returned", why+": the same bytes are read again by the next call (duplicated), or bytes that were not copied are dropped")
		}
		// DiscardAll discards the whole save area
		{
			fn := m("DiscardAll")
			good := false
			for _, dc := range deepCallsTo(fn, m("Discard")) {
				// the slot {Index: 0, Length: SaveLen()}
				arg := dc.Call.Call.Args[1]
				idxOK, lenOK := true, false // Index defaults to 0 in a composite literal
				eachInstr(fn, func(in ssa.Instruction) {
					st, ok := in.(*ssa.Store)
					if !ok {
						return
					}
					fv, _ := fieldAddrOf(st.Addr)
					if fv == nil {
						return
					}
					switch fv.Name() {
					case "Index":
						idxOK = isConstInt(st.Val, 0)
					case "Length":
						lenOK = exprString(st.Val, nil, 0) == "SaveLen()" || exprString(st.Val, nil, 0) == "si"
					}
				})
				_ = arg
				if idxOK && lenOK {
					good = true
				}
			}
			c.check(good, fn, "discard all", fn.Pos(), "Discard(Slot{0, SaveLen()})", "DiscardAll does not discard the slot [0, SaveLen()): saved bytes stay in the buffer (or a part of them is removed) although the caller was told the save area is empty")
		}
		// ShrinkTo(n) leaves min(n, WriteLen()) bytes: it shrinks by WriteLen() - n (ShrinkBy clamps and ignores a negative amount)
		{
			fn := m("ShrinkTo")
			good := false
			got := "?"
			for _, cc := range callsToFn(fn, m("ShrinkBy")) {
				got = exprString(cc.Common().Args[1], nil, 0)
				if got == "(WriteLen()-$n)" {
					good = true
				}
			}
			if len(storesTo(fn, wi)) > 0 {
				good = false // a rewrite that moves wi itself: judged by the shrink rule above only if it goes through ShrinkBy
				for _, a := range storesTo(fn, wi) {
					if sl, ok := incrementOf(a.Val, wi); ok {
						_ = sl
					}
				}
			}
			c.check(good, fn, "shrink to", fn.Pos(), "shrinks by WriteLen() - n", "ShrinkTo shrinks the write area by "+got+" instead of WriteLen() - n: with bytes in the save or read area it cuts off more written bytes than asked for (or all of them)")
		}
		// appends: wi grows by the length of what was appended
		for _, name := range []string{"Write", "WriteByte", "WriteString"} {
			fn := m(name)
			var appended ssa.Value
			for _, a := range deepStoresTo(fn, dataF) {
				if call, ok := strip(a.Store.Val).(*ssa.Call); ok {
					if b, ok := call.Call.Value.(*ssa.Builtin); ok && b.Name() == "append" && len(call.Call.Args) == 2 {
						appended = a.translate(call.Call.Args[1])
					}
				}
			}
			good := false
			for _, a := range deepStoresTo(fn, wi) {
				amountV, ok := incrementOf(a.Store.Val, wi)
				if !ok || appended == nil {
					continue
				}
				amountV = a.translate(amountV)
				if name == "WriteByte" {
					good = isConstInt(amountV, 1)
					continue
				}
				if call, ok := stripConv(amountV).(*ssa.Call); ok {
					if b, ok := call.Call.Value.(*ssa.Builtin); ok && b.Name() == "len" {
						arg := stripConv(call.Call.Args[0])
						// append(data, bb...) / append(data, s...): the operand itself, or its conversion to []byte
						if arg == stripConv(appended) || dependsOn(appended, arg) {
							good = true
						}
					}
				}
			}
			c.check(good, fn, "append amount", fn.Pos(), "wi grows by the length of the appended bytes", name+" does not advance wi by exactly the number of bytes it appended: the write area and len(data) disagree")
		}
		// claims: exact capacity bound
		for _, name := range []string{"Claim", "ClaimFixed"} {
			fn := m(name)
			for _, a := range storesTo(fn, wi) {
				amountV, ok := incrementOf(a.Val, wi)
				if !ok {
					continue
				}
				amt := exprString(amountV, nil, 0)
				gs := guardSet(a.Instr.Block())
				good := (gs[cmpString(token.LEQ, amt, "(cap(data)-wi)")] || gs[cmpString(token.LEQ, "("+sortedSum(amt, "wi")+")", "cap(data)")]) && (gs[cmpString(token.GEQ, amt, "0")] || gs[cmpString(token.GTR, amt, "-1")])
				c.check(good, fn, "claim bound", a.Instr.Pos(), "0 <= n <= cap(data) - wi", fmt.Sprintf("%s advances wi by %s without the exact bound 0 <= n <= cap(data)-wi (guards: %v): a claim one byte too large slices past the capacity (panic) or moves wi beyond the storage", name, amt, keysOf(gs)))
			}
		}
		// the validator of caller-supplied slots
		{
			fn := m("inSaveArea")
			got := map[string]bool{}
			for _, r := range returnsOf(fn) {
				if isConstBool(r.Results[0], false) {
					continue
				}
				for _, l := range guardsOf(r.Block()) {
					if op, x, y, ok := l.cmp(); ok {
						got[cmpString(op, exprString(x, nil, 0), exprString(y, nil, 0))] = true
					}
				}
				// the last conjunct is the returned comparison itself
				if bo, ok := stripConv(r.Results[0]).(*ssa.BinOp); ok {
					got[cmpString(bo.Op, exprString(bo.X, nil, 0), exprString(bo.Y, nil, 0))] = true
				}
				if ph, ok := stripConv(r.Results[0]).(*ssa.Phi); ok {
					for i, e := range ph.Edges {
						if isConstBool(e, false) {
							continue
						}
						for _, l := range litsAt(ph.Block(), ph.Block().Preds[i]) {
							if op, x, y, ok := l.cmp(); ok {
								got[cmpString(op, exprString(x, nil, 0), exprString(y, nil, 0))] = true
							}
						}
						for _, l := range guardsOf(ph.Block().Preds[i]) {
							if op, x, y, ok := l.cmp(); ok {
								got[cmpString(op, exprString(x, nil, 0), exprString(y, nil, 0))] = true
							}
						}
						if bo, ok := stripConv(e).(*ssa.BinOp); ok {
							got[cmpString(bo.Op, exprString(bo.X, nil, 0), exprString(bo.Y, nil, 0))] = true
						}
					}
				}
			}
			want := []string{cmpString(token.GTR, "Length", "0"), cmpString(token.GEQ, "Index", "0"), cmpString(token.LEQ, "Length", "si"), cmpString(token.LEQ, "Index", "(si-Length)")}
			missing := ""
			for _, w := range want {
				if !got[w] {
					missing = w
				}
			}
			c.check(missing == "", fn, "save-area validator", fn.Pos(), "Length > 0, Index >= 0, Length <= si, Index <= si - Length", fmt.Sprintf("inSaveArea does not establish %s (it establishes %v): Discard/SavedSlot accept a slot that reaches outside the save area and move or expose read-area bytes", missing, keysOf(got)))
		}
	}

	// ------------------------------------------------------------------------------------------------ R4
	c.rule("C09-R4", "PrepareRead(n) succeeds only when n bytes are readable afterwards: nil is returned either under n <= ReadLen() or after Commit(n-ReadLen()) under n-ReadLen() <= WriteLen(); a refusal commits nothing", 2)
	{
		fn := p.Method("sonic", bbT, "PrepareRead")
		commit := p.Method("sonic", bbT, "Commit")
		paths, overflow := enumPaths(fn)
		if overflow {
			c.unproven(fn, "paths", fn.Pos(), "too many paths")
		}
		litStrings := func(path *Path) map[string]bool {
			out := map[string]bool{}
			for _, l := range path.Lits {
				if op, x, y, ok := l.Lit.cmp(); ok {
					out[cmpString(op, exprString(x, nil, 0), exprString(y, nil, 0))] = true
				}
			}
			return out
		}
		bad := ""
		n := 0
		for _, path := range paths {
			ret := path.Ret()
			if ret == nil || len(ret.Results) != 1 || path.Panics {
				continue
			}
			if path.nilness(ret.Results[0]) != "nil" {
				continue
			}
			n++
			lits := litStrings(path)
			var commitArg ssa.Value
			for _, in := range path.Instrs() {
				if isCallToFn(in, commit) {
					commitArg = in.(ssa.CallInstruction).Common().Args[1]
				}
			}
			need := "($n-ReadLen())"
			if commitArg == nil {
				// already readable
				if !(lits[cmpString(token.LEQ, need, "0")] || lits[cmpString(token.LEQ, "$n", "ReadLen()")] || lits[cmpString(token.LSS, need, "1")]) {
					bad = fmt.Sprintf("success without committing anything is not guarded by n <= ReadLen() (guards on the path: %v)", keysOf(lits))
				}
				continue
			}
			if exprString(commitArg, nil, 0) != need {
				bad = "the committed amount is " + exprString(commitArg, nil, 0) + ", not n - ReadLen()"
				continue
			}
			if !(lits[cmpString(token.LEQ, need, "WriteLen()")] || lits[cmpString(token.LEQ, "$n", "(ReadLen()+WriteLen())")]) {
				bad = fmt.Sprintf("Commit(n-ReadLen()) is not guarded by n-ReadLen() <= WriteLen() (guards on the path: %v)", keysOf(lits))
			}
		}
		// ... and a refusal leaves the regions alone: no Commit on a path that reports an error
		leaks := ""
		for _, path := range paths {
			ret := path.Ret()
			if ret == nil || len(ret.Results) != 1 || path.Panics || path.nilness(ret.Results[0]) == "nil" {
				continue
			}
			for _, in := range path.Instrs() {
				if isCallToFn(in, commit) {
					leaks = path.String()
				}
			}
		}
		c.check(leaks == "", fn, "refusal commits nothing", fn.Pos(), "ErrNeedMore is returned without committing", "PrepareRead commits bytes on a path that reports ErrNeedMore ("+leaks+"): a refused request makes the partial write area readable - uncommitted bytes are handed to readers and can no longer be dropped with ShrinkTo")
		c.check(bad == "" && n > 0, fn, "grant", fn.Pos(), "nil only when n bytes are readable afterwards", "PrepareRead can report success with fewer than n readable bytes ("+bad+"): Commit clamps to the write area, so a decoder that was promised n bytes slices past the data it has (stale bytes decoded as a frame, or a panic)")
	}
}

// sameAmount: identical SSA value, or loads of the same field of the same local.
func sameAmount(a, b ssa.Value) bool {
	a, b = stripConv(a), stripConv(b)
	if a == b {
		return true
	}
	ua, ok1 := a.(*ssa.UnOp)
	ub, ok2 := b.(*ssa.UnOp)
	if ok1 && ok2 && ua.Op == token.MUL && ub.Op == token.MUL {
		fa, ok1 := ua.X.(*ssa.FieldAddr)
		fb, ok2 := ub.X.(*ssa.FieldAddr)
		return ok1 && ok2 && fa.X == fb.X && fa.Field == fb.Field
	}
	return false
}

func keysOf(m map[string]bool) []string {
	var ks []string
	for k := range m {
		ks = append(ks, k)
	}
	sort.Strings(ks)
	return ks
}

// sortedSum renders a+b with the operands in lexical order (the form exprString gives a commutative BinOp).
func sortedSum(a, b string) string {
	if a > b {
		a, b = b, a
	}
	return a + "+" + b
}

// getterSpelledOut: v is a call of a parameterless single-block method on the enclosing function's receiver whose body
// is one arithmetic expression over the receiver's fields, built-in len/cap and constants: that expression rendered
// canonically (read from the body on the analysed tree, so a changed accessor changes the string); "" otherwise.
func getterSpelledOut(v ssa.Value) string {
	call, ok := stripConv(v).(*ssa.Call)
	if !ok {
		return ""
	}
	h := call.Call.StaticCallee()
	if h == nil || h.Blocks == nil || len(h.Blocks) != 1 || h.Signature.Recv() == nil || len(h.Params) != 1 || len(call.Call.Args) != 1 {
		return ""
	}
	if _, isPrm := stripConv(call.Call.Args[0]).(*ssa.Parameter); !isPrm {
		return ""
	}
	var res ssa.Value
	for _, in := range h.Blocks[0].Instrs {
		switch x := in.(type) {
		case *ssa.FieldAddr, *ssa.BinOp, *ssa.Convert, *ssa.ChangeType, *ssa.DebugRef:
		case *ssa.UnOp:
			if x.Op != token.MUL && x.Op != token.SUB {
				return ""
			}
		case *ssa.Call:
			b, isB := x.Call.Value.(*ssa.Builtin)
			if !isB || (b.Name() != "len" && b.Name() != "cap") {
				return ""
			}
		case *ssa.Return:
			if len(x.Results) != 1 {
				return ""
			}
			res = x.Results[0]
		default:
			return ""
		}
	}
	if res == nil {
		return ""
	}
	return exprString(res, nil, 0)
}
