package main

// Systematic behaviour-preserving source transformations used to test the rules against false alarms (DESIGN.md
// section 8.4). Each transformation is applied to every eligible construct of one source file (or of one function of
// it), the result is fed to the loader as an overlay, and every property's rules are run: any report is a false alarm of
// the machinery (the transformation preserves behaviour by construction: operands are only swapped when both sides are
// free of calls, branches are swapped together with the negation of their condition).

import (
	"bytes"
	"flag"
	"fmt"
	"go/ast"
	"go/format"
	"go/parser"
	"go/token"
	"go/types"
	"os"
	"path/filepath"
	"sort"
	"strings"
)

type astKind string

const (
	kindMirror astKind = "mirror" // a OP b  ->  b OP' a   for comparisons
	kindSwap   astKind = "swap"   // a + b   ->  b + a     for commutative integer operators
	kindNegate astKind = "negate" // if c {A} else {B} -> if !(c) {B} else {A}
)

func hasCall(e ast.Expr) bool {
	found := false
	ast.Inspect(e, func(n ast.Node) bool {
		if _, ok := n.(*ast.CallExpr); ok {
			found = true
		}
		return !found
	})
	return found
}

// transformFile parses src, applies kind to every eligible construct inside the functions selected by pick (nil = all)
// and returns the new source and the number of constructs changed.
func transformFile(filename string, src []byte, kind astKind, info *types.Info, pick func(name string) bool) ([]byte, int, error) {
	fset := token.NewFileSet()
	f, err := parser.ParseFile(fset, filename, src, parser.ParseComments)
	if err != nil {
		return nil, 0, err
	}
	n := 0
	for _, d := range f.Decls {
		fd, ok := d.(*ast.FuncDecl)
		if !ok || fd.Body == nil {
			continue
		}
		if pick != nil && !pick(fd.Name.Name) {
			continue
		}
		if kind == "earlyreturn" {
			// void functions and closures whose body ends in if/else: if c {A} else {B}  ->  if c {A; return}; B
			var rewrite func(body *ast.BlockStmt, void bool)
			rewrite = func(body *ast.BlockStmt, void bool) {
				if body == nil || len(body.List) == 0 || !void {
					return
				}
				last, ok := body.List[len(body.List)-1].(*ast.IfStmt)
				if !ok {
					return
				}
				els, ok := last.Else.(*ast.BlockStmt)
				if !ok {
					return
				}
				last.Body.List = append(last.Body.List, &ast.ReturnStmt{})
				last.Else = nil
				body.List = append(body.List, els.List...)
				n++
			}
			rewrite(fd.Body, fd.Type.Results == nil)
			ast.Inspect(fd.Body, func(node ast.Node) bool {
				if fl, ok := node.(*ast.FuncLit); ok {
					rewrite(fl.Body, fl.Type.Results == nil)
				}
				return true
			})
			continue
		}
		ast.Inspect(fd.Body, func(node ast.Node) bool {
			switch x := node.(type) {
			case *ast.BinaryExpr:
				switch kind {
				case kindMirror:
					var m token.Token
					switch x.Op {
					case token.LSS:
						m = token.GTR
					case token.GTR:
						m = token.LSS
					case token.LEQ:
						m = token.GEQ
					case token.GEQ:
						m = token.LEQ
					case token.EQL, token.NEQ:
						m = x.Op
					default:
						return true
					}
					if hasCall(x.X) && hasCall(x.Y) {
						return true // keep the evaluation order of two calls
					}
					x.X, x.Y = x.Y, x.X
					x.Op = m
					n++
				case kindSwap:
					switch x.Op {
					case token.ADD, token.MUL, token.AND, token.OR:
					default:
						return true
					}
					if hasCall(x.X) && hasCall(x.Y) {
						return true
					}
					// integers only (string concatenation is not commutative): decided from the literal shape, since the
					// positions of this re-parse do not map into the type-checked syntax
					if !looksInteger(x.X) || !looksInteger(x.Y) {
						return true
					}
					x.X, x.Y = x.Y, x.X
					n++
				}
			case *ast.IfStmt:
				if kind == "demorgan" {
					// if a && b  ->  if !(!(a) || !(b))      if a || b  ->  if !(!(a) && !(b))
					if be, ok := x.Cond.(*ast.BinaryExpr); ok && (be.Op == token.LAND || be.Op == token.LOR) {
						op := token.LOR
						if be.Op == token.LOR {
							op = token.LAND
						}
						neg := func(e ast.Expr) ast.Expr { return &ast.UnaryExpr{Op: token.NOT, X: &ast.ParenExpr{X: e}} }
						x.Cond = neg(&ast.BinaryExpr{X: neg(be.X), Op: op, Y: neg(be.Y)})
						n++
					}
					return true
				}
				if kind != kindNegate {
					return true
				}
				els, ok := x.Else.(*ast.BlockStmt)
				if !ok || x.Init != nil {
					return true
				}
				x.Cond = &ast.UnaryExpr{Op: token.NOT, X: &ast.ParenExpr{X: x.Cond}}
				x.Body, x.Else = els, x.Body
				n++
			}
			return true
		})
	}
	_ = info
	var buf bytes.Buffer
	if err := format.Node(&buf, fset, f); err != nil {
		return nil, 0, err
	}
	return buf.Bytes(), n, nil
}

// looksInteger: a conservative syntactic test that e is an integer expression (no string/float literal, no string
// conversion): identifiers, selectors, index expressions, integer literals, parenthesised/unary/binary combinations and
// the built-ins len/cap, and conversions to integer types.
func looksInteger(e ast.Expr) bool {
	switch x := e.(type) {
	case *ast.BasicLit:
		return x.Kind == token.INT
	case *ast.Ident:
		return x.Name != "nil"
	case *ast.SelectorExpr:
		return true
	case *ast.ParenExpr:
		return looksInteger(x.X)
	case *ast.UnaryExpr:
		return x.Op == token.SUB && looksInteger(x.X)
	case *ast.BinaryExpr:
		switch x.Op {
		case token.ADD, token.SUB, token.MUL, token.AND, token.OR, token.SHL, token.SHR, token.REM, token.QUO:
			return looksInteger(x.X) && looksInteger(x.Y)
		}
		return false
	case *ast.CallExpr:
		if id, ok := x.Fun.(*ast.Ident); ok {
			switch id.Name {
			case "len", "cap", "int", "int64", "int32", "uint64", "uint32", "uint16", "uintptr", "byte", "uint8":
				return true
			}
		}
		return false
	}
	return false
}

// cmdASTFuzz: sonicsa astfuzz -repo /repo -verif /verif [-kinds mirror,swap,negate] [-files a.go,b.go] [-bisect]
func cmdASTFuzz(args []string) int {
	fs := flag.NewFlagSet("astfuzz", flag.ExitOnError)
	repo := fs.String("repo", "/repo", "repository")
	verif := fs.String("verif", "/verif", "verif dir (known findings)")
	kinds := fs.String("kinds", "mirror,swap,negate", "transformations")
	files := fs.String("files", "", "comma separated repo-relative files (default: every non-test file of the analysed packages)")
	bisect := fs.Bool("bisect", true, "on a report, repeat per function to name the function whose transformation triggers it")
	_ = fs.Parse(args)
	base, err := Load(*repo, "amd64", nil)
	if err != nil {
		fmt.Println("INFRASTRUCTURE-FAILURE", err)
		return 2
	}
	var list []string
	if *files != "" {
		list = strings.Split(*files, ",")
	} else {
		for _, pk := range base.Pkgs {
			for _, gf := range pk.GoFiles {
				if strings.HasSuffix(gf, "_test.go") {
					continue
				}
				rel, _ := filepath.Rel(*repo, gf)
				list = append(list, rel)
			}
		}
		sort.Strings(list)
	}
	findings := loadFindings(filepath.Join(*verif, "known_findings.jsonl"))
	var ids []string
	for id := range registry {
		ids = append(ids, id)
	}
	sort.Strings(ids)
	runAll := func(overlay map[string][]byte) ([]string, string) {
		p, err := Load(*repo, "amd64", overlay)
		if err != nil {
			return nil, err.Error()
		}
		var keys []string
		infra := ""
		for _, id := range ids {
			r := runProperty(p, registry[id], findings)
			if r.InfraErr != "" {
				infra += id + ": " + r.InfraErr + "; "
			}
			for _, o := range r.Violations {
				keys = append(keys, o.Key)
			}
		}
		return keys, infra
	}
	bad := 0
	for _, kind := range strings.Split(*kinds, ",") {
		for _, rel := range list {
			abs := filepath.Join(*repo, rel)
			src, err := os.ReadFile(abs)
			if err != nil {
				continue
			}
			out, n, err := transformFile(abs, src, astKind(kind), nil, nil)
			if err != nil || n == 0 {
				continue
			}
			keys, infra := runAll(map[string][]byte{abs: out})
			if len(keys) == 0 && infra == "" {
				fmt.Printf("ok    %-7s %-40s %d constructs\n", kind, rel, n)
				continue
			}
			bad++
			fmt.Printf("ALARM %-7s %-40s %d constructs: %v %s\n", kind, rel, n, keys, infra)
			if !*bisect {
				continue
			}
			// per function
			fset := token.NewFileSet()
			f, _ := parser.ParseFile(fset, abs, src, 0)
			seen := map[string]bool{}
			for _, d := range f.Decls {
				fd, ok := d.(*ast.FuncDecl)
				if !ok || fd.Body == nil || seen[fd.Name.Name] {
					continue
				}
				seen[fd.Name.Name] = true
				name := fd.Name.Name
				out1, n1, err := transformFile(abs, src, astKind(kind), nil, func(s string) bool { return s == name })
				if err != nil || n1 == 0 {
					continue
				}
				k1, i1 := runAll(map[string][]byte{abs: out1})
				if len(k1) > 0 || i1 != "" {
					fmt.Printf("      -> function %s (%d constructs): %v %s\n", name, n1, k1, i1)
				}
			}
		}
	}
	if bad > 0 {
		return 1
	}
	return 0
}
