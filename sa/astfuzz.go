package main

// Systematic behaviour-preserving source transformations used to test the rules against false alarms (DESIGN.md
// section 8.4). Each transformation is applied to every eligible construct of one source file (or of one function of
// it), the result is fed to the loader as an overlay, and every property's rules are run: any report is a false alarm of
// the machinery (the transformation preserves behaviour by construction: operands are only swapped when both sides are
// free of calls, branches are swapped together with the negation of their condition).

import (
	"bytes"
	"flag"
	"fmt"
	"go/ast"
	"go/format"
	"go/parser"
	"go/token"
	"go/types"
	"os"
	"path/filepath"
	"sort"
	"strings"
)

type astKind string

const (
	kindMirror astKind = "mirror" // a OP b  ->  b OP' a   for comparisons
	kindSwap   astKind = "swap"   // a + b   ->  b + a     for commutative integer operators
	kindNegate astKind = "negate" // if c {A} else {B} -> if !(c) {B} else {A}
)

func hasCall(e ast.Expr) bool {
	found := false
	ast.Inspect(e, func(n ast.Node) bool {
		if _, ok := n.(*ast.CallExpr); ok {
			found = true
		}
		return !found
	})
	return found
}

// transformFile parses src, applies kind to every eligible construct inside the functions selected by pick (nil = all)
// and returns the new source and the number of constructs changed.
func transformFile(filename string, src []byte, kind astKind, info *types.Info, pick func(name string) bool) ([]byte, int, error) {
	fset := token.NewFileSet()
	f, err := parser.ParseFile(fset, filename, src, parser.ParseComments)
	if err != nil {
		return nil, 0, err
	}
	n := 0
	for _, d := range f.Decls {
		fd, ok := d.(*ast.FuncDecl)
		if !ok || fd.Body == nil {
			continue
		}
		if pick != nil && !pick(fd.Name.Name) {
			continue
		}
		if kind == "earlyreturn" {
			// void functions and closures whose body ends in if/else: if c {A} else {B}  ->  if c {A; return}; B
			var rewrite func(body *ast.BlockStmt, void bool)
			rewrite = func(body *ast.BlockStmt, void bool) {
				if body == nil || len(body.List) == 0 || !void {
					return
				}
				last, ok := body.List[len(body.List)-1].(*ast.IfStmt)
				if !ok {
					return
				}
				els, ok := last.Else.(*ast.BlockStmt)
				if !ok {
					return
				}
				last.Body.List = append(last.Body.List, &ast.ReturnStmt{})
				last.Else = nil
				body.List = append(body.List, els.List...)
				n++
			}
			rewrite(fd.Body, fd.Type.Results == nil)
			ast.Inspect(fd.Body, func(node ast.Node) bool {
				if fl, ok := node.(*ast.FuncLit); ok {
					rewrite(fl.Body, fl.Type.Results == nil)
				}
				return true
			})
			continue
		}
		ast.Inspect(fd.Body, func(node ast.Node) bool {
			switch x := node.(type) {
			case *ast.BinaryExpr:
				switch kind {
				case kindMirror:
					var m token.Token
					switch x.Op {
					case token.LSS:
						m = token.GTR
					case token.GTR:
						m = token.LSS
					case token.LEQ:
						m = token.GEQ
					case token.GEQ:
						m = token.LEQ
					case token.EQL, token.NEQ:
						m = x.Op
					default:
						return true
					}
					if hasCall(x.X) && hasCall(x.Y) {
						return true // keep the evaluation order of two calls
					}
					x.X, x.Y = x.Y, x.X
					x.Op = m
					n++
				case kindSwap:
					switch x.Op {
					case token.ADD, token.MUL, token.AND, token.OR:
					default:
						return true
					}
					if hasCall(x.X) && hasCall(x.Y) {
						return true
					}
					// integers only (string concatenation is not commutative): decided from the literal shape, since the
					// positions of this re-parse do not map into the type-checked syntax
					if !looksInteger(x.X) || !looksInteger(x.Y) {
						return true
					}
					x.X, x.Y = x.Y, x.X
					n++
				}
			case *ast.IfStmt:
				if kind == "demorgan" {
					// if a && b  ->  if !(!(a) || !(b))      if a || b  ->  if !(!(a) && !(b))
					if be, ok := x.Cond.(*ast.BinaryExpr); ok && (be.Op == token.LAND || be.Op == token.LOR) {
						op := token.LOR
						if be.Op == token.LOR {
							op = token.LAND
						}
						neg := func(e ast.Expr) ast.Expr { return &ast.UnaryExpr{Op: token.NOT, X: &ast.ParenExpr{X: e}} }
						x.Cond = neg(&ast.BinaryExpr{X: neg(be.X), Op: op, Y: neg(be.Y)})
						n++
					}
					return true
				}
				if kind != kindNegate {
					return true
				}
				els, ok := x.Else.(*ast.BlockStmt)
				if !ok || x.Init != nil {
					return true
				}
				x.Cond = &ast.UnaryExpr{Op: token.NOT, X: &ast.ParenExpr{X: x.Cond}}
				x.Body, x.Else = els, x.Body
				n++
			}
			return true
		})
	}
	_ = info
	var buf bytes.Buffer
	if err := format.Node(&buf, fset, f); err != nil {
		return nil, 0, err
	}
	return buf.Bytes(), n, nil
}

// looksInteger: a conservative syntactic test that e is an integer expression (no string/float literal, no string
// conversion): identifiers, selectors, index expressions, integer literals, parenthesised/unary/binary combinations and
// the built-ins len/cap, and conversions to integer types.
func looksInteger(e ast.Expr) bool {
	switch x := e.(type) {
	case *ast.BasicLit:
		return x.Kind == token.INT
	case *ast.Ident:
		return x.Name != "nil"
	case *ast.SelectorExpr:
		return true
	case *ast.ParenExpr:
		return looksInteger(x.X)
	case *ast.UnaryExpr:
		return x.Op == token.SUB && looksInteger(x.X)
	case *ast.BinaryExpr:
		switch x.Op {
		case token.ADD, token.SUB, token.MUL, token.AND, token.OR, token.SHL, token.SHR, token.REM, token.QUO:
			return looksInteger(x.X) && looksInteger(x.Y)
		}
		return false
	case *ast.CallExpr:
		if id, ok := x.Fun.(*ast.Ident); ok {
			switch id.Name {
			case "len", "cap", "int", "int64", "int32", "uint64", "uint32", "uint16", "uintptr", "byte", "uint8":
				return true
			}
		}
		return false
	}
	return false
}

// cmdASTFuzz: sonicsa astfuzz -repo /repo -verif /verif [-kinds mirror,swap,negate] [-files a.go,b.go] [-bisect]
func cmdASTFuzz(args []string) int {
	fs := flag.NewFlagSet("astfuzz", flag.ExitOnError)
	repo := fs.String("repo", "/repo", "repository")
	verif := fs.String("verif", "/verif", "verif dir (known findings)")
	kinds := fs.String("kinds", "mirror,swap,negate", "transformations")
	files := fs.String("files", "", "comma separated repo-relative files (default: every non-test file of the analysed packages)")
	bisect := fs.Bool("bisect", true, "on a report, repeat per function to name the function whose transformation triggers it")
	dump := fs.String("dump", "", "directory that receives the transformed file of every function-level report")
	_ = fs.Parse(args)
	base, err := Load(*repo, "amd64", nil)
	if err != nil {
		fmt.Println("INFRASTRUCTURE-FAILURE", err)
		return 2
	}
	var list []string
	if *files != "" {
		list = strings.Split(*files, ",")
	} else {
		for _, pk := range base.Pkgs {
			for _, gf := range pk.GoFiles {
				if strings.HasSuffix(gf, "_test.go") {
					continue
				}
				rel, _ := filepath.Rel(*repo, gf)
				list = append(list, rel)
			}
		}
		sort.Strings(list)
	}
	findings := loadFindings(filepath.Join(*verif, "known_findings.jsonl"))
	var ids []string
	for id := range registry {
		ids = append(ids, id)
	}
	sort.Strings(ids)
	runAll := func(overlay map[string][]byte) ([]string, string) {
		p, err := Load(*repo, "amd64", overlay)
		if err != nil {
			return nil, err.Error()
		}
		var keys []string
		infra := ""
		for _, id := range ids {
			r := runProperty(p, registry[id], findings)
			if r.InfraErr != "" {
				infra += id + ": " + r.InfraErr + "; "
			}
			for _, o := range r.Violations {
				keys = append(keys, o.Key)
			}
		}
		return keys, infra
	}
	bad := 0
	for _, kind := range strings.Split(*kinds, ",") {
		if kind == "rename" {
			bad += renameFuzz(base, *repo, *files, runAll)
			continue
		}
		if kind == "renamelocals" {
			bad += renameLocalsFuzz(base, *repo, list, runAll)
			continue
		}
		for _, rel := range list {
			abs := filepath.Join(*repo, rel)
			src, err := os.ReadFile(abs)
			if err != nil {
				continue
			}
			transform := func(pick func(string) bool) ([]byte, int, error) {
				if kind != "extract" && kind != "extractcalls" && kind != "extractrun" {
					return transformFile(abs, src, astKind(kind), nil, pick)
				}
				for _, pk := range base.Pkgs {
					for i, gf := range pk.CompiledGoFiles {
						if gf == abs && i < len(pk.Syntax) {
							return extractStatements(abs, src, pk.Types, pk.TypesInfo, pk.Syntax[i], pk.Fset, pick, kind == "extractcalls", kind == "extractrun")
						}
					}
				}
				return nil, 0, nil
			}
			out, n, err := transform(nil)
			if err != nil {
				fmt.Printf("skip  %-7s %-40s %v\n", kind, rel, err)
				continue
			}
			if n == 0 {
				continue
			}
			keys, infra := runAll(map[string][]byte{abs: out})
			if len(keys) == 0 && infra == "" {
				fmt.Printf("ok    %-7s %-40s %d constructs\n", kind, rel, n)
				continue
			}
			bad++
			fmt.Printf("ALARM %-7s %-40s %d constructs: %v %s\n", kind, rel, n, keys, infra)
			if !*bisect {
				continue
			}
			// per function
			fset := token.NewFileSet()
			f, _ := parser.ParseFile(fset, abs, src, 0)
			seen := map[string]bool{}
			for _, d := range f.Decls {
				fd, ok := d.(*ast.FuncDecl)
				if !ok || fd.Body == nil || seen[fd.Name.Name] {
					continue
				}
				seen[fd.Name.Name] = true
				name := fd.Name.Name
				out1, n1, err := transform(func(s string) bool { return s == name })
				if err != nil || n1 == 0 {
					continue
				}
				k1, i1 := runAll(map[string][]byte{abs: out1})
				if len(k1) > 0 || i1 != "" {
					fmt.Printf("      -> function %s (%d constructs): %v %s\n", name, n1, k1, i1)
					if *dump != "" {
						_ = os.MkdirAll(*dump, 0o755)
						_ = os.WriteFile(filepath.Join(*dump, kind+"_"+strings.ReplaceAll(rel, "/", "_")+"_"+name+".go"), out1, 0o644)
					}
				}
			}
		}
	}
	if bad > 0 {
		return 1
	}
	return 0
}

// ---------------------------------------------------------------------------------------------------------------------
// extract: every eligible statement of a pointer-receiver method that only writes through the receiver (r.f = e,
// r.f += e, r.f++, r.m(args) as a statement) is moved into its own new unexported method of the same receiver, with the
// locals and parameters it mentions passed as arguments. This is the most common shape of the hand-made refactorings
// that tripped the rules (a few statements moved into a helper).
// ---------------------------------------------------------------------------------------------------------------------

func extractStatements(filename string, src []byte, pkgTypes *types.Package, info *types.Info, origFile *ast.File, origFset *token.FileSet, pick func(string) bool, callsToo bool, runsOnly bool) ([]byte, int, error) {
	fset := token.NewFileSet()
	f, err := parser.ParseFile(fset, filename, src, parser.ParseComments)
	if err != nil {
		return nil, 0, err
	}
	// identifiers of the type-checked syntax by byte offset
	identAt := map[int]*ast.Ident{}
	ast.Inspect(origFile, func(n ast.Node) bool {
		if id, ok := n.(*ast.Ident); ok {
			identAt[origFset.Position(id.Pos()).Offset] = id
		}
		return true
	})
	qual := func(p *types.Package) string {
		if p == pkgTypes {
			return ""
		}
		// the import name used in this file
		for _, imp := range origFile.Imports {
			path := strings.Trim(imp.Path.Value, "\"")
			if path == p.Path() {
				if imp.Name != nil {
					return imp.Name.Name
				}
				return p.Name()
			}
		}
		return "\x00" // not importable from this file
	}
	n := 0
	var helpers []string
	for _, d := range f.Decls {
		fd, ok := d.(*ast.FuncDecl)
		if !ok || fd.Body == nil || fd.Recv == nil || len(fd.Recv.List) != 1 || len(fd.Recv.List[0].Names) != 1 {
			continue
		}
		if pick != nil && !pick(fd.Name.Name) {
			continue
		}
		star, ok := fd.Recv.List[0].Type.(*ast.StarExpr)
		if !ok {
			continue
		}
		tid, ok := star.X.(*ast.Ident) // no generic receivers
		if !ok {
			continue
		}
		recv := fd.Recv.List[0].Names[0].Name
		if recv == "_" {
			continue
		}
		var visit func(list []ast.Stmt)
		var extractOne func(st ast.Stmt) ast.Stmt
		var tryExtractStmts func(sts []ast.Stmt) ast.Stmt
		tryExtract := func(st ast.Stmt) ast.Stmt { return tryExtractStmts([]ast.Stmt{st}) }
		tryExtractRun := func(sts []ast.Stmt) ast.Stmt { return tryExtractStmts(sts) }
		var eligible func(st ast.Stmt) bool
		tryExtractStmts = func(sts []ast.Stmt) ast.Stmt {
			for _, st := range sts {
				if !eligible(st) {
					return nil
				}
			}
			st := ast.Stmt(&ast.BlockStmt{List: sts})
			if len(sts) == 1 {
				st = sts[0]
			}
			return extractOne(st)
		}
		_ = tryExtractRun
		eligible = func(st ast.Stmt) bool {
			rooted := func(e ast.Expr) bool {
				for {
					switch x := e.(type) {
					case *ast.SelectorExpr:
						e = x.X
					case *ast.IndexExpr:
						e = x.X
					case *ast.ParenExpr:
						e = x.X
					case *ast.StarExpr:
						e = x.X
					case *ast.Ident:
						return x.Name == recv
					default:
						return false
					}
				}
			}
			switch x := st.(type) {
			case *ast.AssignStmt:
				if x.Tok == token.DEFINE || len(x.Lhs) != 1 || len(x.Rhs) != 1 || !rooted(x.Lhs[0]) {
					return false
				}
				if _, isSel := x.Lhs[0].(*ast.SelectorExpr); !isSel {
					return false
				}
			case *ast.IncDecStmt:
				if !rooted(x.X) {
					return false
				}
			case *ast.ExprStmt:
				if !callsToo {
					return false
				}
				call, ok := x.X.(*ast.CallExpr)
				if !ok {
					return false
				}
				sel, ok := call.Fun.(*ast.SelectorExpr)
				if !ok || !rooted(sel.X) {
					return false
				}
			default:
				return false
			}
			return true
		}
		extractOne = func(st ast.Stmt) ast.Stmt {
			// free local identifiers and their types
			bad := false
			type prm struct{ name, typ string }
			var prms []prm
			seen := map[string]bool{}
			ast.Inspect(st, func(nd ast.Node) bool {
				switch y := nd.(type) {
				case *ast.FuncLit:
					bad = true
					return false
				case *ast.SelectorExpr:
					ast.Inspect(y.X, func(z ast.Node) bool { return true })
					// do not treat the selected name as a free identifier
					if id, ok := y.X.(*ast.Ident); ok {
						_ = id
					}
				case *ast.Ident:
					orig := identAt[fset.Position(y.Pos()).Offset]
					if orig == nil {
						return true
					}
					obj := info.Uses[orig]
					if obj == nil {
						return true
					}
					v, isVar := obj.(*types.Var)
					if !isVar || v.IsField() || v.Parent() == nil || v.Parent() == pkgTypes.Scope() || v.Parent() == types.Universe {
						return true
					}
					if v.Name() == recv || seen[v.Name()] {
						return true
					}
					seen[v.Name()] = true
					ts := types.TypeString(v.Type(), qual)
					if strings.Contains(ts, "\x00") || strings.Contains(ts, "struct{") || strings.Contains(ts, "interface{") && ts != "interface{}" {
						bad = true
					}
					prms = append(prms, prm{v.Name(), ts})
				}
				return true
			})
			if bad {
				return nil
			}
			// a parameter must not be assigned by the statement (would not propagate back)
			n++
			name := fmt.Sprintf("zzExtracted%s%d", fd.Name.Name, n)
			var ps, as []string
			for _, q := range prms {
				ps = append(ps, q.name+" "+q.typ)
				as = append(as, q.name)
			}
			var body bytes.Buffer
			if blk, isBlk := st.(*ast.BlockStmt); isBlk {
				for _, s1 := range blk.List {
					_ = format.Node(&body, fset, s1)
					body.WriteString("\n\t")
				}
			} else {
				_ = format.Node(&body, fset, st)
			}
			helpers = append(helpers, fmt.Sprintf("\nfunc (%s *%s) %s(%s) {\n\t%s\n}\n", recv, tid.Name, name, strings.Join(ps, ", "), body.String()))
			args := make([]ast.Expr, len(as))
			for i, a := range as {
				args[i] = ast.NewIdent(a)
			}
			return &ast.ExprStmt{X: &ast.CallExpr{Fun: &ast.SelectorExpr{X: ast.NewIdent(recv), Sel: ast.NewIdent(name)}, Args: args}}
		}
		visit = func(list []ast.Stmt) {
			if runsOnly {
				// consecutive eligible statements (two or more) become one helper: wrap them into a block statement and
				// let tryExtractBlock handle it
				for i := 0; i < len(list); i++ {
					j := i
					for j < len(list) && eligible(list[j]) {
						j++
					}
					if j-i >= 2 {
						if rep := tryExtractRun(list[i:j]); rep != nil {
							list[i] = rep
							for k := i + 1; k < j; k++ {
								list[k] = &ast.EmptyStmt{Implicit: true}
							}
						}
						i = j - 1
					}
				}
			}
			for i, st := range list {
				if _, isEmpty := st.(*ast.EmptyStmt); isEmpty {
					continue
				}
				if !runsOnly {
					if rep := tryExtract(st); rep != nil {
						list[i] = rep
						continue
					}
				}
				switch x := st.(type) {
				case *ast.BlockStmt:
					visit(x.List)
				case *ast.IfStmt:
					visit(x.Body.List)
					if eb, ok := x.Else.(*ast.BlockStmt); ok {
						visit(eb.List)
					} else if ei, ok := x.Else.(*ast.IfStmt); ok {
						visit([]ast.Stmt{ei})
					}
				case *ast.ForStmt:
					visit(x.Body.List)
				case *ast.RangeStmt:
					visit(x.Body.List)
				case *ast.SwitchStmt:
					for _, cc := range x.Body.List {
						visit(cc.(*ast.CaseClause).Body)
					}
				}
			}
		}
		visit(fd.Body.List)
	}
	if n == 0 {
		return nil, 0, nil
	}
	var buf bytes.Buffer
	if err := format.Node(&buf, fset, f); err != nil {
		return nil, 0, err
	}
	for _, h := range helpers {
		buf.WriteString(h)
	}
	out, err := format.Source(buf.Bytes())
	if err != nil {
		return nil, 0, err
	}
	return out, n, nil
}

// ---------------------------------------------------------------------------------------------------------------------
// rename: every unexported package-level function, method, struct field, type, constant and variable of the analysed
// packages is renamed (declaration and all uses, one object at a time) and all rules are run on the overlay. A rename
// preserves behaviour: any report, and any anchor that can no longer be resolved, is a false alarm.
// ---------------------------------------------------------------------------------------------------------------------

func renameFuzz(base *Prog, repo, only string, runAll func(map[string][]byte) ([]string, string)) int {
	bad := 0
	for _, pk := range base.Pkgs {
		rel := strings.TrimPrefix(strings.TrimPrefix(pk.PkgPath, modPath), "/")
		if rel == "" {
			rel = "."
		}
		if only != "" && !strings.Contains(","+only+",", ","+rel+",") {
			continue
		}
		type site struct {
			file string
			off  int
		}
		objs := map[types.Object][]site{}
		add := func(id *ast.Ident, obj types.Object) {
			if obj == nil || obj.Pkg() != pk.Types || obj.Exported() || id.Name == "_" || id.Name == "init" || id.Name == "main" {
				return
			}
			switch o := obj.(type) {
			case *types.Func:
			case *types.TypeName:
			case *types.Const:
				if o.Parent() != pk.Types.Scope() {
					return
				}
			case *types.Var:
				if !o.IsField() && o.Parent() != pk.Types.Scope() {
					return // locals and parameters
				}
				if o.IsField() && o.Embedded() {
					return
				}
			default:
				return
			}
			pos := pk.Fset.Position(id.Pos())
			if strings.HasSuffix(pos.Filename, "_test.go") {
				return
			}
			objs[obj] = append(objs[obj], site{pos.Filename, pos.Offset})
		}
		for id, obj := range pk.TypesInfo.Defs {
			add(id, obj)
		}
		for id, obj := range pk.TypesInfo.Uses {
			add(id, obj)
		}
		var order []types.Object
		for o := range objs {
			order = append(order, o)
		}
		sort.Slice(order, func(i, j int) bool { return order[i].Pos() < order[j].Pos() })
		for _, obj := range order {
			newName := "zzr" + strings.ToUpper(obj.Name()[:1]) + obj.Name()[1:]
			byFile := map[string][]int{}
			for _, s := range objs[obj] {
				byFile[s.file] = append(byFile[s.file], s.off)
			}
			overlay := map[string][]byte{}
			for file, offs := range byFile {
				src, err := os.ReadFile(file)
				if err != nil {
					continue
				}
				sort.Sort(sort.Reverse(sort.IntSlice(offs)))
				last := -1
				for _, off := range offs {
					if off == last {
						continue
					}
					last = off
					src = append(src[:off:off], append([]byte(newName), src[off+len(obj.Name()):]...)...)
				}
				overlay[file] = src
			}
			kind := fmt.Sprintf("%T", obj)
			kind = strings.TrimPrefix(kind, "*types.")
			if v, ok := obj.(*types.Var); ok && v.IsField() {
				kind = "Field"
			}
			label := fmt.Sprintf("%s %s.%s", kind, strings.TrimPrefix(pk.PkgPath, modPath+"/"), objName(obj))
			keys, infra := runAll(overlay)
			switch {
			case strings.Contains(infra, "load/type-check errors") || strings.Contains(infra, "cannot load"):
				fmt.Printf("skip  rename %-60s does not compile after the rename (interface method / test-only use)\n", label)
			case len(keys) == 0 && infra == "":
				fmt.Printf("ok    rename %s\n", label)
			default:
				bad++
				fmt.Printf("ALARM rename %-60s %v %s\n", label, keys, infra)
			}
		}
	}
	return bad
}

// renamelocals: every local variable, parameter, receiver and named result of a file is renamed at once.
func renameLocalsFuzz(base *Prog, repo string, list []string, runAll func(map[string][]byte) ([]string, string)) int {
	bad := 0
	for _, rel := range list {
		abs := filepath.Join(repo, rel)
		var offs []int
		names := map[int]string{}
		for _, pk := range base.Pkgs {
			collect := func(id *ast.Ident, obj types.Object) {
				v, ok := obj.(*types.Var)
				if !ok || v.IsField() || v.Pkg() != pk.Types || v.Parent() == pk.Types.Scope() || id.Name == "_" {
					return
				}
				pos := pk.Fset.Position(id.Pos())
				if pos.Filename != abs {
					return
				}
				if _, seen := names[pos.Offset]; !seen {
					offs = append(offs, pos.Offset)
					names[pos.Offset] = id.Name
				}
			}
			for id, obj := range pk.TypesInfo.Defs {
				if obj != nil {
					collect(id, obj)
				}
			}
			for id, obj := range pk.TypesInfo.Uses {
				collect(id, obj)
			}
			// the symbolic variable of a type switch: declared once (no object), used through one implicit object per clause
			for node, obj := range pk.TypesInfo.Implicits {
				cc, ok := node.(*ast.CaseClause)
				if !ok {
					continue
				}
				_ = cc
				for id, o := range pk.TypesInfo.Defs {
					if o == nil && id.Name == obj.Name() && id.Name != "_" {
						pos := pk.Fset.Position(id.Pos())
						if pos.Filename == abs {
							if _, seen := names[pos.Offset]; !seen && isTypeSwitchVar(pk.Syntax, id) {
								offs = append(offs, pos.Offset)
								names[pos.Offset] = id.Name
							}
						}
					}
				}
			}
		}
		if len(offs) == 0 {
			continue
		}
		src, err := os.ReadFile(abs)
		if err != nil {
			continue
		}
		sort.Sort(sort.Reverse(sort.IntSlice(offs)))
		for _, off := range offs {
			old := names[off]
			src = append(src[:off:off], append([]byte("zl"+strings.ToUpper(old[:1])+old[1:]), src[off+len(old):]...)...)
		}
		keys, infra := runAll(map[string][]byte{abs: src})
		switch {
		case strings.Contains(infra, "load/type-check errors") || strings.Contains(infra, "cannot load"):
			fmt.Printf("skip  renamelocals %-40s does not compile: %s\n", rel, infra[:min(len(infra), 200)])
		case len(keys) == 0 && infra == "":
			fmt.Printf("ok    renamelocals %-40s %d identifiers\n", rel, len(offs))
		default:
			bad++
			fmt.Printf("ALARM renamelocals %-40s %v %s\n", rel, keys, infra)
		}
	}
	return bad
}

// isTypeSwitchVar: id is the variable declared by `switch id := x.(type)`.
func isTypeSwitchVar(files []*ast.File, id *ast.Ident) bool {
	found := false
	for _, f := range files {
		if id.Pos() < f.Pos() || id.Pos() > f.End() {
			continue
		}
		ast.Inspect(f, func(n ast.Node) bool {
			if ts, ok := n.(*ast.TypeSwitchStmt); ok {
				if as, ok := ts.Assign.(*ast.AssignStmt); ok && len(as.Lhs) == 1 && as.Lhs[0] == ast.Expr(id) {
					found = true
				}
			}
			return !found
		})
	}
	return found
}
