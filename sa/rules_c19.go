package main

import (
	"fmt"
	"go/token"
	"go/types"

	"golang.org/x/tools/go/ssa"
)

func init() {
	register(&propertySpec{
		ID:    "C19",
		Title: "Codec connection framing is independent of transport segmentation",
		Explanation: "Decides: (R1) in frame.Codec.Decode the declared length is bounded by MaxPayloadLength on the unsigned wire value before it is converted and before every " +
			"PrepareRead / Reserve / Consume / slice bound that uses it; (R2) in sync - resetDecode first; header read only after PrepareRead(HeaderLen) succeeded; the payload is " +
			"returned as Data()[:len] only after PrepareRead(HeaderLen+len) succeeded and Consume(HeaderLen) ran; decodeBytes records that same length and resetDecode consumes " +
			"it under the flag; Encode writes the length it claims (prefix = len(frame), claim = HeaderLen+len) after reserving that much; (R3) need-more protocol - in ReadNext a " +
			"transport read lies on every cycle between two Decode calls, its exits are success / non-NeedMore error / transport error; on the payload need-more path Decode " +
			"reserves HeaderLen+len before returning; AsyncReadNext completes exactly once (E2); (R4) nothing left behind - ByteBuffer.AsyncWriteTo uses the *All* variant and " +
			"consumes exactly the count reported under err==nil; WriteTo writes data[si+written:ri], accumulates the counts and consumes the total; AsyncReadFrom/ReadFrom grow the " +
			"write area by exactly the count reported under err==nil. Not decided: equality of payload sequences (values).",
		Run: runC19,
	})
	addMutants("C19",
		mutant{"async reader keeps reading after any decode error", "codec.go",
			"\titem, err := c.codec.Decode(c.src)\n\tif errors.Is(err, sonicerrors.ErrNeedMore) {\n\t\tc.src.AsyncReadFrom(", "\titem, err := c.codec.Decode(c.src)\n\tif err != nil {\n\t\tc.src.AsyncReadFrom(", "C19-R3"},
		mutant{"WriteNext drops the unsent rest after a failed write", "codec.go",
			"\t\tnn, err = c.dst.WriteTo(c.stream)\n\t\tn = int(nn)\n", "\t\tnn, err = c.dst.WriteTo(c.stream)\n\t\tn = int(nn)\n\t\tif err != nil {\n\t\t\tc.dst.Consume(c.dst.ReadLen())\n\t\t}\n", "C19-R4"},
		mutant{"prefix consumed before the payload is complete", "codec/frame/frame.go",
			"\tpayloadLen := binary.BigEndian.Uint32(src.Data()[:HeaderLen])\n", "\tpayloadLen := binary.BigEndian.Uint32(src.Data()[:HeaderLen])\n\tsrc.Consume(HeaderLen)\n", "C19-R2"},
		mutant{"prefix written little endian", "codec/frame/frame.go",
			"\t\tbinary.BigEndian.PutUint32(into[:HeaderLen], uint32(payloadLen))", "\t\tbinary.LittleEndian.PutUint32(into[:HeaderLen], uint32(payloadLen))", "C19-R2"},
		mutant{"ReadNext keeps reading after a decode error", "codec.go",
			"\t\tif !errors.Is(err, sonicerrors.ErrNeedMore) {\n\t\t\treturn c.emptyDec, err\n\t\t}\n\n\t\t_, err = c.src.ReadFrom(c.stream)", "\t\t_, err = c.src.ReadFrom(c.stream)", "C19-R3"},
		mutant{"AsyncWriteNext writes although Encode failed", "codec.go",
			"\terr := c.codec.Encode(item, c.dst)\n\tif err == nil {\n\t\tc.dst.AsyncWriteTo(c.stream, cb)\n\t} else {\n\t\tcb(err, 0)\n\t}", "\t_ = c.codec.Encode(item, c.dst)\n\tc.dst.AsyncWriteTo(c.stream, cb)", "C19-R4"},
		mutant{"WriteTo error path skips Consume", "byte_buffer.go",
			"\t\tn, err = w.Write(b.data[b.si+writtenBytes : b.ri])\n\t\tif err != nil {\n\t\t\tbreak\n\t\t}", "\t\tn, err = w.Write(b.data[b.si+writtenBytes : b.ri])\n\t\tif err != nil {\n\t\t\treturn int64(writtenBytes), err\n\t\t}", "C19-R4"},
		mutant{"length limit removed", "codec/frame/frame.go",
			"\tif payloadLen > MaxPayloadLength {\n\t\treturn nil, ErrPayloadLengthOverflow\n\t}\n", "", "C19-R1"},
		mutant{"limit checked after buffering", "codec/frame/frame.go",
			"\tif payloadLen > MaxPayloadLength {\n\t\treturn nil, ErrPayloadLengthOverflow\n\t}\n\n\terr := src.PrepareRead(HeaderLen + int(payloadLen))",
			"\terr := src.PrepareRead(HeaderLen + int(payloadLen))\n\tif payloadLen > MaxPayloadLength {\n\t\treturn nil, ErrPayloadLengthOverflow\n\t}\n", "C19-R1"},
		mutant{"header not dropped before yielding the payload", "codec/frame/frame.go",
			"\tsrc.Consume(HeaderLen) // discard header; we are left with the payload\n", "", "C19-R2"},
		mutant{"previous item not consumed", "codec/frame/frame.go",
			"func (c *Codec) Decode(src *sonic.ByteBuffer) ([]byte, error) {\n\tc.resetDecode()\n", "func (c *Codec) Decode(src *sonic.ByteBuffer) ([]byte, error) {\n", "C19-R2"},
		mutant{"consumed length differs from the payload", "codec/frame/frame.go",
			"\tc.decodeBytes = int(payloadLen)\n", "\tc.decodeBytes = int(payloadLen) + HeaderLen\n", "C19-R2"},
		mutant{"length prefix counts the header", "codec/frame/frame.go",
			"binary.BigEndian.PutUint32(into[:HeaderLen], uint32(payloadLen))", "binary.BigEndian.PutUint32(into[:HeaderLen], uint32(payloadLen+HeaderLen))", "C19-R2"},
		mutant{"no room reserved for a big payload", "codec/frame/frame.go",
			"\t\tif err == sonicerrors.ErrNeedMore {\n\t\t\tsrc.Reserve(HeaderLen + int(payloadLen))\n\t\t}\n", "\t\t_ = sonicerrors.ErrNeedMore\n", "C19-R3"},
		mutant{"room reserved only when the payload alone does not fit", "codec/frame/frame.go",
			"\t\tif err == sonicerrors.ErrNeedMore {\n\t\t\tsrc.Reserve(HeaderLen + int(payloadLen))", "\t\tif err == sonicerrors.ErrNeedMore && src.Cap() < int(payloadLen) {\n\t\t\tsrc.Reserve(HeaderLen + int(payloadLen))", "C19-R3"},
		mutant{"need-more decoded again without reading", "codec.go",
			"\t\t_, err = c.src.ReadFrom(c.stream)\n\t\tif err != nil {\n\t\t\treturn c.emptyDec, err\n\t\t}", "\t\tif c.src.WriteLen() == 0 {\n\t\t\t_, err = c.src.ReadFrom(c.stream)\n\t\t\tif err != nil {\n\t\t\t\treturn c.emptyDec, err\n\t\t\t}\n\t\t}", "C19-R3"},
		mutant{"partial async write accepted", "byte_buffer.go",
			"\tw.AsyncWriteAll(b.data[b.si:b.ri], func(err error, n int) {", "\tw.AsyncWrite(b.data[b.si:b.ri], func(err error, n int) {", "C19-R4"},
		mutant{"written bytes consumed even on error", "byte_buffer.go",
			"\tw.AsyncWriteAll(b.data[b.si:b.ri], func(err error, n int) {\n\t\tif err == nil {\n\t\t\tb.Consume(n)\n\t\t}", "\tw.AsyncWriteAll(b.data[b.si:b.ri], func(err error, n int) {\n\t\tb.Consume(n)", "C19-R4"},
		mutant{"blocking write restarts from the beginning", "byte_buffer.go",
			"\t\tn, err = w.Write(b.data[b.si+writtenBytes : b.ri])", "\t\tn, err = w.Write(b.data[b.si:b.ri])", "C19-R4"},
		mutant{"async read grows the buffer on error too", "byte_buffer.go",
			"\tr.AsyncRead(b.data[b.wi:cap(b.data)], func(err error, n int) {\n\t\tif err == nil {\n\t\t\tb.wi += n\n\t\t\tb.data = b.data[:b.wi]\n\t\t}", "\tr.AsyncRead(b.data[b.wi:cap(b.data)], func(err error, n int) {\n\t\t{\n\t\t\tb.wi += n\n\t\t\tb.data = b.data[:b.wi]\n\t\t}", "C19-R4"},
	)
}

// reachAvoiding: target can execute after `from` without executing an instruction satisfying avoid in between.
func reachAvoiding(from, target ssa.Instruction, avoid func(ssa.Instruction) bool) bool {
	seen := map[*ssa.BasicBlock]bool{}
	var walk func(b *ssa.BasicBlock, idx int) bool
	walk = func(b *ssa.BasicBlock, idx int) bool {
		for i := idx; i < len(b.Instrs); i++ {
			in := b.Instrs[i]
			if in == target {
				return true
			}
			if avoid(in) {
				return false
			}
		}
		for _, s := range b.Succs {
			if seen[s] {
				continue
			}
			seen[s] = true
			if walk(s, 0) {
				return true
			}
		}
		return false
	}
	return walk(from.Block(), instrIndex(from)+1)
}

func runC19(c *Ctx) {
	p := c.P
	fr := "codec/frame"
	dec := p.Method(fr, "Codec", "Decode")
	enc := p.Method(fr, "Codec", "Encode")
	resetDecode := p.Method(fr, "Codec", "resetDecode")
	decodeBytesF := p.Field(fr, "Codec", "decodeBytes")
	decodeResetF := p.Field(fr, "Codec", "decodeReset")
	headerLen, _ := constantInt(p.Const(fr, "HeaderLen"))
	maxLen, _ := constantInt(p.Const(fr, "MaxPayloadLength"))
	bb := func(n string) *ssa.Function { return p.Method("sonic", "ByteBuffer", n) }
	prepareRead, reserve, consume, data, claim := bb("PrepareRead"), bb("Reserve"), bb("Consume"), bb("Data"), bb("Claim")
	errNeedMore := p.GlobalVar("sonicerrors", "ErrNeedMore")

	// the wire length: the Uint32 read in Decode, or the first result of a helper of Decode that reads it and returns it
	// with a nil error only when it is within the limit (parsePayloadLen(header) (uint32, error))
	type wireValue interface {
		ssa.Value
		ssa.Instruction
	}
	isUint32 := func(in ssa.Instruction) *ssa.Call {
		if call, ok := in.(*ssa.Call); ok && call.Call.StaticCallee() != nil && call.Call.StaticCallee().Name() == "Uint32" && call.Call.StaticCallee().Pkg != nil && call.Call.StaticCallee().Pkg.Pkg.Path() == "encoding/binary" {
			return call
		}
		return nil
	}
	withinLimit := func(w ssa.Value, b *ssa.BasicBlock) bool {
		for _, l := range guardsOf(b) {
			op, x, y, ok := l.cmp()
			if ok && x == w { // the comparison must be on the unsigned value itself
				if k, isK := constInt(y); isK && ((op == token.LEQ && k == maxLen) || (op == token.LSS && k == maxLen+1)) {
					return true
				}
			}
		}
		return false
	}
	var wire wireValue
	var wireErr ssa.Value // set when the limit is checked inside the helper: its error result
	eachInstr(dec, func(in ssa.Instruction) {
		if call := isUint32(in); call != nil {
			wire = call
		}
	})
	if wire == nil {
		for _, hc := range allCalls(dec) {
			h := hc.Call.StaticCallee()
			if !isHelperOf(dec, h) || knownOnPinnedTree(h) || h.Signature.Results().Len() != 2 {
				continue
			}
			var hw *ssa.Call
			eachInstr(h, func(in ssa.Instruction) {
				if call := isUint32(in); call != nil {
					hw = call
				}
			})
			if hw == nil {
				continue
			}
			okAll := true
			for _, r := range returnsOf(h) {
				if !isNil(r.Results[1]) {
					continue
				}
				if r.Results[0] != ssa.Value(hw) || !withinLimit(hw, r.Block()) {
					okAll = false
				}
			}
			ex0, _ := extractOfInstr(hc, 0).(*ssa.Extract)
			if ex0 != nil && extractOfInstr(hc, 1) != nil {
				wire = ex0
				if okAll {
					wireErr = extractOfInstr(hc, 1)
				} // else: the helper validates nothing; the bound is owed by Decode itself
			}
		}
	}
	if wire == nil {
		infra("anchor: the length prefix read (binary.BigEndian.Uint32) in frame.Codec.Decode not found")
	}
	wireFn := dec // where the prefix is read (Decode, or the helper that validates it)
	if ex, ok := ssa.Value(wire).(*ssa.Extract); ok {
		wireFn = ex.Tuple.(*ssa.Call).Call.StaticCallee()
	}
	// headerPlusWire: v == HeaderLen + the declared length (in any order, through conversions)
	headerPlusWire := func(v ssa.Value) bool {
		ls := additiveLeaves(v)
		nK, nW := 0, 0
		for _, l := range ls {
			switch {
			case l.isK && l.k == headerLen && !l.cond:
				nK++
			case !l.isK && !l.cond && stripConv(l.v) == ssa.Value(wire):
				nW++
			default:
				return false
			}
		}
		return nK == 1 && nW == 1
	}

	// ------------------------------------------------------------------------------------------------ R1
	c.rule("C19-R1", "the declared length is bounded by MaxPayloadLength (on the unsigned value) before every use", 5)
	{
		bounded := func(b *ssa.BasicBlock) bool {
			if wireErr != nil {
				return guardedNil(b, wireErr) // the helper hands the value out with a nil error only within the limit
			}
			return withinLimit(wire, b)
		}
		var uses []ssa.Instruction
		var collect func(v ssa.Value, depth int)
		seen := map[ssa.Value]bool{}
		collect = func(v ssa.Value, depth int) {
			if seen[v] || depth > 6 {
				return
			}
			seen[v] = true
			refs := v.Referrers()
			if refs == nil {
				return
			}
			for _, r := range *refs {
				switch x := r.(type) {
				case *ssa.Convert:
					collect(x, depth+1)
				case *ssa.BinOp:
					switch x.Op {
					case token.ADD, token.SUB, token.MUL:
						uses = append(uses, x)
						collect(x, depth+1)
					}
				case *ssa.Call, *ssa.Slice, *ssa.Store:
					uses = append(uses, r)
				}
			}
		}
		collect(wire, 0)
		for _, u := range uses {
			what := "use"
			switch x := u.(type) {
			case *ssa.Call:
				if callee := x.Call.StaticCallee(); callee != nil {
					what = callee.Name()
				}
			case *ssa.Slice:
				what = "slice bound"
			case *ssa.BinOp:
				what = "arithmetic"
			case *ssa.Store:
				what = "store"
			}
			c.check(bounded(u.Block()), dec, "length "+what, u.Pos(), "bounded by MaxPayloadLength before use", "the declared length reaches "+what+" without having been compared (unsigned) with MaxPayloadLength: a hostile length prefix makes the codec buffer for up to 4 GiB or overflow int on 32-bit targets")
		}
	}

	// ------------------------------------------------------------------------------------------------ R2
	c.rule("C19-R2", "in sync: resetDecode first, header after PrepareRead(HeaderLen), payload = Data()[:len] after PrepareRead(HeaderLen+len) and Consume(HeaderLen); decodeBytes == len; encoder prefix == len(frame)", 7)
	{
		pcalls := callsToFn(dec, prepareRead)
		rcalls := callsToFn(dec, resetDecode)
		underFlag := func(rc ssa.CallInstruction) *ssa.BasicBlock { return underFlagTest(rc, decodeResetF) }
		first := len(rcalls) > 0
		for _, pc := range pcalls {
			dom := false
			for _, rc := range rcalls {
				if dominatesInstr(rc.(ssa.Instruction), pc.(ssa.Instruction)) {
					dom = true
				}
				// nothing pending when the flag is clear: the test itself has to come first
				if tb := underFlag(rc); tb != nil && tb != pc.Block() && tb.Dominates(pc.Block()) {
					dom = true
				}
			}
			if !dom {
				first = false
			}
		}
		c.check(first, dec, "resetDecode first", dec.Pos(), "the previous item is consumed before decoding", "Decode does not consume the previously returned item first: it is returned again (or the next header is read from the middle of the old payload)")
		// header read after PrepareRead(HeaderLen)
		hdrOK := false
		for _, pc := range pcalls {
			if isConstInt(pc.Common().Args[1], headerLen) && guardedNil(wire.Block(), pc.(ssa.Value)) {
				hdrOK = true
			}
		}
		c.check(hdrOK, dec, "header available", wire.Pos(), "the length prefix is read only after PrepareRead(HeaderLen) succeeded", "the length prefix is read before HeaderLen bytes are known to be available: Data()[:HeaderLen] panics on a short read")
		// success return
		n := 0
		for _, r := range returnsOf(dec) {
			if !isNil(r.Results[1]) {
				continue
			}
			n++
			sl, ok := stripConv(r.Results[0]).(*ssa.Slice)
			shape := ok && sl.Low == nil && sl.High != nil && stripConv(sl.High) == ssa.Value(wire)
			if shape {
				if dc, ok := strip(sl.X).(*ssa.Call); !ok || !isCallToFn(dc, data) {
					shape = false
				} else {
					// Data() must be evaluated after Consume(HeaderLen)
					after := false
					for _, cc := range callsToFn(dec, consume) {
						if isConstInt(cc.Common().Args[1], headerLen) && dominatesInstr(cc.(ssa.Instruction), dc) {
							after = true
						}
					}
					if !after {
						shape = false
					}
				}
			}
			c.check(shape, dec, "payload returned", exitPos(r), "payload = Data()[:len] after the header was dropped", "the item returned is not Data()[:declared length] taken after Consume(HeaderLen): the payload is shifted by the header or has the wrong length")
			prepared := false
			for _, pc := range pcalls {
				if headerPlusWire(pc.Common().Args[1]) && guardedNil(r.Block(), pc.(ssa.Value)) {
					prepared = true
				}
			}
			c.check(prepared, dec, "payload available", exitPos(r), "returned only after PrepareRead(HeaderLen+len) succeeded", "the payload is returned without PrepareRead(HeaderLen+len) having succeeded: bytes not yet received are handed out")
			recorded, flagged := false, false
			for _, a := range storesDeep(dec, decodeBytesF) {
				if stripConv(a.Val) == ssa.Value(wire) && dominatesInstr(a.Instr, r) {
					recorded = true
				}
			}
			for _, a := range storesDeep(dec, decodeResetF) {
				if isConstBool(a.Val, true) && dominatesInstr(a.Instr, r) {
					flagged = true
				}
			}
			c.check(recorded && flagged, dec, "lazy consume", exitPos(r), "decodeBytes = len and decodeReset = true", "the length to consume on the next call is not recorded as exactly the payload length (with the reset flag set): the stream position drifts")
		}
		if n == 0 {
			c.bad(dec, "payload returned", dec.Pos(), "Decode never succeeds")
		}
		// resetDecode
		good := false
		for _, dc := range deepCallsTo(resetDecode, consume) {
			if loadOfField(dc.Call.Call.Args[1], decodeBytesF) {
				// the guard sits where the Consume is (in resetDecode, or in the helper that holds the pending payload)
				for _, l := range guardsOf(dc.Call.Block()) {
					if loadOfField(l.Cond, decodeResetF) && l.Pos {
						good = true
					}
				}
				// ... or at every call of resetDecode
				if !good && allCallsUnderFlag(p, resetDecode, decodeResetF) {
					good = true
				}
			}
		}
		c.check(good, resetDecode, "consume previous item", resetDecode.Pos(), "consumes decodeBytes under the flag", "resetDecode does not consume decodeBytes under decodeReset")
		// encoder
		{
			var cf *ssa.Function
			for _, cc := range callsToFn(enc, claim) {
				if mc, ok := strip(cc.Common().Args[1]).(*ssa.MakeClosure); ok {
					cf = mc.Fn.(*ssa.Function)
				}
			}
			okEnc := false
			why := "Encode does not claim the write area"
			if cf != nil {
				c.touch(cf)
				prefix, ret, reserved := false, false, false
				eachInstr(cf, func(in ssa.Instruction) {
					if call, ok := in.(*ssa.Call); ok && call.Call.StaticCallee() != nil && call.Call.StaticCallee().Name() == "PutUint32" {
						if lc := lenOfParam(resolveCell(stripConv(call.Call.Args[2])), enc, 1); lc {
							prefix = true
						}
					}
				})
				for _, r := range returnsOf(cf) {
					ls := additiveLeaves(resolveCellDeep(r.Results[0]))
					k, other := int64(0), 0
					for _, l := range ls {
						if l.isK {
							k += l.k
						} else if lenOfParam(resolveCell(l.v), enc, 1) {
							other++
						} else {
							other += 10
						}
					}
					if k == headerLen && other == 1 {
						ret = true
					}
				}
				for _, rc := range callsToFn(enc, reserve) {
					ls := additiveLeaves(rc.Common().Args[1])
					k, other := int64(0), 0
					for _, l := range ls {
						if l.isK {
							k += l.k
						} else if lenOfParam(resolveCell(l.v), enc, 1) {
							other++
						} else {
							other += 10
						}
					}
					if k == headerLen && other == 1 {
						for _, cc := range callsToFn(enc, claim) {
							if dominatesInstr(rc.(ssa.Instruction), cc.(ssa.Instruction)) {
								reserved = true
							}
						}
					}
				}
				okEnc = prefix && ret && reserved
				why = fmt.Sprintf("Encode must reserve HeaderLen+len(frame), write len(frame) as the prefix and claim HeaderLen+len(frame) (prefix=%v claim=%v reserved=%v)", prefix, ret, reserved)
			}
			c.check(okEnc, enc, "encoder", enc.Pos(), "prefix = len(frame), claim = HeaderLen+len(frame), reserved first", why)
			// the encoder refuses exactly what the decoder would refuse: payloads longer than the limit, not the limit itself
			{
				okLimit, nRefuse := true, 0
				for _, r := range returnsOf(enc) {
					if isNil(r.Results[0]) {
						continue
					}
					for _, l := range guardsOf(r.Block()) {
						op, x, y, isCmp := l.cmp()
						if !isCmp || !lenOfParam(resolveCell(stripConv(x)), enc, 1) {
							continue
						}
						nRefuse++
						k, isK := constInt(y)
						if !isK || !((op == token.GTR && k == maxLen) || (op == token.GEQ && k == maxLen+1)) {
							okLimit = false
						}
					}
				}
				c.check(okLimit && nRefuse > 0, enc, "encoder limit", enc.Pos(), "refuses len(frame) > MaxPayloadLength only", "Encode refuses payloads under another condition than len(frame) > MaxPayloadLength: an item of exactly the maximum length cannot be sent although the decoder accepts it (or one above the limit is sent and the peer's decoder rejects it)")
			}
			// the Encoder contract (codec.go): the item must be committed, because the connection writes the read area of dst
			committed := false
			for _, cc := range callsToFn(enc, bb("Commit")) {
				ls := additiveLeaves(cc.Common().Args[1])
				k, other := int64(0), 0
				for _, l := range ls {
					if l.isK {
						k += l.k
					} else if lenOfParam(resolveCell(l.v), enc, 1) {
						other++
					} else {
						other += 10
					}
				}
				if k == headerLen && other == 1 {
					committed = true
				}
			}
			c.check(committed, enc, "encoder commits", enc.Pos(), "the encoded item is committed to the read area", "Encode leaves the encoded item in the write area of dst without committing it: CodecConn.WriteNext/AsyncWriteNext write the read area, so nothing of the item is sent (and it is sent later, glued to whatever is committed next)")
		}
	}

	// ------------------------------------------------------------------------------------------------ R3
	// nothing is consumed before the whole item is there: a Consume in Decode is never followed by an error return
	// (an ErrNeedMore after the prefix was consumed makes the next attempt read payload bytes as a length)
	{
		for _, cc := range callsToFn(dec, consume) {
			bad := false
			for _, r := range returnsOf(dec) {
				if len(r.Results) == 2 && !isNil(r.Results[1]) && reachesFrom(cc.(ssa.Instruction), r) {
					bad = true
				}
			}
			c.check(!bad, dec, "consume on success only", cc.Pos(), "bytes are consumed only once the item is complete", "Decode consumes bytes on a path that can still return an error (need more): after a split inside an item the next attempt starts in the middle of it and the stream is desynchronised")
		}
		// the length prefix is written and read in the same byte order
		order := func(fn *ssa.Function, method string) string {
			out := ""
			for _, f := range withClosures(fn) {
				eachInstr(f, func(in ssa.Instruction) {
					call, ok := in.(ssa.CallInstruction)
					if !ok {
						return
					}
					if o := calleeObj(call); o != nil && o.Name() == method && o.Pkg() != nil && o.Pkg().Path() == "encoding/binary" {
						if sig, ok := o.Type().(*types.Signature); ok && sig.Recv() != nil {
							out = types.TypeString(sig.Recv().Type(), nil)
						}
					}
				})
			}
			return out
		}
		eo, do := order(enc, "PutUint32"), order(wireFn, "Uint32")
		c.check(eo != "" && eo == do, enc, "byte order", enc.Pos(), "prefix written and read as "+eo, fmt.Sprintf("the length prefix is written as %s and read as %s: every item is framed with a length the other side misreads", eo, do))
	}

	c.rule("C19-R3", "need-more protocol: a transport read between two Decode calls; room reserved for an incomplete payload; exits of ReadNext", 3)
	{
		// Reserve on the payload need-more path
		good := false
		for _, rc := range callsToFn(dec, reserve) {
			if !headerPlusWire(rc.Common().Args[1]) {
				continue
			}
			for _, l := range guardsOf(rc.(ssa.Instruction).Block()) {
				if x, eq, ok := l.nilTest(); ok && !eq {
					if pc, ok := strip(x).(*ssa.Call); ok && isCallToFn(pc, prepareRead) {
						good = true
					}
				}
				op, x, y, ok := l.cmp()
				if ok && op == token.EQL && (isLoadOfGlobal(x, errNeedMore) || isLoadOfGlobal(y, errNeedMore)) {
					good = true
				}
			}
		}
		// ... on every path on which the payload was found incomplete
		if good {
			eachInstr(dec, func(in ssa.Instruction) {
				ifi, ok := in.(*ssa.If)
				if !ok {
					return
				}
				cond, pos := normLit(ifi.Cond, true)
				bo, ok := cond.(*ssa.BinOp)
				if !ok || bo.Op != token.EQL || !(isLoadOfGlobal(bo.X, errNeedMore) || isLoadOfGlobal(bo.Y, errNeedMore)) {
					return
				}
				succ := in.Block().Succs[0]
				if !pos {
					succ = in.Block().Succs[1]
				}
				okp, _ := mustPassAt(succ, 0, func(x ssa.Instruction) bool {
					return isCallToFn(x, reserve) && headerPlusWire(x.(ssa.CallInstruction).Common().Args[1])
				})
				if !okp {
					good = false
				}
			})
		}
		c.check(good, dec, "reserve for payload", dec.Pos(), "an incomplete payload reserves HeaderLen+len before asking for more", "when the payload is incomplete Decode does not reserve HeaderLen+len: a payload larger than the free capacity of the read buffer can never arrive and ReadNext spins on zero-byte reads")
		// ReadNext: generic origin and instantiations
		for _, fn := range p.Funcs {
			if fn.Name() != "ReadNext" || fn.Parent() != nil {
				continue
			}
			if pk, tn := recvTypeName(fn); pk != modPath || tn != "CodecConn" {
				continue
			}
			entry := fn
			if h := pureForwardOf(fn); h != nil {
				fn = h // the loop moved into a helper ReadNext only forwards to
			}
			_ = entry
			var decodes, reads []ssa.Instruction
			eachInstr(fn, func(in ssa.Instruction) {
				call, ok := in.(ssa.CallInstruction)
				if !ok {
					return
				}
				if call.Common().IsInvoke() && call.Common().Method.Name() == "Decode" {
					decodes = append(decodes, in)
				}
				if isCallToFn(in, bb("ReadFrom")) {
					reads = append(reads, in)
				}
			})
			okLoop := len(decodes) == 1 && len(reads) >= 1
			if okLoop {
				// Decode cannot be reached again from itself without passing a transport read
				if reachAvoiding(decodes[0], decodes[0], func(in ssa.Instruction) bool {
					for _, r := range reads {
						if in == r {
							return true
						}
					}
					return false
				}) {
					okLoop = false
				}
			}
			c.check(okLoop, fn, "need-more loop", fn.Pos(), "every retry of Decode is preceded by a transport read", "ReadNext can call Decode again without having read from the transport in between: with a partial item buffered it spins forever")
			// exits: success returns the decoded item; error returns are guarded by !NeedMore or by the read error
			goodExits := true
			for _, r := range returnsOf(fn) {
				if isNil(r.Results[1]) {
					continue
				}
				viaRead := false
				notNeedMore := false
				for _, l := range guardsOf(r.Block()) {
					if call, ok := l.Cond.(*ssa.Call); ok && call.Call.StaticCallee() != nil && call.Call.StaticCallee().String() == "errors.Is" && !l.Pos {
						if isLoadOfGlobal(call.Call.Args[1], errNeedMore) {
							notNeedMore = true
						}
					}
					if x, eq, ok := l.nilTest(); ok && !eq {
						if ex, ok := strip(x).(*ssa.Extract); ok {
							for _, rd := range reads {
								if ex.Tuple == rd.(ssa.Value) {
									viaRead = true
								}
							}
						}
					}
				}
				if !viaRead && !notNeedMore {
					goodExits = false
				}
			}
			c.check(goodExits, fn, "exits", fn.Pos(), "errors returned are decode errors other than NeedMore, or transport errors", "ReadNext returns ErrNeedMore to the caller (or an error of unknown origin) instead of reading more")
			// more bytes are only asked for when the decoder said it needs more: any other decode error ends the call
			for _, rd := range reads {
				onlyNeedMore := false
				for _, l := range guardsOf(rd.Block()) {
					if call, ok := l.Cond.(*ssa.Call); ok && call.Call.StaticCallee() != nil && call.Call.StaticCallee().String() == "errors.Is" && l.Pos {
						if isLoadOfGlobal(call.Call.Args[1], errNeedMore) {
							onlyNeedMore = true
						}
					}
					if op, x, y, ok := l.cmp(); ok && op == token.EQL && (isLoadOfGlobal(x, errNeedMore) || isLoadOfGlobal(y, errNeedMore)) {
						onlyNeedMore = true
					}
				}
				c.check(onlyNeedMore, fn, "read only on need-more", rd.Pos(), "the transport is read only after the decoder reported ErrNeedMore", "ReadNext reads from the transport after any decode error: a rejected item (length over the limit, malformed input) is not reported, the call keeps reading and buffering hostile input")
			}
		}
	}

	// the asynchronous twin: an asynchronous transport read is started only after the decoder reported ErrNeedMore (at the
	// call itself, or at every call site of the unexported helper that starts it)
	{
		needMore := func(b *ssa.BasicBlock) bool {
			for _, l := range guardsOf(b) {
				if call, ok := l.Cond.(*ssa.Call); ok && call.Call.StaticCallee() != nil && call.Call.StaticCallee().String() == "errors.Is" && l.Pos {
					if isLoadOfGlobal(call.Call.Args[1], errNeedMore) {
						return true
					}
				}
				if op, x, y, ok := l.cmp(); ok && op == token.EQL && (isLoadOfGlobal(x, errNeedMore) || isLoadOfGlobal(y, errNeedMore)) {
					return true
				}
			}
			return false
		}
		var siteOK func(in ssa.Instruction, depth int) bool
		siteOK = func(in ssa.Instruction, depth int) bool {
			if needMore(in.Block()) {
				return true
			}
			top := in.Parent()
			for top.Parent() != nil {
				top = top.Parent()
			}
			if depth == 0 || top.Object() == nil || top.Object().Exported() {
				return false
			}
			sites := p.callers(top)
			if len(sites) == 0 {
				return false
			}
			for _, s := range sites {
				if !siteOK(s.(ssa.Instruction), depth-1) {
					return false
				}
			}
			return true
		}
		n := 0
		for _, fn := range p.Funcs {
			top := fn
			for top.Parent() != nil {
				top = top.Parent()
			}
			if pk, tn := recvTypeName(top); pk != modPath || tn != "CodecConn" {
				continue
			}
			for _, rd := range callsToFn(fn, bb("AsyncReadFrom")) {
				n++
				c.check(siteOK(rd.(ssa.Instruction), 2), fn, "async read only on need-more", rd.Pos(), "the transport is read only after the decoder reported ErrNeedMore", "an asynchronous transport read is started after a decode error other than ErrNeedMore (or without decoding first): a rejected item is not reported to the callback, the connection keeps reading and buffering hostile input")
			}
		}
		if n == 0 {
			c.bad(p.Method("sonic", "CodecConn", "AsyncReadNext"), "async read only on need-more", token.NoPos, "no asynchronous transport read found in CodecConn (anchor moved)")
		}
	}

	// ------------------------------------------------------------------------------------------------ R4
	c.rule("C19-R4", "nothing left behind: AsyncWriteTo uses AsyncWriteAll and consumes n under err==nil; WriteTo resumes at si+written and consumes the total; ReadFrom/AsyncReadFrom grow by n under err==nil", 5)
	// an item the codec refused is reported, and nothing is written for it
	for _, fn := range p.Funcs {
		if (fn.Name() != "WriteNext" && fn.Name() != "AsyncWriteNext") || fn.Parent() != nil {
			continue
		}
		if pk, tn := recvTypeName(fn); pk != modPath || tn != "CodecConn" {
			continue
		}
		var encCall ssa.Value
		eachInstr(fn, func(in ssa.Instruction) {
			if call, ok := in.(ssa.CallInstruction); ok && call.Common().IsInvoke() && call.Common().Method.Name() == "Encode" {
				encCall, _ = in.(ssa.Value)
			}
		})
		guarded := encCall != nil
		n := 0
		eachInstr(fn, func(in ssa.Instruction) {
			if isCallToFn(in, bb("WriteTo")) || isCallToFn(in, bb("AsyncWriteTo")) {
				n++
				if encCall == nil || !guardedNil(in.Block(), encCall) {
					guarded = false
				}
			}
		})
		// whatever was encoded leaves the write buffer through WriteTo/AsyncWriteTo only: the connection never drops buffered
		// bytes itself (after a partial transport write the rest of the item is still owed to the peer)
		drops := false
		var dpos token.Pos = fn.Pos()
		for _, f := range withClosures(fn) {
			eachInstr(f, func(in ssa.Instruction) {
				if isCallToFn(in, bb("Consume"), bb("Reset"), bb("Discard"), bb("DiscardAll"), bb("ShrinkBy"), bb("ShrinkTo")) {
					drops = true
					dpos = in.Pos()
				}
			})
		}
		c.check(!drops, fn, "keeps unsent bytes", dpos, "the connection does not discard buffered bytes", fn.Name()+" discards bytes from the codec buffers itself: after a transport write that went through only partly (would-block in the middle of an item) the unsent rest is thrown away, the peer receives a truncated item and swallows the next one as its payload")
		c.check(guarded && n > 0, fn, "encode error", fn.Pos(), "the transport write happens only when Encode succeeded", fn.Name()+" writes to the transport although Encode may have failed (its error is not tested): a refused item is reported as written, or a half-encoded one reaches the peer")
	}

	{
		wi := p.Field("sonic", "ByteBuffer", "wi")
		si := p.Field("sonic", "ByteBuffer", "si")
		ri := p.Field("sonic", "ByteBuffer", "ri")
		dataF := p.Field("sonic", "ByteBuffer", "data")
		// AsyncWriteTo
		{
			fn := bb("AsyncWriteTo")
			n := 0
			eachInstr(fn, func(in ssa.Instruction) {
				call, ok := in.(ssa.CallInstruction)
				if !ok || !call.Common().IsInvoke() {
					return
				}
				n++
				isAll := call.Common().Method.Name() == "AsyncWriteAll"
				lows, high, okS := sliceView(call.Common().Args[0], dataF)
				rng := okS && len(lows) == 1 && loadOfField(lows[0], si) && loadOfField(high, ri)
				c.check(isAll && rng, fn, "transport write", in.Pos(), "the whole read area is written with AsyncWriteAll", "AsyncWriteTo does not hand data[si:ri] to AsyncWriteAll: a partial write completes the item with bytes left behind, which are then sent in front of the next item")
				if mc, ok := strip(call.Common().Args[1]).(*ssa.MakeClosure); ok {
					cf := mc.Fn.(*ssa.Function)
					c.touch(cf)
					good := false
					for _, cc := range callsToFn(cf, consume) {
						if stripConv(cc.Common().Args[1]) == ssa.Value(cf.Params[1]) && guardedNil(cc.(ssa.Instruction).Block(), cf.Params[0]) {
							good = true
						}
					}
					nCons := len(callsToFn(cf, consume))
					// the completion may hand (n, err) to a helper that consumes under err == nil
					for _, dc := range deepCallsTo(cf, consume) {
						if dc.Call.Parent() == cf {
							continue
						}
						nCons++
						amountOK := stripConv(dc.translate(dc.Call.Call.Args[1])) == ssa.Value(cf.Params[1])
						guardOK := false
						for q, arg := range dc.subst {
							if stripConv(arg) == ssa.Value(cf.Params[0]) && guardedNil(dc.Call.Block(), q) {
								guardOK = true
							}
						}
						if amountOK && guardOK {
							good = true
						}
					}
					c.check(good && nCons == 1, cf, "consume written", cf.Pos(), "exactly the reported count is consumed, on success only", "the completion of AsyncWriteTo does not consume exactly the reported count under err == nil")
				}
			})
			if n == 0 {
				c.bad(fn, "transport write", fn.Pos(), "AsyncWriteTo starts no transport write")
			}
		}
		// WriteTo
		{
			fn := bb("WriteTo")
			good := false
			why := "WriteTo does not write data[si+written:ri]"
			// the write loop is in WriteTo itself or in a helper WriteTo calls once and whose first result (the running
			// total on every return) it consumes
			loopFn := fn
			var loopCall *ssa.Call
			for _, hc := range allCalls(fn) {
				if h := hc.Call.StaticCallee(); isHelperOf(fn, h) && len(invokesOf(h, "Write")) > 0 && len(invokesOf(fn, "Write")) == 0 {
					loopFn, loopCall = h, hc
				}
			}
			eachInstr(loopFn, func(in ssa.Instruction) {
				call, ok := in.(ssa.CallInstruction)
				if !ok || !call.Common().IsInvoke() || call.Common().Method.Name() != "Write" {
					return
				}
				lows, high, ok := sliceView(call.Common().Args[0], dataF)
				if !ok || !loadOfField(high, ri) {
					return
				}
				// the lower bound is si + bytes already written (one expression, or a slice of the read area taken before
				// the loop and re-sliced from the running total)
				var leaves []ssa.Value
				var flat func(v ssa.Value, d int)
				flat = func(v ssa.Value, d int) {
					v = stripConv(v)
					if bo, ok := v.(*ssa.BinOp); ok && bo.Op == token.ADD && d < 4 {
						flat(bo.X, d+1)
						flat(bo.Y, d+1)
						return
					}
					leaves = append(leaves, v)
				}
				for _, lo := range lows {
					flat(lo, 0)
				}
				var acc ssa.Value
				nSi := 0
				for _, l := range leaves {
					if loadOfField(l, si) {
						nSi++
					} else {
						acc = l
					}
				}
				if nSi != 1 || len(leaves) != 2 {
					return
				}
				ph, ok := stripConv(acc).(*ssa.Phi)
				if !ok {
					why = "WriteTo does not resume at si + bytes already written"
					return
				}
				// phi [0, phi + n] with n the count of this Write
				nres := extractOfInstr(in, 0)
				accum := false
				for _, e := range ph.Edges {
					if b2, ok := stripConv(e).(*ssa.BinOp); ok && b2.Op == token.ADD {
						if (stripConv(b2.X) == ssa.Value(ph) && stripConv(b2.Y) == nres) || (stripConv(b2.Y) == ssa.Value(ph) && stripConv(b2.X) == nres) {
							accum = true
						}
					}
				}
				consumed := false
				for _, cc := range callsToFn(fn, consume) {
					arg := stripConv(cc.Common().Args[1])
					if loopCall == nil && arg == ssa.Value(ph) {
						consumed = true
					}
					if loopCall != nil && loopFn.Signature.Results().Len() >= 1 {
						total := ssa.Value(loopCall)
						if loopFn.Signature.Results().Len() > 1 {
							total = extractOfInstr(loopCall, 0)
						}
						if total != nil && arg == stripConv(total) {
							consumed = true
							eachInstr(loopFn, func(in2 ssa.Instruction) {
								if ret, isRet := in2.(*ssa.Return); isRet && stripConv(ret.Results[0]) != ssa.Value(ph) {
									consumed = false
								}
							})
						}
					}
				}
				if accum && consumed {
					good = true
				} else {
					why = fmt.Sprintf("WriteTo does not accumulate the written counts and consume their total (accumulates=%v consumes=%v)", accum, consumed)
				}
			})
			c.check(good, fn, "blocking write", fn.Pos(), "resumes after the bytes already written, consumes the total", why+": after a short write bytes are re-sent or left behind")
			// whatever is reported as written has been consumed: every return that does not report the constant 0 is
			// reached only through Consume (a short write followed by an error must not leave the written bytes readable)
			for _, r := range returnsOf(fn) {
				if len(r.Results) == 0 || isConstInt(r.Results[0], 0) {
					continue
				}
				skips := reachableAvoiding(r, func(in ssa.Instruction) bool {
					return doesDeep(in, func(x ssa.Instruction) bool { return isCallToFn(x, consume) })
				})
				c.check(!skips, fn, "reported bytes are consumed", exitPos(r), "every exit that reports written bytes passes Consume", "WriteTo can return a written count without consuming those bytes from the read area (error after a short write): they are handed out again and reach the peer twice")
			}
		}
		// ReadFrom / AsyncReadFrom
		for _, name := range []string{"ReadFrom", "AsyncReadFrom"} {
			fn := bb(name)
			fns := withClosures(fn)
			good := false
			for _, f := range fns {
				for _, a := range deepStoresTo(f, wi) {
					inc, ok := incrementOf(a.Store.Val, wi)
					if !ok {
						continue
					}
					amount := a.translate(inc)
					// n is the count of the read (Extract #0 of r.Read, or the completion's n parameter)
					var errv ssa.Value
					okN := false
					if f == fn {
						if ex, ok := stripConv(amount).(*ssa.Extract); ok && ex.Index == 0 {
							okN = true
							errv = extractOfInstr(ex.Tuple.(ssa.Instruction), 1)
						}
					} else if len(f.Params) == 2 && stripConv(amount) == ssa.Value(f.Params[1]) {
						okN = true
						errv = f.Params[0]
					}
					if okN && errv != nil && guardedNil(a.Site.Block(), errv) {
						good = true
					}
					// the (n, err) pair is handed to a helper that grows the write area under err == nil
					if okN && errv != nil {
						for q, arg := range a.subst {
							if stripConv(arg) == stripConv(errv) && guardedNil(a.Store.Block(), q) {
								good = true
							}
						}
					}
				}
			}
			c.check(good, fn, "grow by count", fn.Pos(), "the write area grows by exactly the count reported, on success only", name+" does not grow the write area by exactly the count the reader reported under err == nil: bytes are invented or lost")
		}
	}
	_ = types.Universe
}

func extractOfInstr(in ssa.Instruction, idx int) ssa.Value {
	v, ok := in.(ssa.Value)
	if !ok {
		return nil
	}
	refs := v.Referrers()
	if refs == nil {
		return nil
	}
	for _, r := range *refs {
		if ex, ok := r.(*ssa.Extract); ok && ex.Index == idx {
			return ex
		}
	}
	return nil
}

// lenOfParam: v is len(param idx of fn) (possibly through a captured cell or a local copy `payloadLen := len(frame)`).
func lenOfParam(v ssa.Value, fn *ssa.Function, idx int) bool {
	v = stripConv(resolveCellDeep(v))
	call, ok := v.(*ssa.Call)
	if !ok {
		return false
	}
	b, ok := call.Call.Value.(*ssa.Builtin)
	if !ok || b.Name() != "len" {
		return false
	}
	return resolveCellDeep(call.Call.Args[0]) == ssa.Value(fn.Params[idx])
}

// resolveCellDeep follows single-assignment cells repeatedly, also through conversions.
func resolveCellDeep(v ssa.Value) ssa.Value {
	for i := 0; i < 8; i++ {
		n := resolveCell(stripConv(v))
		if n == v {
			return v
		}
		v = n
	}
	return v
}

// sliceView resolves a byte-slice value to the range of ByteBuffer.data it denotes: the lower bounds to add up and the
// upper bound. b.data[lo:hi] -> ([lo], hi); a pure getter returning such a slice stands for it; s[lo:] of a view keeps
// the view's upper bound and adds lo.
func sliceView(v ssa.Value, dataF *types.Var) ([]ssa.Value, ssa.Value, bool) {
	v = stripConv(v)
	for i := 0; i < 4; i++ {
		r := resolveCell(v)
		if r == v {
			break
		}
		v = stripConv(r)
	}
	if call, ok := v.(*ssa.Call); ok {
		// a getter of the buffer that returns one slice expression over its own fields (Data(): data[si:ri])
		h := call.Call.StaticCallee()
		if h == nil || h.Blocks == nil || len(h.Blocks) != 1 || len(h.Params) != 1 || len(call.Call.Args) != 1 {
			return nil, nil, false
		}
		for _, in := range h.Blocks[0].Instrs {
			switch x := in.(type) {
			case *ssa.FieldAddr, *ssa.UnOp, *ssa.Slice, *ssa.DebugRef, *ssa.Convert, *ssa.ChangeType:
			case *ssa.Return:
				if len(x.Results) == 1 {
					return sliceView(x.Results[0], dataF)
				}
				return nil, nil, false
			default:
				return nil, nil, false
			}
		}
		return nil, nil, false
	}
	sl, ok := v.(*ssa.Slice)
	if !ok {
		return nil, nil, false
	}
	if loadOfField(sl.X, dataF) {
		if sl.Low == nil || sl.High == nil {
			return nil, nil, false
		}
		return []ssa.Value{sl.Low}, sl.High, true
	}
	lows, high, ok := sliceView(sl.X, dataF)
	if !ok || sl.High != nil {
		return nil, nil, false
	}
	if sl.Low != nil {
		lows = append(append([]ssa.Value{}, lows...), sl.Low)
	}
	return lows, high, true
}

// invokesOf: the interface method calls named name in fn.
func invokesOf(fn *ssa.Function, name string) []ssa.CallInstruction {
	var out []ssa.CallInstruction
	eachInstr(fn, func(in ssa.Instruction) {
		if call, ok := in.(ssa.CallInstruction); ok && call.Common().IsInvoke() && call.Common().Method.Name() == name {
			out = append(out, call)
		}
	})
	return out
}
