package main

import (
	"fmt"
	"go/constant"
	"go/token"
	"go/types"
	"sort"
	"strings"

	"golang.org/x/tools/go/packages"
	"golang.org/x/tools/go/ssa"
)

// ---------------------------------------------------------------------------------------------------------------------
// Anchor resolution (by object; an anchor that does not resolve is an infrastructure failure, never a silent pass).
// ---------------------------------------------------------------------------------------------------------------------

func (p *Prog) Named(pkgShort, typeName string) *types.Named {
	obj := p.pkg(pkgShort).Types.Scope().Lookup(p.cur("type", pkgShort, "", typeName))
	if obj == nil {
		infra("anchor: type %s.%s not found", pkgShort, typeName)
	}
	n, ok := obj.Type().(*types.Named)
	if !ok {
		infra("anchor: %s.%s is not a named type", pkgShort, typeName)
	}
	return n
}

func (p *Prog) TryField(pkgShort, typeName, field string) *types.Var {
	field = p.cur("field", pkgShort, typeName, field)
	obj := p.pkg(pkgShort).Types.Scope().Lookup(p.cur("type", pkgShort, "", typeName))
	if obj == nil {
		return nil
	}
	st, ok := obj.Type().Underlying().(*types.Struct)
	if !ok {
		return nil
	}
	for i := 0; i < st.NumFields(); i++ {
		if st.Field(i).Name() == field {
			return st.Field(i)
		}
	}
	// moved into an embedded struct of the same type: the promoted field
	if o, _, _ := types.LookupFieldOrMethod(obj.Type(), true, p.pkg(pkgShort).Types, field); o != nil {
		if v, ok := o.(*types.Var); ok && v.IsField() {
			return v
		}
	}
	return nil
}

func (p *Prog) Field(pkgShort, typeName, field string) *types.Var {
	f := p.TryField(pkgShort, typeName, field)
	if f == nil {
		infra("anchor: field %s.%s.%s not found", pkgShort, typeName, field)
	}
	return f
}

// TryMethod returns the SSA function of a method declared on typeName (value or pointer receiver), or nil.
func (p *Prog) TryMethod(pkgShort, typeName, method string) *ssa.Function {
	method = p.cur("method", pkgShort, typeName, method)
	obj := p.pkg(pkgShort).Types.Scope().Lookup(p.cur("type", pkgShort, "", typeName))
	if obj == nil {
		return nil
	}
	n, ok := obj.Type().(*types.Named)
	if !ok {
		return nil
	}
	for i := 0; i < n.NumMethods(); i++ {
		m := n.Method(i)
		if m.Name() == method {
			fn := p.SSA.FuncValue(m)
			if fn != nil && fn.Blocks == nil && fn.TypeParams().Len() == 0 {
				return nil
			}
			return fn
		}
	}
	return nil
}

func (p *Prog) Method(pkgShort, typeName, method string) *ssa.Function {
	fn := p.TryMethod(pkgShort, typeName, method)
	if fn == nil {
		infra("anchor: method %s.%s.%s not found", pkgShort, typeName, method)
	}
	return fn
}

func (p *Prog) TryFn(pkgShort, name string) *ssa.Function {
	obj, _ := p.pkg(pkgShort).Types.Scope().Lookup(p.cur("func", pkgShort, "", name)).(*types.Func)
	if obj == nil {
		return nil
	}
	return p.SSA.FuncValue(obj)
}

func (p *Prog) Fn(pkgShort, name string) *ssa.Function {
	fn := p.TryFn(pkgShort, name)
	if fn == nil {
		infra("anchor: function %s.%s not found", pkgShort, name)
	}
	return fn
}

func (p *Prog) Const(pkgShort, name string) constant.Value {
	obj, _ := p.pkg(pkgShort).Types.Scope().Lookup(p.cur("const", pkgShort, "", name)).(*types.Const)
	if obj == nil {
		infra("anchor: constant %s.%s not found", pkgShort, name)
	}
	return obj.Val()
}

func (p *Prog) ConstObj(pkgShort, name string) *types.Const {
	obj, _ := p.pkg(pkgShort).Types.Scope().Lookup(p.cur("const", pkgShort, "", name)).(*types.Const)
	if obj == nil {
		infra("anchor: constant %s.%s not found", pkgShort, name)
	}
	return obj
}

func (p *Prog) GlobalVar(pkgShort, name string) *types.Var {
	obj, _ := p.pkg(pkgShort).Types.Scope().Lookup(p.cur("var", pkgShort, "", name)).(*types.Var)
	if obj == nil {
		infra("anchor: variable %s.%s not found", pkgShort, name)
	}
	return obj
}

// extPkg finds an imported (out of scope) package by path.
func (p *Prog) extPkg(path string) *types.Package {
	var found *types.Package
	roots := []*packages.Package{}
	for _, pk := range p.Pkgs {
		roots = append(roots, pk)
	}
	packages.Visit(roots, func(pk *packages.Package) bool {
		if found != nil {
			return false
		}
		if pk.PkgPath == path {
			found = pk.Types
			return false
		}
		return true
	}, nil)
	if found == nil {
		infra("anchor: package %s is not imported by the analysed program", path)
	}
	return found
}

// ExtFunc resolves a package-level function of an imported package, e.g. ("syscall", "Close").
func (p *Prog) ExtFunc(pkgPath, name string) *types.Func {
	obj, _ := p.extPkg(pkgPath).Scope().Lookup(name).(*types.Func)
	if obj == nil {
		infra("anchor: %s.%s not found", pkgPath, name)
	}
	return obj
}

// ExtMethod resolves a method of a named type of an imported package, e.g. ("sync", "Mutex", "Lock").
func (p *Prog) ExtMethod(pkgPath, typeName, method string) *types.Func {
	obj := p.extPkg(pkgPath).Scope().Lookup(typeName)
	if obj == nil {
		infra("anchor: %s.%s not found", pkgPath, typeName)
	}
	ms := types.NewMethodSet(types.NewPointer(obj.Type()))
	for i := 0; i < ms.Len(); i++ {
		if ms.At(i).Obj().Name() == method {
			return ms.At(i).Obj().(*types.Func)
		}
	}
	if it, ok := obj.Type().Underlying().(*types.Interface); ok {
		for i := 0; i < it.NumMethods(); i++ {
			if it.Method(i).Name() == method {
				return it.Method(i)
			}
		}
	}
	infra("anchor: %s.%s.%s not found", pkgPath, typeName, method)
	return nil
}

// IfaceMethod resolves a method of an in-scope interface type.
func (p *Prog) IfaceMethod(pkgShort, typeName, method string) *types.Func {
	n := p.Named(pkgShort, typeName)
	it, ok := n.Underlying().(*types.Interface)
	if !ok {
		infra("anchor: %s.%s is not an interface", pkgShort, typeName)
	}
	for i := 0; i < it.NumMethods(); i++ {
		if it.Method(i).Name() == method {
			return it.Method(i)
		}
	}
	infra("anchor: interface method %s.%s.%s not found", pkgShort, typeName, method)
	return nil
}

// ---------------------------------------------------------------------------------------------------------------------
// Names / keys
// ---------------------------------------------------------------------------------------------------------------------

// fnName is the stable name of a function used in construct keys: types.Func full name with the module path
// shortened, closures as parent$k.
func fnName(fn *ssa.Function) string {
	if fn == nil {
		return "<nil>"
	}
	s := pinnedFnString(fn)
	s = strings.ReplaceAll(s, modPath+"/", "")
	s = strings.ReplaceAll(s, modPath, "sonic")
	return s
}

func objName(o types.Object) string {
	if o == nil {
		return "<nil>"
	}
	var s string
	if f, ok := o.(*types.Func); ok {
		s = f.FullName()
	} else if o.Pkg() != nil {
		s = o.Pkg().Path() + "." + o.Name()
	} else {
		s = o.Name()
	}
	s = strings.ReplaceAll(s, modPath+"/", "")
	s = strings.ReplaceAll(s, modPath, "sonic")
	return s
}

// ---------------------------------------------------------------------------------------------------------------------
// Calls
// ---------------------------------------------------------------------------------------------------------------------

// calleeObj returns the function object a call resolves to statically: the static callee's object (origin for
// generic instances), or the interface method for an invoke. nil for calls of function values.
func calleeObj(c ssa.CallInstruction) *types.Func {
	cc := c.Common()
	if cc.IsInvoke() {
		return cc.Method
	}
	if fn := cc.StaticCallee(); fn != nil {
		if o := fn.Origin(); o != nil {
			fn = o
		}
		if obj, ok := fn.Object().(*types.Func); ok {
			return obj
		}
	}
	return nil
}

func sameFunc(a, b *types.Func) bool {
	if a == nil || b == nil {
		return false
	}
	return a.Origin() == b.Origin()
}

func isCallTo(instr ssa.Instruction, objs ...*types.Func) bool {
	c, ok := instr.(ssa.CallInstruction)
	if !ok {
		return false
	}
	o := calleeObj(c)
	for _, want := range objs {
		if sameFunc(o, want) {
			return true
		}
	}
	return false
}

// isCallToFn matches a static call of an SSA function (including its instantiations).
func isCallToFn(instr ssa.Instruction, fns ...*ssa.Function) bool {
	c, ok := instr.(ssa.CallInstruction)
	if !ok {
		return false
	}
	callee := c.Common().StaticCallee()
	if callee == nil {
		return false
	}
	if o := callee.Origin(); o != nil {
		callee = o
	}
	for _, f := range fns {
		if f == nil {
			continue
		}
		g := f
		if o := g.Origin(); o != nil {
			g = o
		}
		if callee == g {
			return true
		}
	}
	return false
}

func eachInstr(fn *ssa.Function, f func(ssa.Instruction)) {
	for _, b := range fn.Blocks {
		for _, in := range b.Instrs {
			f(in)
		}
	}
}

// withClosures returns fn and, transitively, the anonymous functions declared inside it.
func withClosures(fn *ssa.Function) []*ssa.Function {
	out := []*ssa.Function{fn}
	for _, a := range fn.AnonFuncs {
		out = append(out, withClosures(a)...)
	}
	return out
}

func callsTo(fn *ssa.Function, objs ...*types.Func) []ssa.CallInstruction {
	var out []ssa.CallInstruction
	eachInstr(fn, func(in ssa.Instruction) {
		if isCallTo(in, objs...) {
			out = append(out, in.(ssa.CallInstruction))
		}
	})
	return out
}

func callsToFn(fn *ssa.Function, fns ...*ssa.Function) []ssa.CallInstruction {
	var out []ssa.CallInstruction
	eachInstr(fn, func(in ssa.Instruction) {
		if isCallToFn(in, fns...) {
			out = append(out, in.(ssa.CallInstruction))
		}
	})
	return out
}

// callers lists the call sites, in all in-scope functions, that statically call fn.
func (p *Prog) callers(fn *ssa.Function) []ssa.CallInstruction {
	var out []ssa.CallInstruction
	for _, f := range p.Funcs {
		out = append(out, callsToFn(f, fn)...)
	}
	return out
}

// callersOfObj lists the call sites (static or invoke) resolving to one of objs.
func (p *Prog) callersOfObj(objs ...*types.Func) []ssa.CallInstruction {
	var out []ssa.CallInstruction
	for _, f := range p.Funcs {
		out = append(out, callsTo(f, objs...)...)
	}
	return out
}

// ---------------------------------------------------------------------------------------------------------------------
// Values
// ---------------------------------------------------------------------------------------------------------------------

// strip removes value-preserving wrappers.
func strip(v ssa.Value) ssa.Value {
	for {
		switch x := v.(type) {
		case *ssa.ChangeType:
			v = x.X
		case *ssa.MakeInterface:
			v = x.X
		case *ssa.ChangeInterface:
			v = x.X
		default:
			return v
		}
	}
}

// stripConv additionally removes numeric conversions.
func stripConv(v ssa.Value) ssa.Value {
	for {
		v = strip(v)
		if c, ok := v.(*ssa.Convert); ok {
			v = c.X
			continue
		}
		return v
	}
}

func isNil(v ssa.Value) bool {
	c, ok := strip(v).(*ssa.Const)
	return ok && c.IsNil()
}

func constInt(v ssa.Value) (int64, bool) {
	c, ok := stripConv(v).(*ssa.Const)
	if !ok || c.Value == nil {
		return 0, false
	}
	if c.Value.Kind() != constant.Int {
		return 0, false
	}
	if i, ok := constant.Int64Val(c.Value); ok {
		return i, true
	}
	if u, ok := constant.Uint64Val(c.Value); ok {
		return int64(u), true
	}
	return 0, false
}

func isConstInt(v ssa.Value, n int64) bool {
	i, ok := constInt(v)
	return ok && i == n
}

func isConstBool(v ssa.Value, b bool) bool {
	c, ok := strip(v).(*ssa.Const)
	if !ok || c.Value == nil || c.Value.Kind() != constant.Bool {
		return false
	}
	return constant.BoolVal(c.Value) == b
}

// fieldAddrOf reports the field addressed by v when v is a FieldAddr.
func fieldAddrOf(v ssa.Value) (*types.Var, *ssa.FieldAddr) {
	fa, ok := v.(*ssa.FieldAddr)
	if !ok {
		return nil, nil
	}
	pt, ok := fa.X.Type().Underlying().(*types.Pointer)
	if !ok {
		return nil, nil
	}
	st, ok := pt.Elem().Underlying().(*types.Struct)
	if !ok {
		return nil, nil
	}
	return st.Field(fa.Field), fa
}

// loadOfField reports whether v is a load (*addr) of the given field (through a FieldAddr) or a Field extraction
// from a struct value.
func loadOfField(v ssa.Value, f *types.Var) bool {
	v = strip(v)
	switch x := v.(type) {
	case *ssa.UnOp:
		if x.Op == token.MUL {
			fv, _ := fieldAddrOf(x.X)
			return fv == f
		}
	case *ssa.Field:
		if st, ok := x.X.Type().Underlying().(*types.Struct); ok {
			return st.Field(x.Field) == f
		}
	case *ssa.Call:
		return f != nil && getterField(x) == f
	}
	return false
}

// getterField: the call invokes a method whose whole body is `return recv.f` (one block, no parameters besides the
// receiver): a read of field f at the point of the call. Returns f, else nil.
func getterField(call *ssa.Call) *types.Var {
	h := call.Call.StaticCallee()
	if h == nil || h.Blocks == nil || len(h.Blocks) != 1 || h.Signature.Recv() == nil || len(h.Params) != 1 || len(call.Call.Args) != 1 {
		return nil
	}
	var res ssa.Value
	for _, in := range h.Blocks[0].Instrs {
		switch x := in.(type) {
		case *ssa.FieldAddr, *ssa.Field, *ssa.DebugRef:
		case *ssa.UnOp:
			if x.Op != token.MUL {
				return nil
			}
		case *ssa.Return:
			if len(x.Results) != 1 {
				return nil
			}
			res = x.Results[0]
		default:
			return nil
		}
	}
	if res == nil {
		return nil
	}
	var fv *types.Var
	var base ssa.Value
	switch x := res.(type) {
	case *ssa.UnOp:
		fa, ok := x.X.(*ssa.FieldAddr)
		if !ok {
			return nil
		}
		fv, _ = fieldAddrOf(fa)
		base = fa.X
	case *ssa.Field:
		if st, ok := x.X.Type().Underlying().(*types.Struct); ok {
			fv = st.Field(x.Field)
		}
		base = x.X
		if u, ok := base.(*ssa.UnOp); ok && u.Op == token.MUL {
			base = u.X
		}
	default:
		return nil
	}
	if base != ssa.Value(h.Params[0]) {
		return nil
	}
	return fv
}

// loadedField returns the field a value is loaded from, or nil.
func loadedField(v ssa.Value) *types.Var {
	v = strip(v)
	switch x := v.(type) {
	case *ssa.UnOp:
		if x.Op == token.MUL {
			fv, _ := fieldAddrOf(x.X)
			return fv
		}
	case *ssa.Field:
		if st, ok := x.X.Type().Underlying().(*types.Struct); ok {
			return st.Field(x.Field)
		}
	case *ssa.Call:
		return getterField(x)
	}
	return nil
}

type fieldAccess struct {
	Instr ssa.Instruction
	Field *types.Var
	Addr  *ssa.FieldAddr
	Kind  string // "load", "store", "addr" (address escapes to a call or another value)
	Val   ssa.Value
}

// fieldAccesses lists the accesses to field f in fn (not descending into closures).
func fieldAccesses(fn *ssa.Function, f *types.Var) []fieldAccess {
	var out []fieldAccess
	eachInstr(fn, func(in ssa.Instruction) {
		fa, ok := in.(*ssa.FieldAddr)
		if !ok {
			return
		}
		fv, _ := fieldAddrOf(fa)
		if fv != f {
			return
		}
		refs := fa.Referrers()
		if refs == nil {
			return
		}
		for _, r := range *refs {
			switch x := r.(type) {
			case *ssa.UnOp:
				if x.Op == token.MUL {
					out = append(out, fieldAccess{Instr: x, Field: f, Addr: fa, Kind: "load", Val: x})
					continue
				}
			case *ssa.Store:
				if x.Addr == fa {
					out = append(out, fieldAccess{Instr: x, Field: f, Addr: fa, Kind: "store", Val: x.Val})
					continue
				}
			case *ssa.DebugRef:
				continue
			}
			out = append(out, fieldAccess{Instr: r, Field: f, Addr: fa, Kind: "addr"})
		}
	})
	sort.SliceStable(out, func(i, j int) bool { return instrLess(out[i].Instr, out[j].Instr) })
	return out
}

func storesTo(fn *ssa.Function, f *types.Var) []fieldAccess {
	var out []fieldAccess
	for _, a := range fieldAccesses(fn, f) {
		if a.Kind == "store" {
			out = append(out, a)
		}
	}
	return out
}

func instrIndex(in ssa.Instruction) int {
	for i, x := range in.Block().Instrs {
		if x == in {
			return i
		}
	}
	return -1
}

func instrLess(a, b ssa.Instruction) bool {
	if a.Block() != b.Block() {
		return a.Block().Index < b.Block().Index
	}
	return instrIndex(a) < instrIndex(b)
}

// resolveCell follows loads of single-assignment cells: go/ssa spills captured variables and address-taken locals
// into `new T` cells. A load of a cell that has exactly one store (in the function that allocates it) is an alias
// of the stored value. Free variables are followed into the enclosing function.
func resolveCell(v ssa.Value) ssa.Value {
	for i := 0; i < 16; i++ {
		v = strip(v)
		u, ok := v.(*ssa.UnOp)
		if !ok || u.Op != token.MUL {
			return v
		}
		cell := cellOf(u.X)
		if cell == nil {
			return v
		}
		st := singleStore(cell)
		if st == nil {
			return v
		}
		v = st.Val
	}
	return v
}

// cellOf maps a pointer operand to the Alloc it denotes (directly or through a captured free variable).
func cellOf(ptr ssa.Value) *ssa.Alloc {
	switch x := ptr.(type) {
	case *ssa.Alloc:
		return x
	case *ssa.FreeVar:
		fn := x.Parent()
		idx := -1
		for i, fv := range fn.FreeVars {
			if fv == x {
				idx = i
			}
		}
		if idx < 0 || fn.Parent() == nil {
			return nil
		}
		// find the MakeClosure in the parent that creates fn
		var res *ssa.Alloc
		n := 0
		eachInstr(fn.Parent(), func(in ssa.Instruction) {
			mc, ok := in.(*ssa.MakeClosure)
			if !ok || mc.Fn != fn {
				return
			}
			n++
			res = cellOf(mc.Bindings[idx])
		})
		if n == 1 {
			return res
		}
	}
	return nil
}

// singleStore returns the only store into the cell across the allocating function and its closures, or nil.
func singleStore(cell *ssa.Alloc) *ssa.Store {
	var st *ssa.Store
	n := 0
	for _, fn := range withClosures(cell.Parent()) {
		eachInstr(fn, func(in ssa.Instruction) {
			s, ok := in.(*ssa.Store)
			if !ok {
				return
			}
			if c := cellOf(s.Addr); c == cell {
				n++
				st = s
			}
		})
	}
	if n == 1 {
		return st
	}
	return nil
}

// ---------------------------------------------------------------------------------------------------------------------
// Guards: the literals that hold on entry to a block, collected along the dominator chain.
// ---------------------------------------------------------------------------------------------------------------------

type Lit struct {
	Cond ssa.Value // never a NOT
	Pos  bool
	If   *ssa.If
	// Subst is set for a literal taken from inside a classifier helper (paths.go, expandClassifiers): the helper's
	// parameters -> the arguments of the call; cmp() reports the operands with it applied.
	Subst map[ssa.Value]ssa.Value
}

func normLit(cond ssa.Value, pos bool) (ssa.Value, bool) {
	for {
		if u, ok := cond.(*ssa.UnOp); ok && u.Op == token.NOT {
			cond = u.X
			pos = !pos
			continue
		}
		// a condition that a refactoring named: an unexported predicate of the receiver made of field loads and
		// comparisons stands for its body
		if call, ok := cond.(*ssa.Call); ok {
			if r := pureGetterResult(call); r != nil {
				if _, isCmp := r.(*ssa.BinOp); isCmp {
					cond = r
					continue
				}
			}
		}
		return cond, pos
	}
}

// edgeLit returns the literal established by taking the edge pred->b, if pred ends in an If and b is reached by
// exactly that edge.
func edgeLit(pred, b *ssa.BasicBlock) (Lit, bool) {
	if len(pred.Instrs) == 0 {
		return Lit{}, false
	}
	ifi, ok := pred.Instrs[len(pred.Instrs)-1].(*ssa.If)
	if !ok {
		return Lit{}, false
	}
	if pred.Succs[0] == pred.Succs[1] {
		return Lit{}, false
	}
	c, pos := normLit(ifi.Cond, pred.Succs[0] == b)
	return Lit{Cond: c, Pos: pos, If: ifi}, true
}

// guardsOf returns literals that hold whenever control enters b (conjunction). A literal is contributed by every
// dominator D of b (including b) that has a single predecessor ending in a conditional branch.
func guardsOf(b *ssa.BasicBlock) []Lit {
	var out []Lit
	for d := b; d != nil; d = d.Idom() {
		if len(d.Preds) == 1 {
			if l, ok := edgeLit(d.Preds[0], d); ok {
				out = append(out, l)
			}
		}
	}
	return out
}

// cmpLit decomposes a comparison literal into (op, x, y) with the polarity folded into the operator.
func (l Lit) cmp() (token.Token, ssa.Value, ssa.Value, bool) {
	b, ok := l.Cond.(*ssa.BinOp)
	var bx, by ssa.Value
	if ok {
		bx, by = b.X, b.Y
	} else if call, isCall := l.Cond.(*ssa.Call); isCall {
		// a named comparison: `func (t *T) inState(s state) bool { return t.state == s }` - its operands with the
		// helper's parameters replaced by the call's arguments
		pop, px, py, isPred := predicateOperands(call)
		if !isPred {
			return 0, nil, nil, false
		}
		b = &ssa.BinOp{Op: pop}
		bx, by = px, py
	} else {
		return 0, nil, nil, false
	}
	op := b.Op
	if !l.Pos {
		switch op {
		case token.EQL:
			op = token.NEQ
		case token.NEQ:
			op = token.EQL
		case token.LSS:
			op = token.GEQ
		case token.GEQ:
			op = token.LSS
		case token.GTR:
			op = token.LEQ
		case token.LEQ:
			op = token.GTR
		default:
			return 0, nil, nil, false
		}
	}
	switch op {
	case token.EQL, token.NEQ, token.LSS, token.GEQ, token.GTR, token.LEQ:
		if l.Subst != nil {
			if r, ok := l.Subst[stripConv(bx)]; ok {
				bx = r
			}
			if r, ok := l.Subst[stripConv(by)]; ok {
				by = r
			}
		}
		return op, bx, by, true
	}
	return 0, nil, nil, false
}

// predicateOperands: call invokes an unexported single-block function whose result is one comparison each operand of
// which is a parameter (replaced by the call's argument) or an expression free of parameters other than the receiver
// (field loads, constants: used as they are).
func predicateOperands(call *ssa.Call) (token.Token, ssa.Value, ssa.Value, bool) {
	h := call.Call.StaticCallee()
	if h == nil || h.Blocks == nil || len(h.Blocks) != 1 || h.Object() == nil || h.Object().Exported() {
		return 0, nil, nil, false
	}
	var res ssa.Value
	for _, in := range h.Blocks[0].Instrs {
		switch x := in.(type) {
		case *ssa.FieldAddr, *ssa.BinOp, *ssa.Convert, *ssa.ChangeType, *ssa.DebugRef, *ssa.UnOp:
		case *ssa.Return:
			if len(x.Results) != 1 {
				return 0, nil, nil, false
			}
			res = x.Results[0]
		default:
			return 0, nil, nil, false
		}
	}
	cmp, ok := stripConv(res).(*ssa.BinOp)
	if !ok {
		return 0, nil, nil, false
	}
	switch cmp.Op {
	case token.EQL, token.NEQ, token.LSS, token.GEQ, token.GTR, token.LEQ:
	default:
		return 0, nil, nil, false
	}
	recvIdx := -1
	if h.Signature.Recv() != nil {
		recvIdx = 0
	}
	subst := func(v ssa.Value) (ssa.Value, bool) {
		if q, isPrm := stripConv(v).(*ssa.Parameter); isPrm {
			for i, hp := range h.Params {
				if hp == q && i < len(call.Call.Args) {
					return call.Call.Args[i], true
				}
			}
			return nil, false
		}
		// no other parameter may occur inside
		okFree := true
		var walk func(x ssa.Value, d int)
		walk = func(x ssa.Value, d int) {
			if d > 6 {
				return
			}
			if q, isPrm := x.(*ssa.Parameter); isPrm {
				for i, hp := range h.Params {
					if hp == q && i != recvIdx {
						okFree = false
					}
				}
				return
			}
			if in, isIn := x.(ssa.Instruction); isIn {
				for _, op := range in.Operands(nil) {
					if *op != nil {
						walk(*op, d+1)
					}
				}
			}
		}
		walk(v, 0)
		return v, okFree
	}
	x, okx := subst(cmp.X)
	y, oky := subst(cmp.Y)
	if !okx || !oky {
		return 0, nil, nil, false
	}
	return cmp.Op, x, y, true
}

// cmpWith is cmp() oriented so that subject - if it is one of the operands - is the left one (the operator is mirrored
// accordingly): `len(f) > end` and `end < len(f)` read the same.
func (l Lit) cmpWith(subject ssa.Value) (token.Token, ssa.Value, ssa.Value, bool) {
	op, x, y, ok := l.cmp()
	if !ok {
		return op, x, y, ok
	}
	if stripConv(y) == stripConv(subject) && stripConv(x) != stripConv(subject) {
		x, y = y, x
		op = mirrorOp(op)
	}
	return op, x, y, true
}

func mirrorOp(op token.Token) token.Token {
	switch op {
	case token.LSS:
		return token.GTR
	case token.GTR:
		return token.LSS
	case token.LEQ:
		return token.GEQ
	case token.GEQ:
		return token.LEQ
	}
	return op
}

// litIsNilTest: the literal says `v == nil` (eq=true) or `v != nil` (eq=false); returns v.
func (l Lit) nilTest() (ssa.Value, bool, bool) {
	op, x, y, ok := l.cmp()
	if !ok || (op != token.EQL && op != token.NEQ) {
		return nil, false, false
	}
	if isNil(y) {
		return x, op == token.EQL, true
	}
	if isNil(x) {
		return y, op == token.EQL, true
	}
	return nil, false, false
}

// dominatesInstr: a executes before b on every path that reaches b.
func dominatesInstr(a, b ssa.Instruction) bool {
	if a.Block() == b.Block() {
		return instrIndex(a) < instrIndex(b)
	}
	return a.Block().Dominates(b.Block())
}

// ---------------------------------------------------------------------------------------------------------------------
// Path predicates
// ---------------------------------------------------------------------------------------------------------------------

func isPanicBlockEnd(in ssa.Instruction) bool {
	_, ok := in.(*ssa.Panic)
	return ok
}

// mustPass reports whether every path that continues after `from` reaches an instruction satisfying hit before the
// function returns. Paths ending in panic satisfy the obligation. When it fails, the returned string describes an
// offending path (block indices and the return position).
func mustPass(from ssa.Instruction, hit func(ssa.Instruction) bool) (bool, string) {
	return mustPassAt(from.Block(), instrIndex(from)+1, hit)
}

func mustPassAt(b *ssa.BasicBlock, idx int, hit func(ssa.Instruction) bool) (bool, string) {
	visited := map[*ssa.BasicBlock]bool{}
	var trail []int
	var walk func(b *ssa.BasicBlock, idx int) (bool, string)
	walk = func(b *ssa.BasicBlock, idx int) (bool, string) {
		trail = append(trail, b.Index)
		defer func() { trail = trail[:len(trail)-1] }()
		for i := idx; i < len(b.Instrs); i++ {
			in := b.Instrs[i]
			if hit(in) {
				return true, ""
			}
			switch in.(type) {
			case *ssa.Return:
				return false, fmt.Sprintf("blocks %v reach the return without it", append([]int{}, trail...))
			case *ssa.Panic:
				return true, ""
			}
		}
		for _, s := range b.Succs {
			if visited[s] {
				continue
			}
			visited[s] = true
			if ok, w := walk(s, 0); !ok {
				return false, w
			}
		}
		return true, ""
	}
	return walk(b, idx)
}

// reachableAvoiding reports whether target can be reached from the function entry without executing an instruction
// satisfying avoid.
func reachableAvoiding(target ssa.Instruction, avoid func(ssa.Instruction) bool) bool {
	fn := target.Parent()
	visited := map[*ssa.BasicBlock]bool{}
	var walk func(b *ssa.BasicBlock) bool
	walk = func(b *ssa.BasicBlock) bool {
		for _, in := range b.Instrs {
			if in == target {
				return true
			}
			if avoid(in) {
				return false
			}
		}
		for _, s := range b.Succs {
			if !visited[s] {
				visited[s] = true
				if walk(s) {
					return true
				}
			}
		}
		return false
	}
	visited[fn.Blocks[0]] = true
	return walk(fn.Blocks[0])
}

// reachesFrom reports whether target can execute after `from` (same block later, or in a reachable block).
func reachesFrom(from, target ssa.Instruction) bool {
	if from.Block() == target.Block() && instrIndex(from) < instrIndex(target) {
		return true
	}
	visited := map[*ssa.BasicBlock]bool{}
	var stack []*ssa.BasicBlock
	stack = append(stack, from.Block().Succs...)
	for len(stack) > 0 {
		b := stack[len(stack)-1]
		stack = stack[:len(stack)-1]
		if visited[b] {
			continue
		}
		visited[b] = true
		if b == target.Block() {
			return true
		}
		stack = append(stack, b.Succs...)
	}
	return false
}

// returnsOf lists the Return instructions of fn.
func returnsOf(fn *ssa.Function) []*ssa.Return {
	var out []*ssa.Return
	eachInstr(fn, func(in ssa.Instruction) {
		if r, ok := in.(*ssa.Return); ok {
			if !moduleUsesRecover && fn.Recover != nil && in.Block() == fn.Recover {
				return // dead: nothing recovers
			}
			out = append(out, r)
		}
	})
	return out
}

// inLoop reports whether the block of in lies on a CFG cycle.
func inLoop(in ssa.Instruction) bool {
	b := in.Block()
	visited := map[*ssa.BasicBlock]bool{}
	stack := append([]*ssa.BasicBlock{}, b.Succs...)
	for len(stack) > 0 {
		x := stack[len(stack)-1]
		stack = stack[:len(stack)-1]
		if x == b {
			return true
		}
		if visited[x] {
			continue
		}
		visited[x] = true
		stack = append(stack, x.Succs...)
	}
	return false
}

// phiEdges enumerates the non-phi values that may flow into v (following phis transitively).
func phiLeaves(v ssa.Value) []ssa.Value {
	seen := map[ssa.Value]bool{}
	var out []ssa.Value
	var rec func(v ssa.Value)
	rec = func(v ssa.Value) {
		v = strip(v)
		if seen[v] {
			return
		}
		seen[v] = true
		if ph, ok := v.(*ssa.Phi); ok {
			for _, e := range ph.Edges {
				rec(e)
			}
			return
		}
		out = append(out, v)
	}
	rec(v)
	return out
}

// globalLoad: v is a load of the given package-level variable.
func isLoadOfGlobal(v ssa.Value, g *types.Var) bool {
	u, ok := strip(v).(*ssa.UnOp)
	if !ok || u.Op != token.MUL {
		return false
	}
	gl, ok := u.X.(*ssa.Global)
	return ok && gl.Object() == g
}

func loadedGlobal(v ssa.Value) *types.Var {
	u, ok := strip(v).(*ssa.UnOp)
	if !ok || u.Op != token.MUL {
		return nil
	}
	gl, ok := u.X.(*ssa.Global)
	if !ok {
		return nil
	}
	gv, _ := gl.Object().(*types.Var)
	return gv
}

// dependsOn reports whether value v is computed from value src (data dependence through operands, phis and
// single-assignment cells), within a bounded depth.
func dependsOn(v, src ssa.Value) bool {
	seen := map[ssa.Value]bool{}
	var rec func(v ssa.Value, d int) bool
	rec = func(v ssa.Value, d int) bool {
		if v == nil || d > 40 || seen[v] {
			return false
		}
		seen[v] = true
		if v == src {
			return true
		}
		if r := resolveCell(v); r != v {
			if rec(r, d+1) {
				return true
			}
		}
		in, ok := v.(ssa.Instruction)
		if !ok {
			return false
		}
		for _, op := range in.Operands(nil) {
			if *op != nil && rec(*op, d+1) {
				return true
			}
		}
		return false
	}
	return rec(v, 0)
}

// ---------------------------------------------------------------------------------------------------------------------
// Stores seen through small helpers: a field update that a refactoring moved into an unexported helper of the same
// package is treated as happening at the call site, with the helper's parameters replaced by the call's arguments.
// ---------------------------------------------------------------------------------------------------------------------

type deepStore struct {
	Field *types.Var
	Store *ssa.Store
	Site  ssa.Instruction         // in the top function: the store itself or the call through which it happens
	subst map[ssa.Value]ssa.Value // helper parameter -> argument at the call site (already translated)
}

// translate maps a value of the helper's frame to the caller's frame where possible (parameters only).
func (d deepStore) translate(v ssa.Value) ssa.Value {
	if v == nil {
		return nil
	}
	if r, ok := d.subst[stripConv(v)]; ok {
		return r
	}
	return v
}

func isHelperOf(top, callee *ssa.Function) bool {
	if callee == nil || callee.Blocks == nil || callee == top {
		return false
	}
	obj := callee.Object()
	if obj == nil {
		return false
	}
	if obj.Exported() && knownOnPinnedTree(callee) {
		return false // part of the API as pinned; an exported function a refactoring introduced is a helper like any other
	}
	return fnTypesPkg(callee) == fnTypesPkg(top)
}

func deepStoresTo(fn *ssa.Function, f *types.Var) []deepStore {
	var out []deepStore
	var rec func(cur *ssa.Function, site ssa.Instruction, subst map[ssa.Value]ssa.Value, depth int)
	rec = func(cur *ssa.Function, site ssa.Instruction, subst map[ssa.Value]ssa.Value, depth int) {
		eachInstr(cur, func(in ssa.Instruction) {
			s := site
			if s == nil {
				s = in
			}
			if st, ok := in.(*ssa.Store); ok {
				if fv, _ := fieldAddrOf(st.Addr); fv == f {
					out = append(out, deepStore{Field: f, Store: st, Site: s, subst: subst})
				}
				// a store through a pointer parameter that the call binds to the address of the field (setFlag(&p.loop, v))
				if prm, isPrm := st.Addr.(*ssa.Parameter); isPrm {
					if arg, bound := subst[prm]; bound {
						if fv, _ := fieldAddrOf(stripConv(arg)); fv == f {
							out = append(out, deepStore{Field: f, Store: st, Site: s, subst: subst})
						}
					}
				}
				return
			}
			call, ok := in.(*ssa.Call)
			if !ok || depth >= 2 {
				return
			}
			callee := call.Call.StaticCallee()
			if !isHelperOf(fn, callee) {
				return
			}
			ns := map[ssa.Value]ssa.Value{}
			for i, prm := range callee.Params {
				if i < len(call.Call.Args) {
					a := call.Call.Args[i]
					if r, ok := subst[stripConv(a)]; ok {
						a = r
					}
					ns[prm] = a
				}
			}
			rec(callee, s, ns, depth+1)
		})
	}
	rec(fn, nil, map[ssa.Value]ssa.Value{}, 0)
	return out
}

// deepCall: a call of one of the target functions made by fn itself or by an unexported helper of the same package
// (bounded depth); Site is the instruction in fn through which it happens, subst the helper-parameter translation.
type deepCall struct {
	Call  *ssa.Call
	Site  ssa.Instruction
	subst map[ssa.Value]ssa.Value
}

func (d deepCall) translate(v ssa.Value) ssa.Value {
	if r, ok := d.subst[stripConv(v)]; ok {
		return r
	}
	return v
}

func deepCallsTo(fn *ssa.Function, targets ...*ssa.Function) []deepCall {
	var out []deepCall
	var rec func(cur *ssa.Function, site ssa.Instruction, subst map[ssa.Value]ssa.Value, depth int)
	rec = func(cur *ssa.Function, site ssa.Instruction, subst map[ssa.Value]ssa.Value, depth int) {
		eachInstr(cur, func(in ssa.Instruction) {
			call, ok := in.(*ssa.Call)
			if !ok {
				return
			}
			s := site
			if s == nil {
				s = in
			}
			if isCallToFn(call, targets...) {
				out = append(out, deepCall{Call: call, Site: s, subst: subst})
				return
			}
			callee := call.Call.StaticCallee()
			if depth >= 2 || !isHelperOf(fn, callee) {
				return
			}
			ns := map[ssa.Value]ssa.Value{}
			for i, prm := range callee.Params {
				if i < len(call.Call.Args) {
					a := call.Call.Args[i]
					if r, ok := subst[stripConv(a)]; ok {
						a = r
					}
					ns[prm] = a
				}
			}
			rec(callee, s, ns, depth+1)
		})
	}
	rec(fn, nil, map[ssa.Value]ssa.Value{}, 0)
	return out
}

// containsDeep: fn, or an unexported helper of the same package that it calls (transitively, bounded), contains an
// instruction satisfying pred.
func containsDeep(fn *ssa.Function, pred func(ssa.Instruction) bool, depth int) bool {
	found := false
	eachInstr(fn, func(in ssa.Instruction) {
		if found {
			return
		}
		if pred(in) {
			found = true
			return
		}
		if depth <= 0 {
			return
		}
		if call, ok := in.(*ssa.Call); ok {
			if callee := call.Call.StaticCallee(); isHelperOf(fn, callee) && containsDeep(callee, pred, depth-1) {
				found = true
			}
		}
	})
	return found
}

// doesDeep: the instruction satisfies pred, or is a call of an unexported helper (same package) whose body does.
func doesDeep(in ssa.Instruction, pred func(ssa.Instruction) bool) bool {
	if pred(in) {
		return true
	}
	if call, ok := in.(*ssa.Call); ok {
		if callee := call.Call.StaticCallee(); callee != nil && in.Parent() != nil && isHelperOf(in.Parent(), callee) {
			return containsDeep(callee, pred, 1)
		}
	}
	return false
}

// returnedFieldLoad: fn is a helper every return of which yields a load of field f (e.g. `posts := p.posts; ...; return posts`).
func returnsLoadOf(fn *ssa.Function, f *types.Var) (ssa.Value, bool) {
	if fn == nil || fn.Blocks == nil {
		return nil, false
	}
	var v ssa.Value
	for _, r := range returnsOf(fn) {
		if len(r.Results) != 1 {
			return nil, false
		}
		res := resolveCell(r.Results[0]) // a defer spills the result into a local
		if !loadOfField(res, f) {
			return nil, false
		}
		v = stripConv(res)
	}
	return v, v != nil
}

// allCallersSatisfy: fn is an unexported function with at least one in-scope call site and, for every call site, the
// enclosing top-level function satisfies pred or is itself such a helper (up to depth levels).
func allCallersSatisfy(p *Prog, fn *ssa.Function, depth int, pred func(*ssa.Function) bool) bool {
	if depth == 0 || fn.Object() == nil || fn.Object().Exported() {
		return false
	}
	sites := p.callers(fn)
	if len(sites) == 0 {
		return false
	}
	for _, s := range sites {
		top := s.Parent()
		for top.Parent() != nil {
			top = top.Parent()
		}
		if top == fn {
			continue
		}
		if !pred(top) && !allCallersSatisfy(p, top, depth-1, pred) {
			return false
		}
	}
	return true
}

// isDeferred: the instruction is a deferred call (runs at function exit).
func isDeferred(in ssa.Instruction) bool {
	_, ok := in.(*ssa.Defer)
	return ok
}

// isFreeVarLoad: v is a load of a captured variable (*fv) or the free variable itself.
func isFreeVarLoad(v ssa.Value) bool {
	v = stripConv(v)
	if _, ok := v.(*ssa.FreeVar); ok {
		return true
	}
	if u, ok := v.(*ssa.UnOp); ok && u.Op == token.MUL {
		_, isFV := u.X.(*ssa.FreeVar)
		return isFV
	}
	return false
}

// storesDeep is storesTo seen through unexported helpers of the same package (see deepStoresTo): the access's Instr is
// the instruction in fn through which the store happens (the store itself or the call of the helper) and Val is the
// stored value with helper parameters replaced by the call's arguments. Use it wherever the rule does not need the
// *ssa.Store itself.
func storesDeep(fn *ssa.Function, f *types.Var) []fieldAccess {
	var out []fieldAccess
	for _, d := range deepStoresTo(fn, f) {
		out = append(out, fieldAccess{Instr: d.Site, Field: f, Kind: "store", Val: d.translate(d.Store.Val)})
	}
	return out
}

// allCalls lists the call instructions (value calls, not go/defer) of fn in block order.
func allCalls(fn *ssa.Function) []*ssa.Call {
	var out []*ssa.Call
	eachInstr(fn, func(in ssa.Instruction) {
		if call, ok := in.(*ssa.Call); ok {
			out = append(out, call)
		}
	})
	return out
}

// valKey identifies a value up to helper-parameter substitution: the base value (a parameter of the top function, a call,
// a constant ...) plus the field path loaded from it. `slot.Length` read inside a helper that received `slot` as an
// argument and `slot.Length` read in the caller have the same key.
type valKey struct {
	base ssa.Value
	path string
}

func keyOf(v ssa.Value, subst map[ssa.Value]ssa.Value) valKey {
	path := ""
	for i := 0; i < 12; i++ {
		v = stripConv(v)
		if r, ok := subst[v]; ok {
			v = stripConv(r)
		}
		v = resolveCell(v)
		if r, ok := subst[v]; ok {
			v = resolveCell(stripConv(r))
		}
		u, ok := v.(*ssa.UnOp)
		if !ok || u.Op != token.MUL {
			break
		}
		fa, ok := u.X.(*ssa.FieldAddr)
		if !ok {
			break
		}
		path = fmt.Sprintf(".%d", fa.Field) + path
		if al, isAlloc := fa.X.(*ssa.Alloc); isAlloc {
			st := singleStore(al)
			if st == nil {
				return valKey{al, path}
			}
			v = st.Val
			continue
		}
		v = fa.X
	}
	if k, ok := constInt(v); ok {
		return valKey{nil, fmt.Sprint(k) + path}
	}
	return valKey{v, path}
}

func (d deepStore) key(v ssa.Value) valKey { return keyOf(v, d.subst) }

// postQueueFields finds the queue of posted handlers and the mutex that guards it by their shape rather than by name:
// the `[]func()` field of a struct of package internal and the sync.Mutex field of the same struct (poller.posts and
// poller.lck on the pinned tree; a queue type of its own after a refactoring).
func (p *Prog) postQueueFields() (posts, lck *types.Var) {
	if f := p.TryField("internal", "poller", "posts"); f != nil {
		if sl, ok := f.Type().Underlying().(*types.Slice); ok {
			if sig, ok := sl.Elem().Underlying().(*types.Signature); ok && sig.Params().Len() == 0 && sig.Results().Len() == 0 {
				return f, p.Field("internal", "poller", "lck")
			}
		}
	}
	sc := p.pkg("internal").Types.Scope()
	var found []*types.Var
	var locks []*types.Var
	for _, name := range sc.Names() {
		tn, ok := sc.Lookup(name).(*types.TypeName)
		if !ok {
			continue
		}
		st, ok := tn.Type().Underlying().(*types.Struct)
		if !ok {
			continue
		}
		var q, m *types.Var
		for i := 0; i < st.NumFields(); i++ {
			f := st.Field(i)
			if sl, ok := f.Type().Underlying().(*types.Slice); ok {
				if sig, ok := sl.Elem().Underlying().(*types.Signature); ok && sig.Params().Len() == 0 && sig.Results().Len() == 0 {
					q = f
				}
			}
			if nt, ok := f.Type().(*types.Named); ok && nt.Obj().Pkg() != nil && nt.Obj().Pkg().Path() == "sync" && nt.Obj().Name() == "Mutex" {
				m = f
			}
		}
		if q != nil && m != nil {
			found = append(found, q)
			locks = append(locks, m)
		}
	}
	if len(found) != 1 {
		infra("anchor: the queue of posted handlers (a []func() field next to a sync.Mutex in package internal) was not found exactly once (%d)", len(found))
	}
	return found[0], locks[0]
}

// cur translates a pinned identifier into the identifier it carries in this tree.
func (p *Prog) cur(kind, pkgShort, container, name string) string {
	if p.alias == nil || len(p.alias.fwd) == 0 {
		return name
	}
	return p.alias.current(kind, p.pkg(pkgShort).PkgPath, container, name)
}

// pinnedFnString is fn.String() with a renamed receiver type / function name spelled as on the pinned tree, so that
// obligation keys (and the known findings keyed by them) survive a rename.
func pinnedFnString(fn *ssa.Function) string {
	s := fn.String()
	t := aliasFor(fnTypesPkg(fn))
	if t == nil || len(t.rev) == 0 {
		return s
	}
	root := fn
	for root.Parent() != nil {
		root = root.Parent()
	}
	rootStr := root.String()
	if !strings.HasPrefix(s, rootStr) {
		return s
	}
	pk := fnTypesPkg(root)
	if pk == nil {
		return s
	}
	newRoot := rootStr
	name := root.Name()
	if sig := root.Signature; sig != nil && sig.Recv() != nil {
		rt := sig.Recv().Type()
		if pt, ok := rt.(*types.Pointer); ok {
			rt = pt.Elem()
		}
		if n, ok := rt.(*types.Named); ok {
			tn := n.Obj().Name()
			pinT := t.pinned("type", pk.Path(), "", tn)
			pinN := t.pinned("method", pk.Path(), pinT, name)
			if strings.HasSuffix(newRoot, "."+name) && pinN != name {
				newRoot = newRoot[:len(newRoot)-len(name)] + pinN
			}
			if pinT != tn {
				newRoot = strings.Replace(newRoot, "."+tn, "."+pinT, 1)
			}
		}
	} else if pinN := t.pinned("func", pk.Path(), "", name); pinN != name && strings.HasSuffix(newRoot, "."+name) {
		newRoot = newRoot[:len(newRoot)-len(name)] + pinN
	}
	return newRoot + s[len(rootStr):]
}

// pinName: the name of a function or method as spelled on the pinned tree.
func pinName(fn *ssa.Function) string {
	if fn == nil {
		return ""
	}
	pk := fnTypesPkg(fn)
	t := aliasFor(pk)
	if t == nil || len(t.rev) == 0 || pk == nil || fn.Parent() != nil {
		return fn.Name()
	}
	if _, tn := recvTypeName(fn); tn != "" {
		return t.pinned("method", pk.Path(), tn, fn.Name())
	}
	return t.pinned("func", pk.Path(), "", fn.Name())
}

// nilResultImplies: on every feasible path of h whose (last) result can be nil, pred holds. A result that is one of h's
// parameters is nil only if that parameter is: paths that observed the parameter non-nil are then infeasible.
func nilResultImplies(h *ssa.Function, pred func(*Path) bool) bool {
	if h == nil || h.Blocks == nil {
		return false
	}
	paths, overflow := enumPaths(h)
	if overflow || len(paths) == 0 {
		return false
	}
	n := 0
	for _, path := range paths {
		ret := path.Ret()
		if path.Panics || ret == nil || len(ret.Results) == 0 {
			continue
		}
		v := resolveCell(path.evalEnd(ret.Results[len(ret.Results)-1]))
		if path.nilness(v) == "nonnil" {
			continue
		}
		if q, isPrm := v.(*ssa.Parameter); isPrm {
			infeasible := false
			for _, l := range path.Lits {
				if x, eq, ok := l.nilTest(); ok && !eq && resolveCell(path.eval(x, l.At)) == ssa.Value(q) {
					infeasible = true
				}
			}
			if infeasible {
				continue
			}
			// assuming q == nil, a short-circuit `q == nil && c` that came out false did so because of c
		}
		n++
		if !pred(path) {
			return false
		}
	}
	return n > 0
}

// forwardTarget: fn is a closure with a single block whose only call is a static call of a function of the same package
// (func() { t.expired(cb) }): returns that function.
func forwardTarget(fn *ssa.Function) *ssa.Function {
	if fn == nil || fn.Parent() == nil || len(fn.Blocks) != 1 {
		return nil
	}
	var only *ssa.Call
	n := 0
	for _, in := range fn.Blocks[0].Instrs {
		switch x := in.(type) {
		case *ssa.Call:
			n++
			only = x
		case *ssa.Store, *ssa.Go, *ssa.Defer, *ssa.MapUpdate, *ssa.Send:
			return nil
		}
	}
	if n != 1 || only.Call.StaticCallee() == nil || only.Call.StaticCallee().Blocks == nil {
		return nil
	}
	if fnTypesPkg(only.Call.StaticCallee()) != fnTypesPkg(fn) {
		return nil
	}
	return only.Call.StaticCallee()
}

// eachInstrDeep visits the instructions of fn and of the helpers it calls (isHelperOf, depth <= 2). site is the
// instruction in fn through which the visited one happens (itself, or the outermost helper call); tr maps a helper
// parameter to the argument it is bound to in fn (other values unchanged).
func eachInstrDeep(fn *ssa.Function, f func(in, site ssa.Instruction, tr func(ssa.Value) ssa.Value)) {
	var rec func(cur *ssa.Function, site ssa.Instruction, subst map[ssa.Value]ssa.Value, depth int)
	rec = func(cur *ssa.Function, site ssa.Instruction, subst map[ssa.Value]ssa.Value, depth int) {
		tr := func(v ssa.Value) ssa.Value {
			if v == nil {
				return nil
			}
			if r, ok := subst[stripConv(v)]; ok {
				return r
			}
			return v
		}
		eachInstr(cur, func(in ssa.Instruction) {
			s := site
			if s == nil {
				s = in
			}
			f(in, s, tr)
			call, ok := in.(*ssa.Call)
			if !ok || depth >= 2 {
				return
			}
			callee := call.Call.StaticCallee()
			if !isHelperOf(fn, callee) {
				return
			}
			ns := map[ssa.Value]ssa.Value{}
			for i, prm := range callee.Params {
				if i < len(call.Call.Args) {
					ns[prm] = tr(call.Call.Args[i])
				}
			}
			rec(callee, s, ns, depth+1)
		})
	}
	rec(fn, nil, map[ssa.Value]ssa.Value{}, 0)
}

// underFlagTest: the call is the first block of the true arm of `if x.flag` (a guard moved from the callee to its
// caller); returns the block holding that test, nil otherwise.
func underFlagTest(rc ssa.CallInstruction, flag *types.Var) *ssa.BasicBlock {
	b := rc.Block()
	if b == nil || len(b.Preds) != 1 {
		return nil
	}
	pb := b.Preds[0]
	iff, ok := pb.Instrs[len(pb.Instrs)-1].(*ssa.If)
	if !ok || pb.Succs[0] != b || !loadOfField(iff.Cond, flag) {
		return nil
	}
	return pb
}

// allCallsUnderFlag: fn is unexported, is called somewhere, and every call of it is made under `if x.flag`.
func allCallsUnderFlag(p *Prog, fn *ssa.Function, flag *types.Var) bool {
	if fn.Object() == nil || fn.Object().Exported() {
		return false
	}
	sites := p.callers(fn)
	if len(sites) == 0 {
		return false
	}
	for _, site := range sites {
		if underFlagTest(site, flag) == nil {
			return false
		}
	}
	return true
}

// pureForwardOf: fn is a named function whose whole body is `return h(args...)` for a function h of the same package
// that is not on the pinned tree (a refactoring moved the body into h, e.g. to pass a field as a parameter): returns h.
func pureForwardOf(fn *ssa.Function) *ssa.Function {
	if fn == nil || fn.Parent() != nil || len(fn.Blocks) != 1 {
		return nil
	}
	var only *ssa.Call
	n := 0
	for _, in := range fn.Blocks[0].Instrs {
		switch x := in.(type) {
		case *ssa.Call:
			n++
			only = x
		case *ssa.Store, *ssa.Go, *ssa.Defer, *ssa.MapUpdate, *ssa.Send:
			return nil
		}
	}
	if n != 1 {
		return nil
	}
	h := only.Call.StaticCallee()
	if h == nil || h.Blocks == nil || !isHelperOf(fn, h) || knownOnPinnedTree(h) {
		return nil
	}
	ret, ok := fn.Blocks[0].Instrs[len(fn.Blocks[0].Instrs)-1].(*ssa.Return)
	if !ok {
		return nil
	}
	for i, r := range ret.Results {
		v := stripConv(r)
		if v == ssa.Value(only) {
			continue
		}
		if ex, isEx := v.(*ssa.Extract); isEx && ex.Tuple == ssa.Value(only) && ex.Index == i {
			continue
		}
		return nil
	}
	return h
}
