package main

// Statement-level expansion (second half of the normalisation, see normalize.go): a helper that does not exist on the
// pinned tree and whose body is a straight line of simple statements (assignments, ++/--, call statements), optionally
// ending in `return <exprs>`, is expanded where it is called as a statement or as the sole right-hand side of an
// assignment:
//
//	s.pendingFrames.push(f)            ->  *(&s.pendingFrames) = append(*(&s.pendingFrames), (f))
//	sent := s.pendingFrames.popFront() ->  zi3_front := (*(&s.pendingFrames))[0]; *(&s.pendingFrames) = (*(&s.pendingFrames))[1:]; sent := zi3_front
//
// The replacement stays on the line of the call (statements joined by `;`), parameters are replaced by the
// parenthesised argument text (an argument that occurs more than once must be side-effect free), locals of the helper
// get a prefix that is unique per call site, package-level names must denote the same objects at the call site. If the
// expanded program does not type-check it is discarded (load.go falls back to the tree as it is).

import (
	"bytes"
	"fmt"
	"go/ast"
	"go/token"
	"go/types"
	"os"
	"sort"
	"strings"

	"golang.org/x/tools/go/packages"
)

type stmtInlinable struct {
	decl    *ast.FuncDecl
	stmts   []ast.Stmt // without the final return
	ret     *ast.ReturnStmt
	params  []*types.Var
	nParamU map[*types.Var]int
	free    map[string]types.Object
	locals  map[types.Object]bool
}

func normaliseStatements(pkgs []*packages.Package, alias *aliasTable, pinned []symEntry, overlay map[string][]byte) (map[string][]byte, []string) {
	if len(pinned) == 0 {
		return nil, nil
	}
	known := map[string]bool{}
	for _, e := range pinned {
		if e.Kind == "func" || e.Kind == "method" {
			known[e.key()] = true
		}
	}
	read := func(file string) []byte {
		if b, ok := overlay[file]; ok {
			return b
		}
		b, _ := os.ReadFile(file)
		return b
	}
	var log []string
	out := map[string][]byte{}
	counter := 0
	for _, pk := range pkgs {
		cands := map[*types.Func]*stmtInlinable{}
		srcOf := map[string][]byte{}
		for _, f := range pk.Syntax {
			fname := pk.Fset.Position(f.Pos()).Filename
			if strings.HasSuffix(fname, "_test.go") {
				continue
			}
			srcOf[fname] = read(fname)
			for _, d := range f.Decls {
				fd, ok := d.(*ast.FuncDecl)
				if !ok || fd.Body == nil || len(fd.Body.List) == 0 || len(fd.Body.List) > 6 || fd.Type.TypeParams != nil {
					continue
				}
				obj, _ := pk.TypesInfo.Defs[fd.Name].(*types.Func)
				if obj == nil {
					continue
				}
				sig := obj.Type().(*types.Signature)
				if sig.Variadic() || (sig.Recv() != nil && sig.RecvTypeParams() != nil) {
					continue
				}
				// named results would need declarations at the call site
				named := false
				for i := 0; i < sig.Results().Len(); i++ {
					if sig.Results().At(i).Name() != "" {
						named = true
					}
				}
				if named {
					continue
				}
				container := ""
				if sig.Recv() != nil {
					rt := sig.Recv().Type()
					if pt, ok := rt.(*types.Pointer); ok {
						rt = pt.Elem()
					}
					nt, ok := rt.(*types.Named)
					if !ok {
						continue
					}
					container = alias.pinned("type", pk.PkgPath, "", nt.Obj().Name())
				}
				kind := "func"
				if container != "" {
					kind = "method"
				}
				if known[symEntry{Kind: kind, Pkg: pk.PkgPath, Container: container, Name: alias.pinned(kind, pk.PkgPath, container, fd.Name.Name)}.key()] {
					continue
				}
				in := &stmtInlinable{decl: fd, nParamU: map[*types.Var]int{}, free: map[string]types.Object{}, locals: map[types.Object]bool{}}
				stmts := fd.Body.List
				if r, ok := stmts[len(stmts)-1].(*ast.ReturnStmt); ok {
					in.ret = r
					stmts = stmts[:len(stmts)-1]
				}
				if in.ret == nil && sig.Results().Len() > 0 {
					continue
				}
				if in.ret != nil && len(in.ret.Results) != sig.Results().Len() {
					continue
				}
				if len(stmts) == 0 {
					continue // a single return: expression-level expansion
				}
				okShape := true
				for _, st := range stmts {
					switch x := st.(type) {
					case *ast.AssignStmt, *ast.IncDecStmt:
					case *ast.ExprStmt:
						if _, isCall := x.X.(*ast.CallExpr); !isCall {
							okShape = false
						}
					default:
						okShape = false
					}
				}
				if !okShape {
					continue
				}
				in.stmts = stmts
				if sig.Recv() != nil {
					in.params = append(in.params, sig.Recv())
				}
				for i := 0; i < sig.Params().Len(); i++ {
					in.params = append(in.params, sig.Params().At(i))
				}
				isParam := map[types.Object]*types.Var{}
				for _, q := range in.params {
					isParam[q] = q
				}
				ok = true
				paramAssigned := false
				ast.Inspect(fd.Body, func(n ast.Node) bool {
					switch x := n.(type) {
					case *ast.FuncLit:
						ok = false
					case *ast.AssignStmt:
						for _, l := range x.Lhs {
							if id, isID := l.(*ast.Ident); isID {
								if o := pk.TypesInfo.Uses[id]; o != nil && isParam[o] != nil {
									paramAssigned = true
								}
							}
						}
					case *ast.IncDecStmt:
						if id, isID := x.X.(*ast.Ident); isID {
							if o := pk.TypesInfo.Uses[id]; o != nil && isParam[o] != nil {
								paramAssigned = true
							}
						}
					case *ast.UnaryExpr:
						if id, isID := x.X.(*ast.Ident); isID && x.Op == token.AND {
							if o := pk.TypesInfo.Uses[id]; o != nil && isParam[o] != nil {
								paramAssigned = true // the address of a parameter: a copy is needed
							}
						}
					case *ast.Ident:
						if d := pk.TypesInfo.Defs[x]; d != nil {
							if _, isVar := d.(*types.Var); isVar && x.Name != "_" {
								in.locals[d] = true
							}
							return true
						}
						o := pk.TypesInfo.Uses[x]
						if o == nil {
							return true
						}
						if q := isParam[o]; q != nil {
							in.nParamU[q]++
							return true
						}
						if o == obj {
							ok = false
						}
						if _, isPkg := o.(*types.PkgName); isPkg || o.Parent() == pk.Types.Scope() {
							in.free[x.Name] = o
						}
					}
					return true
				})
				if !ok || paramAssigned {
					continue
				}
				cands[obj] = in
			}
		}
		if len(cands) == 0 {
			continue
		}
		type repl struct {
			start, end int
			text       string
		}
		byFile := map[string][]repl{}
		for _, f := range pk.Syntax {
			fname := pk.Fset.Position(f.Pos()).Filename
			if strings.HasSuffix(fname, "_test.go") {
				continue
			}
			src := srcOf[fname]
			imports := map[string]string{}
			for _, imp := range f.Imports {
				path := strings.Trim(imp.Path.Value, "\"")
				name := path[strings.LastIndex(path, "/")+1:]
				if imp.Name != nil {
					name = imp.Name.Name
				}
				imports[name] = path
			}
			// statements that sit directly in a statement list
			var visitList func(list []ast.Stmt)
			handle := func(st ast.Stmt) {
				var call *ast.CallExpr
				var lhs []ast.Expr
				tok := token.ILLEGAL
				switch x := st.(type) {
				case *ast.ExprStmt:
					call, _ = x.X.(*ast.CallExpr)
				case *ast.AssignStmt:
					if len(x.Rhs) == 1 && (x.Tok == token.DEFINE || x.Tok == token.ASSIGN) {
						call, _ = x.Rhs[0].(*ast.CallExpr)
						lhs, tok = x.Lhs, x.Tok
					}
				}
				if call == nil || call.Ellipsis.IsValid() {
					return
				}
				var callee *types.Func
				var recvExpr ast.Expr
				switch fun := call.Fun.(type) {
				case *ast.Ident:
					callee, _ = pk.TypesInfo.Uses[fun].(*types.Func)
				case *ast.SelectorExpr:
					callee, _ = pk.TypesInfo.Uses[fun.Sel].(*types.Func)
					if sel := pk.TypesInfo.Selections[fun]; sel != nil && sel.Kind() == types.MethodVal {
						recvExpr = fun.X
						if len(sel.Index()) != 1 {
							return
						}
					}
				}
				in := cands[callee]
				if in == nil {
					return
				}
				// not inside the helper itself or another candidate's body (those disappear from the analysis anyway)
				sig := callee.Type().(*types.Signature)
				var args []ast.Expr
				if recvExpr != nil {
					// a pointer receiver called on an addressable value takes its address
					args = append(args, recvExpr)
				} else if sig.Recv() != nil {
					return
				}
				args = append(args, call.Args...)
				if len(args) != len(in.params) {
					return
				}
				if in.ret != nil && lhs != nil && len(lhs) != len(in.ret.Results) {
					return
				}
				if in.ret == nil && lhs != nil {
					return
				}
				ss, se := pk.Fset.Position(st.Pos()).Offset, pk.Fset.Position(st.End()).Offset
				if ss < 0 || se > len(src) || bytes.ContainsAny(src[ss:se], "\n") {
					return
				}
				scope := pk.Types.Scope().Innermost(call.Pos())
				for name, o := range in.free {
					if pn, isPkg := o.(*types.PkgName); isPkg {
						if imports[name] != pn.Imported().Path() {
							return
						}
						continue
					}
					if scope != nil {
						if _, got := scope.LookupParent(name, call.Pos()); got != o {
							return
						}
					}
				}
				argText := map[*types.Var]string{}
				for i, q := range in.params {
					at := strings.TrimSpace(string(src[pk.Fset.Position(args[i].Pos()).Offset:pk.Fset.Position(args[i].End()).Offset]))
					if in.nParamU[q] != 1 && !simpleArg(args[i]) {
						return
					}
					if i == 0 && recvExpr != nil {
						// receiver: pointer receiver on an addressable value -> (&x); value receiver on a pointer -> (*p)
						_, wantPtr := sig.Recv().Type().(*types.Pointer)
						tv := pk.TypesInfo.Types[recvExpr]
						_, havePtr := tv.Type.Underlying().(*types.Pointer)
						switch {
						case wantPtr && !havePtr:
							at = "&" + at
						case !wantPtr && havePtr:
							at = "*" + at
						}
					}
					argText[q] = "(" + at + ")"
				}
				counter++
				prefix := fmt.Sprintf("zi%d_", counter)
				calleeFile := pk.Fset.Position(in.decl.Pos()).Filename
				csrc := srcOf[calleeFile]
				if csrc == nil {
					csrc = read(calleeFile)
				}
				render := func(n ast.Node) (string, bool) {
					s0, e0 := pk.Fset.Position(n.Pos()).Offset, pk.Fset.Position(n.End()).Offset
					if s0 < 0 || e0 > len(csrc) || s0 >= e0 {
						return "", false
					}
					text := string(csrc[s0:e0])
					if strings.Contains(text, "//") || strings.Contains(text, "/*") {
						return "", false
					}
					type sub struct {
						off, n int
						text   string
					}
					var subs []sub
					ast.Inspect(n, func(m ast.Node) bool {
						id, ok := m.(*ast.Ident)
						if !ok {
							return true
						}
						var o types.Object
						if d := pk.TypesInfo.Defs[id]; d != nil {
							o = d
						} else {
							o = pk.TypesInfo.Uses[id]
						}
						if o == nil {
							return true
						}
						off := pk.Fset.Position(id.Pos()).Offset - s0
						if v, isVar := o.(*types.Var); isVar {
							if t, isP := argText[v]; isP {
								subs = append(subs, sub{off, len(id.Name), t})
								return true
							}
						}
						if in.locals[o] {
							subs = append(subs, sub{off, len(id.Name), prefix + id.Name})
						}
						return true
					})
					sort.Slice(subs, func(i, j int) bool { return subs[i].off > subs[j].off })
					for _, sb := range subs {
						if sb.off < 0 || sb.off+sb.n > len(text) {
							return "", false
						}
						text = text[:sb.off] + sb.text + text[sb.off+sb.n:]
					}
					return strings.NewReplacer("\n", " ", "\t", " ").Replace(text), true
				}
				var parts []string
				for _, bs := range in.stmts {
					t, ok := render(bs)
					if !ok {
						return
					}
					parts = append(parts, t)
				}
				if in.ret != nil {
					var rets []string
					for _, re := range in.ret.Results {
						t, ok := render(re)
						if !ok {
							return
						}
						rets = append(rets, t)
					}
					if lhs != nil {
						var ls []string
						for _, l := range lhs {
							ls = append(ls, string(src[pk.Fset.Position(l.Pos()).Offset:pk.Fset.Position(l.End()).Offset]))
						}
						parts = append(parts, strings.Join(ls, ", ")+" "+tok.String()+" "+strings.Join(rets, ", "))
					} else {
						// results discarded: keep the evaluation only if it can have effects
						for i, re := range in.ret.Results {
							if !simpleArg(re) {
								parts = append(parts, "_ = "+rets[i])
							}
						}
					}
				}
				byFile[fname] = append(byFile[fname], repl{ss, se, strings.Join(parts, "; ")})
				log = append(log, pk.Fset.Position(call.Pos()).String()+": "+callee.Name()+" expanded (statements)")
			}
			visitList = func(list []ast.Stmt) {
				for _, st := range list {
					handle(st)
				}
			}
			ast.Inspect(f, func(n ast.Node) bool {
				switch x := n.(type) {
				case *ast.FuncDecl:
					if o, _ := pk.TypesInfo.Defs[x.Name].(*types.Func); o != nil && cands[o] != nil {
						return false // bodies of helpers that are expanded away
					}
				case *ast.BlockStmt:
					visitList(x.List)
				case *ast.CaseClause:
					visitList(x.Body)
				case *ast.CommClause:
					visitList(x.Body)
				}
				return true
			})
		}
		for fname, rs := range byFile {
			sort.Slice(rs, func(i, j int) bool { return rs[i].start > rs[j].start })
			src := append([]byte{}, srcOf[fname]...)
			lastStart := len(src) + 1
			for _, r := range rs {
				if r.end > lastStart {
					continue
				}
				src = append(src[:r.start:r.start], append([]byte(r.text), src[r.end:]...)...)
				lastStart = r.start
			}
			out[fname] = src
		}
	}
	if len(out) == 0 {
		return nil, nil
	}
	sort.Strings(log)
	return out, log
}
