package main

import (
	"fmt"
	"go/token"
	"go/types"
	"sort"
	"strings"

	"golang.org/x/tools/go/ssa"
)

func init() {
	register(&propertySpec{
		ID:    "C08",
		Title: "WebSocket ping/pong and closing handshake follow the RFC 6455 state machine",
		Explanation: "Decides: (R1) the static transition relation - every store to (*Stream).state, with the set of states its guard literals allow, " +
			"is an edge of the RFC table {Handshake->Active|Terminated; Active->ClosedByUs|ClosedByPeer|Terminated; ClosedByUs->CloseAcked|Terminated; " +
			"ClosedByPeer|CloseAcked->Terminated; any->Handshake only in reset}; (R2) at most one Close frame - every call of prepareClose is only reached " +
			"under state==Active and a non-Active state is stored before it; (R3) no application frame after Close - every prepareWrite outside " +
			"prepareClose is only reached under state==Active; the Ping case queues exactly one Pong built from the ping's payload, the Pong case nothing; " +
			"(R4) the close-reply table: valid payload -> echo, empty -> 1000, anything else -> 1002, one reply per path; (R5) Flush precedes the read, " +
			"the read is only reached under canRead(), transport EOF terminates and surfaces a Close frame built from CloseAbnormal, and the pending queue " +
			"is consumed from the head only (appended at the tail). Not decided: behaviour over event histories beyond the static relation; what reaches the peer.",
		Run: runC08,
	})
	addMutants("C08",
		mutant{"transport EOF converted on the way up", "codec.go",
			"\t\t_, err = c.src.ReadFrom(c.stream)\n\t\tif err != nil {\n\t\t\treturn c.emptyDec, err\n", "\t\t_, err = c.src.ReadFrom(c.stream)\n\t\tif err != nil {\n\t\t\treturn c.emptyDec, errors.Join(err)\n", "C08-R5"},
		mutant{"peer's reply to our close is not recorded", "codec/websocket/stream.go",
			"\t\tcase StateClosedByUs:\n\t\t\t// we received a reply from the peer\n\t\t\ts.state = StateCloseAcked", "\t\tcase StateClosedByUs:\n\t\t\t// we received a reply from the peer", "C08-R1"},
		mutant{"second close frame after a local close", "codec/websocket/stream.go",
			"\tif err != nil && s.state == StateActive {\n\t\t// Only start", "\tif err != nil {\n\t\t// Only start", "C08-R"},
		mutant{"close can be started twice", "codec/websocket/stream.go",
			"func (s *Stream) Close(cc CloseCode, reason string) error {\n\tswitch s.state {\n\tcase StateActive:", "func (s *Stream) Close(cc CloseCode, reason string) error {\n\tif s.state == StateClosedByUs {\n\t\ts.prepareClose(EncodeCloseFramePayload(cc, reason))\n\t\treturn s.Flush()\n\t}\n\tswitch s.state {\n\tcase StateActive:", "C08-R"},
		mutant{"pong answered while closing", "codec/websocket/stream.go",
			"\tcase OpcodePing:\n\t\tif s.state == StateActive {", "\tcase OpcodePing:\n\t\tif s.state != StateTerminated {", "C08-R3"},
		mutant{"pongs are answered", "codec/websocket/stream.go",
			"\tcase OpcodePong:\n\tcase OpcodeClose:", "\tcase OpcodePong:\n\t\ts.prepareWrite(s.AcquireFrame().SetFIN().SetPong().SetPayload(f.Payload()))\n\tcase OpcodeClose:", "C08-R3"},
		mutant{"pong without the ping's payload", "codec/websocket/stream.go",
			"\t\t\t\tSetPong().\n\t\t\t\tSetPayload(f.Payload())", "\t\t\t\tSetPong().\n\t\t\t\tSetPayload(nil)", "C08-R3"},
		mutant{"empty close answered with 1002", "codec/websocket/stream.go",
			"\t\t\t\ts.prepareClose(EncodeCloseCode(CloseNormal))", "\t\t\t\ts.prepareClose(EncodeCloseCode(CloseProtocolError))", "C08-R4"},
		mutant{"invalid close code echoed", "codec/websocket/stream.go",
			"\t\t\t\t\tif !ValidCloseCode(closeCode) {\n\t\t\t\t\t\ts.prepareClose(EncodeCloseCode(CloseProtocolError))", "\t\t\t\t\tif !ValidCloseCode(closeCode) {\n\t\t\t\t\t\ts.prepareClose(f.Payload())", "C08-R4"},
		mutant{"peer close leaves the stream active", "codec/websocket/stream.go",
			"\t\tcase StateActive:\n\t\t\ts.state = StateClosedByPeer\n", "\t\tcase StateActive:\n", "C08-R2"},
		mutant{"write allowed after close was sent", "codec/websocket/stream.go",
			"func (s *Stream) AsyncWriteFrame(f *Frame, callback func(err error)) {\n\tif s.state == StateActive {", "func (s *Stream) AsyncWriteFrame(f *Frame, callback func(err error)) {\n\tif s.canRead() {", "C08-R3"},
		mutant{"read without flushing control frames first", "codec/websocket/stream.go",
			"func (s *Stream) NextFrame() (f Frame, err error) {\n\terr = s.Flush()\n", "func (s *Stream) NextFrame() (f Frame, err error) {\n", "C08-R5"},
		mutant{"reads continue after the peer closed", "codec/websocket/stream.go",
			"\treturn s.state == StateActive || s.state == StateClosedByUs", "\treturn s.state == StateActive || s.state == StateClosedByUs || s.state == StateClosedByPeer", "C08-R5"},
		mutant{"transport EOF not surfaced as 1006", "codec/websocket/stream.go",
			"\t\tf = NewFrame()\n\t\tf.SetFIN().SetClose().SetPayload(EncodeCloseFramePayload(CloseAbnormal, \"\"))\n\t}\n\n\tif err == nil {\n\t\terr = s.handleFrame(f)",
			"\t\tf = NewFrame()\n\t\tf.SetFIN().SetClose().SetPayload(EncodeCloseFramePayload(CloseNormal, \"\"))\n\t}\n\n\tif err == nil {\n\t\terr = s.handleFrame(f)", "C08-R5"},
		mutant{"EOF after a local close not surfaced (async)", "codec/websocket/stream.go",
			"\t\t} else if s.state != StateTerminated && err == io.EOF {", "\t\t} else if s.state == StateActive && err == io.EOF {", "C08-R5"},
		mutant{"async flush sends the newest frame first", "codec/websocket/stream.go",
			"\t\tsent := s.pendingFrames[0]\n\t\ts.pendingFrames = s.pendingFrames[1:]", "\t\tsent := s.pendingFrames[len(s.pendingFrames)-1]\n\t\ts.pendingFrames = s.pendingFrames[:len(s.pendingFrames)-1]", "C08-R5"},
		mutant{"close ack accepted from the active state", "codec/websocket/stream.go",
			"\t\tcase StateClosedByPeer, StateCloseAcked:\n\t\t\t// ignore\n\t\tcase StateClosedByUs:", "\t\tcase StateCloseAcked:\n\t\t\t// ignore\n\t\tcase StateClosedByUs, StateClosedByPeer:", "C08-R1"},
	)
}

type wsAnchors struct {
	p                                                          *Prog
	state, pendingFrames, role, maxMsg                         *types.Var
	stHandshake, stActive, stByUs, stByPeer, stAcked, stTerm   int64
	prepareClose, prepareWrite, handleFrame, handleControl     *ssa.Function
	handleData, verifyFrame, reset, canRead, flush, asyncFlush *ssa.Function
	nextFrame, asyncNextFrame, NextFrame, AsyncNextFrame       *ssa.Function
	encodeCloseCode, encodeClosePayload, validCloseCode        *ssa.Function
	opcodeM, payloadM, isFIN, payloadLen, isMasked             *ssa.Function
	setPong, setPayload, setClose                              *ssa.Function
	stateNames                                                 map[int64]string
}

func wsAnchor(p *Prog) *wsAnchors {
	w := &wsAnchors{p: p}
	ws := "codec/websocket"
	w.state = p.Field(ws, "Stream", "state")
	w.pendingFrames = p.Field(ws, "Stream", "pendingFrames")
	w.role = p.Field(ws, "Stream", "role")
	w.maxMsg = p.Field(ws, "Stream", "maxMessageSize")
	ci := func(n string) int64 { v, _ := constantInt(p.Const(ws, n)); return v }
	w.stHandshake, w.stActive, w.stByUs, w.stByPeer, w.stAcked, w.stTerm = ci("StateHandshake"), ci("StateActive"), ci("StateClosedByUs"), ci("StateClosedByPeer"), ci("StateCloseAcked"), ci("StateTerminated")
	w.stateNames = map[int64]string{w.stHandshake: "Handshake", w.stActive: "Active", w.stByUs: "ClosedByUs", w.stByPeer: "ClosedByPeer", w.stAcked: "CloseAcked", w.stTerm: "Terminated"}
	m := func(n string) *ssa.Function { return p.Method(ws, "Stream", n) }
	w.prepareClose, w.prepareWrite, w.handleFrame, w.handleControl = m("prepareClose"), m("prepareWrite"), m("handleFrame"), m("handleControlFrame")
	w.handleData, w.verifyFrame, w.reset, w.canRead, w.flush, w.asyncFlush = m("handleDataFrame"), m("verifyFrame"), m("reset"), m("canRead"), m("Flush"), m("AsyncFlush")
	w.nextFrame, w.asyncNextFrame, w.NextFrame, w.AsyncNextFrame = m("nextFrame"), m("asyncNextFrame"), m("NextFrame"), m("AsyncNextFrame")
	w.encodeCloseCode, w.encodeClosePayload, w.validCloseCode = p.Fn(ws, "EncodeCloseCode"), p.Fn(ws, "EncodeCloseFramePayload"), p.Fn(ws, "ValidCloseCode")
	fm := func(n string) *ssa.Function { return p.Method(ws, "Frame", n) }
	w.opcodeM, w.payloadM, w.isFIN, w.payloadLen, w.isMasked = fm("Opcode"), fm("Payload"), fm("IsFIN"), fm("PayloadLength"), fm("IsMasked")
	w.setPong, w.setPayload, w.setClose = fm("SetPong"), fm("SetPayload"), fm("SetClose")
	return w
}

func (w *wsAnchors) names(set map[int64]bool) string {
	var ks []int64
	for k := range set {
		ks = append(ks, k)
	}
	sort.Slice(ks, func(i, j int) bool { return ks[i] < ks[j] })
	var out []string
	for _, k := range ks {
		out = append(out, w.stateNames[k])
	}
	return "{" + strings.Join(out, ",") + "}"
}

// callLit: the literal's condition is a call of fn; returns the call and the polarity.
func callLit(l Lit, fns ...*ssa.Function) (*ssa.Call, bool, bool) {
	call, ok := l.Cond.(*ssa.Call)
	if !ok || !isCallToFn(call, fns...) {
		return nil, false, false
	}
	return call, l.Pos, true
}

// wsFuncs: functions (and closures) of *Stream.
func wsFuncs(p *Prog) []*ssa.Function {
	var out []*ssa.Function
	for _, fn := range p.Funcs {
		pk, tn := recvTypeName(fn)
		if pk == modPath+"/codec/websocket" && tn == "Stream" {
			out = append(out, fn)
		}
	}
	return out
}

// callChainHas: v is the result of a method-chaining expression (x.A().B().C(args)) that includes a call of fn; returns it.
func callChainHas(v ssa.Value, fn *ssa.Function) *ssa.Call {
	for i := 0; i < 12; i++ {
		call, ok := strip(v).(*ssa.Call)
		if !ok {
			return nil
		}
		if isCallToFn(call, fn) {
			return call
		}
		if len(call.Call.Args) == 0 {
			return nil
		}
		v = call.Call.Args[0]
	}
	return nil
}

func runC08(c *Ctx) {
	p := c.P
	w := wsAnchor(p)
	fns := wsFuncs(p)
	const nStates = 6

	// ------------------------------------------------------------------------------------------------ R1
	c.rule("C08-R1", "static transition relation of (*Stream).state is a subset of the RFC 6455 table and contains the transitions of the closing handshake", 16)
	allowedFrom := map[int64]map[int64]bool{
		w.stActive: {w.stHandshake: true},
		w.stByUs:   {w.stActive: true},
		w.stByPeer: {w.stActive: true},
		w.stAcked:  {w.stByUs: true},
		w.stTerm:   {w.stHandshake: true, w.stActive: true, w.stByUs: true, w.stByPeer: true, w.stAcked: true, w.stTerm: true},
	}
	present := map[[2]int64]bool{}
	for _, fn := range fns {
		for _, a := range storesTo(fn, w.state) {
			st := a.Instr.(*ssa.Store)
			if isFreshAllocStore(st) {
				continue
			}
			to, isK := constInt(st.Val)
			if !isK {
				c.unproven(fn, "store state", st.Pos(), "non-constant state stored")
				continue
			}
			construct := "state=" + w.stateNames[to]
			if to == w.stHandshake {
				inReset := fn == w.reset || allCallersSatisfy(p, fn, 2, func(caller *ssa.Function) bool { return caller == w.reset })
				c.check(inReset, fn, construct, st.Pos(), "only reset() returns to the handshake state", "the stream is put back into StateHandshake outside reset()")
				continue
			}
			from := allowedStates(st.Block(), w.state, nStates)
			if to == w.stActive {
				// established by a dominating call of reset() (in the enclosing top-level function)
				top := fn
				for top.Parent() != nil {
					top = top.Parent()
				}
				hasReset := len(callsToFn(top, w.reset)) > 0
				if !hasReset {
					// a helper shared by the entry points: every caller goes through reset()
					hasReset = allCallersSatisfy(p, top, 3, func(caller *ssa.Function) bool { return len(callsToFn(caller, w.reset)) > 0 })
				}
				c.check(hasReset, fn, construct, st.Pos(), "reached after reset() put the stream into the handshake state", "StateActive is stored in a function that does not go through reset(): a stream that is not handshaking becomes active")
				continue
			}
			bad := map[int64]bool{}
			for s := range from {
				if !allowedFrom[to][s] {
					bad[s] = true
				}
			}
			if to == w.stTerm {
				c.ok(fn, construct, st.Pos(), "termination is allowed from %s", w.names(from))
				for s := range from {
					present[[2]int64{s, to}] = true
				}
				continue
			}
			c.check(len(bad) == 0, fn, construct, st.Pos(), "from "+w.names(from), fmt.Sprintf("transition %s -> %s is not in the RFC 6455 state machine (guards at this store allow %s)", w.names(bad), w.stateNames[to], w.names(from)))
			for s := range from {
				present[[2]int64{s, to}] = true
			}
		}
	}
	// ... and contains the transitions the closing handshake needs (State() must reflect the stage reached)
	for _, tr := range [][2]int64{{w.stActive, w.stByUs}, {w.stActive, w.stByPeer}, {w.stByUs, w.stAcked}, {w.stActive, w.stTerm}, {w.stByUs, w.stTerm}} {
		c.check(present[tr], w.reset, "has "+w.stateNames[tr[0]]+"->"+w.stateNames[tr[1]], w.reset.Pos(), "the transition exists", "no code moves the stream from "+w.stateNames[tr[0]]+" to "+w.stateNames[tr[1]]+": State() does not reflect this stage of the closing handshake when it is reached")
	}

	// ------------------------------------------------------------------------------------------------ R2
	c.rule("C08-R2", "at most one Close frame: prepareClose is reached only under state==Active, after a non-Active state has been stored", 8)
	for _, fn := range fns {
		for _, call := range callsToFn(fn, w.prepareClose) {
			in := call.(ssa.Instruction)
			from := allowedStates(in.Block(), w.state, nStates)
			onlyActive := len(from) == 1 && from[w.stActive]
			moved := false
			for _, a := range storesTo(fn, w.state) {
				if k, ok := constInt(a.Instr.(*ssa.Store).Val); ok && k != w.stActive && dominatesInstr(a.Instr, in) {
					moved = true
				}
			}
			switch {
			case !onlyActive:
				c.bad(fn, "prepareClose", in.Pos(), "a Close frame is queued in states %s: after the first Close frame a second one can reach the wire", w.names(from))
			case !moved:
				c.bad(fn, "prepareClose", in.Pos(), "a Close frame is queued but the stream stays in StateActive: the next close or violation queues another one")
			default:
				c.ok(fn, "prepareClose", in.Pos(), "only from Active, state left before queuing")
			}
		}
	}

	// ------------------------------------------------------------------------------------------------ R3
	c.rule("C08-R3", "no application frame after Close; one Pong per Ping with the ping's payload; Pongs are not answered", 7)
	for _, fn := range fns {
		if fn == w.prepareClose {
			continue
		}
		for _, call := range callsToFn(fn, w.prepareWrite) {
			in := call.(ssa.Instruction)
			from := allowedStatesCtx(p, in, w.state, nStates, 2)
			c.check(len(from) == 1 && from[w.stActive], fn, "prepareWrite", in.Pos(), "frames are queued only in StateActive",
				"a frame is queued for writing in states "+w.names(from)+": data or pong frames can follow our Close frame on the wire")
		}
	}
	{
		opPing, _ := constantInt(p.Const("codec/websocket", "OpcodePing"))
		opPong, _ := constantInt(p.Const("codec/websocket", "OpcodePong"))
		fn := w.handleControl
		region := func(op int64) []*ssa.BasicBlock {
			var out []*ssa.BasicBlock
			for _, b := range fn.Blocks {
				for _, l := range guardsOf(b) {
					o, x, y, ok := l.cmp()
					if ok && o == token.EQL && isConstInt(y, op) {
						if call, ok := strip(x).(*ssa.Call); ok && isCallToFn(call, w.opcodeM) {
							out = append(out, b)
						}
					}
				}
			}
			return out
		}
		var pongs []*ssa.Call
		helperArg := map[ssa.Value]ssa.Value{} // parameters of the helper that builds the reply -> arguments of the Ping case
		var pingFrame ssa.Value = fn.Params[1] // the received frame, as the function that builds the reply names it
		for _, b := range region(opPing) {
			for _, in := range b.Instrs {
				if isCallToFn(in, w.prepareWrite) {
					pongs = append(pongs, in.(*ssa.Call))
				}
				// the Ping case delegates to a helper of its own that receives the frame
				if call, ok := in.(*ssa.Call); ok {
					if h := call.Call.StaticCallee(); isHelperOf(fn, h) && h != w.prepareWrite && len(callsToFn(h, w.prepareWrite)) > 0 {
						for i, a := range call.Call.Args {
							if strip(a) == ssa.Value(fn.Params[1]) && i < len(h.Params) {
								pingFrame = h.Params[i]
							}
							if i < len(h.Params) {
								helperArg[h.Params[i]] = a
							}
						}
						for _, pc := range callsToFn(h, w.prepareWrite) {
							pongs = append(pongs, pc.(*ssa.Call))
						}
					}
				}
			}
		}
		if len(pongs) != 1 {
			c.bad(fn, "ping reply", fn.Pos(), "the Ping case queues %d frames, expected exactly one Pong", len(pongs))
		} else {
			arg := pongs[0].Call.Args[1]
			sp := callChainHas(arg, w.setPayload)
			isPong := callChainHas(arg, w.setPong) != nil
			// a builder shared by all control frames: SetOpcode(opcode) with the Ping case passing OpcodePong
			if so := callChainHas(arg, p.Method("codec/websocket", "Frame", "SetOpcode")); so != nil && len(so.Call.Args) == 2 {
				opv := so.Call.Args[1]
				if a, ok := helperArg[stripConv(opv)]; ok {
					opv = a
				}
				if isConstInt(opv, opPong) {
					isPong = true
				}
			}
			echo := false
			if sp != nil && len(sp.Call.Args) == 2 {
				pv := sp.Call.Args[1]
				if a, ok := helperArg[stripConv(pv)]; ok {
					pv = a
				}
				if pc, ok := strip(pv).(*ssa.Call); ok && isCallToFn(pc, w.payloadM) && (strip(pc.Call.Args[0]) == pingFrame || strip(pc.Call.Args[0]) == ssa.Value(fn.Params[1])) {
					echo = true
				}
			}
			c.check(isPong && echo, fn, "ping reply", pongs[0].Pos(), "one Pong carrying the ping's payload", "the reply to a Ping is not a Pong frame built from the ping's payload")
		}
		n := 0
		for _, b := range region(opPong) {
			for _, in := range b.Instrs {
				if isCallToFn(in, w.prepareWrite, w.prepareClose) {
					n++
				}
			}
		}
		c.check(n == 0, fn, "pong case", fn.Pos(), "Pongs are not answered", "a frame is queued in reply to a Pong")
	}

	// ------------------------------------------------------------------------------------------------ R4
	c.rule("C08-R4", "close-reply table: valid payload -> echo; empty payload -> 1000; otherwise -> 1002; exactly one reply per path", 4)
	{
		fn := w.handleControl
		opClose, _ := constantInt(p.Const("codec/websocket", "OpcodeClose"))
		normal, _ := constantInt(p.Const("codec/websocket", "CloseNormal"))
		protoErr, _ := constantInt(p.Const("codec/websocket", "CloseProtocolError"))
		utf8Valid := p.ExtFunc("unicode/utf8", "Valid")
		isCloseLit := func(l Lit) bool {
			op, x, y, isCmp := l.cmp()
			if isCmp && op == token.EQL && isConstInt(y, opClose) {
				if call, ok := strip(x).(*ssa.Call); ok && isCallToFn(call, w.opcodeM) {
					return true
				}
			}
			return false
		}
		// the close state machine may live in an unexported helper that the Close case (and nothing else) calls with the frame
		var frameVal ssa.Value = fn.Params[1]
		var payloadParam ssa.Value // set when the helper receives f.Payload() instead of the frame
		closeImplied := false
		if len(callsToFn(fn, w.prepareClose)) == 0 {
			for _, in := range allCalls(fn) {
				h := in.Call.StaticCallee()
				if !isHelperOf(fn, h) || len(callsToFn(h, w.prepareClose)) == 0 || len(p.callers(h)) != 1 {
					continue
				}
				guarded := false
				for _, l := range guardsOf(in.Block()) {
					if isCloseLit(l) {
						guarded = true
					}
				}
				for i, a := range in.Call.Args {
					if guarded && strip(a) == ssa.Value(fn.Params[1]) && i < len(h.Params) {
						fn, frameVal, closeImplied = h, h.Params[i], true
					}
					// ... or with the frame's payload
					if pc, ok := strip(a).(*ssa.Call); guarded && ok && isCallToFn(pc, w.payloadM) && strip(pc.Call.Args[0]) == ssa.Value(fn.Params[1]) && i < len(h.Params) {
						fn, frameVal, closeImplied = h, nil, true
						payloadParam = h.Params[i]
					}
				}
				if closeImplied {
					break
				}
			}
		}
		paths, overflow := enumPaths(fn)
		if overflow {
			c.unproven(fn, "paths", fn.Pos(), "too many paths")
		}
		type conds struct{ lenGE2, lenGT0, utf8ok, codeok string }
		condsOf := func(lits []Lit, cd *conds) {
			for _, l := range lits {
				op, x, y, isCmp := l.cmp()
				if isCmp {
					if lc, ok := strip(x).(*ssa.Call); ok {
						if b, ok := lc.Call.Value.(*ssa.Builtin); ok && b.Name() == "len" {
							k, _ := constInt(y)
							switch {
							case op == token.GEQ && k == 2, op == token.GTR && k == 1:
								cd.lenGE2 = "t"
							case op == token.LSS && k == 2, op == token.LEQ && k == 1:
								cd.lenGE2 = "f"
							case op == token.GTR && k == 0, op == token.GEQ && k == 1, op == token.NEQ && k == 0:
								cd.lenGT0 = "t"
							case op == token.LEQ && k == 0, op == token.LSS && k == 1, op == token.EQL && k == 0:
								cd.lenGT0 = "f"
							}
						}
					}
				}
				if call, ok := l.Cond.(*ssa.Call); ok {
					if isCallTo(call, utf8Valid) {
						cd.utf8ok = map[bool]string{true: "t", false: "f"}[l.Pos]
					}
					if isCallToFn(call, w.validCloseCode) {
						cd.codeok = map[bool]string{true: "t", false: "f"}[l.Pos]
					}
				}
			}
		}
		wantOf := func(cd conds) string {
			// len == 0 implies len < 2; len >= 2 implies len > 0
			if cd.lenGT0 == "f" {
				cd.lenGE2 = "f"
			}
			if cd.lenGE2 == "t" {
				cd.lenGT0 = "t"
			}
			switch {
			case cd.lenGE2 == "t" && cd.utf8ok == "t" && cd.codeok == "t":
				return "echo"
			case cd.lenGE2 == "f" && cd.lenGT0 == "f":
				return "1000"
			}
			return "1002"
		}
		// replyKind classifies the payload handed to prepareClose; echo = the received frame's payload (directly, or the
		// helper parameter bound to it)
		frameParams := map[ssa.Value]bool{}
		replyKind := func(v ssa.Value, echo map[ssa.Value]bool) string {
			v = strip(v)
			if echo[v] || (payloadParam != nil && v == payloadParam) {
				return "echo"
			}
			if call, ok := v.(*ssa.Call); ok {
				if isCallToFn(call, w.encodeCloseCode) {
					if k, ok := constInt(call.Call.Args[0]); ok {
						switch k {
						case normal:
							return "1000"
						case protoErr:
							return "1002"
						}
						return fmt.Sprint(k)
					}
				}
				if isCallToFn(call, w.payloadM) && (strip(call.Call.Args[0]) == frameVal || frameParams[strip(call.Call.Args[0])]) {
					return "echo" // Payload() of the received frame, or of the helper parameter bound to that frame
				}
			}
			return "?"
		}
		litsOf := func(path *Path) []Lit {
			var out []Lit
			for _, l := range path.Lits {
				out = append(out, l.Lit)
			}
			return out
		}
		seen := map[string]bool{}
		outcomes := map[string]bool{}
		defer func() {
			// all three answers exist: a test that can never hold (len(payload) >= 0) makes one of them unreachable
			// without any reply being "wrong" for the conditions that remain
			for _, o := range []string{"echo/echo", "1000/1000", "1002/1002"} {
				c.check(outcomes[o], fn, "close reply exists "+strings.Split(o, "/")[0], fn.Pos(), "some path answers with "+strings.Split(o, "/")[0], "no path of the close handling answers a peer Close with "+strings.Split(o, "/")[0]+" (valid payload echoed / empty payload 1000 / malformed payload 1002): one of the three cases of RFC 6455 section 7 is never taken")
			}
		}()
		for _, path := range paths {
			if path.Panics {
				continue
			}
			isClose, isActive := closeImplied, false
			for _, l := range path.Lits {
				if isCloseLit(l.Lit) {
					isClose = true
				}
				if k, eq, ok := enumTest(l.Lit, w.state); ok && eq && k == w.stActive {
					isActive = true
				}
			}
			if !isClose || !isActive {
				continue
			}
			var cd conds
			condsOf(litsOf(path), &cd)
			var replies []*ssa.Call
			for _, in := range path.Instrs() {
				if isCallToFn(in, w.prepareClose) {
					replies = append(replies, in.(*ssa.Call))
				}
			}
			report := func(cd conds, got string, pos token.Pos) {
				want := wantOf(cd)
				cond := fmt.Sprintf("len>=2:%s len>0:%s utf8:%s code:%s", cd.lenGE2, cd.lenGT0, cd.utf8ok, cd.codeok)
				if seen[cond] {
					return
				}
				seen[cond] = true
				outcomes[want+"/"+got] = true
				c.check(got == want, fn, "close reply ["+cond+"]", pos, "replies "+got, fmt.Sprintf("a peer Close with %s is answered with %s, RFC 6455 requires %s", cond, got, want))
			}
			switch {
			case len(replies) == 0:
				report(cd, "none", fn.Pos())
			case len(replies) > 1:
				report(cd, "several", replies[0].Pos())
			default:
				arg := strip(replies[0].Call.Args[1])
				// the reply chosen by a helper of this package: evaluate the table on the helper's own paths
				if hc, ok := arg.(*ssa.Call); ok && hc.Call.StaticCallee() != nil && isHelperOf(fn, hc.Call.StaticCallee()) && !isCallToFn(hc, w.encodeCloseCode, w.payloadM) {
					h := hc.Call.StaticCallee()
					echo := map[ssa.Value]bool{}
					for i, a := range hc.Call.Args {
						if pc, ok := strip(a).(*ssa.Call); ok && isCallToFn(pc, w.payloadM) && i < len(h.Params) {
							echo[h.Params[i]] = true
						}
						// the frame itself is handed to the helper: f.Payload() inside it is the received payload
						if strip(a) == frameVal && i < len(h.Params) {
							frameParams[h.Params[i]] = true
						}
					}
					hpaths, hover := enumPaths(h)
					if hover {
						c.unproven(fn, "close reply", replies[0].Pos(), "too many paths in "+h.Name())
						break
					}
					for _, hp := range hpaths {
						ret := hp.Ret()
						if ret == nil || len(ret.Results) == 0 {
							continue
						}
						hcd := cd
						condsOf(litsOf(hp), &hcd)
						report(hcd, replyKind(hp.evalEnd(ret.Results[0]), echo), replies[0].Pos())
					}
					break
				}
				report(cd, replyKind(arg, nil), replies[0].Pos())
			}
		}
	}

	// ------------------------------------------------------------------------------------------------ R5
	c.rule("C08-R5", "gating and order: Flush before the read; read only under canRead(); canRead == Active|ClosedByUs; EOF -> Terminated + Close(1006); pending queue is FIFO", 10)
	{
		// canRead
		set := map[int64]bool{}
		okShape := true
		eachInstr(w.canRead, func(in ssa.Instruction) {
			bo, ok := in.(*ssa.BinOp)
			if !ok {
				return
			}
			if bo.Op == token.EQL && loadOfField(bo.X, w.state) {
				if k, ok := constInt(bo.Y); ok {
					set[k] = true
					return
				}
			}
			okShape = false
		})
		c.check(okShape && len(set) == 2 && set[w.stActive] && set[w.stByUs], w.canRead, "canRead", w.canRead.Pos(), "reads allowed in Active and ClosedByUs only", "canRead() allows reading in "+w.names(set)+": after the closing handshake completed (or before the opening one) frames would still be read")
		for _, pair := range [][2]*ssa.Function{{w.NextFrame, w.nextFrame}, {w.AsyncNextFrame, w.asyncNextFrame}} {
			outer, inner := pair[0], pair[1]
			for _, fn := range withClosures(outer) {
				for _, call := range callsToFn(fn, inner) {
					in := call.(ssa.Instruction)
					// Flush (or AsyncFlush whose completion closure we are in) precedes
					flushed := false
					if fn.Parent() != nil {
						// the closure is the completion of AsyncFlush
						for _, fc := range callsToFn(fn.Parent(), w.asyncFlush) {
							for _, a := range fc.Common().Args {
								if mc, ok := strip(a).(*ssa.MakeClosure); ok && mc.Fn == fn {
									flushed = true
								}
							}
						}
					} else {
						for _, fc := range callsToFn(fn, w.flush) {
							if dominatesInstr(fc.(ssa.Instruction), in) {
								flushed = true
							}
						}
					}
					if !flushed {
						// nothing is pending on this path: there is no flush whose outcome has to be awaited
						for _, l := range guardsOf(in.Block()) {
							if op, x, y, ok := l.cmp(); ok && op == token.EQL && isConstInt(y, 0) {
								if lc, ok := stripConv(x).(*ssa.Call); ok {
									if b, ok := lc.Call.Value.(*ssa.Builtin); ok && b.Name() == "len" && loadOfField(lc.Call.Args[0], w.pendingFrames) {
										flushed = true
									}
								}
							}
						}
					}
					c.check(flushed, fn, "flush before read", in.Pos(), "pending control frames are flushed before the next read", "the read is started without flushing pending control frames first: a Pong or Close reply waits behind the read")
					// canRead on every path to the read
					paths, overflow := enumPaths(fn)
					if overflow {
						c.unproven(fn, "paths", fn.Pos(), "too many paths")
						continue
					}
					gated := true
					for _, path := range paths {
						reaches := false
						for _, x := range path.Instrs() {
							if x == in {
								reaches = true
							}
						}
						if !reaches {
							continue
						}
						okc := false
						for _, l := range path.Lits {
							if _, pos, ok := callLit(l.Lit, w.canRead); ok && pos {
								okc = true
							}
							// `gate(...) == nil` where the helper `gate` yields nil only on paths that observed canRead()
							if x, eq, ok := l.nilTest(); ok && eq {
								if call, ok := resolveCell(path.eval(x, l.At)).(*ssa.Call); ok {
									if h := call.Call.StaticCallee(); isHelperOf(fn, h) && nilResultImplies(h, func(hp *Path) bool {
										for _, hl := range hp.Lits {
											if _, pos, ok := callLit(hl.Lit, w.canRead); ok && pos {
												return true
											}
										}
										return false
									}) {
										okc = true
									}
								}
							}
						}
						// an empty pending queue needs no flush
						_ = okc
						if !okc {
							gated = false
						}
					}
					c.check(gated, fn, "read gate", in.Pos(), "the read is reached only when canRead() holds", "a path reaches the read without canRead() having been observed true: frames are read after the stream was closed or before it was opened")
				}
			}
		}
		// EOF -> terminated + 1006
		abnormal, _ := constantInt(p.Const("codec/websocket", "CloseAbnormal"))
		eofVar := p.extPkg("io").Scope().Lookup("EOF").(*types.Var)
		for _, top := range append([]*ssa.Function{w.nextFrame}, w.asyncNextFrame.AnonFuncs...) {
			// the post-processing of a read may live in a helper both readers share: analysed there
			fn := top
			hasTerm := func(g *ssa.Function) bool {
				for _, a := range storesTo(g, w.state) {
					if k, ok := constInt(a.Instr.(*ssa.Store).Val); ok && k == w.stTerm {
						return true
					}
				}
				return false
			}
			if !hasTerm(fn) {
				for _, call := range allCalls(top) {
					if h := call.Call.StaticCallee(); isHelperOf(w.nextFrame, h) && hasTerm(h) {
						fn = h
					}
				}
			}
			found := false
			for _, a := range storesTo(fn, w.state) {
				st := a.Instr.(*ssa.Store)
				if k, ok := constInt(st.Val); !ok || k != w.stTerm {
					continue
				}
				isEOF := false
				for _, l := range guardsOf(st.Block()) {
					op, x, y, ok := l.cmp()
					if ok && op == token.EQL && (isLoadOfGlobal(x, eofVar) || isLoadOfGlobal(y, eofVar)) {
						isEOF = true
					}
				}
				if !isEOF {
					continue
				}
				has1006 := false
				for _, b := range fn.Blocks {
					if !st.Block().Dominates(b) {
						continue
					}
					for _, in := range b.Instrs {
						if doesDeep(in, func(x ssa.Instruction) bool {
							call, ok := x.(*ssa.Call)
							return ok && isCallToFn(call, w.encodeClosePayload) && isConstInt(call.Call.Args[0], abnormal)
						}) {
							has1006 = true
						}
					}
				}
				found = true
				c.check(has1006, fn, "transport EOF", st.Pos(), "EOF terminates the stream and yields a Close frame with status 1006", "on transport EOF the frame handed to the reader is not a Close frame built from CloseAbnormal (1006)")
				// the branch must be taken in every state in which frames are read (Active and ClosedByUs)
				al := allowedStates(st.Block(), w.state, nStates)
				c.check(al[w.stActive] && al[w.stByUs], fn, "transport EOF states", st.Pos(), "taken from every state in which reads are allowed", "transport EOF is surfaced as an abnormal closure only in states "+w.names(al)+": after a local Close (ClosedByUs) an EOF before the peer's reply leaves the stream half-closed forever and hands the reader a nil frame")
			}
			if !found {
				c.bad(fn, "transport EOF", fn.Pos(), "transport EOF no longer moves the stream to StateTerminated")
			}
		}
		// the stream recognises the end of the transport by comparing with io.EOF: the layer in between (CodecConn) must hand
		// the transport's read error on as it is
		{
			bbReadFrom := p.Method("sonic", "ByteBuffer", "ReadFrom")
			bbAsyncReadFrom := p.Method("sonic", "ByteBuffer", "AsyncReadFrom")
			nPass := 0
			for _, fn := range p.Funcs {
				if fn.Parent() != nil {
					continue
				}
				if pk, tn := recvTypeName(fn); pk+"."+tn != modPath+".CodecConn" {
					continue
				}
				// by content, not by name: the blocking read loop and the function that starts the asynchronous read (which
				// may be a helper split off AsyncReadNext)
				{
					for _, rc := range callsToFn(fn, bbReadFrom) {
						errv := extractOfInstr(rc.(ssa.Instruction), 1)
						if errv == nil {
							continue
						}
						for _, r := range returnsOf(fn) {
							for _, l := range guardsOf(r.Block()) {
								if x, eq, ok := l.nilTest(); ok && !eq && strip(x) == errv {
									nPass++
									c.check(strip(r.Results[len(r.Results)-1]) == errv, fn, "transport error unchanged", exitPos(r), "the error of the failed read is returned as it is", "ReadNext reports a failed transport read with another error value than the one the transport returned: the stream above recognises the end of the transport by err == io.EOF, so a converted error leaves it active with no 1006 close surfaced")
								}
							}
						}
					}
					for _, rc := range callsToFn(fn, bbAsyncReadFrom) {
						mc, ok := strip(rc.Common().Args[len(rc.Common().Args)-1]).(*ssa.MakeClosure)
						if !ok {
							continue
						}
						cf := mc.Fn.(*ssa.Function)
						if len(cf.Params) == 0 {
							continue
						}
						errp := ssa.Value(cf.Params[0])
						eachInstr(cf, func(in ssa.Instruction) {
							call, ok := in.(ssa.CallInstruction)
							if !ok || !isDynamicFuncCall(call) || len(call.Common().Args) == 0 {
								return
							}
							for _, l := range guardsOf(in.Block()) {
								if x, eq, ok := l.nilTest(); ok && !eq && strip(x) == errp {
									nPass++
									c.check(strip(call.Common().Args[0]) == errp, fn, "transport error unchanged", in.Pos(), "the error of the failed read is handed to the callback as it is", "AsyncReadNext completes a failed transport read with another error value than the one the transport reported: the stream above recognises the end of the transport by err == io.EOF, so a converted error leaves it active with no 1006 close surfaced")
								}
							}
						})
					}
				}
			}
			if nPass < 2 {
				c.bad(w.nextFrame, "transport error unchanged", w.nextFrame.Pos(), "the error paths of CodecConn.ReadNext / AsyncReadNext were not found (anchor moved): %d", nPass)
			}
		}
		// FIFO of pendingFrames
		for _, fn := range fns {
			for _, a := range fieldAccesses(fn, w.pendingFrames) {
				if a.Kind == "store" {
					v := strip(a.Val)
					okStore := false
					why := "unrecognised update of the pending queue"
					switch x := v.(type) {
					case *ssa.Call:
						if isAppendOf(x) && loadOfField(x.Call.Args[0], w.pendingFrames) {
							okStore = true
						} else {
							why = "frames are not appended at the tail of the pending queue"
						}
					case *ssa.Slice:
						if loadOfField(x.X, w.pendingFrames) && x.High == nil {
							okStore = true // drop from the head
						} else if loadOfField(x.X, w.pendingFrames) && isConstInt(x.High, 0) && x.Low == nil {
							okStore = true // reset
						} else {
							why = "the pending queue is not consumed from its head"
						}
					}
					c.check(okStore, fn, "pendingFrames update", a.Instr.Pos(), "tail append / head drop", why+": frames would reach the wire out of submission order")
				}
			}
			eachInstr(fn, func(in ssa.Instruction) {
				ia, ok := in.(*ssa.IndexAddr)
				if !ok || !loadOfField(ia.X, w.pendingFrames) {
					return
				}
				okIdx := isConstInt(ia.Index, 0) || increasingIndex(ia.Index) || isLoopCounterFromZero(ia.Index)
				c.check(okIdx, fn, "pendingFrames index", in.Pos(), "frames are taken from the head, in order", "a pending frame other than the oldest is taken first")
			})
		}
	}
}

// isLoopCounterFromZero: phi [0, phi+1].
func isLoopCounterFromZero(v ssa.Value) bool {
	ph, ok := stripConv(v).(*ssa.Phi)
	if !ok {
		return false
	}
	zero, inc := false, false
	for _, e := range ph.Edges {
		if isConstInt(e, 0) {
			zero = true
			continue
		}
		if bo, ok := stripConv(e).(*ssa.BinOp); ok && bo.Op == token.ADD && stripConv(bo.X) == ssa.Value(ph) && isConstInt(bo.Y, 1) {
			inc = true
		}
	}
	return zero && inc
}
