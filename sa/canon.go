package main

import (
	"fmt"
	"go/token"
	"go/types"
	"sort"
	"strings"

	"golang.org/x/tools/go/ssa"
)

// Canonical operand order. go/ssa keeps the operands of a binary operation in source order, so `a < b` and `b > a`
// (or `x + y` and `y + x`) are different instructions although they mean the same. Every rule that looks at a
// comparison or at commutative arithmetic would have to try both spellings; instead the loaded program is normalised
// once: the operands of comparisons and of commutative integer operators are put into an order that depends only on
// what the operands are (constants and package-level values last, then a structural rendering), not on how the
// programmer happened to write them. The rules are written against this order.

// canonKey renders a value structurally (no register names where it can be avoided).
func canonKey(v ssa.Value, depth int) string {
	v = stripConv(v)
	if depth > 6 {
		return "~"
	}
	switch x := v.(type) {
	case *ssa.Const:
		if x.Value == nil {
			return "9nil"
		}
		return "9" + x.Value.ExactString()
	case *ssa.Global:
		return "8" + x.Name()
	case *ssa.Parameter:
		return "1$" + x.Name()
	case *ssa.FreeVar:
		return "1^" + x.Name()
	case *ssa.UnOp:
		if x.Op == token.MUL {
			if g, ok := x.X.(*ssa.Global); ok {
				return "8" + g.Name()
			}
			if f := loadedField(x); f != nil {
				return "3." + pinFieldName(f)
			}
			return "3*" + canonKey(x.X, depth+1)
		}
		return "4" + x.Op.String() + canonKey(x.X, depth+1)
	case *ssa.Alloc:
		return "2&" + x.Comment
	case *ssa.FieldAddr:
		return "3&" + canonKey(x.X, depth+1) + fmt.Sprint(x.Field)
	case *ssa.Call:
		name := "call"
		if callee := x.Call.StaticCallee(); callee != nil {
			name = pinName(callee)
		} else if b, ok := x.Call.Value.(*ssa.Builtin); ok {
			name = b.Name()
		} else if x.Call.IsInvoke() {
			name = x.Call.Method.Name()
		}
		var as []string
		for _, a := range x.Call.Args {
			as = append(as, canonKey(a, depth+1))
		}
		return "5" + name + "(" + strings.Join(as, ",") + ")"
	case *ssa.Extract:
		return "5" + canonKey(x.Tuple, depth+1) + "#" + fmt.Sprint(x.Index)
	case *ssa.BinOp:
		return "6(" + canonKey(x.X, depth+1) + x.Op.String() + canonKey(x.Y, depth+1) + ")"
	case *ssa.Phi:
		var es []string
		for _, e := range x.Edges {
			if stripConv(e) == v {
				continue
			}
			es = append(es, canonKey(e, depth+2))
		}
		sort.Strings(es)
		return "7phi[" + strings.Join(es, "|") + "]"
	case *ssa.Lookup, *ssa.Index, *ssa.IndexAddr, *ssa.Slice:
		return "6" + fmt.Sprintf("%T", x)
	}
	return "6" + fmt.Sprintf("%T", v)
}

func isIntegerType(t types.Type) bool {
	b, ok := t.Underlying().(*types.Basic)
	return ok && b.Info()&types.IsInteger != 0
}

// canonicaliseOperands rewrites, in place, the operand order of every comparison and every commutative integer operation
// of fn. Returns the number of instructions changed.
func canonicaliseOperands(fn *ssa.Function) int {
	n := 0
	for _, b := range fn.Blocks {
		for _, in := range b.Instrs {
			bo, ok := in.(*ssa.BinOp)
			if !ok {
				continue
			}
			var mirrored token.Token
			switch bo.Op {
			case token.EQL, token.NEQ:
				mirrored = bo.Op
			case token.LSS:
				mirrored = token.GTR
			case token.GTR:
				mirrored = token.LSS
			case token.LEQ:
				mirrored = token.GEQ
			case token.GEQ:
				mirrored = token.LEQ
			case token.ADD, token.MUL, token.AND, token.OR, token.XOR:
				if !isIntegerType(bo.X.Type()) || !isIntegerType(bo.Y.Type()) {
					continue // string concatenation, floats
				}
				mirrored = bo.Op
			default:
				continue
			}
			kx, ky := canonKey(bo.X, 0), canonKey(bo.Y, 0)
			if kx > ky {
				bo.X, bo.Y = bo.Y, bo.X
				bo.Op = mirrored
				n++
			}
		}
	}
	return n
}

// operandsWhere returns the operands of a commutative binary operation ordered so that pred holds for the first one.
func operandsWhere(bo *ssa.BinOp, pred func(ssa.Value) bool) (a, b ssa.Value, ok bool) {
	switch {
	case pred(bo.X):
		return bo.X, bo.Y, true
	case pred(bo.Y):
		return bo.Y, bo.X, true
	}
	return nil, nil, false
}

// cmpWhere orients a comparison literal so that pred holds for the left operand (mirroring the operator).
func (l Lit) cmpWhere(pred func(ssa.Value) bool) (token.Token, ssa.Value, ssa.Value, bool) {
	op, x, y, ok := l.cmp()
	if !ok {
		return op, x, y, false
	}
	switch {
	case pred(x):
		return op, x, y, true
	case pred(y):
		return mirrorOp(op), y, x, true
	}
	return op, x, y, false
}

// binCmpWhere is cmpWhere for a comparison instruction.
func binCmpWhere(bo *ssa.BinOp, pred func(ssa.Value) bool) (token.Token, ssa.Value, ssa.Value, bool) {
	switch {
	case pred(bo.X):
		return bo.Op, bo.X, bo.Y, true
	case pred(bo.Y):
		return mirrorOp(bo.Op), bo.Y, bo.X, true
	}
	return bo.Op, bo.X, bo.Y, false
}

// incrementOf: v is `load(f) + amount` in either operand order; returns the amount.
func incrementOf(v ssa.Value, f *types.Var) (ssa.Value, bool) {
	bo, ok := stripConv(v).(*ssa.BinOp)
	if !ok || bo.Op != token.ADD {
		return nil, false
	}
	switch {
	case loadOfField(bo.X, f):
		return bo.Y, true
	case loadOfField(bo.Y, f):
		return bo.X, true
	}
	return nil, false
}

// wrappedCall: when call invokes an unexported single-block helper of the same package whose body only forwards to one
// other call and returns its result (`func (s *T) lowerBound(x int) int { return sort.Search(...) }`), the forwarded
// call is returned together with a function translating the helper's parameters to the arguments of the outer call.
func wrappedCall(call *ssa.Call) (*ssa.Call, func(ssa.Value) ssa.Value, bool) {
	h := call.Call.StaticCallee()
	if h == nil || h.Blocks == nil || h.Object() == nil || h.Object().Exported() || len(h.Blocks) != 1 {
		return nil, nil, false
	}
	var inner *ssa.Call
	for _, in := range h.Blocks[0].Instrs {
		switch x := in.(type) {
		case *ssa.Call:
			if _, isB := x.Call.Value.(*ssa.Builtin); isB {
				continue // len(...) computed for an argument
			}
			if inner != nil {
				return nil, nil, false
			}
			inner = x
		case *ssa.Return:
			if inner == nil || len(x.Results) != 1 || stripConv(x.Results[0]) != ssa.Value(inner) {
				return nil, nil, false
			}
		case *ssa.Store:
			if _, isLocal := x.Addr.(*ssa.Alloc); !isLocal {
				return nil, nil, false // (a parameter captured by a closure is spilled into a local cell: fine)
			}
		case *ssa.MapUpdate, *ssa.Send, *ssa.Go, *ssa.Defer:
			return nil, nil, false
		}
	}
	if inner == nil {
		return nil, nil, false
	}
	tr := func(v ssa.Value) ssa.Value {
		if q, ok := stripConv(v).(*ssa.Parameter); ok {
			for i, hp := range h.Params {
				if hp == q && i < len(call.Call.Args) {
					return call.Call.Args[i]
				}
			}
		}
		return v
	}
	return inner, tr, true
}

// callTo: v is a call of fn, directly or through a forwarding helper (wrappedCall); returns the call whose arguments
// are meaningful and the translation of its arguments into the caller's frame.
func callTo(v ssa.Value, is func(*ssa.Call) bool) (*ssa.Call, func(ssa.Value) ssa.Value, bool) {
	call, ok := stripConv(v).(*ssa.Call)
	if !ok {
		return nil, nil, false
	}
	if is(call) {
		return call, func(x ssa.Value) ssa.Value { return x }, true
	}
	if inner, tr, ok := wrappedCall(call); ok && is(inner) {
		return inner, tr, true
	}
	return nil, nil, false
}
