package main

import (
	"fmt"
	"go/token"
	"go/types"

	"golang.org/x/tools/go/ssa"
)

func init() {
	register(&propertySpec{
		ID:    "C16",
		Title: "Every frame the WebSocket client writes is well-formed and correctly masked",
		Explanation: "Decides: (R1) masking - the pending queue is appended only in prepareWrite; on every path of prepareWrite with role==RoleClient MaskPayload " +
			"runs before the append; MaskPayload sets the mask bit before locating mask and payload, generates the key into f.Mask() and masks f.Payload() " +
			"with that same key; frames reach the codec connection only from Flush/AsyncFlush and only from the pending queue; (R2) the shortest length " +
			"encoding table of setPayloadLength (shared with C07-R3); (R3) bytes written = header + declared payload - Frame.WriteTo trims the slice to " +
			"payloadOffset()+PayloadLength() when it is longer, SetPayload sets the length before computing the offset and resizes the frame to offset+len(b), " +
			"AcquireFrame resets pooled frames (Reset on release) and reserves the mask for clients; (R4) refusal before any effect - in Write/AsyncWrite " +
			"the len(b) > maxMessageSize test dominates AcquireFrame and prepareWrite; (R5) Encode reserves space, commits what WriteTo reported and drops it on error. " +
			"Not decided: unmask(wire) == caller bytes as values; partial transport writes (count discipline is C02/C19).",
		Run: runC16,
	})
	addMutants("C16",
		mutant{"extended length written into a short pooled frame", "codec/websocket/frame.go",
			"\tif len(*f) < frameMaxHeaderLength {\n\t\t*f = util.ExtendSlice(*f, frameMaxHeaderLength)\n\t}\n\n", "", "C16-R3"},
		mutant{"client frames not masked", "codec/websocket/stream.go",
			"\tif s.role == RoleClient {\n\t\tf.MaskPayload()\n\t}\n\ts.pendingFrames = append(s.pendingFrames, f)", "\ts.pendingFrames = append(s.pendingFrames, f)", "C16-R1"},
		mutant{"masked after queuing is skipped for servers only check inverted", "codec/websocket/stream.go",
			"\tif s.role == RoleClient {\n\t\tf.MaskPayload()\n\t}", "\tif s.role != RoleClient {\n\t\tf.MaskPayload()\n\t}", "C16-R1"},
		mutant{"mask key generated after masking", "codec/websocket/frame.go",
			"\t\tGenMask(mask)\n\t\tMask(mask, payload)", "\t\tMask(mask, payload)\n\t\tGenMask(mask)", "C16-R1"},
		mutant{"payload located before the mask bit is set", "codec/websocket/frame.go",
			"func (f *Frame) MaskPayload() {\n\tf.SetIsMasked()\n\n\tvar (\n\t\tmask    = f.Mask()\n\t\tpayload = f.Payload()\n\t)\n",
			"func (f *Frame) MaskPayload() {\n\tvar (\n\t\tmask    = f.Mask()\n\t\tpayload = f.Payload()\n\t)\n\tf.SetIsMasked()\n", "C16-R1"},
		mutant{"frame bypasses the pending queue", "codec/websocket/stream.go",
			"\tif s.state == StateActive {\n\t\ts.prepareWrite(f)\n\t\treturn s.Flush()\n\t} else {", "\tif s.state == StateActive {\n\t\t_, err := s.codecConn.WriteNext(*f)\n\t\treturn err\n\t} else {", "C16-R1"},
		mutant{"trailing bytes written", "codec/websocket/frame.go",
			"\tif end := f.payloadOffset() + f.PayloadLength(); end >= 0 && end < len(f) {\n\t\tf = f[:end]\n\t}\n", "", "C16-R3"},
		mutant{"only never-resized frames are trimmed", "codec/websocket/frame.go",
			"\tif end := f.payloadOffset() + f.PayloadLength(); end >= 0 && end < len(f) {\n\t\tf = f[:end]\n\t}", "\tif len(f) <= frameMaxHeaderLength {\n\t\tif end := f.payloadOffset() + f.PayloadLength(); end >= 0 && end < len(f) {\n\t\t\tf = f[:end]\n\t\t}\n\t}", "C16-R3"},
		mutant{"frame trimmed to the payload only", "codec/websocket/frame.go",
			"\tif end := f.payloadOffset() + f.PayloadLength(); end >= 0 && end < len(f) {", "\tif end := f.PayloadLength(); end >= 0 && end < len(f) {", "C16-R3"},
		mutant{"offset computed before the length is set", "codec/websocket/frame.go",
			"\tf.setPayloadLength(len(b)) // set the length as it's used by `payloadOffset`.\n\n\t*f = util.ExtendSlice(*f, f.payloadOffset()+len(b))", "\t*f = util.ExtendSlice(*f, f.payloadOffset()+len(b))\n\tf.setPayloadLength(len(b)) // set the length as it's used by `payloadOffset`.\n", "C16-R3"},
		mutant{"pooled frames keep their old header", "codec/websocket/stream.go",
			"func (s *Stream) releaseFrame(f *Frame) {\n\tf.Reset()\n", "func (s *Stream) releaseFrame(f *Frame) {\n", "C16-R3"},
		mutant{"oversized message builds a frame first", "codec/websocket/stream.go",
			"func (s *Stream) AsyncWrite(b []byte, messageType MessageType, callback func(err error)) {\n\tif len(b) > s.maxMessageSize {\n\t\tcallback(ErrMessageTooBig)\n\t\treturn\n\t}\n\n\tif s.state == StateActive {\n\t\tf := s.AcquireFrame().\n\t\t\tSetFIN().\n\t\t\tSetOpcode(Opcode(messageType)).\n\t\t\tSetPayload(b)\n\t\ts.prepareWrite(f)",
			"func (s *Stream) AsyncWrite(b []byte, messageType MessageType, callback func(err error)) {\n\tif s.state == StateActive {\n\t\tf := s.AcquireFrame().\n\t\t\tSetFIN().\n\t\t\tSetOpcode(Opcode(messageType)).\n\t\t\tSetPayload(b)\n\t\ts.prepareWrite(f)\n\t\tif len(b) > s.maxMessageSize {\n\t\t\tcallback(ErrMessageTooBig)\n\t\t\treturn\n\t\t}", "C16-R4"},
		mutant{"encode commits nothing", "codec/websocket/frame_codec.go",
			"\tn, err := frame.WriteTo(dst)\n\tdst.Commit(int(n))", "\tn, err := frame.WriteTo(dst)", "C16-R5"},
		mutant{"client frames lose the mask reservation", "codec/websocket/stream.go",
			"\tif s.role == RoleClient {\n\t\t// This just reserves the 4 bytes needed for the mask in order to encode the payload correctly, since it follows\n\t\t// the mask in byte order. The actual mask is set after `f.SetPayload` in `prepareWrite`.\n\t\tf.SetIsMasked()\n\t}", "", "C16-R3"},
	)
}

func runC16(c *Ctx) {
	p := c.P
	ws := "codec/websocket"
	w := wsAnchor(p)
	fns := wsFuncs(p)
	fm := func(n string) *ssa.Function { return p.Method(ws, "Frame", n) }
	maskPayload, setIsMasked, maskM, payloadOffset, setPayloadLength, resetM, writeTo := fm("MaskPayload"), fm("SetIsMasked"), fm("Mask"), fm("payloadOffset"), fm("setPayloadLength"), fm("Reset"), fm("WriteTo")
	genMask, maskFn := p.Fn(ws, "GenMask"), p.Fn(ws, "Mask")
	roleClient, _ := constantInt(p.Const(ws, "RoleClient"))
	acquire := p.Method(ws, "Stream", "AcquireFrame")
	release := p.Method(ws, "Stream", "releaseFrame")

	// ------------------------------------------------------------------------------------------------ R1
	c.rule("C16-R1", "masking: queue appended only in prepareWrite, after MaskPayload when the role is client; MaskPayload uses one key for f.Mask() and the payload, bit set first; the codec connection is fed only from the queue by Flush/AsyncFlush", 5)
	for _, fn := range fns {
		for _, a := range storesTo(fn, w.pendingFrames) {
			if isAppendOf(a.Val) {
				c.check(fn == w.prepareWrite, fn, "append pending", a.Instr.Pos(), "frames are queued by prepareWrite only", "a frame is appended to the pending queue outside prepareWrite, bypassing client masking")
			}
		}
	}
	{
		fn := w.prepareWrite
		paths, _ := enumPaths(fn)
		good, n := true, 0
		for _, path := range paths {
			client := false
			for _, l := range path.Lits {
				if k, eq, ok := enumTest(l.Lit, w.role); ok && ((eq && k == roleClient) || (!eq && k != roleClient)) {
					client = true
				}
			}
			masked := false
			appended := false
			for _, in := range path.Instrs() {
				if isCallToFn(in, maskPayload) {
					masked = true
				}
				if st, ok := in.(*ssa.Store); ok {
					if fv, _ := fieldAddrOf(st.Addr); fv == w.pendingFrames && isAppendOf(st.Val) {
						appended = true
						if client && !masked {
							good = false
						}
					}
				}
			}
			if client {
				n++
			}
			if !appended {
				good = false
			}
		}
		c.check(good && n > 0, fn, "mask before queue", fn.Pos(), "client frames are masked before they are queued", "a frame can be queued by a client without MaskPayload having run (or prepareWrite does not queue it): unmasked client frames reach the wire")
	}
	{
		fn := maskPayload
		var setBit, maskCall, payloadCall, gen, msk ssa.Instruction
		// GenMask / Mask may sit in a helper that receives the key and the payload (applyFreshMask(f.Mask(), f.Payload())):
		// their arguments are read with the helper's parameters bound to what MaskPayload passes
		var genKey, mskKey, mskPayload ssa.Value
		eachInstrDeep(fn, func(in, _ ssa.Instruction, tr func(ssa.Value) ssa.Value) {
			switch {
			case isCallToFn(in, setIsMasked) && in.Parent() == fn:
				setBit = in
			case isCallToFn(in, maskM) && in.Parent() == fn:
				maskCall = in
			case isCallToFn(in, w.payloadM) && in.Parent() == fn:
				payloadCall = in
			case isCallToFn(in, genMask):
				gen = in
				genKey = stripConv(tr(in.(*ssa.Call).Call.Args[0]))
			case isCallToFn(in, maskFn):
				msk = in
				mskKey = stripConv(tr(in.(*ssa.Call).Call.Args[0]))
				mskPayload = stripConv(tr(in.(*ssa.Call).Call.Args[1]))
			}
		})
		good := setBit != nil && maskCall != nil && payloadCall != nil && gen != nil && msk != nil
		why := "MaskPayload lacks one of SetIsMasked / Mask() / Payload() / GenMask / Mask"
		if good {
			switch {
			case !dominatesInstr(setBit, maskCall) || !dominatesInstr(setBit, payloadCall):
				good, why = false, "mask and payload are located before the mask bit is set: their offsets are 4 bytes off"
			case gen.Parent() != msk.Parent() || !dominatesInstr(gen, msk):
				good, why = false, "the payload is masked before the key is generated: the key on the wire is not the one used"
			case genKey != ssa.Value(maskCall.(*ssa.Call)) || mskKey != ssa.Value(maskCall.(*ssa.Call)):
				good, why = false, "GenMask and Mask do not operate on the same f.Mask() bytes"
			case mskPayload != ssa.Value(payloadCall.(*ssa.Call)):
				good, why = false, "Mask is not applied to f.Payload()"
			}
		}
		c.check(good, fn, "mask protocol", fn.Pos(), "bit set, key generated into the frame, payload masked with that key", why)
		// the masking is skipped for an empty payload only
		if msk != nil && payloadCall != nil {
			okGuard := true
			for _, l := range guardsOf(msk.Block()) {
				op, x, y, isCmp := l.cmp()
				lenOfPayload := func(v ssa.Value) bool {
					lc, ok := stripConv(v).(*ssa.Call)
					if !ok {
						return false
					}
					b, ok := lc.Call.Value.(*ssa.Builtin)
					if !ok || b.Name() != "len" {
						return false
					}
					arg := stripConv(lc.Call.Args[0])
					if arg == ssa.Value(payloadCall.(*ssa.Call)) {
						return true
					}
					// in the helper: the parameter that Mask receives as the payload
					return msk.Parent() != fn && arg == stripConv(msk.(*ssa.Call).Call.Args[1])
				}
				switch {
				case isCmp && lenOfPayload(x) && isConstInt(y, 0) && (op == token.GTR || op == token.NEQ || op == token.GEQ):
				case isCmp && lenOfPayload(x) && isConstInt(y, 1) && op == token.GEQ:
				case isCmp && lenOfPayload(y) && isConstInt(x, 0) && (op == token.LSS || op == token.NEQ || op == token.LEQ):
				default:
					okGuard = false
				}
			}
			c.check(okGuard, fn, "mask guard", msk.Pos(), "the payload is masked whenever it is not empty", "Mask(key, payload) runs under a condition other than len(payload) > 0: a non-empty payload leaves the client unmasked although the mask bit and a key are on the wire - the peer's unmasking garbles it")
		}
	}
	// the header accessors: Reset zeroes the whole header; SetOpcode replaces the opcode bits (a frame object is reused);
	// each named setter / predicate uses the opcode of its name
	{
		fm := func(n string) *ssa.Function { return p.TryMethod(ws, "Frame", n) }
		// Reset
		{
			zeroed := false
			why := "Frame.Reset does not overwrite the header"
			eachInstr(resetM, func(in ssa.Instruction) {
				call, ok := in.(*ssa.Call)
				if !ok {
					return
				}
				b, isB := call.Call.Value.(*ssa.Builtin)
				if !isB {
					return
				}
				switch b.Name() {
				case "clear":
					zeroed = true
				case "copy":
					// from a package-level array that is only ever stored zeroes
					src := strip(call.Call.Args[1])
					if sl, ok := src.(*ssa.Slice); ok {
						src = strip(sl.X)
					}
					g, isG := src.(*ssa.Global)
					if !isG {
						why = "Frame.Reset copies from something other than the package's zero array"
						return
					}
					allZero := true
					for _, fn := range p.Funcs {
						eachInstr(fn, func(x ssa.Instruction) {
							st, ok := x.(*ssa.Store)
							if !ok {
								return
							}
							root, _ := rootOfAddr(st.Addr)
							if root == ssa.Value(g) && !isConstInt(st.Val, 0) {
								allZero = false
							}
						})
					}
					arr, isArr := g.Type().(*types.Pointer).Elem().Underlying().(*types.Array)
					maxHdr, _ := constantInt(p.Const(ws, "frameMaxHeaderLength"))
					if allZero && isArr && arr.Len() >= maxHdr {
						zeroed = true
					} else {
						why = "the array Frame.Reset copies from is shorter than the header or is written with non-zero bytes"
					}
				}
			})
			c.check(zeroed, resetM, "reset zeroes the header", resetM.Pos(), "all header bytes are cleared", why+": a pooled frame keeps FIN/RSV/opcode/mask/length bits of its previous use")
		}
		// SetOpcode
		if so := fm("SetOpcode"); so != nil {
			elem0 := func(addr ssa.Value) bool {
				ia, ok := addr.(*ssa.IndexAddr)
				return ok && isConstInt(ia.Index, 0)
			}
			cleared, argMasked, ored := false, false, false
			eachInstrDeep(so, func(in, _ ssa.Instruction, tr func(ssa.Value) ssa.Value) {
				st, ok := in.(*ssa.Store)
				if !ok || !elem0(st.Addr) {
					return
				}
				bo, ok := stripConv(st.Val).(*ssa.BinOp)
				if !ok {
					return
				}
				switch bo.Op {
				case token.AND:
					if isConstInt(bo.Y, 0xF0) || isConstInt(bo.X, 0xF0) {
						cleared = true
					}
				case token.OR:
					ored = true
					for _, side := range []ssa.Value{bo.X, bo.Y} {
						if a, ok := stripConv(side).(*ssa.BinOp); ok && a.Op == token.AND && (isConstInt(a.Y, 0x0F) || isConstInt(a.X, 0x0F)) {
							argMasked = true
						}
						if a, ok := stripConv(side).(*ssa.BinOp); ok && a.Op == token.AND && (isConstInt(a.Y, 0xF0) || isConstInt(a.X, 0xF0)) {
							cleared = true
						}
					}
				}
			})
			c.check(cleared && ored && argMasked, so, "opcode replaced", so.Pos(), "old opcode bits cleared, new opcode limited to four bits", fmt.Sprintf("SetOpcode does not replace the opcode bits (clears the old ones=%v, limits the new one to the low four bits=%v): on a reused frame the old and the new opcode are or-ed together, or an out-of-range opcode overwrites FIN/RSV", cleared, argMasked))
		}
		// named setters and predicates
		nTab := 0
		for _, name := range []string{"Continuation", "Text", "Binary", "Close", "Ping", "Pong"} {
			k, okK := constantInt(p.Const(ws, "Opcode"+name))
			if !okK {
				continue
			}
			if set := fm("Set" + name); set != nil {
				nTab++
				good := false
				for _, call := range allCalls(set) {
					if h := call.Call.StaticCallee(); h != nil && pinName(h) == "SetOpcode" && isConstInt(call.Call.Args[len(call.Call.Args)-1], k) {
						good = true
					}
				}
				c.check(good, set, "opcode setter", set.Pos(), "sets Opcode"+name, "Set"+name+" does not set the opcode Opcode"+name+": a frame built with it goes out with another opcode")
			}
		}
		if nTab < 6 {
			c.bad(resetM, "opcode setter", resetM.Pos(), "the opcode setters of Frame were not found (anchor moved): %d", nTab)
		}
	}
	{
		// who feeds the codec connection
		for _, fn := range fns {
			for _, name := range []string{"WriteNext", "AsyncWriteNext"} {
				for _, call := range callsByName(fn, name) {
					okCaller := fn == w.flush || fn == w.asyncFlush
					item := call.Common().Args[1]
					fromQueue := false
					if u, ok := strip(item).(*ssa.UnOp); ok && u.Op == token.MUL {
						// *frame where frame = pendingFrames[i]
						if u2, ok := resolveCell(u.X).(*ssa.UnOp); ok && u2.Op == token.MUL {
							if ia, ok := u2.X.(*ssa.IndexAddr); ok && loadOfField(ia.X, w.pendingFrames) {
								fromQueue = true
							}
						}
					}
					c.check(okCaller && fromQueue, fn, name, call.Pos(), "frames go to the codec connection from the pending queue only", "a frame is handed to the codec connection outside Flush/AsyncFlush or not from the pending queue: it skips masking and ordering")
				}
			}
		}
	}

	// ------------------------------------------------------------------------------------------------ R2
	c.rule("C16-R2", "shortest legal length encoding (thresholds 125 / 65535, codes 126 / 127, offset 2)", 3)
	checkLengthTables(c, "C16")

	// ------------------------------------------------------------------------------------------------ R3
	c.rule("C16-R3", "bytes written = header + declared payload: WriteTo trims, SetPayload sets length before offset and resizes, pooled frames are reset, clients reserve the mask; header writes stay inside the slice", 6)
	{
		fn := writeTo
		// the value written is phi[f, f[:end]] with end = payloadOffset()+PayloadLength(), trimmed under end < len(f)
		good := false
		why := "Frame.WriteTo writes the whole slice instead of header + declared payload"
		eachInstr(fn, func(in ssa.Instruction) {
			sl, ok := in.(*ssa.Slice)
			if !ok || sl.High == nil || sl.Low != nil {
				return
			}
			if stripConv(sl.X) != ssa.Value(fn.Params[0]) {
				return
			}
			sum := leafSummary(additiveLeaves(sl.High))
			if sum != "PayloadLength()+payloadOffset()" {
				why = "Frame.WriteTo trims the frame to " + sum + ", expected payloadOffset()+PayloadLength()"
				return
			}
			lt := false
			for _, l := range guardsOf(in.Block()) {
				op, x, y, ok := l.cmpWith(sl.High)
				if ok && op == token.LSS && stripConv(x) == stripConv(sl.High) {
					if lc, ok := stripConv(y).(*ssa.Call); ok {
						if b, ok := lc.Call.Value.(*ssa.Builtin); ok && b.Name() == "len" {
							lt = true
						}
					}
				}
			}
			if !lt {
				why = "the trim in Frame.WriteTo is not guarded by end < len(f)"
				return
			}
			// ... and by nothing else: every frame longer than header + payload must be trimmed
			for _, l := range guardsOf(in.Block()) {
				_, x, y, ok := l.cmp()
				if !ok || (stripConv(x) != stripConv(sl.High) && stripConv(y) != stripConv(sl.High)) {
					why = "the trim in Frame.WriteTo only happens under an additional condition unrelated to the frame's end (pooled frames keep the length of their previous use)"
					return
				}
			}
			// the trimmed value must be what the write loop slices
			used := false
			eachInstr(fn, func(x ssa.Instruction) {
				s2, ok := x.(*ssa.Slice)
				if !ok || s2 == sl {
					return
				}
				for _, leaf := range phiLeaves(s2.X) {
					if leaf == ssa.Value(sl) {
						used = true
					}
				}
			})
			if used {
				good = true
			} else {
				why = "the trimmed frame is not the value that is written"
			}
		})
		c.check(good, fn, "trim", fn.Pos(), "only header + declared payload are written", why+": bytes left over from the allocation or an earlier, longer frame follow the frame on the wire")
	}
	{
		fn := w.setPayload
		var setLen ssa.Instruction
		eachInstr(fn, func(in ssa.Instruction) {
			if isCallToFn(in, setPayloadLength) {
				setLen = in
			}
		})
		good := false
		why := "SetPayload does not resize the frame to payloadOffset()+len(b)"
		eachInstr(fn, func(in ssa.Instruction) {
			call, ok := in.(*ssa.Call)
			if !ok || call.Call.StaticCallee() == nil || call.Call.StaticCallee().Name() != "ExtendSlice" && !hasPrefix(call.Call.StaticCallee().Name(), "ExtendSlice") {
				return
			}
			sum := leafSummary(additiveLeaves(call.Call.Args[1]))
			if sum != "len()+payloadOffset()" {
				why = "SetPayload resizes the frame to " + sum
				return
			}
			// payloadOffset must be evaluated after the length has been set
			var off ssa.Instruction
			for _, l := range additiveLeaves(call.Call.Args[1]) {
				if oc, ok := l.v.(*ssa.Call); ok && isCallToFn(oc, payloadOffset) {
					off = oc
				}
			}
			if setLen == nil || off == nil || !dominatesInstr(setLen, off) {
				why = "SetPayload computes the payload offset before the length encoding is set: the offset misses the extended length bytes"
				return
			}
			// the result is stored back into *f
			stored := false
			eachInstr(fn, func(x ssa.Instruction) {
				if st, ok := x.(*ssa.Store); ok && st.Addr == ssa.Value(fn.Params[0]) && stripConv(st.Val) == ssa.Value(call) {
					stored = true
				}
			})
			if stored {
				good = true
			}
		})
		c.check(good, fn, "resize", fn.Pos(), "length set, then frame resized to offset + len(b)", why)
	}
	{
		hasReset := len(callsToFn(release, resetM)) > 0
		c.check(hasReset, release, "reset on release", release.Pos(), "pooled frames are zeroed before reuse", "frames are returned to the pool without Reset(): a reused frame keeps FIN/RSV/opcode/mask/length bits of its previous use")
		good := false
		for _, call := range callsToFn(acquire, setIsMasked) {
			for _, l := range guardsOf(call.(ssa.Instruction).Block()) {
				if k, eq, ok := enumTest(l, w.role); ok && eq && k == roleClient {
					good = true
				}
			}
		}
		c.check(good, acquire, "reserve mask", acquire.Pos(), "client frames reserve the 4 mask bytes before the payload is laid out", "AcquireFrame does not set the mask bit for clients before SetPayload lays out the payload: masking later shifts the payload by 4 bytes")
	}

	// ------------------------------------------------------------------------------------------------ R4
	// the header writes of setPayloadLength stay inside the slice: a pooled frame keeps the (possibly shorter) length of its
	// previous use, so the slice is first made at least frameMaxHeaderLength long (or the write is guarded by its length)
	{
		extend := p.Fn("util", "ExtendSlice")
		hdrMax, _ := constantInt(p.Const(ws, "frameMaxHeaderLength"))
		n := 0
		eachInstr(setPayloadLength, func(in ssa.Instruction) {
			call, ok := in.(*ssa.Call)
			if !ok {
				return
			}
			o := calleeObj(call)
			if o == nil || o.Pkg() == nil || o.Pkg().Path() != "encoding/binary" || (o.Name() != "PutUint64" && o.Name() != "PutUint16") {
				return
			}
			n++
			need := int64(4) // PutUint16 into f[2:]
			if o.Name() == "PutUint64" {
				need = 10
			}
			roomy := false
			eachInstr(setPayloadLength, func(x ssa.Instruction) {
				ec, ok := x.(*ssa.Call)
				if !ok || ec.Call.StaticCallee() == nil || ec.Call.StaticCallee().Origin() != extend && ec.Call.StaticCallee() != extend {
					return
				}
				if k, isK := constInt(ec.Call.Args[1]); isK && k >= need && k <= hdrMax {
					// the extension runs whenever the frame is shorter: reaching the write without it implies len >= k
					if !reachableAvoiding(in, func(y ssa.Instruction) bool { return y == x }) {
						roomy = true
						return
					}
					for _, l := range guardsOf(x.Block()) {
						if op, a, b, ok := l.cmp(); ok {
							isLen := func(v ssa.Value) bool {
								lc, ok := stripConv(v).(*ssa.Call)
								if !ok {
									return false
								}
								bi, ok := lc.Call.Value.(*ssa.Builtin)
								return ok && bi.Name() == "len"
							}
							if (isLen(a) && op == token.LSS && isConstInt(b, k)) || (isLen(b) && op == token.GTR && isConstInt(a, k)) {
								roomy = true
							}
						}
					}
				}
			})
			c.check(roomy, setPayloadLength, "header room", in.Pos(), "the slice is made header-sized before the extended length is written", "the extended payload length is written into a frame whose slice may be shorter than the header (a pooled frame last used for a short message): Write panics with an index out of range for a 16-bit or 64-bit length")
		})
		if n == 0 {
			c.bad(setPayloadLength, "header room", setPayloadLength.Pos(), "setPayloadLength writes no extended length (anchor moved)")
		}
	}

	c.rule("C16-R4", "a message above the configured maximum is refused before any frame is acquired or queued", 4)
	for _, name := range []string{"Write", "AsyncWrite"} {
		fn := p.Method(ws, "Stream", name)
		b := fn.Params[1]
		for _, dc := range deepCallsTo(fn, acquire, w.prepareWrite) {
			in := dc.Site
			good := false
			// the guard may sit in front of the call in Write/AsyncWrite or inside the helper that acquires and queues
			for _, blk := range []*ssa.BasicBlock{dc.Site.Block(), dc.Call.Block()} {
				for _, l := range guardsOf(blk) {
					op, y, x, ok := l.cmpWhere(func(v ssa.Value) bool { return loadOfField(v, w.maxMsg) })
					op = mirrorOp(op) // read as: x OP max
					if ok && op == token.LEQ && loadOfField(y, w.maxMsg) {
						if lc, ok := stripConv(x).(*ssa.Call); ok {
							if bi, ok := lc.Call.Value.(*ssa.Builtin); ok && bi.Name() == "len" && resolveCell(dc.translate(resolveCell(lc.Call.Args[0]))) == ssa.Value(b) {
								good = true
							}
						}
					}
				}
			}
			c.check(good, fn, "size check first", in.Pos(), "reached only when len(b) <= maxMessageSize", "a frame is acquired or queued before the message size has been checked against the maximum: an oversized message is (partly) written or leaks a pooled frame")
		}
	}

	// ------------------------------------------------------------------------------------------------ R5
	c.rule("C16-R5", "Encode reserves, commits exactly what WriteTo reported and drops it again on error", 1)
	{
		enc := p.Method(ws, "FrameCodec", "Encode")
		bb := func(n string) *ssa.Function { return p.Method("sonic", "ByteBuffer", n) }
		var wt *ssa.Call
		eachInstr(enc, func(in ssa.Instruction) {
			if call, ok := in.(*ssa.Call); ok && isCallToFn(call, writeTo) {
				wt = call
			}
		})
		good := wt != nil
		why := "Encode does not serialise the frame with WriteTo"
		if good {
			n := extractOf(wt, 0)
			errv := extractOf(wt, 1)
			reserved, committed, dropped := false, false, false
			// all on the buffer the frame is serialised into
			target := stripConv(wt.Call.Args[1])
			same := func(cc ssa.CallInstruction) bool { return stripConv(cc.Common().Args[0]) == target }
			for _, rc := range callsToFn(enc, bb("Reserve")) {
				if same(rc) && dominatesInstr(rc.(ssa.Instruction), wt) {
					reserved = true
				}
			}
			for _, cc := range callsToFn(enc, bb("Commit")) {
				if same(cc) && stripConv(cc.Common().Args[1]) == n && dominatesInstr(wt, cc.(ssa.Instruction)) {
					committed = true
					// unconditional
					if len(guardsOf(cc.(ssa.Instruction).Block())) != 0 {
						committed = false
					}
				}
			}
			for _, cc := range callsToFn(enc, bb("Consume")) {
				if same(cc) && stripConv(cc.Common().Args[1]) == n {
					for _, l := range guardsOf(cc.(ssa.Instruction).Block()) {
						if x, eq, ok := l.nilTest(); ok && !eq && strip(x) == errv {
							dropped = true
						}
					}
				}
			}
			okRet := false
			for _, r := range returnsOf(enc) {
				if strip(r.Results[0]) == errv {
					okRet = true
				}
			}
			good = reserved && committed && dropped && okRet
			why = "Encode must reserve space in the buffer it serialises into, commit exactly the byte count WriteTo reported to it, drop those bytes from it when WriteTo failed and return its error"
		}
		c.check(good, enc, "encode", enc.Pos(), "reserve / commit n / consume n on error", why+": a partially encoded frame is left in (or missing from) the write buffer")
	}
	_ = types.Universe

	// ------------------------------------------------------------------------------------------------ R6
	c.rule("C16-R6", "a frame is encoded into the write buffer once: when the transport write of CodecConn.WriteNext fails after Encode succeeded, the blocking Flush does not keep (and later re-encode) that frame", 1)
	{
		bb := func(n string) *ssa.Function { return p.Method("sonic", "ByteBuffer", n) }
		// (a) does WriteNext roll the write buffer back on the failing edge of the transport write?
		rollsBack := false
		for _, fn := range p.Funcs {
			if fn.Name() != "WriteNext" || fn.Parent() != nil {
				continue
			}
			if pk, tn := recvTypeName(fn); pk != modPath || tn != "CodecConn" {
				continue
			}
			for _, wt := range callsToFn(fn, bb("WriteTo")) {
				errv := extractOfInstr(wt.(ssa.Instruction), 1)
				eachInstr(fn, func(in ssa.Instruction) {
					if !(isCallToFn(in, bb("Reset")) || isCallToFn(in, bb("Consume"))) || errv == nil {
						return
					}
					for _, l := range guardsOf(in.Block()) {
						if x, eq, ok := l.nilTest(); ok && !eq {
							for _, leaf := range phiLeaves(resolveCell(x)) {
								if resolveCell(leaf) == errv {
									rollsBack = true
								}
							}
						}
					}
				})
			}
		}
		// (b) does Flush keep the frame whose WriteNext failed?
		flush := p.Method(ws, "Stream", "Flush")
		keeps := false
		var site ssa.Instruction
		eachInstr(flush, func(in ssa.Instruction) {
			call, ok := in.(ssa.CallInstruction)
			if !ok || call.Common().StaticCallee() == nil || call.Common().StaticCallee().Name() != "WriteNext" {
				return
			}
			site = in
			// the element written: pendingFrames[i]; the queue kept afterwards: pendingFrames[k:] - the failed frame is kept
			// when, on the failing edge, k has not been advanced past it (no increment of the kept-from counter between the
			// failed call and the loop exit)
			errv := extractOfInstr(in, 1)
			for _, a := range storesTo(flush, w.pendingFrames) {
				sl, ok := stripConv(a.Val).(*ssa.Slice)
				if !ok || !loadOfField(sl.X, w.pendingFrames) || sl.Low == nil {
					continue
				}
				// is the Low counter incremented only on the success edge?
				for _, leaf := range phiLeaves(sl.Low) {
					if bo, ok := stripConv(leaf).(*ssa.BinOp); ok && bo.Op == token.ADD && isConstInt(bo.Y, 1) {
						if bi, ok := leaf.(ssa.Instruction); ok && errv != nil && guardedNil(bi.Block(), errv) {
							keeps = true
						}
					}
				}
			}
		})
		if site == nil {
			c.bad(flush, "retry", flush.Pos(), "Flush no longer writes through CodecConn.WriteNext (anchor moved)")
		} else {
			_ = rollsBack // dropping the buffer is no remedy: after a partial write the rest is owed to the peer (C19-R4 "keeps unsent bytes")
			c.check(!keeps, flush, "retry after a failed write", site.Pos(), "a frame is never encoded twice", "when the transport write fails after the frame was encoded (a non-blocking socket whose send buffer fills up reports would-block mid-frame), CodecConn.WriteNext leaves the encoded bytes in the write buffer and Flush keeps the frame queued: the retry encodes it again and the peer receives the frame's bytes twice")
		}
	}
}

func asInstrs(cs []ssa.CallInstruction) []ssa.Instruction {
	var out []ssa.Instruction
	for _, c := range cs {
		out = append(out, c.(ssa.Instruction))
	}
	return out
}

func hasPrefix(s, p string) bool { return len(s) >= len(p) && s[:len(p)] == p }
