package main

import (
	"fmt"
	"go/token"
	"go/types"

	"golang.org/x/tools/go/ssa"
)

func init() {
	register(&propertySpec{
		ID:    "C20",
		Title: "Out-of-order slot retrieval addresses exactly the bytes saved",
		Explanation: "Decides: (R1) accounting - SlotSequencer.bytes grows by slot.Length exactly on the ok && err == nil outcome of the container push and shrinks by the " +
			"popped slot's Length exactly on the ok outcome of the container pop; Reset resets container, offsetter and counter; Bytes()/Size() report them; (R2) failure is " +
			"transactional - the byte-capacity test precedes everything in SlotSequencer.Push, the container checks its capacity before inserting, a duplicate sequence number " +
			"returns (false, nil) without touching the slice, the offsetter's Add rejects an index beyond its tree before returning and mutates nothing; (R3) offsetter pairing - " +
			"Pop offsets the popped slot on the ok path before returning it, the offsetter is reset only when the container is empty, Offset queries and updates the tree at the " +
			"same slot.Index with slot.Length and applies OffsetSlot with the queried amount, Add shifts the index by the total discarded so far, OffsetSlot clamps its offset to " +
			"[0, Index]; the container keeps slots sorted (insert at the search position, remove at the found position). " +
			"Not decided: correctness of the Fenwick prefix sums and of the index translation itself (loop / bit-trick invariants; numeric).",
		Run: runC20,
	})
	addMutants("C20",
		mutant{"sequencer parks the raw slot", "slot_sequencer.go",
			"\tslot, err = s.offsetter.Add(slot)", "\t_, err = s.offsetter.Add(slot)", "C20-R3"},
		mutant{"bytes counted for rejected duplicates", "slot_sequencer.go", "\t\tif ok && err == nil {\n\t\t\ts.bytes += slot.Length\n\t\t}", "\t\tif err == nil {\n\t\t\ts.bytes += slot.Length\n\t\t}", "C20-R1"},
		mutant{"bytes not released on pop", "slot_sequencer.go", "\t\ts.bytes -= slot.Length\n", "", "C20-R1"},
		mutant{"reset keeps the byte count", "slot_sequencer.go", "\ts.container.Reset()\n\ts.bytes = 0", "\ts.container.Reset()", "C20-R1"},
		mutant{"capacity checked after registering the slot", "slot_sequencer.go",
			"\tif s.bytes+slot.Length > s.maxBytes {\n\t\treturn false, ErrNoSpaceLeftForSlot\n\t}\n\n\tslot, err = s.offsetter.Add(slot)\n\tif err == nil {\n\t\tok, err = s.container.Push(seq, slot)",
			"\tslot, err = s.offsetter.Add(slot)\n\tif err == nil {\n\t\tok, err = s.container.Push(seq, slot)\n\t\tif s.bytes+slot.Length > s.maxBytes {\n\t\t\treturn false, ErrNoSpaceLeftForSlot\n\t\t}", "C20-R2"},
		mutant{"slot count limit not enforced on insert in the middle", "sequenced_slots.go",
			"\t} else if s.slots[ix].seq != seq {\n\t\tif err := s.checkSize(slot); err != nil {\n\t\t\treturn false, err\n\t\t}\n", "\t} else if s.slots[ix].seq != seq {\n", "C20-R2"},
		mutant{"duplicate overwrites the stored slot", "sequenced_slots.go", "\t\ts.slots[ix] = newSlot\n\t\treturn true, nil\n\t}\n\n\treturn false, nil", "\t\ts.slots[ix] = newSlot\n\t\treturn true, nil\n\t}\n\n\ts.slots[ix] = newSlot\n\treturn false, nil", "C20-R2"},
		mutant{"offsetter reset while slots remain", "slot_sequencer.go", "\t\tif s.container.Size() == 0 {\n\t\t\ts.offsetter.Reset()\n\t\t}", "\t\tif s.container.Size() <= 1 {\n\t\t\ts.offsetter.Reset()\n\t\t}", "C20-R3"},
		mutant{"offsetter bound applied to the index before it is shifted", "slot_offsetter.go",
			"\tslot.Index += s.tree.Sum()\n\tif slot.Index >= s.tree.Size() {", "\tif slot.Index >= s.tree.Size() {\n\t\treturn Slot{}, ErrNoSpaceLeftForSlot\n\t}\n\tslot.Index += s.tree.Sum()\n\tif false {", "C20-R3"},
		mutant{"Reset skips the offsetter once the container is empty", "slot_sequencer.go",
			"\ts.offsetter.Reset()\n\ts.container.Reset()\n\ts.bytes = 0", "\ts.container.Reset()\n\tif s.container.Size() > 0 {\n\t\ts.offsetter.Reset()\n\t}\n\ts.bytes = 0", "C20-R1"},
		mutant{"tree reset clears a power-of-two prefix only", "util/fenwick_tree.go",
			"\tdata := t.data\n\tfor i := range data {\n\t\tdata[i] = 0\n\t}", "\tdata := t.data\n\tif len(data) == 0 {\n\t\treturn\n\t}\n\tdata[0] = 0\n\tfor k := 1; 2*k <= len(data); k *= 2 {\n\t\tcopy(data[k:2*k], data[:k])\n\t}", "C20-R1"},
		mutant{"offsetter reset before the popped slot is translated", "slot_sequencer.go",
			"\t\tslot = s.offsetter.Offset(slot)\n\n\t\tif s.container.Size() == 0 {\n\t\t\ts.offsetter.Reset()\n\t\t}\n\n\t\ts.bytes -= slot.Length", "\t\ts.bytes -= slot.Length\n\t\tif s.container.Size() == 0 {\n\t\t\ts.offsetter.Reset()\n\t\t}\n\t\tslot = s.offsetter.Offset(slot)", "C20-R3"},
		mutant{"Pop returns the next higher sequence number", "sequenced_slots.go",
			"\tif ix < len(s.slots) && s.slots[ix].seq == seq {\n\t\tslot := s.slots[ix].Slot", "\tif ix < len(s.slots) && s.slots[ix].seq >= seq {\n\t\tslot := s.slots[ix].Slot", "C20-R3"},
		mutant{"Push searches with a strict bound", "sequenced_slots.go",
			"\tix := sort.Search(len(s.slots), func(i int) bool {\n\t\treturn s.slots[i].seq >= seq\n\t})\n\n\tnewSlot", "\tix := sort.Search(len(s.slots), func(i int) bool {\n\t\treturn s.slots[i].seq > seq\n\t})\n\n\tnewSlot", "C20-R3"},
		mutant{"popped slot returned without offsetting", "slot_sequencer.go", "\t\tslot = s.offsetter.Offset(slot)\n", "\t\t_ = s.offsetter.Offset(slot)\n", "C20-R3"},
		mutant{"discard recorded at the offset position", "slot_offsetter.go", "\toffset := s.tree.SumUntil(slot.Index)\n\ts.tree.Add(slot.Index, slot.Length)", "\toffset := s.tree.SumUntil(slot.Index)\n\ts.tree.Add(slot.Index-offset, slot.Length)", "C20-R3"},
		mutant{"add ignores earlier discards", "slot_offsetter.go", "\tslot.Index += s.tree.Sum()\n", "", "C20-R3"},
		mutant{"index beyond the tree accepted", "slot_offsetter.go", "\tif slot.Index >= s.tree.Size() {", "\tif slot.Index > s.tree.Size() {", "C20-R3"},
		mutant{"pop removes the neighbour", "sequenced_slots.go", "\t\ts.slots = append(s.slots[:ix], s.slots[ix+1:]...)\n\t\treturn slot, true", "\t\ts.slots = append(s.slots[:ix+1], s.slots[ix+2:]...)\n\t\treturn slot, true", "C20-R3"},
	)
}

func runC20(c *Ctx) {
	p := c.P
	seqT, offT, contT := "SlotSequencer", "SlotOffsetter", "sequencedSlots"
	bytesF := p.Field("sonic", seqT, "bytes")
	maxBytesF := p.Field("sonic", seqT, "maxBytes")
	slotsF := p.Field("sonic", contT, "slots")
	maxSlotsF := p.Field("sonic", contT, "maxSlots")
	lengthF := p.Field("sonic", "Slot", "Length")
	indexF := p.Field("sonic", "Slot", "Index")
	seqF := p.Field("sonic", "sequencedSlot", "seq")
	sm := func(n string) *ssa.Function { return p.Method("sonic", seqT, n) }
	om := func(n string) *ssa.Function { return p.Method("sonic", offT, n) }
	cm := func(n string) *ssa.Function { return p.Method("sonic", contT, n) }
	tm := func(n string) *ssa.Function { return p.Method("util", "FenwickTree", n) }

	// value "slot.Length" of a slot variable: load of field Length (through a local copy) or Field extraction
	isLengthOf := func(v ssa.Value) bool { return loadedField(stripConv(v)) == lengthF }
	isIndexOf := func(v ssa.Value) bool { return loadedField(stripConv(v)) == indexF }

	// ------------------------------------------------------------------------------------------------ R1
	c.rule("C20-R1", "Bytes() accounting follows the outcome of the container operations; Reset resets everything, always, and the tree clears every element", 9)
	{
		push := sm("Push")
		var cpush *ssa.Call
		for _, call := range callsToFn(push, cm("Push")) {
			cpush = call.(*ssa.Call)
		}
		n := 0
		for _, a := range storesTo(push, bytesF) {
			n++
			bo, ok := stripConv(a.Val).(*ssa.BinOp)
			good := ok && bo.Op == token.ADD && ((loadOfField(bo.X, bytesF) && isLengthOf(bo.Y)) || (loadOfField(bo.Y, bytesF) && isLengthOf(bo.X)))
			okLit, errLit := false, false
			if cpush != nil {
				okv, errv := extractOf(cpush, 0), extractOf(cpush, 1)
				for _, l := range guardsOf(a.Instr.Block()) {
					if stripConv(l.Cond) == okv && l.Pos {
						okLit = true
					}
					if x, eq, isN := l.nilTest(); isN && eq && strip(x) == errv {
						errLit = true
					}
				}
			}
			c.check(good && okLit && errLit, push, "bytes += Length", a.Instr.Pos(), "counted exactly when the slot was stored", "the byte count grows without the container having stored the slot (ok && err == nil): rejected duplicates or failed pushes inflate Bytes() until valid pushes are refused")
		}
		if n == 0 {
			c.bad(push, "bytes += Length", push.Pos(), "Push never counts the bytes of the slot")
		}
		pop := sm("Pop")
		var cpop *ssa.Call
		for _, call := range callsToFn(pop, cm("Pop")) {
			cpop = call.(*ssa.Call)
		}
		n = 0
		for _, d := range deepStoresTo(pop, bytesF) {
			a := fieldAccess{Instr: d.Site, Val: d.Store.Val}
			n++
			bo, ok := stripConv(a.Val).(*ssa.BinOp)
			good := ok && bo.Op == token.SUB && loadOfField(bo.X, bytesF) && isLengthOf(bo.Y)
			okLit := false
			if cpop != nil {
				okv := extractOf(cpop, 1)
				for _, l := range guardsOf(a.Instr.Block()) {
					if stripConv(l.Cond) == okv && l.Pos {
						okLit = true
					}
				}
			}
			c.check(good && okLit, pop, "bytes -= Length", a.Instr.Pos(), "released exactly when a slot was popped", "the byte count is not reduced by the popped slot's Length exactly on the ok path")
		}
		if n == 0 {
			c.bad(pop, "bytes -= Length", pop.Pos(), "Pop never releases the bytes of the slot: Bytes() only grows and the sequencer fills up")
		}
		reset := sm("Reset")
		zero := false
		for _, a := range storesTo(reset, bytesF) {
			if isConstInt(a.Val, 0) {
				zero = true
			}
		}
		c.check(zero && len(callsToFn(reset, om("Reset"))) > 0 && len(callsToFn(reset, cm("Reset"))) > 0, reset, "reset", reset.Pos(), "container, offsetter and counter are reset together", "Reset does not reset the container, the offsetter and the byte counter together")
		// ... on every path (a condition evaluated after the container was emptied, say, must not skip the offsetter)
		for _, part := range []struct {
			what string
			is   func(ssa.Instruction) bool
		}{
			{"offsetter", func(in ssa.Instruction) bool { return isCallToFn(in, om("Reset")) }},
			{"container", func(in ssa.Instruction) bool { return isCallToFn(in, cm("Reset")) }},
			{"byte counter", func(in ssa.Instruction) bool {
				st, ok := in.(*ssa.Store)
				if !ok {
					return false
				}
				fv, _ := fieldAddrOf(st.Addr)
				return fv == bytesF && isConstInt(st.Val, 0)
			}},
		} {
			okp, why := mustPassAt(reset.Blocks[0], 0, part.is)
			c.check(okp, reset, "reset "+part.what+" always", reset.Pos(), "reset on every path", "SlotSequencer.Reset does not reset the "+part.what+" on every path ("+why+"): discards recorded before the Reset survive it and slots pushed afterwards are translated by stale offsets")
		}
		// the tree forgets everything: every element is cleared
		{
			fr := tm("Reset")
			dataF := p.Field("util", "FenwickTree", "data")
			complete := false
			eachInstr(fr, func(in ssa.Instruction) {
				switch x := in.(type) {
				case *ssa.Store:
					ia, ok := x.Addr.(*ssa.IndexAddr)
					if ok && loadOfField(ia.X, dataF) && isConstInt(x.Val, 0) && coversWholeSlice(ia, in.Block()) {
						complete = true
					}
				case *ssa.Call:
					if b, ok := x.Call.Value.(*ssa.Builtin); ok && b.Name() == "clear" && loadOfField(x.Call.Args[0], dataF) {
						complete = true
					}
					// the doubling fill: data[0] = 0, then copy(data[k:], data[:k]) while k < len(data), k doubling
					if b, ok := x.Call.Value.(*ssa.Builtin); ok && b.Name() == "copy" {
						dst, ok1 := stripConv(x.Call.Args[0]).(*ssa.Slice)
						src, ok2 := stripConv(x.Call.Args[1]).(*ssa.Slice)
						if ok1 && ok2 && loadOfField(dst.X, dataF) && loadOfField(src.X, dataF) && dst.High == nil && dst.Low != nil && src.Low == nil && src.High != nil && stripConv(dst.Low) == stripConv(src.High) {
							for _, l := range guardsOf(in.Block()) {
								if op, _, y, ok := l.cmpWith(dst.Low); ok && op == token.LSS {
									if lc, ok := stripConv(y).(*ssa.Call); ok {
										if lb, ok := lc.Call.Value.(*ssa.Builtin); ok && lb.Name() == "len" {
											complete = true
										}
									}
								}
							}
						}
					}
				}
			})
			c.check(complete, fr, "tree reset", fr.Pos(), "every element of the tree is cleared", "FenwickTree.Reset does not clear every element (index 0..len-1): nodes that keep their partial sums make Sum() non-zero after a drain, and slots pushed afterwards are shifted by a phantom offset")
		}
		// Reset of the sequencer empties all three parts: offsets, container, byte count
		{
			rs := sm("Reset")
			offReset, contReset, bytesZero := false, false, false
			eachInstrDeep(rs, func(in, _ ssa.Instruction, _ func(ssa.Value) ssa.Value) {
				if isCallToFn(in, om("Reset")) {
					offReset = true
				}
				if isCallToFn(in, cm("Reset")) {
					contReset = true
				}
				if st, ok := in.(*ssa.Store); ok {
					if fv, _ := fieldAddrOf(st.Addr); fv == bytesF && isConstInt(st.Val, 0) {
						bytesZero = true
					}
				}
			})
			c.check(offReset && contReset && bytesZero, rs, "reset", rs.Pos(), "offsetter, container and byte count are all cleared", fmt.Sprintf("SlotSequencer.Reset does not clear all of its state (offsetter=%v container=%v bytes=%v): Bytes()/Size() report slots that are gone, or slots pushed later are shifted by offsets of the previous use", offReset, contReset, bytesZero))
			cr := cm("Reset")
			emptied := false
			for _, a := range storesDeep(cr, slotsF) {
				if sl, ok := stripConv(a.Val).(*ssa.Slice); ok && sl.High != nil && isConstInt(sl.High, 0) {
					emptied = true
				}
				if isNil(a.Val) {
					emptied = true
				}
			}
			c.check(emptied, cr, "reset", cr.Pos(), "the container is emptied", "sequencedSlots.Reset leaves the stored slots in place: after SlotSequencer.Reset, Size() still counts them and a later Pop returns a slot whose bytes are long gone")
		}
		for _, g := range []struct {
			fn   *ssa.Function
			want string
		}{{sm("Bytes"), "bytes"}, {cm("Size"), "len(slots)"}} {
			got := ""
			for _, r := range returnsOf(g.fn) {
				got = exprString(r.Results[0], nil, 0)
			}
			c.check(got == g.want, g.fn, "getter", g.fn.Pos(), got, g.fn.Name()+"() returns "+got+", expected "+g.want)
		}
	}

	// ------------------------------------------------------------------------------------------------ R2
	c.rule("C20-R2", "failure is transactional: capacity tests precede mutation; duplicates leave the container untouched; the offsetter's Add is pure", 5)
	{
		push := sm("Push")
		// the byte-capacity test guards every call
		good := true
		n := 0
		eachInstr(push, func(in ssa.Instruction) {
			if !isCallToFn(in, om("Add"), cm("Push")) {
				return
			}
			n++
			okCap := false
			for _, l := range guardsOf(in.Block()) {
				op, y, x, ok := l.cmpWhere(func(v ssa.Value) bool { return loadOfField(v, maxBytesF) })
				op = mirrorOp(op) // read as: x OP maxBytes
				if ok && op == token.LEQ && loadOfField(y, maxBytesF) {
					if bo, ok := stripConv(x).(*ssa.BinOp); ok && bo.Op == token.ADD && ((loadOfField(bo.X, bytesF) && isLengthOf(bo.Y)) || (loadOfField(bo.Y, bytesF) && isLengthOf(bo.X))) {
						okCap = true
					}
				}
			}
			if !okCap {
				good = false
			}
		})
		c.check(good && n == 2, push, "byte capacity first", push.Pos(), "bytes + Length <= maxBytes is established before the slot is registered", "the slot is registered with the offsetter/container before (or without) the byte capacity being checked: a refused push leaves state behind")
		// container: every mutation of slots is preceded by checkSize == nil
		cp := cm("Push")
		check := cm("checkSize")
		muts := 0
		goodC := true
		eachInstrDeep(cp, func(in, site ssa.Instruction, tr func(ssa.Value) ssa.Value) {
			st, ok := in.(*ssa.Store)
			if !ok {
				return
			}
			fv, _ := fieldAddrOf(st.Addr)
			ia, isIdx := st.Addr.(*ssa.IndexAddr)
			if fv != slotsF && !(isIdx && loadOfField(ia.X, slotsF)) {
				return
			}
			muts++
			okG := false
			for _, cs := range callsToFn(cp, check) {
				if guardedNil(site.Block(), cs.(ssa.Value)) {
					okG = true
				}
			}
			if !okG {
				goodC = false
			}
		})
		c.check(goodC && muts >= 3, cp, "slot capacity first", cp.Pos(), "every insertion is preceded by a successful capacity check", "a slot is inserted (or an element overwritten) without the slot-count capacity having been checked on that path")
		// checkSize
		okCS := false
		for _, r := range returnsOf(check) {
			if isNil(r.Results[0]) {
				for _, l := range guardsOf(r.Block()) {
					op, y, x, ok := l.cmpWhere(func(v ssa.Value) bool { return loadOfField(v, maxSlotsF) })
					op = mirrorOp(op) // read as: x OP maxSlots
					if ok && op == token.LSS && loadOfField(y, maxSlotsF) {
						if lc, ok := stripConv(x).(*ssa.Call); ok {
							if b, ok := lc.Call.Value.(*ssa.Builtin); ok && b.Name() == "len" && loadOfField(lc.Call.Args[0], slotsF) {
								okCS = true
							}
						}
					}
				}
			}
		}
		c.check(okCS, check, "checkSize", check.Pos(), "accepts only while len(slots) < maxSlots", "checkSize accepts a slot when len(slots) >= maxSlots")
		// duplicate path: return (false, nil) only after seq equality, with no mutation on that path
		paths, _ := enumPaths(cp)
		dupOK, dupN := true, 0
		for _, path := range paths {
			ret := path.Ret()
			if ret == nil || !isConstBool(path.evalEnd(ret.Results[0]), false) || !isNil(path.evalEnd(ret.Results[1])) {
				continue
			}
			dupN++
			for _, in := range path.Instrs() {
				if st, ok := in.(*ssa.Store); ok {
					if fv, _ := fieldAddrOf(st.Addr); fv == slotsF {
						dupOK = false
					}
					if ia, ok := st.Addr.(*ssa.IndexAddr); ok && loadOfField(ia.X, slotsF) {
						dupOK = false
					}
				}
			}
		}
		c.check(dupOK && dupN > 0, cp, "duplicate", cp.Pos(), "a duplicate sequence number is rejected without touching stored slots", "the (false, nil) outcome for a duplicate sequence number modifies the stored slots")
		// offsetter.Add is pure with respect to the tree
		add := om("Add")
		pure := len(callsToFn(add, tm("Add"))) == 0 && len(callsToFn(add, tm("Reset"))) == 0 && len(callsToFn(add, tm("Clear"))) == 0
		c.check(pure, add, "pure", add.Pos(), "Add does not modify the tree", "SlotOffsetter.Add modifies the tree: a push refused afterwards has already changed the offsets of stored slots")
	}

	// ------------------------------------------------------------------------------------------------ R3
	c.rule("C20-R3", "offsetter pairing and ordered container", 13)
	{
		// Push parks the slot as the offsetter shifted it: what the container stores is the result of Add on the caller's
		// slot (Pop subtracts the discards recorded since; parking the raw slot makes that subtraction address other bytes)
		push := sm("Push")
		var add, cpush *ssa.Call
		for _, call := range callsToFn(push, om("Add")) {
			add, _ = call.(*ssa.Call)
		}
		for _, call := range callsToFn(push, cm("Push")) {
			cpush, _ = call.(*ssa.Call)
		}
		good := add != nil && cpush != nil
		why := "Push does not shift the slot with the offsetter before parking it"
		if good {
			shifted := extractOf(add, 0)
			fromCaller := false
			for _, prm := range push.Params {
				if resolveThroughLocal(add.Call.Args[1]) == ssa.Value(prm) || resolveCell(add.Call.Args[1]) == ssa.Value(prm) {
					fromCaller = true
				}
			}
			parked := len(cpush.Call.Args) == 3 && resolveThroughLocal(cpush.Call.Args[2]) == shifted
			if !(fromCaller && parked) {
				good = false
				why = fmt.Sprintf("Push must park the slot returned by the offsetter's Add for the caller's slot (Add on the caller's slot=%v, container receives the shifted slot=%v)", fromCaller, parked)
			}
		}
		c.check(good, push, "park shifted slot", push.Pos(), "the container stores the slot as shifted by the offsetter", why+": once a packet in front was discarded, Pop translates an index that was never shifted and returns bytes of other packets")
	}
	{
		pop := sm("Pop")
		var off *ssa.Call
		var offSite ssa.Instruction
		var offDC deepCall
		for _, dc := range deepCallsTo(pop, om("Offset")) {
			off, offSite, offDC = dc.Call, dc.Site, dc
		}
		var cpop *ssa.Call
		for _, call := range callsToFn(pop, cm("Pop")) {
			cpop = call.(*ssa.Call)
		}
		good := off != nil && cpop != nil
		why := "Pop does not offset the popped slot"
		if good {
			okv := extractOf(cpop, 1)
			guarded := false
			for _, l := range guardsOf(offSite.Block()) {
				if stripConv(l.Cond) == okv && l.Pos {
					guarded = true
				}
			}
			// argument is the popped slot (handed on to the helper that offsets it, if any)
			argOK := resolveThroughLocal(offDC.translate(resolveThroughLocal(off.Call.Args[1]))) == extractOf(cpop, 0)
			// the returned slot on the ok path is the offset result: either the value itself, or the local slot variable
			// into which the offset result is stored on the ok path
			retOK := false
			for _, r := range returnsOf(pop) {
				for _, leaf := range phiLeaves(r.Results[0]) {
					if resolveThroughLocal(leaf) == ssa.Value(off) {
						retOK = true
					}
					// the helper that offsets the slot returns it, and Pop returns the helper's result
					if hc, ok := resolveThroughLocal(leaf).(*ssa.Call); ok && ssa.Instruction(hc) == offSite && off.Parent() != pop {
						for _, hr := range returnsOf(off.Parent()) {
							for _, hl := range phiLeaves(hr.Results[0]) {
								if resolveThroughLocal(hl) == ssa.Value(off) {
									retOK = true
								}
							}
						}
					}
					if u, ok := stripConv(leaf).(*ssa.UnOp); ok && u.Op == token.MUL {
						if cell, ok := u.X.(*ssa.Alloc); ok {
							eachInstr(pop, func(in ssa.Instruction) {
								if st, ok := in.(*ssa.Store); ok && st.Addr == ssa.Value(cell) && stripConv(st.Val) == ssa.Value(off) {
									retOK = true
								}
							})
						}
					}
				}
			}
			if !(guarded && argOK && retOK) {
				good = false
				why = fmt.Sprintf("Pop must offset the popped slot on the ok path and return the offset slot (on ok path=%v, argument is the popped slot=%v, result returned=%v)", guarded, argOK, retOK)
			}
		}
		c.check(good, pop, "offset popped slot", pop.Pos(), "the slot returned addresses the bytes after earlier discards", why+": the slot returned addresses bytes of another packet once anything in front of it was discarded")
		// offsetter reset only when empty
		n := 0
		for _, rc := range callsToFn(pop, om("Reset")) {
			n++
			okG := false
			for _, l := range guardsOf(rc.(ssa.Instruction).Block()) {
				op, x, y, ok := l.cmp()
				if ok && op == token.EQL && isConstInt(y, 0) {
					if call, ok := stripConv(x).(*ssa.Call); ok && isCallToFn(call, cm("Size")) {
						okG = true
					}
					// the sequencer's own Size(), which forwards to the container's
					if call, ok := stripConv(x).(*ssa.Call); ok && isCallToFn(call, sm("Size")) {
						fwd := false
						for _, r := range returnsOf(sm("Size")) {
							if fc, ok := stripConv(r.Results[0]).(*ssa.Call); ok && isCallToFn(fc, cm("Size")) {
								fwd = true
							}
						}
						okG = okG || fwd
					}
				}
			}
			c.check(okG, pop, "offsetter reset", rc.Pos(), "offsets are forgotten only when no slot is parked", "the offsetter is reset while slots are still parked: their indices are no longer translated and address the wrong bytes")
		}
		if n == 0 {
			c.Notes = append(c.Notes, "Pop never resets the offsetter (allowed: it only costs tree capacity)")
		}
		// the popped slot is translated before the offsets are forgotten
		for _, rc := range callsToFn(pop, om("Reset")) {
			before := false
			for _, oc := range callsToFn(pop, om("Offset")) {
				if dominatesInstr(oc.(ssa.Instruction), rc.(ssa.Instruction)) {
					before = true
				}
			}
			c.check(before, pop, "offset before reset", rc.Pos(), "the popped slot is offset before the offsetter is reset", "the offsetter is reset before the slot just popped has been translated: the last slot of a drained sequencer is returned with its original index although packets in front of it were discarded")
		}
	}
	{
		offset := om("Offset")
		var q, u *ssa.Call
		var qArg ssa.Value
		eachInstr(offset, func(in ssa.Instruction) {
			cv, ok := in.(*ssa.Call)
			if !ok {
				return
			}
			if inner, tr, ok := callTo(cv, func(c2 *ssa.Call) bool { return isCallToFn(c2, tm("SumUntil")) }); ok {
				q = cv
				qArg = tr(inner.Call.Args[1])
			}
		})
		for _, call := range callsToFn(offset, tm("Add")) {
			u = call.(*ssa.Call)
		}
		good := q != nil && u != nil && isIndexOf(qArg) && isIndexOf(u.Call.Args[1]) && isLengthOf(u.Call.Args[2]) && dominatesInstr(q, u)
		applied := false
		for _, call := range callsToFn(offset, p.Fn("sonic", "OffsetSlot")) {
			if q != nil && stripConv(call.Common().Args[0]) == ssa.Value(q) {
				applied = true
			}
		}
		c.check(good && applied, offset, "query and record", offset.Pos(), "discards before slot.Index are subtracted; this discard is recorded at slot.Index with slot.Length", "Offset must query SumUntil(slot.Index), then record Add(slot.Index, slot.Length) and apply OffsetSlot with the queried amount: otherwise later slots are shifted by the wrong amount")
		add := om("Add")
		shifted := false
		for _, sc := range callsToFn(add, tm("Sum")) {
			eachInstr(add, func(in ssa.Instruction) {
				st, ok := in.(*ssa.Store)
				if !ok {
					return
				}
				if fv, _ := fieldAddrOf(st.Addr); fv == indexF {
					if bo, ok := stripConv(st.Val).(*ssa.BinOp); ok && bo.Op == token.ADD && (stripConv(bo.Y) == sc.(ssa.Value) || stripConv(bo.X) == sc.(ssa.Value)) {
						shifted = true
					}
				}
			})
		}
		rejects := false
		// the value that becomes the slot's index: the stored sum (also when it is kept in a local first)
		var shiftedVals []ssa.Value
		eachInstr(add, func(in ssa.Instruction) {
			if st, ok := in.(*ssa.Store); ok {
				if fv, _ := fieldAddrOf(st.Addr); fv == indexF {
					shiftedVals = append(shiftedVals, stripConv(st.Val))
				}
			}
		})
		var indexStores []ssa.Instruction
		eachInstr(add, func(in ssa.Instruction) {
			if st, ok := in.(*ssa.Store); ok {
				if fv, _ := fieldAddrOf(st.Addr); fv == indexF {
					indexStores = append(indexStores, in)
				}
			}
		})
		isShifted := func(v ssa.Value) bool {
			// the index read back after it was shifted ...
			if isIndexOf(v) {
				if ld, ok := stripConv(v).(ssa.Instruction); ok {
					for _, st := range indexStores {
						if dominatesInstr(st, ld) {
							return true
						}
					}
				}
				return false
			}
			// ... or the shifted value itself
			for _, sv := range shiftedVals {
				if stripConv(v) == sv {
					return true
				}
			}
			return false
		}
		for _, r := range returnsOf(add) {
			if isNil(r.Results[1]) {
				for _, l := range guardsOf(r.Block()) {
					op, _, y, ok := l.cmpWhere(isShifted)
					if ok && op == token.LSS {
						if call, ok := stripConv(y).(*ssa.Call); ok && isCallToFn(call, tm("Size")) {
							rejects = true
						}
					}
				}
			}
		}
		c.check(shifted, add, "shift by discarded total", add.Pos(), "a new slot's index is expressed in the coordinates of the tree", "Add does not shift the new slot's index by the total discarded so far: after any discard new slots collide with the positions of old ones in the tree")
		c.check(rejects, add, "index bound", add.Pos(), "an index beyond the tree is rejected", "Add accepts a slot whose shifted index is not below the tree size: Offset later indexes past the tree")
	}
	{
		os := p.Fn("sonic", "OffsetSlot")
		// offset clamped to [0, slot.Index]: the value subtracted from Index is phi-clamped
		good := false
		eachInstr(os, func(in ssa.Instruction) {
			bo, ok := in.(*ssa.BinOp)
			if !ok || bo.Op != token.SUB || !isIndexOf(bo.X) {
				return
			}
			t := newTaintCtx(os)
			for v, what := range t.leaves {
				if what != "parameter offset" && what != "parameter "+os.Params[0].Name() {
					delete(t.leaves, v) // the slot's own index is the legitimate bound here
				}
			}
			ls := guardsOf(in.Block())
			ops := t.taintedOperands(bo.Y)
			okAll := len(ops) > 0
			for _, op := range ops {
				if !(t.upperOK(op, ls, 0) && t.lowerOK(op, ls, 0)) {
					okAll = false
				}
			}
			if okAll {
				good = true
			}
		})
		c.check(good, os, "offset clamp", os.Pos(), "the offset applied lies in [0, slot.Index]", "OffsetSlot subtracts an offset that is not clamped to [0, slot.Index]: the resulting index is negative or moves forward")
	}
	{
		// ordered container: insert at the search position, remove at the found position
		cp := cm("Push")
		ins := false
		eachInstrDeep(cp, func(in, _ ssa.Instruction, tr func(ssa.Value) ssa.Value) {
			st, ok := in.(*ssa.Store)
			if !ok {
				return
			}
			ia, ok := st.Addr.(*ssa.IndexAddr)
			if ok && loadOfField(ia.X, slotsF) {
				if _, _, ok := callTo(tr(ia.Index), isSortSearch); ok {
					ins = true
				}
			}
		})
		// the search is a lower bound (first element with seq >= wanted) and a hit is an exact match
		for _, fn := range []*ssa.Function{cp, cm("Pop")} {
			lower := false
			cls := append([]*ssa.Function{}, fn.AnonFuncs...)
			eachInstr(fn, func(in ssa.Instruction) {
				if cv, ok := in.(*ssa.Call); ok {
					if _, _, ok := wrappedCall(cv); ok {
						cls = append(cls, cv.Call.StaticCallee().AnonFuncs...)
					}
				}
			})
			for _, cl := range cls {
				for _, r := range returnsOf(cl) {
					if bo, ok := stripConv(r.Results[0]).(*ssa.BinOp); ok {
						op, x, y := bo.Op, bo.X, bo.Y
						if _, isFV := resolveCell(stripConv(x)).(*ssa.Parameter); isFV || isFreeVarLoad(x) {
							// wanted OP element  ->  element (mirrored OP) wanted
							x, y = y, x
							switch op {
							case token.LEQ:
								op = token.GEQ
							case token.LSS:
								op = token.GTR
							case token.GEQ:
								op = token.LEQ
							case token.GTR:
								op = token.LSS
							}
						}
						_ = y
						if op == token.GEQ && loadedField(x) != nil && loadedField(x) == seqF {
							lower = true
						}
					}
				}
			}
			c.check(lower, fn, "lower-bound search", fn.Pos(), "the search predicate is element.seq >= seq", "the ordered search is not a lower bound on the sequence number (element.seq >= seq): an equal sequence number is skipped, so duplicates are inserted / stored slots are not found")
		}
		{
			pp := cm("Pop")
			exact := false
			for _, r := range returnsOf(pp) {
				if len(r.Results) == 2 && isConstBool(r.Results[1], true) {
					for _, l := range guardsOf(r.Block()) {
						if op, x, y, ok := l.cmp(); ok && op == token.EQL {
							if (loadedField(x) != nil && loadedField(x) == seqF) || (loadedField(y) != nil && loadedField(y) == seqF) {
								exact = true
							}
						}
					}
				}
			}
			c.check(exact, pp, "exact match", pp.Pos(), "a slot is returned only for its own sequence number", "Pop returns a slot whose sequence number is not equal to the one asked for: the caller gets (and discards) another packet's bytes")
		}
		c.check(ins, cp, "ordered insert", cp.Pos(), "a slot is inserted at the position found by the ordered search", "the container does not insert at the position of the ordered search: slots are no longer sorted by sequence number and lookups miss them")
		pp := cm("Pop")
		rem := false
		why := "Pop does not remove the found element"
		for _, a := range storesTo(pp, slotsF) {
			call, ok := stripConv(a.Val).(*ssa.Call)
			if !ok || !isAppendOf(call) {
				continue
			}
			s1, ok1 := stripConv(call.Call.Args[0]).(*ssa.Slice)
			s2, ok2 := stripConv(call.Call.Args[1]).(*ssa.Slice)
			if !ok1 || !ok2 {
				continue
			}
			ix := stripConv(s1.High)
			lowOK := false
			if bo, ok := stripConv(s2.Low).(*ssa.BinOp); ok && bo.Op == token.ADD && stripConv(bo.X) == ix && isConstInt(bo.Y, 1) {
				lowOK = true
			}
			_, _, isSearch := callTo(ix, isSortSearch)
			if s1.Low == nil && lowOK && s2.High == nil && isSearch {
				rem = true
			} else {
				why = "Pop removes slots[a:b] other than exactly the found element [ix:ix+1]"
			}
		}
		// the slot returned is the found one
		retOK := false
		for _, r := range returnsOf(pp) {
			if isConstBool(r.Results[1], true) {
				if f := loadedFieldDeep(r.Results[0]); f != nil && f.Name() == "Slot" {
					retOK = true
				}
			}
		}
		c.check(rem && retOK, pp, "remove found", pp.Pos(), "exactly the found element is removed and returned", why+": another parked packet is dropped or left duplicated")
	}
	_ = types.Universe
}

// resolveThroughLocal follows a value through a local struct copy (`*t = v; ... *t`).
func resolveThroughLocal(v ssa.Value) ssa.Value {
	v = stripConv(v)
	for i := 0; i < 4; i++ {
		u, ok := v.(*ssa.UnOp)
		if !ok || u.Op != token.MUL {
			return v
		}
		a, ok := u.X.(*ssa.Alloc)
		if !ok {
			return v
		}
		// the last store to the cell that dominates the load
		var best *ssa.Store
		eachInstr(a.Parent(), func(in ssa.Instruction) {
			st, ok := in.(*ssa.Store)
			if ok && st.Addr == ssa.Value(a) && dominatesInstr(st, u) && (best == nil || dominatesInstr(best, st)) {
				best = st
			}
		})
		if best == nil {
			return v
		}
		v = stripConv(best.Val)
	}
	return v
}

// loadedFieldDeep: the field loaded by v, looking through a local copy.
func loadedFieldDeep(v ssa.Value) *types.Var {
	v = stripConv(v)
	if f := loadedField(v); f != nil {
		return f
	}
	return loadedField(resolveThroughLocal(v))
}

func isSortSearch(c *ssa.Call) bool {
	return c.Call.StaticCallee() != nil && c.Call.StaticCallee().String() == "sort.Search"
}
