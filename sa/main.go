// sonicsa: repository-specific static analyser deciding structural clauses of the properties in
// /verif/properties.jsonl on the current working tree of /repo. See /verif/DESIGN.md.
package main

import (
	"encoding/json"
	"flag"
	"fmt"
	"os"
	"os/exec"
	"path/filepath"
	"sort"
	"strconv"
	"strings"
	"sync"
	"time"
)

var registry = map[string]*propertySpec{}

func register(s *propertySpec) { registry[s.ID] = s }

func envOr(k, d string) string {
	if v := os.Getenv(k); v != "" {
		return v
	}
	return d
}

func main() {
	// go/packages looks `go` up through this process's PATH: pin the toolchain the module needs even when the caller
	// did not source env.sh
	if _, err := os.Stat("/opt/veriftools/go1.26.8/bin/go"); err == nil {
		_ = os.Setenv("PATH", "/opt/veriftools/go1.26.8/bin:"+os.Getenv("PATH"))
		_ = os.Setenv("GOTOOLCHAIN", "local")
	}
	if len(os.Args) < 2 {
		fmt.Fprintln(os.Stderr, "usage: sonicsa check|all|explain|variant|list ...")
		os.Exit(2)
	}
	switch os.Args[1] {
	case "astfuzz":
		os.Exit(cmdASTFuzz(os.Args[2:]))
	case "mutsweep":
		os.Exit(cmdMutSweep(os.Args[2:]))
	case "symtab":
		os.Exit(cmdSymtab(os.Args[2:]))
	case "check":
		os.Exit(cmdCheck(os.Args[2:]))
	case "all":
		os.Exit(cmdAll(os.Args[2:]))
	case "explain":
		os.Exit(cmdExplain(os.Args[2:]))
	case "variant":
		os.Exit(cmdVariant(os.Args[2:]))
	case "list":
		ids := []string{}
		for id := range registry {
			ids = append(ids, id)
		}
		sort.Strings(ids)
		for _, id := range ids {
			fmt.Println(id, registry[id].Title)
		}
	default:
		fmt.Fprintln(os.Stderr, "unknown command", os.Args[1])
		os.Exit(2)
	}
}

type commonFlags struct {
	prop, tier, repo, verif string
}

func parseCommon(name string, args []string) (*commonFlags, *flag.FlagSet) {
	fs := flag.NewFlagSet(name, flag.ExitOnError)
	cf := &commonFlags{}
	fs.StringVar(&cf.prop, "p", "", "property id")
	fs.StringVar(&cf.tier, "tier", envOr("VERIF_TIER", "quick"), "quick|thorough")
	fs.StringVar(&cf.repo, "repo", envOr("SONIC_REPO", "/repo"), "repository root")
	fs.StringVar(&cf.verif, "verif", envOr("VERIF_DIR", "/verif"), "verification directory")
	return cf, fs
}

func seed() int64 {
	s, _ := strconv.ParseInt(os.Getenv("VERIF_SEED"), 10, 64)
	return s
}

// checkOne evaluates one property (already loaded programs, one per configuration) and reports.
func checkOne(cf *commonFlags, spec *propertySpec, progs []*Prog, configs []string, findings []Finding, start time.Time) int {
	var results []runResult
	exit := 0
	for i, p := range progs {
		r := runProperty(p, spec, findings)
		results = append(results, r)
		if r.InfraErr != "" {
			fmt.Printf("INFRASTRUCTURE-FAILURE property=%s config=%s: %s\n", spec.ID, configs[i], r.InfraErr)
			exit = 2
		}
	}
	if os.Getenv("SONICSA_LIST") != "" {
		for _, r := range results {
			if r.Ctx != nil {
				for _, o := range r.Ctx.Obls {
					fmt.Printf("  %-13s %s  %s  -- %s\n", o.Status, o.Pos, o.Key, o.Detail)
				}
			}
		}
	}
	printed := map[string]bool{}
	for i, r := range results {
		for _, o := range r.Known {
			if !printed["k"+o.Key] {
				printed["k"+o.Key] = true
				fmt.Printf("KNOWN-FINDING: property=%s %s (%s at %s)\n", spec.ID, knownWhat(findings, spec.ID, o.Key), o.Key, o.Pos)
			}
		}
		for _, o := range r.Violations {
			if printed["v"+o.Key] {
				continue
			}
			printed["v"+o.Key] = true
			path := filepath.Join(cf.verif, "out", "violations", spec.ID, keyHash(o.Key)+".json")
			_ = writeJSON(path, map[string]any{"property": spec.ID, "config": configs[i], "obligation": o})
			fmt.Printf("%s: %s [%s] %s\n  rule %s: %s\n", o.Pos, strings.ToUpper(o.Status), o.Key, o.Detail, o.Rule, ruleText(r.Ctx, o.Rule))
			fmt.Printf("VIOLATION property=%s replay=%s\n", spec.ID, path)
			exit = 1 // a violated obligation takes precedence over anything the checker could not decide
		}
	}
	var self *selftestSummary
	if cf.tier == "thorough" && exit == 0 {
		self = runSelftest(cf, spec)
		if len(self.Survived) > 0 {
			fmt.Printf("INFRASTRUCTURE-FAILURE property=%s: self-validation variants not detected: %v\n", spec.ID, self.Survived)
			exit = 2
		}
	}
	if err := writeEvidence(cf.verif, spec, cf.tier, seed(), configs, results, time.Since(start), self); err != nil {
		fmt.Println("cannot write evidence:", err)
		if exit == 0 {
			exit = 2
		}
	}
	n, d := 0, 0
	for _, r := range results {
		if r.Ctx != nil {
			for _, o := range r.Ctx.Obls {
				n++
				if o.Status == stDischarged {
					d++
				}
			}
		}
	}
	fmt.Printf("property=%s tier=%s configs=%v obligations=%d discharged=%d exit=%d wall=%.1fs\n", spec.ID, cf.tier, configs, n, d, exit, time.Since(start).Seconds())
	return exit
}

func knownWhat(fs []Finding, prop, key string) string {
	for _, f := range fs {
		if f.Status == "known" && f.Property == prop && f.Key == key {
			return f.What
		}
	}
	return ""
}

func ruleText(c *Ctx, id string) string {
	if c != nil {
		for _, r := range c.Rules {
			if r.ID == id {
				return r.Text
			}
		}
	}
	return ""
}

func loadConfigs(cf *commonFlags) ([]*Prog, []string, int) {
	archs := []string{"amd64"}
	if cf.tier == "thorough" {
		archs = append(archs, "arm") // 32-bit int; linux/386 does not type-check (syscall.SYS_SETSOCKOPT is undefined there)
	}
	if x := os.Getenv("SONICSA_CONFIGS"); x != "" {
		archs = strings.Split(x, ",")
	}
	var progs []*Prog
	var configs []string
	for _, a := range archs {
		p, err := Load(cf.repo, a, nil)
		if err != nil {
			fmt.Printf("INFRASTRUCTURE-FAILURE cannot load %s: %v\n", cfgName(a), err)
			return nil, nil, 2
		}
		progs = append(progs, p)
		configs = append(configs, cfgName(a))
	}
	return progs, configs, 0
}

func cfgName(a string) string {
	if strings.Contains(a, "/") {
		return a
	}
	return "linux/" + a
}

func cmdCheck(args []string) int {
	cf, fs := parseCommon("check", args)
	_ = fs.Parse(args)
	spec := registry[cf.prop]
	if spec == nil {
		fmt.Println("unknown property", cf.prop)
		return 2
	}
	start := time.Now()
	progs, configs, rc := loadConfigs(cf)
	if rc != 0 {
		return rc
	}
	findings := loadFindings(filepath.Join(cf.verif, "known_findings.jsonl"))
	return checkOne(cf, spec, progs, configs, findings, start)
}

func cmdAll(args []string) int {
	cf, fs := parseCommon("all", args)
	_ = fs.Parse(args)
	start := time.Now()
	progs, configs, rc := loadConfigs(cf)
	if rc != 0 {
		return rc
	}
	findings := loadFindings(filepath.Join(cf.verif, "known_findings.jsonl"))
	ids := []string{}
	for id := range registry {
		ids = append(ids, id)
	}
	sort.Strings(ids)
	worst := 0
	for _, id := range ids {
		rc := checkOne(cf, registry[id], progs, configs, findings, start)
		if rc > worst {
			worst = rc
		}
	}
	return worst
}

// cmdExplain re-derives the obligation recorded in a violation file on the current tree.
func cmdExplain(args []string) int {
	cf, fs := parseCommon("explain", args)
	_ = fs.Parse(args)
	if fs.NArg() != 1 {
		fmt.Println("usage: sonicsa explain <violation.json>")
		return 2
	}
	b, err := os.ReadFile(fs.Arg(0))
	if err != nil {
		fmt.Println(err)
		return 2
	}
	var v struct {
		Property   string     `json:"property"`
		Config     string     `json:"config"`
		Obligation Obligation `json:"obligation"`
	}
	if err := json.Unmarshal(b, &v); err != nil {
		fmt.Println(err)
		return 2
	}
	spec := registry[v.Property]
	if spec == nil {
		fmt.Println("unknown property", v.Property)
		return 2
	}
	arch := strings.TrimPrefix(v.Config, "linux/")
	if arch == "" {
		arch = "amd64"
	}
	p, err := Load(cf.repo, arch, nil)
	if err != nil {
		fmt.Println("INFRASTRUCTURE-FAILURE", err)
		return 2
	}
	r := runProperty(p, spec, nil)
	if r.InfraErr != "" {
		fmt.Println("INFRASTRUCTURE-FAILURE", r.InfraErr)
		return 2
	}
	for _, o := range r.Ctx.Obls {
		if o.Key == v.Obligation.Key {
			fmt.Printf("%s: %s [%s] %s\n  rule %s: %s\n", o.Pos, strings.ToUpper(o.Status), o.Key, o.Detail, o.Rule, ruleText(r.Ctx, o.Rule))
			if o.Status != stDischarged {
				fmt.Printf("VIOLATION property=%s replay=%s\n", v.Property, fs.Arg(0))
				return 1
			}
			return 0
		}
	}
	fmt.Printf("obligation %s is no longer present on the current tree\n", v.Obligation.Key)
	return 0
}

// ---------------------------------------------------------------------------------------------------------------------
// Self-validation variants (thorough tier): text edits applied through an overlay, analysed in a subprocess.
// ---------------------------------------------------------------------------------------------------------------------

type mutant struct {
	Name   string
	File   string // relative to the repository root
	Old    string
	New    string
	Expect string // substring of the construct key (or rule id) that must be reported
}

var mutants = map[string][]mutant{}

func addMutants(prop string, ms ...mutant) { mutants[prop] = append(mutants[prop], ms...) }

type variantResult struct {
	Infra string   `json:"infra,omitempty"`
	Keys  []string `json:"keys"`
}

// cmdVariant: sonicsa variant -p C01 -file rel/path -content /path/to/replacement ; prints variantResult JSON.
func cmdVariant(args []string) int {
	cf, fs := parseCommon("variant", args)
	file := fs.String("file", "", "file (relative to repo) replaced in the overlay")
	content := fs.String("content", "", "path of the replacement contents")
	_ = fs.Parse(args)
	spec := registry[cf.prop]
	out := variantResult{}
	defer func() {
		b, _ := json.Marshal(out)
		fmt.Println(string(b))
	}()
	if spec == nil && cf.prop != "all" {
		out.Infra = "unknown property"
		return 2
	}
	data, err := os.ReadFile(*content)
	if err != nil {
		out.Infra = err.Error()
		return 2
	}
	p, err := Load(cf.repo, "amd64", map[string][]byte{filepath.Join(cf.repo, *file): data})
	if err != nil {
		out.Infra = err.Error()
		return 2
	}
	if cf.prop == "all" {
		// exploratory use: every property against one variant, loaded once
		var ids []string
		for id := range registry {
			ids = append(ids, id)
		}
		sort.Strings(ids)
		for _, id := range ids {
			r := runProperty(p, registry[id], loadFindings(filepath.Join(cf.verif, "known_findings.jsonl")))
			if r.InfraErr != "" {
				out.Infra += id + ": " + r.InfraErr + "; "
			}
			for _, o := range r.Violations {
				out.Keys = append(out.Keys, o.Key)
			}
		}
		return 0
	}
	r := runProperty(p, spec, loadFindings(filepath.Join(cf.verif, "known_findings.jsonl")))
	if r.InfraErr != "" {
		out.Infra = r.InfraErr
	}
	for _, o := range r.Violations {
		out.Keys = append(out.Keys, o.Key)
	}
	return 0
}

func runSelftest(cf *commonFlags, spec *propertySpec) *selftestSummary {
	sum := &selftestSummary{}
	ms := mutants[spec.ID]
	if len(ms) == 0 {
		return sum
	}
	self, _ := os.Executable()
	tmp, err := os.MkdirTemp("", "sonicsa-variants-")
	if err != nil {
		sum.Survived = append(sum.Survived, "cannot create scratch dir: "+err.Error())
		return sum
	}
	defer os.RemoveAll(tmp)
	var mu sync.Mutex
	var wg sync.WaitGroup
	sem := make(chan struct{}, 6)
	for i, m := range ms {
		src, err := os.ReadFile(filepath.Join(cf.repo, m.File))
		if err != nil || strings.Count(string(src), m.Old) != 1 {
			sum.Skipped++
			sum.Details = append(sum.Details, fmt.Sprintf("%s: skipped (text to edit not found exactly once in %s)", m.Name, m.File))
			continue
		}
		sum.Mutants++
		path := filepath.Join(tmp, fmt.Sprintf("v%d.go", i))
		_ = os.WriteFile(path, []byte(strings.Replace(string(src), m.Old, m.New, 1)), 0o644)
		wg.Add(1)
		go func(m mutant, path string) {
			defer wg.Done()
			sem <- struct{}{}
			defer func() { <-sem }()
			cmd := exec.Command(self, "variant", "-p", spec.ID, "-repo", cf.repo, "-verif", cf.verif, "-file", m.File, "-content", path)
			outb, _ := cmd.Output()
			var vr variantResult
			lines := strings.Split(strings.TrimSpace(string(outb)), "\n")
			_ = json.Unmarshal([]byte(lines[len(lines)-1]), &vr)
			mu.Lock()
			defer mu.Unlock()
			hit := false
			for _, k := range vr.Keys {
				if strings.Contains(k, m.Expect) {
					hit = true
				}
			}
			switch {
			case hit:
				sum.Killed++
				sum.Details = append(sum.Details, fmt.Sprintf("%s: detected (%s)", m.Name, m.Expect))
			case vr.Infra != "" && strings.Contains(vr.Infra, "type-check"):
				sum.Mutants--
				sum.Skipped++
				sum.Details = append(sum.Details, fmt.Sprintf("%s: skipped (variant does not compile)", m.Name))
			default:
				sum.Survived = append(sum.Survived, fmt.Sprintf("%s (expected a report containing %q, got %v %s)", m.Name, m.Expect, vr.Keys, vr.Infra))
			}
		}(m, path)
	}
	wg.Wait()
	sort.Strings(sum.Details)
	sort.Strings(sum.Survived)
	return sum
}
