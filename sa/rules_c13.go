package main

import (
	"fmt"
	"go/token"
	"go/types"
	"strings"

	"golang.org/x/tools/go/ssa"
)

func init() {
	register(&propertySpec{
		ID:    "C13",
		Title: "No descriptor leaks, no foreign close, owners of in-flight operations stay alive",
		Explanation: "Decides: (R1) ownership on every path - for every acquisition site (socket/open/accept/epoll_create1/eventfd/timerfd_create/" +
			"CreateTemp/Dial/mmap and every in-scope function summarised as returning an owned resource) and every CFG path on which the " +
			"acquisition succeeded, the resource is returned (with a nil or undetermined error), stored in the returned object or a long-lived " +
			"owner, or released (direct close or a deferred closure whose guard holds on that path); a live resource is never returned with " +
			"a non-nil error; (R1w) the websocket handshake closes the dialed connection on every failing path before reporting the error; " +
			"(R2) every Close/Destroy of a descriptor-owning type is dominated by a once-guard (CAS, flag/state test with store, sentinel) and " +
			"every path past the guard reaches the close(2); (R3) Register follows the success edge of every SetRead/SetWrite of the slot " +
			"owners on every path, and Deregister only drops the slot under the literal slot.Events == 0. " +
			"Not decided: descriptor-table exhaustion at the k-th allocation beyond the error edges enumerated as paths; GC behaviour itself.",
		Run: runC13,
	})
	addMutants("C13",
		mutant{"refused connect leaks the socket", "internal/socket_unix.go",
			"\tif err := connect(fd, remoteAddr, timeout, opts...); err != nil {\n\t\t_ = syscall.Close(fd)\n\t\treturn -1, nil, nil, err\n\t}\n\n\tlocalAddr, err = SocketAddress(fd)\n\tif err != nil {\n\t\t_ = syscall.Close(fd)\n\t\treturn -1, nil, nil, err\n\t}\n\treturn\n}\n\nfunc ConnectUDP(",
			"\tif err := connect(fd, remoteAddr, timeout, opts...); err != nil {\n\t\treturn -1, nil, nil, err\n\t}\n\n\tlocalAddr, err = SocketAddress(fd)\n\tif err != nil {\n\t\t_ = syscall.Close(fd)\n\t\treturn -1, nil, nil, err\n\t}\n\treturn\n}\n\nfunc ConnectUDP(", "C13-R1|internal.ConnectTCP"},
		mutant{"listen leaks on bind failure", "internal/socket_unix.go",
			"\tif err := syscall.Bind(fd, ToSockaddr(localAddr)); err != nil {\n\t\t_ = syscall.Close(fd)\n\t\treturn -1, nil, os.NewSyscallError(\"bind\", err)\n\t}\n\n\tif err := syscall.Listen(",
			"\tif err := syscall.Bind(fd, ToSockaddr(localAddr)); err != nil {\n\t\treturn -1, nil, os.NewSyscallError(\"bind\", err)\n\t}\n\n\tif err := syscall.Listen(", "C13-R1|internal.Listen"},
		mutant{"poller leaks the epoll descriptor when the waker cannot be registered", "internal/poll_linux.go",
			"\t\t_ = p.waker.Close()\n\t\t_ = syscall.Close(p.fd)\n\t\treturn nil, err", "\t\t_ = p.waker.Close()\n\t\treturn nil, err", "C13-R1|internal.NewPoller"},
		mutant{"udp peer constructor loses its deferred close", "multicast/peer.go",
			"\t\tif err != nil {\n\t\t\t_ = socket.Close()\n\t\t}\n\t}()", "\t\tif err == nil {\n\t\t\t_ = socket.Close()\n\t\t}\n\t}()", "C13-R1|multicast.NewUDPPeer"},
		mutant{"accept leaks when the local address cannot be read", "listen_conn.go",
			"\tlocalAddr, err := internal.SocketAddress(fd)\n\tif err != nil {\n\t\t_ = syscall.Close(fd)\n\t\treturn nil, err\n\t}", "\tlocalAddr, err := internal.SocketAddress(fd)\n\tif err != nil {\n\t\treturn nil, err\n\t}", "C13-R1|(*sonic.listener).accept"},
		mutant{"failed upgrade leaves the connection open", "codec/websocket/stream.go",
			"\t\tif failed != nil {\n\t\t\t_ = failed.Close()\n\t\t}\n", "\t\t_ = failed\n", "C13-R1w"},
		mutant{"failed upgrade is reported without taking the connection", "codec/websocket/stream.go",
			"\t\t\tif err != nil {\n\t\t\t\tfailed, s.conn = s.conn, nil\n\t\t\t}\n", "", "C13-R1w"},
		mutant{"listener deregisters before its once-guard", "listen_conn.go",
			"\tif !atomic.CompareAndSwapUint32(&l.closed, 0, 1) {\n\t\t// Already closed: the descriptor number may belong to somebody else by now.\n\t\treturn io.EOF\n\t}\n\n\t_ = l.ioc.UnsetReadWrite(&l.slot)\n\tl.ioc.Deregister(&l.slot)\n", "\t_ = l.ioc.UnsetReadWrite(&l.slot)\n\tl.ioc.Deregister(&l.slot)\n\tif !atomic.CompareAndSwapUint32(&l.closed, 0, 1) {\n\t\t// Already closed: the descriptor number may belong to somebody else by now.\n\t\treturn io.EOF\n\t}\n\n", "C13-R2"},
		mutant{"listener close is not guarded", "listen_conn.go",
			"\tif !atomic.CompareAndSwapUint32(&l.closed, 0, 1) {\n\t\t// Already closed: the descriptor number may belong to somebody else by now.\n\t\treturn io.EOF\n\t}\n\n", "\t_ = io.EOF\n\t_ = atomic.LoadUint32(&l.closed)\n", "C13-R2"},
		mutant{"file close bails out before close(2)", "file.go",
			"\t// The descriptor is closed whatever the poller says: it is not going to be used again.\n\t_ = f.ioc.UnsetReadWrite(&f.slot)\n", "\tif err := f.ioc.UnsetReadWrite(&f.slot); err != nil {\n\t\treturn err\n\t}\n", "C13-R2"},
		mutant{"socket close keeps its descriptor number", "socket.go",
			"\t\terr = syscall.Close(s.fd)\n\t\ts.fd = -1", "\t\terr = syscall.Close(s.fd)", "C13-R2"},
		mutant{"timer forgets it is closed when close(2) fails", "timer.go",
			"\t\tt.state = stateClosed\n\t\tdelete(t.ioc.pendingTimers, t)\n\t}\n\treturn", "\t\tif err == nil {\n\t\t\tt.state = stateClosed\n\t\t\tdelete(t.ioc.pendingTimers, t)\n\t\t}\n\t}\n\treturn", "C13-R2"},
		mutant{"handler deregisters after the completion", "file.go",
			"func (r *fileReadReactor) onRead(err error) {\n\tr.file.ioc.Deregister(&r.file.slot)\n", "func (r *fileReadReactor) onRead(err error) {\n\tdefer r.file.ioc.Deregister(&r.file.slot)\n", "C13-R3"},
		mutant{"scheduled write is not registered with the IO", "async_adapter.go",
			"\tif err := a.ioc.SetWrite(&a.slot); err != nil {\n\t\tcb(err, writtenBytes)\n\t} else {\n\t\ta.ioc.Register(&a.slot)\n\t}", "\tif err := a.ioc.SetWrite(&a.slot); err != nil {\n\t\tcb(err, writtenBytes)\n\t}", "C13-R3"},
		mutant{"Deregister drops a slot that still has an operation in flight", "io.go",
			"\tif slot.Events != 0 {\n\t\t// An operation in the other direction is still in flight and relies on the slot being kept alive.\n\t\treturn\n\t}\n\n", "", "C13-R3"},
		mutant{"mirrored buffer leaks its temp file descriptor", "bytes/mirrored_buffer.go",
			"\t\t_ = os.Remove(file.Name())\n\t\t_ = file.Close()", "\t\t_ = os.Remove(file.Name())", "C13-R1|bytes.NewMirroredBuffer"},
	)
}

func runC13(c *Ctx) {
	p := c.P
	o := newOwnership(p)

	// ------------------------------------------------------------------------------------------------ R1
	c.rule("C13-R1", "ownership: on every path on which an acquisition succeeded the resource is transferred or released; never returned live with an error", 25)
	for _, fn := range p.Funcs {
		for _, a := range o.acquisitionsIn(fn) {
			rep := o.analyse(fn, a)
			construct := "acquire " + a.name
			if a.resIdx != 0 {
				construct += fmt.Sprintf("#%d", a.resIdx)
			}
			switch {
			case rep.unproven != "":
				c.unproven(fn, construct, a.call.Pos(), "%s", rep.unproven)
			case len(rep.leaks) > 0 || len(rep.withErr) > 0:
				c.bad(fn, construct, a.call.Pos(), "resource obtained from %s is %s", a.name, rep.String())
			default:
				c.ok(fn, construct, a.call.Pos(), "transferred or released on all %d success paths", rep.paths)
			}
		}
	}

	// ------------------------------------------------------------------------------------------------ R1w
	c.rule("C13-R1w", "websocket handshake: every path that reports an error after dialing closes the connection first", 1)
	{
		hs := p.Method("codec/websocket", "Stream", "handshake")
		closeNL := p.Method("codec/websocket", "Stream", "CloseNextLayer")
		dial := p.Method("codec/websocket", "Stream", "dial")
		upgrade := p.Method("codec/websocket", "Stream", "upgrade")
		n := 0
		for _, call := range callsToFn(hs, dial) {
			for _, a := range call.Common().Args {
				mc, ok := strip(a).(*ssa.MakeClosure)
				if !ok {
					continue
				}
				cf := mc.Fn.(*ssa.Function)
				c.touch(cf)
				// the completion callback invocation(s) inside the closure
				paths, overflow := enumPaths(cf)
				if overflow {
					c.unproven(cf, "paths", cf.Pos(), "too many paths")
					continue
				}
				connF := p.Field("codec/websocket", "Stream", "conn")
				bad := ""
				takenInto := map[*ssa.FreeVar]bool{}
				for _, path := range paths {
					pi := newPathIndex(path)
					closed := false
					for i, in := range pi.instrs {
						if isCallToFn(in, closeNL) {
							closed = true
						}
						// the connection handed to the enclosing function through a captured variable: *fv = s.conn
						if st, ok := in.(*ssa.Store); ok {
							if fv, ok := st.Addr.(*ssa.FreeVar); ok && loadOfField(st.Val, connF) {
								takenInto[fv] = true
								closed = true
							}
						}
						cc, ok := in.(ssa.CallInstruction)
						if !ok || !isDynamicFuncCall(cc) || len(cc.Common().Args) == 0 {
							continue
						}
						n++
						st := pi.nilnessAt(cc.Common().Args[0], i, false)
						// a path on which the error is not provably nil must have closed the connection
						if st != "nil" && !closed {
							bad = fmt.Sprintf("the handshake result is reported with a possibly non-nil error without closing the dialed connection (%s)", path)
						}
					}
				}
				// a connection taken out through a captured variable is closed by the enclosing function once dial returned:
				// Close on the variable's value, dominated by the dial call, under no other condition than "a connection was taken"
				for fv := range takenInto {
					cell := cellOf(bindingOf(cf, fv))
					okClose := false
					if cell != nil {
						eachInstr(hs, func(in ssa.Instruction) {
							if !closesConnection(in) || !dominatesInstr(call.(ssa.Instruction), in) {
								return
							}
							u, isLoad := strip(in.(ssa.CallInstruction).Common().Value).(*ssa.UnOp)
							if !isLoad || cellOf(u.X) != cell {
								return
							}
							extra := 0
							dialGuards := guardsOf(call.(ssa.Instruction).Block())
							for _, l := range guardsOf(in.Block()) {
								inDial := false
								for _, d := range dialGuards {
									if d.Cond == l.Cond && d.Pos == l.Pos {
										inDial = true
									}
								}
								if inDial {
									continue
								}
								if v, eq, ok := l.nilTest(); ok && !eq {
									if lu, ok := strip(v).(*ssa.UnOp); ok && cellOf(lu.X) == cell {
										continue
									}
								}
								extra++
							}
							if extra == 0 {
								okClose = true
							}
						})
					}
					if !okClose {
						bad = "the connection of a failed handshake is moved into " + fv.Name() + " but the enclosing function does not close it after dial returned"
					}
				}
				hasUpgrade := len(callsToFn(cf, upgrade)) > 0
				c.check(bad == "" && hasUpgrade, cf, "report result", cf.Pos(), "failing paths close the connection before reporting", "a failed dial/upgrade leaves the net.Conn open: "+bad)
			}
		}
		if n == 0 {
			c.bad(hs, "report result", hs.Pos(), "cannot find the completion of dial inside handshake")
		}
	}

	// ------------------------------------------------------------------------------------------------ R2
	c.rule("C13-R2", "Close closes, once: the close(2) is dominated by a once-guard and every path past the guard reaches it; the websocket stream closes the connection it dialed", 17)
	sysClose := p.ExtFunc("syscall", "Close")
	munmap := p.ExtFunc("syscall", "Munmap")
	type closer struct{ pkg, typ, method string }
	for _, cl := range []closer{{"sonic", "file", "Close"}, {"sonic", "AsyncAdapter", "Close"}, {"sonic", "listener", "Close"}, {"sonic", "packetConn", "Close"},
		{"multicast", "UDPPeer", "Close"}, {"sonic", "Socket", "Close"}, {"internal", "poller", "Close"}, {"sonic", "Timer", "Close"}, {"bytes", "MirroredBuffer", "Destroy"}} {
		fn := p.Method(cl.pkg, cl.typ, cl.method)
		var finals []ssa.Instruction
		var isFinal func(cur *ssa.Function, in ssa.Instruction, depth int) bool
		isFinal = func(cur *ssa.Function, in ssa.Instruction, depth int) bool {
			if isCallTo(in, sysClose, munmap) {
				return true
			}
			// delegation to an owned object's Close (Socket, internal.Timer, EventFd)
			if call, ok := in.(*ssa.Call); ok {
				if callee := call.Call.StaticCallee(); callee != nil && callee.Name() == "Close" && callee != fn && callee.Signature.Recv() != nil {
					rp, rt := recvTypeName(callee)
					if (rp == modPath && rt == "Socket") || (rp == modPath+"/internal" && (rt == "Timer")) {
						return true
					}
				}
				// an unexported release helper of the same package that closes on every path
				if callee := call.Call.StaticCallee(); depth > 0 && isHelperOf(cur, callee) {
					okp, _ := mustPassAt(callee.Blocks[0], 0, func(x ssa.Instruction) bool { return isFinal(callee, x, depth-1) })
					return okp
				}
			}
			return false
		}
		eachInstr(fn, func(in ssa.Instruction) {
			if isFinal(fn, in, 2) {
				finals = append(finals, in)
			}
		})
		if len(finals) == 0 {
			c.bad(fn, "close(2)", fn.Pos(), "%s.%s does not release the descriptor", cl.typ, cl.method)
			continue
		}
		for _, f := range finals {
			g, kind := onceGuard(fn, f)
			if g == nil {
				c.bad(fn, "once-guard", f.Pos(), "the descriptor is closed without a once-guard: a second %s closes a descriptor number the kernel may have given to another object", cl.method)
				continue
			}
			c.ok(fn, "once-guard", f.Pos(), "guarded by %s", kind)
			// everything Close undoes by descriptor number sits behind the same guard: the poller interests and the IO's
			// slot table are keyed by the number, which may belong to another object when Close is called again
			eachInstr(fn, func(in ssa.Instruction) {
				call, ok := in.(ssa.CallInstruction)
				if !ok || call.Common().StaticCallee() == nil {
					return
				}
				callee := call.Common().StaticCallee()
				if rp, rt := recvTypeName(callee); rp != modPath || rt != "IO" {
					return
				}
				switch callee.Name() {
				case "Deregister", "UnsetRead", "UnsetWrite", "UnsetReadWrite":
				default:
					return
				}
				behind := false
				for _, l := range guardsOf(in.Block()) {
					if l.If == g.If && l.Pos == g.Pos {
						behind = true
					}
				}
				c.check(behind, fn, "guarded "+callee.Name(), in.Pos(), "runs behind the once-guard", callee.Name()+" runs before the once-guard: a second "+cl.method+" removes the poller interest / slot-table entry of whichever object owns that descriptor number by then, and its operation in flight is dropped or its owner collected")
			})
			// every path past the guard reaches the close
			edge := g.If.Block().Succs[1]
			if g.Pos {
				edge = g.If.Block().Succs[0]
			}
			okp, why := mustPassAt(edge, 0, func(in ssa.Instruction) bool {
				for _, x := range finals {
					if in == x {
						return true
					}
				}
				return false
			})
			c.check(okp, fn, "reaches close(2)", f.Pos(), "every path past the once-guard closes the descriptor", "after the once-guard has been passed (and can never be passed again) a path returns without closing the descriptor: "+why)
			// the guard must really be passed only once: when it is a test of a field, that field is given its excluding value on
			// every path that reaches the close(2) - whatever close(2) reports, the descriptor number is gone (munmap is different:
			// a failed munmap leaves the mapping in place)
			if strings.HasPrefix(kind, "test of ") && isCallTo(f, munmap) {
				// munmap: the mapping is gone exactly when the call succeeded - the guard field is cleared on that edge
				if fld := guardField(*g); fld != nil {
					okClear := false
					for _, a := range storesTo(fn, fld) {
						if !isNil(a.Val) {
							continue
						}
						for _, l := range guardsOf(a.Instr.Block()) {
							if x, eq, isNT := l.nilTest(); isNT && eq && resolveCell(strip(x)) == f.(ssa.Value) {
								okClear = true
							}
						}
					}
					c.check(okClear, fn, "guard flag on success", f.Pos(), "the mapping is forgotten exactly when munmap succeeded", "the field that guards "+cl.method+" ("+fld.Name()+") is not cleared on the success edge of munmap: a second "+cl.method+" unmaps the same address range again - by then it may belong to another mapping of the process")
				}
			}
			if strings.HasPrefix(kind, "test of ") && !isCallTo(f, munmap) {
				fld := guardField(*g)
				if fld != nil {
					stored, whyS := mustPassAt(edge, 0, func(in ssa.Instruction) bool {
						st, ok := in.(*ssa.Store)
						if !ok {
							return false
						}
						fv, _ := fieldAddrOf(st.Addr)
						return fv == fld
					})
					c.check(stored, fn, "guard flag always set", f.Pos(), "the closed state is recorded on every path that closes the descriptor", "the closed state ("+fld.Name()+") is not recorded on every path past the guard ("+whyS+"): if close(2) - or the delegate that always closes - reports an error, a second "+cl.method+" closes the same descriptor number again, which may belong to another object by then")
				}
			}
		}
	}

	// every resource an object took ownership of in a field is released by its Close: the fields are those an acquisition
	// was stored into (E6), the release is Close/Destroy/close(2)/munmap on a load of that field, reached from the closer
	{
		ownedFields := map[*types.Var]string{}
		for _, fn := range p.Funcs {
			if fn.Parent() != nil || !o.inScope(fn) {
				continue
			}
			for _, a := range o.acquisitionsIn(fn) {
				h := o.holders(fn, a.res)
				for _, fs := range h.fields {
					for f := range fs {
						ownedFields[f] = a.name + " in " + fnName(fn)
					}
				}
			}
		}
		nOwned := 0
		for _, cl := range []closer{{"sonic", "file", "Close"}, {"sonic", "AsyncAdapter", "Close"}, {"sonic", "listener", "Close"}, {"sonic", "packetConn", "Close"},
			{"multicast", "UDPPeer", "Close"}, {"sonic", "Socket", "Close"}, {"internal", "poller", "Close"}, {"sonic", "Timer", "Close"}, {"internal", "Timer", "Close"}, {"internal", "EventFd", "Close"}, {"sonic", "IO", "Close"}, {"bytes", "MirroredBuffer", "Destroy"}} {
			fn := p.TryMethod(cl.pkg, cl.typ, cl.method)
			if fn == nil {
				continue
			}
			st, ok := p.Named(cl.pkg, cl.typ).Underlying().(*types.Struct)
			if !ok {
				continue
			}
			for i := 0; i < st.NumFields(); i++ {
				f := st.Field(i)
				src, owned := ownedFields[f]
				if !owned {
					continue
				}
				// the handle itself (a descriptor number, a mapping, a sub-object or connection), not a struct that merely
				// carries a copy of it (slot.Fd, the reactors)
				switch ft := f.Type().Underlying().(type) {
				case *types.Basic, *types.Slice, *types.Interface:
				case *types.Pointer:
					hasClose := false
					if n, ok := ft.Elem().(*types.Named); ok {
						for k := 0; k < n.NumMethods(); k++ {
							if nm := n.Method(k).Name(); nm == "Close" || nm == "Destroy" {
								hasClose = true
							}
						}
					}
					if !hasClose {
						continue // a pointer to a plain struct that carries a copy (reactors holding the peer)
					}
				default:
					continue
				}
				nOwned++
				released := containsDeep(fn, func(in ssa.Instruction) bool {
					call, ok := in.(ssa.CallInstruction)
					if !ok {
						return false
					}
					cc := call.Common()
					name := ""
					var args []ssa.Value
					if cc.IsInvoke() {
						name, args = cc.Method.Name(), []ssa.Value{cc.Value}
					} else if callee := cc.StaticCallee(); callee != nil {
						name, args = callee.Name(), cc.Args
					}
					if name != "Close" && name != "Destroy" && name != "Munmap" && name != "CloseNextLayer" {
						return false
					}
					for _, a := range args {
						if loadOfField(a, f) {
							return true
						}
					}
					return false
				}, 3)
				c.check(released, fn, "releases "+f.Name(), fn.Pos(), "the resource kept in "+f.Name()+" is released", cl.typ+"."+cl.method+" never releases the resource the object keeps in "+f.Name()+" ("+src+"): every object created leaks it")
			}
		}
		if nOwned == 0 {
			c.bad(p.Method("internal", "poller", "Close"), "releases", p.Method("internal", "poller", "Close").Pos(), "no owned resource field was found on any closer (anchor moved)")
		}
	}

	// the websocket stream owns the connection it dialed: CloseNextLayer closes it whenever there is one
	{
		fn := p.Method("codec/websocket", "Stream", "CloseNextLayer")
		connF := p.Field("codec/websocket", "Stream", "conn")
		closes := false
		why := "CloseNextLayer never calls Close on s.conn"
		eachInstrDeep(fn, func(in, site ssa.Instruction, tr func(ssa.Value) ssa.Value) {
			call, ok := in.(ssa.CallInstruction)
			if !ok || !call.Common().IsInvoke() || call.Common().Method.Name() != "Close" || !loadOfField(tr(call.Common().Value), connF) {
				return
			}
			// under no condition other than s.conn != nil
			okG := true
			for _, l := range guardsOf(site.Block()) {
				if x, eq, isNT := l.nilTest(); !(isNT && !eq && loadOfField(x, connF)) {
					okG = false
				}
			}
			if okG {
				closes = true
			} else {
				why = "CloseNextLayer closes s.conn only under a further condition"
			}
		})
		c.check(closes, fn, "closes the connection", fn.Pos(), "s.conn.Close() whenever s.conn != nil", why+": the descriptor of the dialed connection stays open after the stream was closed")
	}

	// ------------------------------------------------------------------------------------------------ R3
	c.rule("C13-R3", "owners of in-flight operations stay reachable: Register on the success edge of every registration; Deregister only when no interest is left", 11)
	e := newE2(p)
	register := p.Method("sonic", "IO", "Register")
	// Register really keeps the slot: on every path the slot it was given is stored into the table (an element of the
	// static array or an entry of the map) - the pointer the kernel holds is invisible to the collector
	{
		paths, overflow := enumPaths(register)
		okKeep := !overflow && len(paths) > 0
		slotPrm := ssa.Value(register.Params[len(register.Params)-1])
		for _, path := range paths {
			if path.Panics {
				continue
			}
			kept := false
			for _, in := range path.Instrs() {
				hit := func(x ssa.Instruction) bool {
					switch v := x.(type) {
					case *ssa.Store:
						_, isIdx := v.Addr.(*ssa.IndexAddr)
						return isIdx && stripConv(v.Val) == slotPrm
					case *ssa.MapUpdate:
						return stripConv(v.Value) == slotPrm
					}
					return false
				}
				if hit(in) {
					kept = true
				}
				if call, ok := in.(*ssa.Call); ok {
					if h := call.Call.StaticCallee(); h != nil && isHelperOf(register, h) {
						for k, a := range call.Call.Args {
							if stripConv(a) != slotPrm || k >= len(h.Params) {
								continue
							}
							hp := ssa.Value(h.Params[k])
							okp, _ := mustPassAt(h.Blocks[0], 0, func(x ssa.Instruction) bool {
								switch v := x.(type) {
								case *ssa.Store:
									_, isIdx := v.Addr.(*ssa.IndexAddr)
									return isIdx && stripConv(v.Val) == hp
								case *ssa.MapUpdate:
									return stripConv(v.Value) == hp
								}
								return false
							})
							if okp {
								kept = true
							}
						}
					}
				}
			}
			if !kept {
				okKeep = false
			}
		}
		c.check(okKeep, register, "keeps the slot", register.Pos(), "the slot is stored into the table on every path", "IO.Register returns on some path without storing the slot in its table: an object whose every other reference is dropped while its operation is in flight is collected, and the completion runs on freed memory (or never)")
	}
	for _, fn := range p.Funcs {
		pk, tn := recvTypeName(fn)
		if !c14Owners[pk+"."+tn] {
			continue
		}
		eachInstr(fn, func(in ssa.Instruction) {
			if e.regDir(in) == "" {
				return
			}
			call := in.(ssa.CallInstruction)
			ifs := regResultTests(call)
			if _, inner := e.regWrapper(fn); inner != nil && len(ifs) == 0 {
				return // returned as it is: tested where the helper is called
			}
			if len(ifs) == 0 {
				c.bad(fn, "registration", in.Pos(), "the result of the registration is not tested: the slot cannot be registered on success only")
				return
			}
			for _, ifi := range ifs {
				b := ifi.Block()
				cond, pos := normLit(ifi.Cond, true)
				bo, ok := cond.(*ssa.BinOp)
				if !ok {
					continue
				}
				eqOnTrue := (bo.Op == token.EQL) == pos
				succ := b.Succs[1]
				if eqOnTrue {
					succ = b.Succs[0]
				}
				okp, why := mustPassAt(succ, 0, func(x ssa.Instruction) bool { return isCallToFn(x, register) })
				c.check(okp, fn, "registration "+e.regDir(in), in.Pos(), "the slot is registered with the IO on the success edge", "a successfully parked operation does not register its slot with the IO: an object the program drops can be collected while the kernel still points at its slot ("+why+")")
			}
		})
	}
	// handlers drop the slot before they complete or retry the operation: Deregister is keyed by descriptor number, so a late
	// Deregister (after a callback that closed the object and created another one on the same number) drops the newcomer's slot
	{
		dereg := p.Method("sonic", "IO", "Deregister")
		seenH := map[*ssa.Function]bool{}
		for _, fn := range p.Funcs {
			pk, tn := recvTypeName(fn)
			if !c14Owners[pk+"."+tn] {
				continue
			}
			for _, call := range callsTo(fn, e.slotSet) {
				hf, _, _ := handlerFunction(p, call.Common().Args[2])
				if hf == nil || seenH[hf] {
					continue
				}
				seenH[hf] = true
				c.touch(hf)
				var deregs []ssa.Instruction
				eachInstr(hf, func(in ssa.Instruction) {
					if _, isCall := in.(*ssa.Call); isCall && doesDeep(in, func(x ssa.Instruction) bool { return isCallToFn(x, dereg) }) {
						deregs = append(deregs, in) // directly, or through a one-line helper (releaseSlot())
					}
				})
				good := len(deregs) > 0
				eachInstr(hf, func(in ssa.Instruction) {
					cc, ok := in.(*ssa.Call)
					if !ok || isCallToFn(in, dereg) {
						return
					}
					isDereg := false
					for _, d := range deregs {
						if d == in {
							isDereg = true
						}
					}
					if isDereg {
						return
					}
					completes := isDynamicFuncCall(cc)
					if callee := cc.Call.StaticCallee(); callee != nil && e.inScope(callee) {
						for _, a := range cc.Call.Args {
							if _, isSig := a.Type().Underlying().(*types.Signature); isSig {
								completes = true
							}
						}
					}
					if !completes {
						return
					}
					dom := false
					for _, d := range deregs {
						if dominatesInstr(d, in) {
							dom = true
						}
					}
					if !dom {
						good = false
					}
				})
				c.check(good, hf, "deregister first", hf.Pos(), "the slot is dropped before the completion runs", "the handler does not deregister its slot before it completes or retries the operation (e.g. deferred): a callback that closes the object and opens another one on the same descriptor number has its registration dropped, and the new object can be collected with an operation in flight")
			}
		}
	}
	{
		dereg := p.Method("sonic", "IO", "Deregister")
		eventsF := p.Field("internal", "Slot", "Events")
		n := 0
		isDrop := func(in ssa.Instruction) bool {
			if st, ok := in.(*ssa.Store); ok {
				if _, isIA := st.Addr.(*ssa.IndexAddr); isIA && isNil(st.Val) {
					return true
				}
			}
			if call, ok := in.(*ssa.Call); ok {
				if b, ok := call.Call.Value.(*ssa.Builtin); ok && b.Name() == "delete" {
					return true
				}
			}
			return false
		}
		eachInstr(dereg, func(in ssa.Instruction) {
			// the table may be a type of its own whose method does the dropping: judged at the call in Deregister
			if !doesDeep(in, isDrop) {
				return
			}
			n++
			good := false
			for _, l := range guardsOf(in.Block()) {
				op, x, y, ok := l.cmp()
				if ok && op == token.EQL && loadOfField(x, eventsF) && isConstInt(y, 0) {
					good = true
				}
				// the same test through a mask that covers both directions: Events&(read|write) == 0
				if ok && op == token.EQL && isConstInt(y, 0) {
					if bo, isBO := stripConv(x).(*ssa.BinOp); isBO && bo.Op == token.AND {
						rf, ok1 := constantInt(p.Const("internal", "PollerReadEvent"))
						wf, ok2 := constantInt(p.Const("internal", "PollerWriteEvent"))
						for _, pr := range [][2]ssa.Value{{bo.X, bo.Y}, {bo.Y, bo.X}} {
							if m, isC := constInt(pr[1]); isC && ok1 && ok2 && loadOfField(pr[0], eventsF) && m&rf == rf && m&wf == wf {
								good = true
							}
						}
					}
				}
			}
			c.check(good, dereg, "drop slot", in.Pos(), "the slot is dropped only when no interest is registered", "Deregister drops the slot while an operation in the other direction may still be registered: the first completion of a read+write pair lets the owner be collected")
		})
		if n == 0 {
			c.bad(dereg, "drop slot", dereg.Pos(), "Deregister no longer drops the slot")
		}
	}
}

// onceGuard finds a guard literal dominating instruction f that can be passed only once:
//   - the success edge of atomic.CompareAndSwap / a Swap compared with the old value,
//   - a test of a bool/enum field that is stored with the excluding value inside the guarded region,
//   - a sentinel test (fd >= 0 / slice != nil) with a store of the sentinel inside the guarded region.
func onceGuard(fn *ssa.Function, f ssa.Instruction) (*Lit, string) {
	for _, l := range guardsOf(f.Block()) {
		l := l
		// CAS
		if call, ok := l.Cond.(*ssa.Call); ok && l.Pos {
			if callee := call.Call.StaticCallee(); callee != nil && callee.Pkg != nil && callee.Pkg.Pkg.Path() == "sync/atomic" && strings.HasPrefix(callee.Name(), "CompareAndSwap") {
				return &l, "atomic compare-and-swap"
			}
		}
		// field test + store inside the region
		op, x, y, isCmp := l.cmp()
		var fld *types.Var
		if isCmp {
			if fv := loadedField(x); fv != nil {
				fld = fv
			} else if fv := loadedField(y); fv != nil {
				fld = fv
			}
			_ = op
		} else if fv := loadedField(l.Cond); fv != nil {
			fld = fv // bool field used directly as condition
		}
		if fld == nil {
			continue
		}
		region := l.If.Block().Succs[1]
		if l.Pos {
			region = l.If.Block().Succs[0]
		}
		stored := false
		for _, a := range storesTo(fn, fld) {
			if region.Dominates(a.Instr.Block()) {
				stored = true
			}
		}
		if stored {
			return &l, "test of " + fld.Name() + " with a store inside the guarded region"
		}
	}
	return nil, ""
}

// guardField: the field a once-guard literal tests.
func guardField(l Lit) *types.Var {
	if _, x, y, ok := l.cmp(); ok {
		if fv := loadedField(x); fv != nil {
			return fv
		}
		return loadedField(y)
	}
	return loadedField(l.Cond)
}
