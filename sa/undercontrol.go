package main

import (
	"go/types"
	"sort"

	"golang.org/x/tools/go/ssa"
)

// underControl computes the in-scope functions that may execute inside a syscall.RawConn.Control callback: the closures
// handed to Control, everything they call (static callees; interface invokes resolved by CHA over the analysed packages)
// and - following callback parameters upwards - the closures/functions that callers pass for a parameter which is
// invoked there. Closures that are merely created (e.g. handed to IO.Post) are not executed there and are not followed.
// While Control runs the runtime holds a reference to the descriptor; net.Conn.Close waits for such references.
type ctlCtx struct {
	p     *Prog
	e     *e2
	under map[*ssa.Function]string // function -> why
	prm   map[*ssa.Function]map[int]bool
	work  []*ssa.Function
}

func underControl(p *Prog, e *e2) map[*ssa.Function]string {
	c := &ctlCtx{p: p, e: e, under: map[*ssa.Function]string{}, prm: map[*ssa.Function]map[int]bool{}}
	for _, fn := range p.Funcs {
		eachInstr(fn, func(in ssa.Instruction) {
			if !isRawConnControl(in) {
				return
			}
			for _, a := range in.(ssa.CallInstruction).Common().Args {
				c.addValue(a, fn, "passed to RawConn.Control in "+fnName(fn))
			}
		})
	}
	for len(c.work) > 0 {
		f := c.work[len(c.work)-1]
		c.work = c.work[:len(c.work)-1]
		eachInstr(f, func(in ssa.Instruction) {
			call, ok := in.(ssa.CallInstruction)
			if !ok {
				return
			}
			if _, isGo := in.(*ssa.Go); isGo {
				return // runs on another goroutine, outside the callback
			}
			cc := call.Common()
			if cc.IsInvoke() {
				for _, g := range e.implementations(cc.Method) {
					c.add(g, "implements "+cc.Method.Name()+" invoked in "+fnName(f))
				}
				return
			}
			if g := cc.StaticCallee(); g != nil {
				if e.inScope(g) {
					c.add(g, "called by "+fnName(f))
				}
				return
			}
			c.invoked(cc.Value, f)
		})
	}
	return c.under
}

func (c *ctlCtx) add(fn *ssa.Function, why string) {
	if fn == nil || fn.Blocks == nil {
		return
	}
	if _, ok := c.under[fn]; ok {
		return
	}
	c.under[fn] = why
	c.work = append(c.work, fn)
}

// addValue: v is called under Control; resolve it to functions.
func (c *ctlCtx) addValue(v ssa.Value, in *ssa.Function, why string) {
	switch x := strip(v).(type) {
	case *ssa.MakeClosure:
		c.add(x.Fn.(*ssa.Function), why)
	case *ssa.Function:
		if c.e.inScope(x) {
			c.add(x, why)
		}
	default:
		c.invoked(v, in)
	}
}

// invoked: the function value v (in function f, which runs under Control) is called: if it is a parameter of f or of an
// enclosing function, every in-scope call site's argument for that parameter runs under Control as well.
func (c *ctlCtx) invoked(v ssa.Value, f *ssa.Function) {
	v = strip(v)
	if u, ok := v.(*ssa.UnOp); ok {
		if cell := cellOf(u.X); cell != nil {
			if st := singleStore(cell); st != nil {
				v = strip(st.Val)
			}
		} else if fv, ok := u.X.(*ssa.FreeVar); ok {
			// captured by reference: the binding is a cell of the parent
			if b := bindingOf(f, fv); b != nil {
				if cell := cellOf(b); cell != nil {
					if st := singleStore(cell); st != nil {
						c.invoked(st.Val, f.Parent())
						return
					}
				}
			}
			return
		}
	}
	switch x := v.(type) {
	case *ssa.Parameter:
		owner := x.Parent()
		idx := -1
		for i, p := range owner.Params {
			if p == x {
				idx = i
			}
		}
		if idx < 0 {
			return
		}
		if c.prm[owner] == nil {
			c.prm[owner] = map[int]bool{}
		}
		if c.prm[owner][idx] {
			return
		}
		c.prm[owner][idx] = true
		for _, site := range c.p.callers(owner) {
			args := site.Common().Args
			if idx < len(args) {
				c.addValue(args[idx], site.Parent(), "passed as the callback of "+fnName(owner)+" in "+fnName(site.Parent()))
			}
		}
	case *ssa.FreeVar:
		if b := bindingOf(f, x); b != nil && f.Parent() != nil {
			c.addValue(b, f.Parent(), "captured callback invoked in "+fnName(f))
		}
	case *ssa.MakeClosure:
		c.add(x.Fn.(*ssa.Function), "called in "+fnName(f))
	case *ssa.Function:
		if c.e.inScope(x) {
			c.add(x, "called in "+fnName(f))
		}
	}
}

// bindingOf returns the value bound to free variable fv of closure f at (the first) MakeClosure that creates f.
func bindingOf(f *ssa.Function, fv *ssa.FreeVar) ssa.Value {
	par := f.Parent()
	if par == nil {
		return nil
	}
	idx := -1
	for i, x := range f.FreeVars {
		if x == fv {
			idx = i
		}
	}
	if idx < 0 {
		return nil
	}
	var out ssa.Value
	eachInstr(par, func(in ssa.Instruction) {
		if mc, ok := in.(*ssa.MakeClosure); ok && mc.Fn == f && out == nil && idx < len(mc.Bindings) {
			out = mc.Bindings[idx]
		}
	})
	return out
}

// closesConnection: in is an invoke of Close on a connection-like interface (net.Conn, io.Closer, io.ReadWriteCloser...)
// or a call of a method named Close on a net/tls connection type.
func closesConnection(in ssa.Instruction) bool {
	call, ok := in.(ssa.CallInstruction)
	if !ok {
		return false
	}
	cc := call.Common()
	if cc.IsInvoke() {
		if cc.Method.Name() != "Close" {
			return false
		}
		t := cc.Value.Type()
		if n, ok := t.(*types.Named); ok && n.Obj().Pkg() != nil {
			switch n.Obj().Pkg().Path() + "." + n.Obj().Name() {
			case "net.Conn", "io.Closer", "io.ReadWriteCloser", "io.ReadCloser", "io.WriteCloser", "net.PacketConn", "net.Listener":
				return true
			}
		}
		return false
	}
	if o := calleeObj(call); o != nil && o.Name() == "Close" && o.Pkg() != nil {
		switch o.Pkg().Path() {
		case "net", "crypto/tls", "os":
			return true
		}
	}
	return false
}

func sortedFuncs(m map[*ssa.Function]string) []*ssa.Function {
	var out []*ssa.Function
	for f := range m {
		out = append(out, f)
	}
	sort.Slice(out, func(i, j int) bool { return out[i].Pos() < out[j].Pos() })
	return out
}
