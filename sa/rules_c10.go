package main

import (
	"fmt"
	"go/token"
	"go/types"
	"sort"
	"strings"

	"golang.org/x/tools/go/ssa"
)

func init() {
	register(&propertySpec{
		ID:    "C10",
		Title: "BipBuffer is a FIFO of contiguous chunks whose claims never overlap queued data",
		Explanation: "Narrow, structural claim. Decides by comparing the canonical form of every cursor update with the frozen transition table of the bip-buffer " +
			"algorithm: (R1) Claim - the slice handed out is data[claimHead:claimTail] with claimTail = claimHead + min(freeSpace, n) and (claimHead, freeSpace) one of the " +
			"physically free ranges given the layout: (wrappedTail, head - wrappedTail) when wrapped, otherwise (tail, Size() - tail) or (0, head), the larger of the two " +
			"being chosen (before <= after -> after); an empty free range returns nil; (R2) Commit - the amount is min(claimTail - claimHead, n); an empty buffer is " +
			"re-anchored at the claim (head = claimHead, tail = claimHead + amount), a claim adjacent to the primary region extends tail, any other extends wrappedTail; " +
			"the claim is cleared; (R3) Consume - n >= tail - head promotes the wrapped region (head, tail = wrappedHead, wrappedTail; wrapped = 0, 0), otherwise head += n; " +
			"Reset zeroes all six cursors; Committed() = tail - head + wrappedTail - wrappedHead; Head() = data[head:tail] when non-empty. " +
			"Not decided (most of the property): FIFO order over histories, Committed() as committed minus consumed over histories, contiguity after promotion, the " +
			"representation invariant itself - relations between integers across histories that need an inductive relational argument.",
		Run: runC10,
	})
	addMutants("C10",
		mutant{"empty commit moves the cursors of an empty buffer", "bip_buffer.go",
			"\ttoCommit := buf.claimTail - buf.claimHead\n\tif toCommit > n {\n\t\ttoCommit = n\n\t}\n\tif toCommit == 0 {", "\ttoCommit := buf.claimTail - buf.claimHead\n\tif toCommit > n {\n\t\ttoCommit = n\n\t}\n\tif n == 0 {", "C10-R2"},
		mutant{"claim may exceed the free range", "bip_buffer.go", "\tif claimSize > n {\n\t\tclaimSize = n\n\t}", "\tclaimSize = n", "C10-R1"},
		mutant{"wrapped claim starts at the primary tail", "bip_buffer.go", "\t\tclaimHead = buf.wrappedTail\n\t\tfreeSpace = buf.head - buf.wrappedTail", "\t\tclaimHead = buf.tail\n\t\tfreeSpace = buf.head - buf.wrappedTail", "C10-R1"},
		mutant{"free space before the head overestimated", "bip_buffer.go", "\t\t\tclaimHead = 0\n\t\t\tfreeSpace = spaceBefore", "\t\t\tclaimHead = 0\n\t\t\tfreeSpace = buf.tail", "C10-R1"},
		mutant{"commit larger than the claim", "bip_buffer.go", "\tif toCommit > n {\n\t\ttoCommit = n\n\t}", "\ttoCommit = n", "C10-R2"},
		mutant{"empty buffer commits at the old tail", "bip_buffer.go",
			"\tif buf.Committed() == 0 {\n\t\tbuf.head = buf.claimHead\n\t\tbuf.tail = buf.claimHead + toCommit\n\t\thead = buf.head\n\t\ttail = buf.tail\n\t} else if buf.claimHead == buf.tail {",
			"\tif buf.Committed() == 0 || buf.claimHead == buf.tail {", "C10-R2"},
		mutant{"claim survives the commit", "bip_buffer.go", "\tbuf.claimHead = 0\n\tbuf.claimTail = 0\n\treturn buf.data[head:tail]", "\treturn buf.data[head:tail]", "C10-R2"},
		mutant{"promotion off by one", "bip_buffer.go", "\tif n >= buf.tail-buf.head {", "\tif n > buf.tail-buf.head {", "C10-R3"},
		mutant{"promotion keeps the wrapped region", "bip_buffer.go", "\t\tbuf.wrappedHead = 0\n\t\tbuf.wrappedTail = 0\n\t} else {", "\t\tbuf.wrappedHead = 0\n\t} else {", "C10-R3"},
		mutant{"reset through consume", "bip_buffer.go", "\tbuf.head = 0\n\tbuf.tail = 0\n\tbuf.wrappedHead = 0\n\tbuf.wrappedTail = 0\n", "\tbuf.Consume(buf.Committed())\n", "C10-R3"},
		mutant{"committed ignores the wrapped region", "bip_buffer.go", "return buf.tail - buf.head + buf.wrappedTail - buf.wrappedHead", "return buf.tail - buf.head", "C10-R3"},
	)
}

// exprString renders an integer SSA expression canonically: field loads by field name, parameters as $name, calls as
// name(), commutative operands sorted, named phis by their given name.
func exprString(v ssa.Value, names map[ssa.Value]string, depth int) string {
	v = stripConv(v)
	if n, ok := names[v]; ok {
		return n
	}
	if depth > 8 {
		return "?"
	}
	if k, ok := constInt(v); ok {
		return fmt.Sprint(k)
	}
	if isNil(v) {
		return "nil"
	}
	switch x := v.(type) {
	case *ssa.Parameter:
		return "$" + pinParamName(x)
	case *ssa.UnOp:
		if x.Op == token.MUL {
			if f := loadedField(x); f != nil {
				return pinFieldName(f)
			}
		}
	case *ssa.Call:
		if r := pureGetterResult(x); r != nil {
			return exprString(r, names, depth+1)
		}
		if callee := x.Call.StaticCallee(); callee != nil {
			return pinName(callee) + "()"
		}
		if b, ok := x.Call.Value.(*ssa.Builtin); ok {
			var as []string
			for _, a := range x.Call.Args {
				as = append(as, exprString(a, names, depth+1))
			}
			if b.Name() == "min" || b.Name() == "max" {
				sort.Strings(as)
			}
			return b.Name() + "(" + strings.Join(as, ",") + ")"
		}
	case *ssa.BinOp:
		a, b := exprString(x.X, names, depth+1), exprString(x.Y, names, depth+1)
		switch x.Op {
		case token.ADD, token.MUL, token.AND, token.OR:
			if a > b {
				a, b = b, a
			}
		}
		return "(" + a + x.Op.String() + b + ")"
	case *ssa.Phi:
		set := map[string]bool{}
		for _, e := range x.Edges {
			if stripConv(e) == v {
				continue
			}
			set[exprString(e, names, depth+1)] = true
		}
		var ks []string
		for k := range set {
			ks = append(ks, k)
		}
		sort.Strings(ks)
		return "phi[" + strings.Join(ks, "|") + "]"
	}
	return "?" + v.Name()
}

// minOf recognises min(a, b) in either spelling: the two-way phi of an if-clamp (minPhi) or the built-in min.
func minOf(v ssa.Value) (a, b ssa.Value, ok bool) {
	if call, isCall := stripConv(v).(*ssa.Call); isCall {
		if bi, isB := call.Call.Value.(*ssa.Builtin); isB && bi.Name() == "min" && len(call.Call.Args) == 2 {
			return stripConv(call.Call.Args[0]), stripConv(call.Call.Args[1]), true
		}
	}
	return minPhi(v)
}

// minPhi recognises phi[a, b] == min(a, b): the edge carrying b is taken when a > b, the edge carrying a otherwise.
func minPhi(v ssa.Value) (a, b ssa.Value, ok bool) {
	ph, isPhi := stripConv(v).(*ssa.Phi)
	if !isPhi || len(ph.Edges) != 2 {
		return nil, nil, false
	}
	for i := 0; i < 2; i++ {
		big, small := stripConv(ph.Edges[i]), stripConv(ph.Edges[1-i])
		// edge (1-i) carries `small`: its incoming path must establish big > small; edge i carries `big`: established !(big > small)
		okSmall, okBig := false, false
		for _, l := range litsAt(ph.Block(), ph.Block().Preds[1-i]) {
			op, x, y, isCmp := l.cmp()
			if isCmp && ((op == token.GTR && stripConv(x) == big && stripConv(y) == small) || (op == token.LSS && stripConv(x) == small && stripConv(y) == big)) {
				okSmall = true
			}
		}
		for _, l := range litsAt(ph.Block(), ph.Block().Preds[i]) {
			op, x, y, isCmp := l.cmp()
			if isCmp && ((op == token.LEQ && stripConv(x) == big && stripConv(y) == small) || (op == token.GEQ && stripConv(x) == small && stripConv(y) == big)) {
				okBig = true
			}
		}
		if okSmall && okBig {
			return big, small, true
		}
	}
	return nil, nil, false
}

// storeTable lists, for every store to one of the given fields in fn, "guards => field = expr".
func storeTable(fn *ssa.Function, fields map[*types.Var]bool, names map[ssa.Value]string, guardStr func(*ssa.BasicBlock) string) []string {
	var out []string
	for fv := range fields {
		for _, d := range deepStoresTo(fn, fv) {
			nm := map[ssa.Value]string{}
			for k, v := range names {
				nm[k] = v
			}
			for prm, arg := range d.subst {
				nm[prm] = exprString(arg, names, 0)
			}
			out = append(out, guardStr(d.Site.Block())+" => "+pinFieldName(fv)+" = "+exprString(d.Store.Val, nm, 0))
		}
	}
	sort.Strings(out)
	return out
}

func runC10(c *Ctx) {
	p := c.P
	T := "BipBuffer"
	f := func(n string) *types.Var { return p.Field("sonic", T, n) }
	head, tail, wHead, wTail, cHead, cTail, dataF := f("head"), f("tail"), f("wrappedHead"), f("wrappedTail"), f("claimHead"), f("claimTail"), f("data")
	cursors := map[*types.Var]bool{head: true, tail: true, wHead: true, wTail: true, cHead: true, cTail: true}
	m := func(n string) *ssa.Function { return p.Method("sonic", T, n) }

	guardStr := func(names map[ssa.Value]string) func(b *ssa.BasicBlock) string {
		return func(b *ssa.BasicBlock) string {
			var gs []string
			for _, l := range guardsOf(b) {
				s := exprString(l.Cond, names, 0)
				if op, x, y, ok := l.cmp(); ok {
					s = cmpString(op, exprString(x, names, 0), exprString(y, names, 0))
				} else if !l.Pos {
					s = "!" + s
				}
				gs = append(gs, s)
			}
			sort.Strings(gs)
			return strings.Join(gs, "&")
		}
	}
	compare := func(fn *ssa.Function, what string, got, want []string, consequence string) {
		sort.Strings(want)
		c.check(strings.Join(got, "\n") == strings.Join(want, "\n"), fn, what, fn.Pos(), fmt.Sprintf("%d cursor updates match the bip-buffer table", len(got)),
			fmt.Sprintf("%s updates its cursors as\n      %s\n    but the bip-buffer algorithm requires\n      %s\n    : %s", fn.Name(), strings.Join(got, "\n      "), strings.Join(want, "\n      "), consequence))
	}

	// ------------------------------------------------------------------------------------------------ R1
	c.rule("C10-R1", "Claim hands out data[claimHead:claimHead+min(free,n)] from one of the physically free ranges", 3)
	{
		fn := m("Claim")
		// the clamp
		var sizePhi, free ssa.Value
		names := map[ssa.Value]string{}
		for _, d := range deepStoresTo(fn, cTail) {
			if bo, ok := stripConv(d.Store.Val).(*ssa.BinOp); ok && bo.Op == token.ADD {
				for _, op := range []ssa.Value{d.translate(bo.X), d.translate(bo.Y)} {
					if big, small, ok := minOf(op); ok {
						sizePhi = stripConv(op)
						if _, isPrm := small.(*ssa.Parameter); isPrm {
							free = big
						} else {
							free = small
						}
					}
				}
			}
		}
		c.check(sizePhi != nil, fn, "clamp", fn.Pos(), "the claim size is min(free space, n)", "the size of the claim is not min(free space, n): a claim can reach into committed data or past the end of the buffer")
		if sizePhi != nil {
			names[sizePhi] = "min(free,n)"
			// pairs (claimHead_i, free_i)
			fph, ok := free.(*ssa.Phi)
			var hph *ssa.Phi
			for _, a := range storesDeep(fn, cHead) {
				if ph, ok := stripConv(a.Val).(*ssa.Phi); ok {
					hph = ph
				}
			}
			pairsOK := ok && hph != nil && fph.Block() == hph.Block()
			var got []string
			// the choice of the region may live in a helper that returns (start, free): one entry per return of the helper
			if fex, isEx := free.(*ssa.Extract); isEx && !pairsOK {
				if hc, isCall := fex.Tuple.(*ssa.Call); isCall && isHelperOf(fn, hc.Call.StaticCallee()) {
					h := hc.Call.StaticCallee()
					startIdx := -1
					for _, a := range storesDeep(fn, cHead) {
						if ex, ok := stripConv(a.Val).(*ssa.Extract); ok && ex.Tuple == fex.Tuple {
							startIdx = ex.Index
						}
					}
					if startIdx >= 0 && startIdx != fex.Index {
						pairsOK = true
						for _, r := range returnsOf(h) {
							if len(r.Results) <= startIdx || len(r.Results) <= fex.Index {
								pairsOK = false
								continue
							}
							wrapped, extra := "?", ""
							for _, l := range guardsOf(r.Block()) {
								if call, ok := l.Cond.(*ssa.Call); ok && call.Call.StaticCallee() != nil && call.Call.StaticCallee().Name() == "Wrapped" {
									wrapped = map[bool]string{true: "wrapped", false: "linear"}[l.Pos]
								}
							}
							for _, l := range guardsOf(r.Block()) {
								if op, x, y, ok := l.cmp(); ok && wrapped == "linear" {
									extra = " if " + cmpString(op, exprString(x, nil, 0), exprString(y, nil, 0))
								}
							}
							got = append(got, fmt.Sprintf("%s%s: start=%s free=%s", wrapped, extra, exprString(r.Results[startIdx], nil, 0), exprString(r.Results[fex.Index], nil, 0)))
						}
						sort.Strings(got)
					}
				}
			} else if pairsOK {
				for i := range fph.Edges {
					wrapped := "?"
					for _, l := range litsAt(fph.Block(), fph.Block().Preds[i]) {
						if call, ok := l.Cond.(*ssa.Call); ok && call.Call.StaticCallee() != nil && call.Call.StaticCallee().Name() == "Wrapped" {
							wrapped = map[bool]string{true: "wrapped", false: "linear"}[l.Pos]
						}
					}
					extra := ""
					for _, l := range litsAt(fph.Block(), fph.Block().Preds[i]) {
						if op, x, y, ok := l.cmp(); ok && wrapped == "linear" {
							extra = " if " + cmpString(op, exprString(x, nil, 0), exprString(y, nil, 0))
						}
					}
					got = append(got, fmt.Sprintf("%s%s: start=%s free=%s", wrapped, extra, exprString(hph.Edges[i], nil, 0), exprString(fph.Edges[i], nil, 0)))
				}
				sort.Strings(got)
			}
			want := []string{
				"linear if ((Size()-tail)>=head): start=tail free=(Size()-tail)",
				"linear if ((Size()-tail)<head): start=0 free=head",
				"wrapped: start=wrappedTail free=(head-wrappedTail)",
			}
			sort.Strings(want)
			c.check(pairsOK && strings.Join(got, ";") == strings.Join(want, ";"), fn, "free ranges", fn.Pos(), "claims start at a free range: "+strings.Join(got, "; "),
				"Claim picks its range as ["+strings.Join(got, "; ")+"], the free ranges of the layout are ["+strings.Join(want, "; ")+"]: a claim can overlap committed, unconsumed bytes")
			// the slice handed out
			good := false
			for _, r := range returnsOf(fn) {
				if sl, ok := stripConv(r.Results[0]).(*ssa.Slice); ok && loadOfField(sl.X, dataF) && loadOfField(sl.Low, cHead) && loadOfField(sl.High, cTail) {
					good = true
				}
			}
			tbl := storeTable(fn, cursors, names, func(*ssa.BasicBlock) string { return "" })
			okTbl := len(tbl) == 2 && strings.HasPrefix(tbl[0], " => claimHead = phi[") && strings.Contains(tbl[1], "claimTail = (min(free,n)+phi[")
			if !okTbl && len(tbl) == 2 {
				// the same two stores with the start chosen elsewhere (a helper's result): claimHead = start, claimTail = start + size
				var startV ssa.Value
				for _, a := range storesDeep(fn, cHead) {
					startV = stripConv(a.Val)
				}
				for _, a := range storesDeep(fn, cTail) {
					if bo, ok := stripConv(a.Val).(*ssa.BinOp); ok && bo.Op == token.ADD && startV != nil {
						x, y := stripConv(bo.X), stripConv(bo.Y)
						if (x == startV && y == sizePhi) || (y == startV && x == sizePhi) {
							okTbl = true
						}
					}
				}
			}
			c.check(good && okTbl, fn, "claim slice", fn.Pos(), "returns data[claimHead:claimTail] with claimTail = claimHead + size", "Claim does not return data[claimHead:claimHead+size] / record the claim: Commit later extends the wrong region")
		}
	}

	// ------------------------------------------------------------------------------------------------ R2
	c.rule("C10-R2", "Commit: amount = min(claimTail-claimHead, n); region chosen by emptiness / adjacency; claim cleared; the chunk returned starts at that region's cursor", 3)
	{
		fn := m("Commit")
		names := map[ssa.Value]string{}
		var amount ssa.Value
		eachInstr(fn, func(in ssa.Instruction) {
			v, isVal := in.(ssa.Value)
			if !isVal {
				return
			}
			_, isPhi := in.(*ssa.Phi)
			_, isCall := in.(*ssa.Call)
			if !isPhi && !isCall {
				return
			}
			if big, small, ok := minOf(v); ok {
				bs, ss := exprString(big, nil, 0), exprString(small, nil, 0)
				if (bs == "(claimTail-claimHead)" && ss == "$n") || (ss == "(claimTail-claimHead)" && bs == "$n") {
					amount = v
				}
			}
		})
		c.check(amount != nil, fn, "amount", fn.Pos(), "the committed amount is min(claimTail - claimHead, n)", "the committed amount is not min(outstanding claim, n): a commit larger than the claim makes unwritten or foreign bytes visible at the head")
		if amount != nil {
			names[amount] = "amount"
		}
		got := storeTable(fn, cursors, names, guardStr(names))
		want := []string{
			"(0==amount) => claimHead = 0",
			"(0==amount) => claimTail = 0",
			"(0!=amount)&(0==Committed()) => head = claimHead",
			"(0!=amount)&(0==Committed()) => tail = (amount+claimHead)",
			"(0!=Committed())&(0!=amount)&(claimHead==tail) => tail = (amount+tail)",
			"(0!=Committed())&(0!=amount)&(claimHead!=tail) => wrappedTail = (amount+wrappedTail)",
			"(0!=amount) => claimHead = 0",
			"(0!=amount) => claimTail = 0",
		}
		compare(fn, "transitions", got, want, "committed bytes are attached to the wrong region (stale bytes become visible at the head, or new bytes lie in space the buffer considers free)")
		// the chunk handed back is the one just committed: it starts at a cursor of the region it was attached to (head of a
		// buffer that was empty, the old tail, the old wrappedTail), never at a constant
		okChunk, nChunk := true, 0
		for _, r := range returnsOf(fn) {
			sl, ok := stripConv(r.Results[0]).(*ssa.Slice)
			if !ok || sl.Low == nil {
				if !isNil(r.Results[0]) {
					okChunk = false
				}
				continue
			}
			nChunk++
			starts := map[string]bool{}
			var note func(leaf ssa.Value, depth int)
			note = func(leaf ssa.Value, depth int) {
				leaf = resolveCell(leaf)
				if f := loadedField(leaf); f != nil {
					starts[pinFieldName(f)] = true
					return
				}
				// the start computed by a helper of Commit that returns (head, tail) for one case
				if ex, ok := stripConv(leaf).(*ssa.Extract); ok && depth < 2 {
					if hc, ok := ex.Tuple.(*ssa.Call); ok && isHelperOf(fn, hc.Call.StaticCallee()) {
						for _, hr := range returnsOf(hc.Call.StaticCallee()) {
							if ex.Index < len(hr.Results) {
								for _, l2 := range phiLeaves(hr.Results[ex.Index]) {
									note(l2, depth+1)
								}
							}
						}
						return
					}
				}
				okChunk = false
			}
			for _, leaf := range phiLeaves(sl.Low) {
				note(leaf, 0)
			}
			// (the start of the chunk put into an empty buffer is the new head: the claim's start, read from either field)
			if !((starts["head"] || starts["claimHead"]) && starts["tail"] && starts["wrappedTail"] && len(starts) == 3) {
				okChunk = false
			}
		}
		c.check(okChunk && nChunk > 0, fn, "returned chunk", fn.Pos(), "data[start:end] of the region the bytes were attached to", "the slice Commit returns does not start at the cursor of the region the bytes were committed to: the caller is handed bytes it did not write (a chunk starting at 0)")
	}

	// ------------------------------------------------------------------------------------------------ R3
	c.rule("C10-R3", "Consume promotes the wrapped region exactly when the primary one empties; Reset zeroes all cursors; Committed and Head formulas", 4)
	{
		fn := m("Consume")
		got := storeTable(fn, cursors, nil, guardStr(nil))
		want := []string{
			"($n>=(tail-head)) => head = wrappedHead",
			"($n>=(tail-head)) => tail = wrappedTail",
			"($n>=(tail-head)) => wrappedHead = 0",
			"($n>=(tail-head)) => wrappedTail = 0",
			"($n<(tail-head)) => head = ($n+head)",
		}
		compare(fn, "transitions", got, want, "the wrapped region is promoted too early/late or not cleared: queued chunks are skipped, repeated or split")
		fn = m("Reset")
		got = storeTable(fn, cursors, nil, guardStr(nil))
		want = []string{" => head = 0", " => tail = 0", " => wrappedHead = 0", " => wrappedTail = 0", " => claimHead = 0", " => claimTail = 0"}
		compare(fn, "reset", got, want, "Reset leaves committed or claimed state behind: stale bytes come out ahead of new data and an empty buffer does not grant its full size")
		fn = m("Committed")
		expr := ""
		for _, r := range returnsOf(fn) {
			expr = signedLeaves(r.Results[0])
		}
		c.check(expr == "+tail +wrappedTail -head -wrappedHead", fn, "committed", fn.Pos(), "Committed() = tail - head + wrappedTail - wrappedHead", "Committed() computes "+expr+" instead of tail - head + wrappedTail - wrappedHead: it no longer equals committed minus consumed, and Commit mistakes a non-empty buffer for an empty one")
		fn = m("Head")
		good := false
		for _, r := range returnsOf(fn) {
			if sl, ok := stripConv(r.Results[0]).(*ssa.Slice); ok && loadOfField(sl.X, dataF) && loadOfField(sl.Low, head) && loadOfField(sl.High, tail) {
				good = true
			}
		}
		c.check(good, fn, "head", fn.Pos(), "Head() = data[head:tail]", "Head() does not return data[head:tail]")
	}
}

// signedLeaves renders an additive expression as sorted signed leaves.
func signedLeaves(v ssa.Value) string {
	var out []string
	var rec func(v ssa.Value, sign int, d int)
	rec = func(v ssa.Value, sign int, d int) {
		v = stripConv(v)
		if call, ok := v.(*ssa.Call); ok {
			if r := pureGetterResult(call); r != nil {
				v = stripConv(r)
			}
		}
		if bo, ok := v.(*ssa.BinOp); ok && d < 10 {
			switch bo.Op {
			case token.ADD:
				rec(bo.X, sign, d+1)
				rec(bo.Y, sign, d+1)
				return
			case token.SUB:
				rec(bo.X, sign, d+1)
				rec(bo.Y, -sign, d+1)
				return
			}
		}
		s := "+"
		if sign < 0 {
			s = "-"
		}
		out = append(out, s+exprString(v, nil, 0))
	}
	rec(v, 1, 0)
	sort.Strings(out)
	return strings.Join(out, " ")
}

// cmpString renders a comparison canonically: operands in lexical order, operator mirrored accordingly.
func cmpString(op token.Token, a, b string) string {
	if a > b {
		a, b = b, a
		switch op {
		case token.LSS:
			op = token.GTR
		case token.GTR:
			op = token.LSS
		case token.LEQ:
			op = token.GEQ
		case token.GEQ:
			op = token.LEQ
		}
	}
	return "(" + a + op.String() + b + ")"
}

// pureGetterResult: the call is to an unexported method that takes only its receiver (the caller's own receiver) and
// consists of field loads and arithmetic: its result expression stands for the call in the canonical forms (a
// sub-expression that a refactoring named). Exported accessors (Size, Committed, Wrapped) keep their names in the tables.
func pureGetterResult(call *ssa.Call) ssa.Value {
	callee := call.Call.StaticCallee()
	if callee == nil || callee.Blocks == nil || callee.Object() == nil || callee.Object().Exported() || callee.Signature.Recv() == nil {
		return nil
	}
	if len(callee.Params) != 1 || len(callee.Blocks) != 1 || len(call.Call.Args) != 1 {
		return nil
	}
	switch stripConv(call.Call.Args[0]).(type) {
	case *ssa.Parameter, *ssa.FreeVar:
	default:
		return nil
	}
	var res ssa.Value
	for _, in := range callee.Blocks[0].Instrs {
		switch x := in.(type) {
		case *ssa.FieldAddr, *ssa.BinOp, *ssa.Convert, *ssa.ChangeType, *ssa.DebugRef:
		case *ssa.UnOp:
			if x.Op != token.MUL && x.Op != token.SUB {
				return nil
			}
		case *ssa.Return:
			if len(x.Results) != 1 {
				return nil
			}
			res = x.Results[0]
		default:
			return nil
		}
	}
	return res
}
