package main

import (
	"fmt"
	"go/token"
	"go/types"
	"strings"

	"golang.org/x/tools/go/ssa"
)

func init() {
	register(&propertySpec{
		ID:    "C03",
		Title: "Event-loop accounting and RunPending termination",
		Explanation: "Decides, on every CFG path of every function of package internal that touches (*poller).pending or Slot.Events " +
			"and of the run loops in io.go: (R1) each path's net change of the pending counter equals the events the path " +
			"performs (interest bit set under a bit-clear guard, bit cleared under a bit-set guard, handler appended to the post " +
			"queue, posted handler invoked, waker registration discounted); (R2) a registration the kernel refuses leaves " +
			"counter and interest mask unchanged; (R3) Del removes both directions on every path; (R4) RunPending leaves its loop " +
			"without error only under Pending()<=0, otherwise runs the loop again, EINTR is mapped to nil/ErrTimeout, ErrTimeout is " +
			"not reported as an error by Run/RunPending/RunWarm, Poll returns ErrTimeout only under n==0 && timeout>=0 and returns " +
			"the kernel's count otherwise; (R5) every access to the counter is through sync/atomic. " +
			"Not decided: equality of Pending() with an independent ledger over whole histories, kernel behaviour under signals.",
		Run: runC03,
	})
	addMutants("C03",
		mutant{"DelRead always removes the descriptor", "internal/poll_linux.go",
			"\t\t*events ^= PollerReadEvent\n\t\tif *events != 0 {", "\t\t*events ^= PollerReadEvent\n\t\tif *events&PollerReadEvent != 0 {", "C03-R2k"},
		mutant{"setRW adds when the other direction is registered", "internal/poll_linux.go",
			"\t\tif oldEvents == 0 {\n\t\t\terr = p.add(", "\t\tif oldEvents&flag == 0 {\n\t\t\terr = p.add(", "C03-R2k"},
		mutant{"DelWrite drops the read interest", "internal/poll_linux.go",
			"\tif *events&PollerWriteEvent == PollerWriteEvent {\n\t\tatomic.AddInt64(&p.pending, -1)\n\t\t*events ^= PollerWriteEvent", "\tif *events&PollerReadEvent == PollerReadEvent {\n\t\tatomic.AddInt64(&p.pending, -1)\n\t\t*events ^= PollerReadEvent", "C03-R2d"},
		mutant{"SetWrite registers the read interest", "internal/poll_linux.go",
			"\treturn p.setRW(slot.Fd, slot, PollerWriteEvent)", "\treturn p.setRW(slot.Fd, slot, PollerReadEvent)", "C03-R2d"},
		mutant{"setRW counts before the kernel accepted", "internal/poll_linux.go",
			"\t\tif err != nil {\n\t\t\t// The kernel did not take the registration: nothing is pending and the slot must not claim the event.\n\t\t\t*events = oldEvents\n\t\t\treturn err\n\t\t}\n\n\t\tatomic.AddInt64(&p.pending, 1)",
			"\t\tatomic.AddInt64(&p.pending, 1)\n\t\tif err != nil {\n\t\t\t*events = oldEvents\n\t\t\treturn err\n\t\t}\n", "C03-R1"},
		mutant{"failed registration keeps the interest bit", "internal/poll_linux.go",
			"\t\t\t*events = oldEvents\n\t\t\treturn err", "\t\t\treturn err", "C03-R1"},
		mutant{"registration error returned without rolling back", "internal/poll_linux.go",
			"\t\tvar err error\n\t\tif oldEvents == 0 {\n\t\t\terr = p.add(fd, createEvent(*events, slot))\n\t\t} else {\n\t\t\terr = p.modify(fd, createEvent(*events, slot))\n\t\t}\n\t\tif err != nil {\n\t\t\t// The kernel did not take the registration: nothing is pending and the slot must not claim the event.\n\t\t\t*events = oldEvents\n\t\t\treturn err\n\t\t}\n\n\t\tatomic.AddInt64(&p.pending, 1)\n",
			"\t\tatomic.AddInt64(&p.pending, 1)\n\t\tif oldEvents == 0 {\n\t\t\treturn p.add(fd, createEvent(*events, slot))\n\t\t}\n\t\treturn p.modify(fd, createEvent(*events, slot))\n", "C03-R1"},
		mutant{"DelWrite does not decrement", "internal/poll_linux.go",
			"\tif *events&PollerWriteEvent == PollerWriteEvent {\n\t\tatomic.AddInt64(&p.pending, -1)", "\tif *events&PollerWriteEvent == PollerWriteEvent {", "C03-R1"},
		mutant{"Post does not count", "internal/poll_linux.go",
			"\tp.posts = append(p.posts, handler)\n\tatomic.AddInt64(&p.pending, 1)", "\tp.posts = append(p.posts, handler)", "C03-R1"},
		mutant{"dispatch decrements once per batch", "internal/poll_linux.go",
			"\t\thandler()\n\t\tatomic.AddInt64(&p.pending, -1)\n\t}", "\t\thandler()\n\t}\n\tatomic.AddInt64(&p.pending, -1)", "C03-R1"},
		mutant{"Del skips write when read failed", "internal/poll_linux.go",
			"\terrRead := p.DelRead(slot)\n\terrWrite := p.DelWrite(slot)\n\tif errRead != nil {\n\t\treturn errRead\n\t}\n\treturn errWrite",
			"\terrRead := p.DelRead(slot)\n\tif errRead != nil {\n\t\treturn errRead\n\t}\n\treturn p.DelWrite(slot)", "C03-R3"},
		mutant{"RunPending exits only below zero", "io.go", "if ioc.poller.Pending() <= 0 {", "if ioc.poller.Pending() < 0 {", "C03-R4"},
		mutant{"EINTR surfaced as error", "io.go", "\t\t\truntime.Gosched()\n\t\t\treturn 0, nil", "\t\t\truntime.Gosched()\n\t\t\treturn 0, err", "C03-R4"},
		mutant{"wait error wrapped before the EINTR test", "internal/poll_linux.go", "\t\terr = errno // we need to convert", "\t\terr = os.NewSyscallError(\"epoll_wait\", errno)", "C03-R4"},
		mutant{"timeout reported for blocking poll", "internal/poll_linux.go", "if n == 0 && timeoutMs >= 0 {", "if n == 0 {", "C03-R4"},
		mutant{"RunPending reports timeout", "io.go",
			"\t\tif ioc.poller.Pending() <= 0 {\n\t\t\tbreak\n\t\t}\n\n\t\tif err := ioc.RunOne(); err != nil && err != sonicerrors.ErrTimeout {",
			"\t\tif ioc.poller.Pending() <= 0 {\n\t\t\tbreak\n\t\t}\n\n\t\tif err := ioc.RunOne(); err != nil {", "C03-R4"},
		mutant{"removing one direction programs the removed flag", "internal/poll_linux.go",
			"\t\t*events ^= PollerReadEvent\n\t\tif *events != 0 {\n\t\t\treturn p.modify(slot.Fd, createEvent(*events, slot))", "\t\t*events ^= PollerReadEvent\n\t\tif *events != 0 {\n\t\t\treturn p.modify(slot.Fd, createEvent(PollerReadEvent, slot))", "C03-R2k"},
		mutant{"IO.UnsetWrite removes the read interest", "io.go",
			"func (ioc *IO) UnsetWrite(slot *internal.Slot) error {\n\treturn ioc.poller.DelWrite(slot)", "func (ioc *IO) UnsetWrite(slot *internal.Slot) error {\n\treturn ioc.poller.DelRead(slot)", "C03-R2w"},
		mutant{"posted handler counted after it is published", "internal/poll_linux.go",
			"\tp.posts = append(p.posts, handler)\n\tatomic.AddInt64(&p.pending, 1)\n\tp.lck.Unlock()\n", "\tp.posts = append(p.posts, handler)\n\tp.lck.Unlock()\n\tatomic.AddInt64(&p.pending, 1)\n", "C03-R6"},
		mutant{"Pending read without atomic", "internal/poll_linux.go", "return atomic.LoadInt64(&p.pending)", "return p.pending", "C03-R5"},
		mutant{"waker counted as pending", "internal/poll_linux.go", "\t// ignore the waker\n\tatomic.AddInt64(&p.pending, -1)\n", "\t// ignore the waker\n", "C03-R1"},
	)
}

// bitTest recognises literals `(load(f) & X) == X` (set) / `!= X` (clear).
func bitTest(l Lit, f *types.Var) (x ssa.Value, set bool, ok bool) {
	// a named predicate `func (e T) has(flag T) bool { return e&flag == flag }` applied to the field
	if call, isCall := l.Cond.(*ssa.Call); isCall {
		if callee := call.Call.StaticCallee(); callee != nil && callee.Blocks != nil && len(callee.Blocks) == 1 && len(callee.Params) == 2 && len(call.Call.Args) == 2 {
			for _, in := range callee.Blocks[0].Instrs {
				ret, isRet := in.(*ssa.Return)
				if !isRet || len(ret.Results) != 1 {
					continue
				}
				cmp, isCmp := stripConv(ret.Results[0]).(*ssa.BinOp)
				if !isCmp || (cmp.Op != token.EQL && cmp.Op != token.NEQ) {
					continue
				}
				p0, p1 := ssa.Value(callee.Params[0]), ssa.Value(callee.Params[1])
				isAnd := func(v ssa.Value) bool {
					bo, ok := stripConv(v).(*ssa.BinOp)
					return ok && bo.Op == token.AND && ((stripConv(bo.X) == p0 && stripConv(bo.Y) == p1) || (stripConv(bo.X) == p1 && stripConv(bo.Y) == p0))
				}
				if (isAnd(cmp.X) && stripConv(cmp.Y) == p1) || (isAnd(cmp.Y) && stripConv(cmp.X) == p1) {
					if loadOfField(call.Call.Args[0], f) {
						return call.Call.Args[1], (cmp.Op == token.EQL) == l.Pos, true
					}
				}
			}
		}
	}
	op, a, b, isCmp := l.cmp()
	if !isCmp || (op != token.EQL && op != token.NEQ) {
		return nil, false, false
	}
	try := func(and, other ssa.Value) (ssa.Value, bool) {
		bo, ok := stripConv(and).(*ssa.BinOp)
		if !ok || bo.Op != token.AND {
			return nil, false
		}
		var mask ssa.Value
		if loadOfField(bo.X, f) {
			mask = bo.Y
		} else if loadOfField(bo.Y, f) {
			mask = bo.X
		} else {
			return nil, false
		}
		if sameValue(mask, other) {
			return mask, true
		}
		return nil, false
	}
	if m, ok := try(a, b); ok {
		return m, op == token.EQL, true
	}
	if m, ok := try(b, a); ok {
		return m, op == token.EQL, true
	}
	// general form: an AND tree with one load of the field and one mask leaf (a constant or a parameter), compared with
	// the mask itself or with 0; further conjuncts (the kernel's readiness mask, say) only strengthen a positive test
	tree, other := a, b
	if _, isAnd := stripConv(tree).(*ssa.BinOp); !isAnd {
		tree, other = b, a
	}
	var fieldLoads, extra int
	var mask ssa.Value
	var walk func(v ssa.Value, d int)
	walk = func(v ssa.Value, d int) {
		v = stripConv(v)
		if bo, ok := v.(*ssa.BinOp); ok && bo.Op == token.AND && d < 6 {
			walk(bo.X, d+1)
			walk(bo.Y, d+1)
			return
		}
		switch {
		case loadOfField(v, f):
			fieldLoads++
		case mask == nil && isMaskLeaf(v):
			mask = v
		default:
			extra++
		}
	}
	if bo, ok := stripConv(tree).(*ssa.BinOp); ok && bo.Op == token.AND {
		walk(bo, 0)
	}
	if fieldLoads == 1 && mask != nil {
		set, known := false, false
		switch {
		case sameValue(mask, other):
			set, known = op == token.EQL, true
		case isConstInt(other, 0) && singleBit(mask):
			set, known = op == token.NEQ, true
		}
		if known && (extra == 0 || set) {
			return mask, set, true
		}
	}
	return nil, false, false
}

func isMaskLeaf(v ssa.Value) bool {
	if _, ok := constInt(v); ok {
		return true
	}
	_, isPrm := stripConv(v).(*ssa.Parameter)
	return isPrm
}

// singleBit: a constant with exactly one bit set, or a parameter (a direction flag handed to a shared helper).
func singleBit(v ssa.Value) bool {
	if k, ok := constInt(v); ok {
		return k > 0 && k&(k-1) == 0
	}
	_, isPrm := stripConv(v).(*ssa.Parameter)
	return isPrm
}

// sameValue: identical SSA value, or equal constants.
func sameValue(a, b ssa.Value) bool {
	a, b = stripConv(a), stripConv(b)
	if a == b {
		return true
	}
	ca, ok1 := a.(*ssa.Const)
	cb, ok2 := b.(*ssa.Const)
	if ok1 && ok2 && ca.Value != nil && cb.Value != nil {
		return ca.Value.ExactString() == cb.Value.ExactString()
	}
	return false
}

type evStore struct {
	kind string // set | clear | restore | other
	mask ssa.Value
	st   *ssa.Store
}

func classifyEventsStore(st *ssa.Store, f *types.Var) evStore {
	v := stripConv(st.Val)
	if bo, ok := v.(*ssa.BinOp); ok {
		var mask ssa.Value
		if loadOfField(bo.X, f) {
			mask = bo.Y
		} else if loadOfField(bo.Y, f) {
			mask = bo.X
		}
		if mask != nil {
			switch bo.Op {
			case token.OR:
				return evStore{"set", mask, st}
			case token.XOR, token.AND_NOT:
				return evStore{"clear", mask, st}
			}
		}
	}
	if loadOfField(v, f) {
		return evStore{"restore", nil, st}
	}
	return evStore{"other", nil, st}
}

func runC03(c *Ctx) {
	p := c.P
	pending := p.Field("internal", "poller", "pending")
	posts, _ := p.postQueueFields()
	events := p.Field("internal", "Slot", "Events")
	handlersF := p.Field("internal", "Slot", "Handlers")
	_ = handlersF
	setReadIface := p.IfaceMethod("internal", "Poller", "SetRead")
	setReadM := p.Method("internal", "poller", "SetRead").Object().(*types.Func)

	// ------------------------------------------------------------------------------------------------ R5
	c.rule("C03-R5", "every access to (*poller).pending goes through sync/atomic (the counter is updated from posting goroutines and from the loop goroutine)", 3)
	internalFuncs := []*ssa.Function{}
	for _, fn := range p.Funcs {
		if pk := fnTypesPkg(fn); pk != nil && pk.Path() == modPath+"/internal" {
			internalFuncs = append(internalFuncs, fn)
		}
	}
	for _, fn := range p.Funcs {
		for _, a := range fieldAccesses(fn, pending) {
			if a.Kind == "addr" {
				if call, ok := a.Instr.(ssa.CallInstruction); ok {
					if callee := call.Common().StaticCallee(); callee != nil && callee.Pkg != nil && callee.Pkg.Pkg.Path() == "sync/atomic" {
						c.ok(fn, "pending", a.Instr.Pos(), "atomic access %s", callee.Name())
						continue
					}
				}
				c.bad(fn, "pending", a.Instr.Pos(), "address of the counter escapes to a non-atomic use")
				continue
			}
			c.bad(fn, "pending", a.Instr.Pos(), "plain %s of the counter; Post updates it from other goroutines", a.Kind)
		}
	}

	// ------------------------------------------------------------------------------------------------ R6
	c.rule("C03-R6", "a posted handler is counted before it becomes visible to the dispatcher: the increment precedes the release of the queue mutex that publishes the append", 1)
	{
		postsF, lckF := p.postQueueFields()
		for _, fn := range internalFuncs {
			for _, a := range deepStoresTo(fn, postsF) {
				if !isAppendOf(a.Store.Val) {
					continue
				}
				// the first Unlock of the queue mutex after the append (in the function that holds the store)
				home := a.Store.Parent()
				var unlocks []ssa.Instruction
				eachInstr(home, func(in ssa.Instruction) {
					call, ok := in.(ssa.CallInstruction)
					if !ok || call.Common().StaticCallee() == nil || call.Common().StaticCallee().Name() != "Unlock" || len(call.Common().Args) == 0 {
						return
					}
					if fv, _ := fieldAddrOf(call.Common().Args[0]); fv == lckF && (dominatesInstr(a.Store, in) || isDeferred(in)) {
						unlocks = append(unlocks, in)
					}
				})
				counted := false
				eachInstr(home, func(in ssa.Instruction) {
					if d, ok := atomicAddDelta(in, pending); ok && d == 1 {
						for _, u := range unlocks {
							if dominatesInstr(in, u) || isDeferred(u) {
								counted = true
							}
						}
					}
				})
				if a.Store.Parent() != fn {
					continue // judged in the helper itself
				}
				if !counted && len(unlocks) > 0 && fn.Parent() == nil && fn.Object() != nil && !fn.Object().Exported() {
					// a queue method that only appends: the count must precede every call of it
					sites := p.callers(fn)
					all := len(sites) > 0
					for _, site := range sites {
						before := false
						eachInstr(site.Parent(), func(in ssa.Instruction) {
							if d, ok := atomicAddDelta(in, pending); ok && d == 1 && dominatesInstr(in, site.(ssa.Instruction)) {
								before = true
							}
						})
						if !before {
							all = false
						}
					}
					counted = all
				}
				c.check(len(unlocks) > 0 && counted, fn, "count before publish", a.Store.Pos(), "pending is incremented before the mutex that publishes the handler is released", "the handler is appended and the mutex released before pending is incremented: the dispatcher can run it and decrement first, Pending() dips below the true count and RunPending can return with operations still in flight")
			}
		}
	}

	// ------------------------------------------------------------------------------------------------ R1 / R2
	c.rule("C03-R1", "on every path of every function that updates the pending counter or Slot.Events, the net change of the counter equals the events performed on that path; a refused registration changes neither (R2)", 14)
	// helpers that do one half of a balanced update (a queue method that appends without counting, say) are summarised
	// and judged where they are called: every path of the helper has the same counter delta and the same number of appends
	type c03sum struct {
		delta, appends int64
		clearParam     int // index of the parameter whose interest bit the helper clears without testing it (-1: none)
	}
	summaries := map[*ssa.Function]c03sum{}
	for _, fn := range internalFuncs {
		if fn.Parent() != nil || fn.Object() == nil || fn.Object().Exported() || len(p.callers(fn)) == 0 {
			continue
		}
		plain := true
		relevant := false
		eachInstr(fn, func(in ssa.Instruction) {
			if _, ok := atomicAddDelta(in, pending); ok {
				relevant = true
			}
			if _, ok := plainDelta(in, pending); ok {
				relevant = true
			}
			if st, ok := in.(*ssa.Store); ok {
				fv, _ := fieldAddrOf(st.Addr)
				if fv == events {
					// an untested clear of the bit named by a parameter: summarised, the test is owed by the callers
					ev := classifyEventsStore(st, events)
					if _, isPrm := stripConv(ev.mask).(*ssa.Parameter); ev.kind == "clear" && ev.mask != nil && isPrm {
						relevant = true
					} else {
						plain = false
					}
				}
				if fv == posts && isAppendOf(st.Val) {
					relevant = true
				}
			}
			if call, ok := in.(ssa.CallInstruction); ok && !call.Common().IsInvoke() && call.Common().StaticCallee() == nil {
				if _, isB := call.Common().Value.(*ssa.Builtin); !isB {
					plain = false // runs function values
				}
			}
		})
		if !plain || !relevant {
			continue
		}
		paths, overflow := enumPaths(fn)
		if overflow || len(paths) == 0 {
			continue
		}
		var sum c03sum
		uniform := true
		for i, path := range paths {
			cur := c03sum{clearParam: -1}
			tested := false
			for _, l := range path.Lits {
				if _, _, ok := bitTest(l.Lit, events); ok {
					tested = true
				}
			}
			for _, in := range path.Instrs() {
				if st, ok := in.(*ssa.Store); ok {
					if fv, _ := fieldAddrOf(st.Addr); fv == events {
						ev := classifyEventsStore(st, events)
						for k, q := range fn.Params {
							if ev.mask != nil && stripConv(ev.mask) == ssa.Value(q) {
								if cur.clearParam >= 0 || tested {
									uniform = false
								}
								cur.clearParam = k
							}
						}
					}
				}
				if d, ok := atomicAddDelta(in, pending); ok {
					cur.delta += d
				}
				if d, ok := plainDelta(in, pending); ok {
					cur.delta += d
				}
				if st, ok := in.(*ssa.Store); ok {
					if fv, _ := fieldAddrOf(st.Addr); fv == posts && isAppendOf(st.Val) {
						cur.appends++
					}
				}
			}
			if i == 0 {
				sum = cur
			} else if cur != sum {
				uniform = false
			}
		}
		if uniform && (sum.delta != sum.appends || sum.clearParam >= 0) {
			summaries[fn] = sum
		}
	}
	for _, fn := range internalFuncs {
		if _, summarised := summaries[fn]; summarised {
			continue
		}
		touches := false
		constructs := false // the function builds the poller itself: its own waker registration must be discounted
		pollerT := p.Named("internal", "poller")
		wakerF := p.TryField("internal", "poller", "waker")
		eachInstr(fn, func(in ssa.Instruction) {
			if a, ok := in.(*ssa.Alloc); ok {
				if pt, ok := a.Type().(*types.Pointer); ok && types.Identical(pt.Elem(), pollerT) {
					constructs, touches = true, true
				}
			}
			if _, ok := atomicAddDelta(in, pending); ok {
				touches = true
			}
			if _, ok := plainDelta(in, pending); ok {
				touches = true
			}
			if st, ok := in.(*ssa.Store); ok {
				if fv, _ := fieldAddrOf(st.Addr); fv == events || fv == posts {
					touches = true
				}
			}
			// registering the waker is an event to account for (its discount may have gone missing)
			if isCallTo(in, setReadIface, setReadM) && wakerF != nil {
				args := in.(ssa.CallInstruction).Common().Args
				eachInstr(fn, func(x ssa.Instruction) {
					if v, ok := x.(ssa.Value); ok && loadedField(v) == wakerF && dependsOnLoose(args[len(args)-1], v) {
						touches = true
					}
				})
			}
			if call, ok := in.(ssa.CallInstruction); ok {
				if _, ok := summaries[call.Common().StaticCallee()]; ok && call.Common().StaticCallee() != nil {
					touches = true
				}
			}
			// running posted handlers is an event to account for, also when the counter update itself went missing
			if call, ok := in.(ssa.CallInstruction); ok && !call.Common().IsInvoke() && call.Common().StaticCallee() == nil {
				if _, isB := call.Common().Value.(*ssa.Builtin); !isB && fromPosts(call.Common().Value, posts) {
					touches = true
				}
			}
		})
		if !touches {
			continue
		}
		paths, overflow := enumPaths(fn)
		if overflow {
			c.unproven(fn, "paths", fn.Pos(), "too many paths to enumerate")
			continue
		}
		for _, path := range paths {
			if path.Panics {
				continue
			}
			var delta int64
			var evs []evStore
			appends, handlerCalls, wakerRegs := 0, 0, 0
			wakerRegsOK := 0 // successful waker registrations made outside the constructor
			instrs := path.Instrs()
			for _, in := range instrs {
				if d, ok := atomicAddDelta(in, pending); ok {
					delta += d
				}
				if d, ok := plainDelta(in, pending); ok {
					delta += d
				}
				if st, ok := in.(*ssa.Store); ok {
					fv, _ := fieldAddrOf(st.Addr)
					if fv == events {
						evs = append(evs, classifyEventsStore(st, events))
					}
					if fv == posts {
						if call, ok := strip(st.Val).(*ssa.Call); ok {
							if b, ok := call.Call.Value.(*ssa.Builtin); ok && b.Name() == "append" {
								appends++
							}
						}
					}
				}
				if call, ok := in.(ssa.CallInstruction); ok {
					cc := call.Common()
					if sum, ok := summaries[cc.StaticCallee()]; ok && cc.StaticCallee() != nil {
						delta += sum.delta
						appends += int(sum.appends)
						if sum.clearParam >= 0 && sum.clearParam < len(cc.Args) {
							evs = append(evs, evStore{"clear", cc.Args[sum.clearParam], nil})
						}
					}
					if !cc.IsInvoke() && cc.StaticCallee() == nil {
						if _, isB := cc.Value.(*ssa.Builtin); !isB {
							if sig, ok := cc.Value.Type().Underlying().(*types.Signature); ok && sig.Params().Len() == 0 && sig.Results().Len() == 0 {
								// a call of a func() value: in this package these are posted handlers
								if fromPosts(cc.Value, posts) {
									handlerCalls++
								}
							}
						}
					}
					if isCallTo(in, setReadIface, setReadM) && constructs {
						wakerRegs++
					}
					// the waker registered in a helper of the constructor (registerWaker): the slot comes from the waker field
					if isCallTo(in, setReadIface, setReadM) && !constructs && wakerF != nil {
						args := in.(ssa.CallInstruction).Common().Args
						fromWaker := false
						eachInstr(fn, func(x ssa.Instruction) {
							if v, ok := x.(ssa.Value); ok && loadedField(v) == wakerF && dependsOnLoose(args[len(args)-1], v) {
								fromWaker = true
							}
						})
						if fromWaker && path.nilness(in.(ssa.Value)) == "nil" {
							wakerRegsOK++
						}
					}
				}
			}
			// literals
			var setGuard, clearGuard []ssa.Value
			for _, l := range path.Lits {
				if x, set, ok := bitTest(l.Lit, events); ok {
					if set {
						setGuard = append(setGuard, x)
					} else {
						clearGuard = append(clearGuard, x)
					}
				}
			}
			ret := path.Ret()
			errNil := "none"
			if ret != nil {
				for _, r := range ret.Results {
					if types.Identical(r.Type(), types.Universe.Lookup("error").Type()) {
						errNil = path.nilness(r)
					}
				}
			}
			// expected delta
			var want int64
			problem := ""
			nSet, nClear, nRestore := 0, 0, 0
			for _, e := range evs {
				switch e.kind {
				case "set":
					nSet++
					if !containsValue(clearGuard, e.mask) {
						problem = "interest bit set without first testing that it was clear (would double count)"
					}
				case "clear":
					nClear++
					if !containsValue(setGuard, e.mask) {
						problem = "interest bit cleared without first testing that it was set (would double discount)"
					}
				case "restore":
					nRestore++
				default:
					problem = "unrecognised store to Slot.Events"
				}
			}
			if constructs {
				// the waker's own registration is not an operation in flight
				if ret != nil && len(ret.Results) > 0 && !isNil(path.evalEnd(ret.Results[0])) {
					want = -int64(wakerRegs)
				} else {
					want = delta // failure paths return no poller: whatever they did is discarded with it
				}
			} else {
				switch {
				case nSet == 1 && nRestore == 0:
					want = 1
					if errNil != "nil" {
						// "unknown" is the error of the registration call returned as is: the failing outcome takes this path too
						problem = "a registration that failed (the kernel's error is returned on this path) still holds its interest bit and is counted"
					}
				case nSet == 1 && nRestore >= 1:
					want = 0
					if errNil == "nil" {
						problem = "interest bit rolled back on a path that reports success"
					}
				case nSet > 1:
					problem = "several interest bits set on one path"
				}
				want -= int64(nClear)
				want += int64(appends)
				want -= int64(handlerCalls)
				want -= int64(wakerRegsOK) // the waker's own registration is not an operation in flight
			}
			construct := fmt.Sprintf("path(set=%d,clear=%d,restore=%d,append=%d,run=%d,err=%s)", nSet, nClear, nRestore, appends, handlerCalls, errNil)
			pos := fn.Pos()
			if ret != nil {
				pos = ret.Pos()
			}
			if problem == "" && delta != want {
				problem = fmt.Sprintf("the path changes the counter by %+d but performs events worth %+d", delta, want)
			}
			if problem != "" {
				c.bad(fn, construct, pos, "%s (%s)", problem, path.String())
			} else {
				c.ok(fn, construct, pos, "counter %+d matches events", delta)
			}
		}
	}

	// ------------------------------------------------------------------------------------------------ R3
	// the kernel is told exactly what the slot records: the mask handed to epoll_ctl(ADD/MOD) is the value of
	// Slot.Events after the update on that path (not the flag being added or removed, not a stale copy)
	c.rule("C03-R2k", "the event mask programmed into epoll is the slot's recorded interest mask; EPOLL_CTL_DEL only with an empty mask, EPOLL_CTL_ADD only from an empty mask", 5)
	{
		createEv := p.Fn("internal", "createEvent")
		eventsF := p.Field("internal", "Slot", "Events")
		n := 0
		for _, fn := range internalFuncs {
			for _, call := range callsToFn(fn, createEv) {
				in := call.(ssa.Instruction)
				n++
				mask := stripConv(call.Common().Args[0])
				// a load of Slot.Events (possibly through a local pointer to it) ...
				isLoad := false
				var ld *ssa.UnOp
				if u, ok := mask.(*ssa.UnOp); ok && u.Op == token.MUL {
					if fv, _ := fieldAddrOf(u.X); fv == eventsF {
						isLoad, ld = true, u
					}
				}
				// ... that happens after the last store to it that can reach this call
				fresh := isLoad
				if isLoad {
					eachInstr(fn, func(x ssa.Instruction) {
						st, ok := x.(*ssa.Store)
						if !ok {
							return
						}
						if fv, _ := fieldAddrOf(st.Addr); fv != eventsF {
							return
						}
						// a store between the load and the call makes the mask stale
						if reachesFrom(ld, st) && reachesFrom(st, in) && st.Block() != nil && !dominatesInstr(st, ld) {
							fresh = false
						}
					})
				}
				if !isLoad {
					// the very value that was just stored into Slot.Events (kept in a local): the last store that reaches the
					// call stored this value
					var last *ssa.Store
					eachInstr(fn, func(x ssa.Instruction) {
						st, ok := x.(*ssa.Store)
						if !ok {
							return
						}
						if fv, _ := fieldAddrOf(st.Addr); fv != eventsF || !dominatesInstr(st, in) {
							return
						}
						if last == nil || dominatesInstr(last, st) {
							last = st
						}
					})
					if last != nil && stripConv(last.Val) == mask {
						fresh = true
						eachInstr(fn, func(x ssa.Instruction) {
							st, ok := x.(*ssa.Store)
							if !ok || st == last {
								return
							}
							if fv, _ := fieldAddrOf(st.Addr); fv == eventsF && reachesFrom(last, st) && reachesFrom(st, in) {
								fresh = false
							}
						})
					}
				}
				c.check(fresh, fn, "kernel mask", in.Pos(), "epoll is programmed with the current Slot.Events", "the mask handed to epoll_ctl is not the slot's current interest mask (it is "+exprString(mask, nil, 0)+"): the kernel watches a direction the slot no longer records, or stops watching one that is still in flight - that operation's callback never runs although the descriptor is ready")
			}
		}
		if n == 0 {
			c.bad(p.Method("internal", "poller", "setRW"), "kernel mask", p.Method("internal", "poller", "setRW").Pos(), "no epoll event is built any more (anchor moved)")
		}
		// the operation matches the mask: the descriptor leaves the epoll set (EPOLL_CTL_DEL) only when no interest is
		// left in Slot.Events, and enters it (EPOLL_CTL_ADD) only when there was none before
		ctlOp := func(name string) int64 {
			k, _ := constantInt(p.extPkg("syscall").Scope().Lookup(name).(*types.Const).Val())
			return k
		}
		sysCtl := ctlOp("SYS_EPOLL_CTL")
		prims := map[*ssa.Function]string{}
		for _, fn := range internalFuncs {
			eachInstr(fn, func(in ssa.Instruction) {
				call, ok := in.(*ssa.Call)
				if !ok || call.Call.StaticCallee() == nil || !strings.HasPrefix(call.Call.StaticCallee().String(), "syscall.Syscall") || len(call.Call.Args) < 3 || !isConstInt(call.Call.Args[0], sysCtl) {
					return
				}
				kindOf := func(v ssa.Value) string {
					switch k, _ := constInt(v); k {
					case ctlOp("EPOLL_CTL_DEL"):
						return "del"
					case ctlOp("EPOLL_CTL_ADD"):
						return "add"
					case ctlOp("EPOLL_CTL_MOD"):
						return "mod"
					}
					return ""
				}
				if k := kindOf(call.Call.Args[2]); k != "" {
					prims[fn] = k
					return
				}
				// the operation is a parameter of a shared primitive (ctl(op, ...)): its callers that pass a constant are
				// the primitives
				if prm, isPrm := stripConv(call.Call.Args[2]).(*ssa.Parameter); isPrm {
					for i, q := range fn.Params {
						if q != prm {
							continue
						}
						for _, site := range p.callers(fn) {
							if k := kindOf(site.Common().Args[i]); k != "" && site.Parent() != nil {
								prims[site.Parent()] = k
							}
						}
					}
				}
			})
		}
		nOps := 0
		seenKind := map[string]bool{}
		// uses of a primitive: a call, or its method value taken (returned by a helper that chooses the operation)
		type primUse struct {
			in   ssa.Instruction
			kind string
		}
		usesIn := func(fn *ssa.Function) []primUse {
			var out []primUse
			eachInstr(fn, func(in ssa.Instruction) {
				switch x := in.(type) {
				case *ssa.Call:
					if k := prims[x.Call.StaticCallee()]; k != "" {
						out = append(out, primUse{in, k})
					}
				case *ssa.MakeClosure:
					if bf, ok := x.Fn.(*ssa.Function); ok && strings.Contains(bf.Synthetic, "bound method wrapper") {
						for pf, k := range prims {
							if pf.Object() != nil && bf.Object() == pf.Object() {
								out = append(out, primUse{in, k})
							}
						}
					}
				}
			})
			return out
		}
		// maskIsZero: v, compared with 0 by a guard of the use, is the interest mask as required: for a removal the mask
		// as it is now (loaded after the last store that reaches `at`), for an addition the mask before this function
		// changed it (loaded before any store); or a parameter bound to such a value at every call site
		var maskIsZero func(fn *ssa.Function, v ssa.Value, at ssa.Instruction, kind string, depth int) bool
		maskIsZero = func(fn *ssa.Function, v ssa.Value, at ssa.Instruction, kind string, depth int) bool {
			v = stripConv(v)
			if prm, isPrm := v.(*ssa.Parameter); isPrm && depth < 2 {
				sites := p.callers(fn)
				if len(sites) == 0 {
					return false
				}
				for i, q := range fn.Params {
					if q != prm {
						continue
					}
					for _, site := range sites {
						if !maskIsZero(site.Parent(), site.Common().Args[i], site.(ssa.Instruction), kind, depth+1) {
							return false
						}
					}
					return true
				}
				return false
			}
			ld, isLd := v.(*ssa.UnOp)
			if !isLd || ld.Op != token.MUL {
				return false
			}
			if fv, _ := fieldAddrOf(ld.X); fv != eventsF {
				return false
			}
			okL := true
			eachInstr(fn, func(xi ssa.Instruction) {
				st, isSt := xi.(*ssa.Store)
				if !isSt {
					return
				}
				if fv, _ := fieldAddrOf(st.Addr); fv != eventsF {
					return
				}
				if kind == "del" && reachesFrom(ld, st) && reachesFrom(st, at) {
					okL = false
				}
				if kind == "add" && reachesFrom(st, ld) {
					okL = false
				}
			})
			return okL
		}
		for _, fn := range internalFuncs {
			if prims[fn] != "" {
				continue
			}
			for _, use := range usesIn(fn) {
				kind := use.kind
				if kind == "mod" {
					continue
				}
				nOps++
				seenKind[kind] = true
				good := false
				for _, l := range guardsOf(use.in.Block()) {
					op, x, y, ok := l.cmp()
					if !ok || op != token.EQL {
						continue
					}
					if isConstInt(x, 0) {
						x, y = y, x
					}
					if isConstInt(y, 0) && maskIsZero(fn, x, use.in, kind, 0) {
						good = true
					}
				}
				if kind == "del" {
					c.check(good, fn, "kernel removal", use.in.Pos(), "EPOLL_CTL_DEL only when Slot.Events is empty", "the descriptor is removed from the epoll set although Slot.Events may still record an interest (the removal is not guarded by Slot.Events == 0 read after the update): the operation parked for the other direction never completes and its next registration fails with ENOENT")
				} else {
					c.check(good, fn, "kernel addition", use.in.Pos(), "EPOLL_CTL_ADD only when Slot.Events was empty", "the descriptor is added to the epoll set although it may already be in it (the addition is not guarded by the previous Slot.Events == 0): the registration fails with EEXIST while an operation of the other direction is parked")
				}
			}
		}
		// a change of Slot.Events that is reported as successful was handed to the kernel on that path
		for _, fn := range internalFuncs {
			if prims[fn] != "" || len(storesTo(fn, eventsF)) == 0 {
				continue
			}
			paths, overflow := enumPaths(fn)
			if overflow {
				continue
			}
			for _, path := range paths {
				if path.Panics {
					continue
				}
				ret := path.Ret()
				if ret == nil || len(ret.Results) == 0 {
					continue
				}
				if path.nilness(ret.Results[len(ret.Results)-1]) == "nonnil" {
					continue
				}
				instrs := path.Instrs()
				first := -1
				for i, in := range instrs {
					if st, ok := in.(*ssa.Store); ok && first < 0 {
						if fv, _ := fieldAddrOf(st.Addr); fv == eventsF {
							first = i
						}
					}
				}
				if first < 0 {
					continue
				}
				told := false
				for _, in := range instrs[first+1:] {
					call, ok := in.(*ssa.Call)
					if !ok {
						continue
					}
					if prims[call.Call.StaticCallee()] != "" {
						told = true
					}
					// ... through a helper that synchronises the kernel with the mask (syncInterest(slot))
					if h := call.Call.StaticCallee(); h != nil && isHelperOf(fn, h) && containsDeep(h, func(x ssa.Instruction) bool {
						xc, ok := x.(*ssa.Call)
						return ok && prims[xc.Call.StaticCallee()] != ""
					}, 2) {
						told = true
					}
					for _, a := range call.Call.Args {
						if ac, ok := stripConv(a).(*ssa.Call); ok && isCallToFn(ac, createEv) {
							told = true // the operation chosen by a helper and called through its value
						}
					}
				}
				pos := fn.Pos()
				if st, ok := instrs[first].(*ssa.Store); ok {
					pos = st.Pos()
				}
				c.check(told, fn, "kernel told", pos, "a recorded change of the interest mask is followed by epoll_ctl on that path", "Slot.Events is changed and success reported on a path that issues no epoll_ctl: the slot records an interest the kernel does not watch (the operation is parked for ever) or the kernel keeps reporting one the slot has dropped ("+path.String()+")")
			}
		}
		if !seenKind["del"] || !seenKind["add"] {
			c.bad(p.Method("internal", "poller", "setRW"), "kernel removal", p.Method("internal", "poller", "setRW").Pos(), "the epoll_ctl ADD/DEL primitives or their call sites were not found (anchor moved)")
		}
	}

	// the IO wrappers forward to the like-named poller operation (read is read, write is write)
	c.rule("C03-R2w", "IO.SetRead/SetWrite/UnsetRead/UnsetWrite/UnsetReadWrite forward to the poller operation of the same direction", 5)
	for _, pair := range [][2]string{{"SetRead", "SetRead"}, {"SetWrite", "SetWrite"}, {"UnsetRead", "DelRead"}, {"UnsetWrite", "DelWrite"}, {"UnsetReadWrite", "Del"}} {
		fn := p.Method("sonic", "IO", pair[0])
		want := p.IfaceMethod("internal", "Poller", pair[1])
		n, good := 0, true
		eachInstr(fn, func(in ssa.Instruction) {
			call, ok := in.(ssa.CallInstruction)
			if !ok || !call.Common().IsInvoke() {
				return
			}
			if nt, ok := call.Common().Value.Type().(*types.Named); !ok || nt.Obj().Name() != "Poller" {
				return
			}
			n++
			if !sameFunc(call.Common().Method, want) {
				good = false
			}
		})
		c.check(good && n == 1, fn, "forwards", fn.Pos(), "forwards to Poller."+pair[1], "IO."+pair[0]+" does not forward to Poller."+pair[1]+" (exactly once): cancelling or closing removes the interest of the other direction, the parked operation stays registered and is resumed after its callback was already completed")
	}

	// ... and the poller operation named for a direction changes the interest bit of that direction (and only that one)
	c.rule("C03-R2d", "poller SetRead/DelRead change the read interest bit, SetWrite/DelWrite the write interest bit", 4)
	{
		rd, _ := constantInt(p.Const("internal", "PollerReadEvent"))
		wr, _ := constantInt(p.Const("internal", "PollerWriteEvent"))
		for _, m := range []struct {
			name string
			bit  int64
			kind string
		}{{"SetRead", rd, "set"}, {"SetWrite", wr, "set"}, {"DelRead", rd, "clear"}, {"DelWrite", wr, "clear"}} {
			fn := p.Method("internal", "poller", m.name)
			n, good := 0, true
			got := ""
			for _, d := range deepStoresTo(fn, events) {
				ev := classifyEventsStore(d.Store, events)
				if ev.kind == "restore" {
					continue // undoing the change after a refused registration
				}
				n++
				k, isK := constInt(d.translate(ev.mask))
				if ev.kind != m.kind || !isK || k != m.bit {
					good = false
					got = ev.kind
					if isK {
						got += fmt.Sprintf(" of bit %#x", k)
					}
				}
			}
			c.check(good && n > 0, fn, "direction", fn.Pos(), m.name+" changes exactly its own interest bit", "poller."+m.name+" does not "+m.kind+" the interest bit of its own direction ("+got+"): the other direction's parked operation loses its registration (or gains one nobody asked for)")
		}
	}

	c.rule("C03-R3", "Del removes the read and the write interest on every path", 1)
	{
		del := p.Method("internal", "poller", "Del")
		dr := p.Method("internal", "poller", "DelRead")
		dw := p.Method("internal", "poller", "DelWrite")
		for _, target := range []*ssa.Function{dr, dw} {
			t := target
			ok, why := mustPassAt(del.Blocks[0], 0, func(in ssa.Instruction) bool { return isCallToFn(in, t) })
			c.check(ok, del, t.Name(), del.Pos(), "every path calls "+t.Name(), "a path through Del does not call "+t.Name()+": "+why)
		}
	}

	// ------------------------------------------------------------------------------------------------ R4
	c.rule("C03-R4", "loop conditions, EINTR and timeout mapping in io.go / Poll", 9)
	errTimeout := p.GlobalVar("sonicerrors", "ErrTimeout")
	pendingCalls := []*types.Func{p.IfaceMethod("internal", "Poller", "Pending"), p.Method("sonic", "IO", "Pending").Object().(*types.Func)}
	runOne := p.Method("sonic", "IO", "RunOne")
	pollM := p.Method("sonic", "IO", "poll")
	{
		fn := p.Method("sonic", "IO", "RunPending")
		nilReturns := 0
		for _, r := range returnsOf(fn) {
			if len(r.Results) != 1 {
				continue
			}
			if isNil(r.Results[0]) {
				nilReturns++
				ok := false
				for _, l := range guardsOf(r.Block()) {
					if pendingLEZero(l, pendingCalls) {
						ok = true
					}
				}
				c.check(ok, fn, "return nil", r.Pos(), "success return is guarded by Pending() <= 0", "RunPending can return success without Pending() <= 0 having been observed")
			} else {
				c.check(guardedNotTimeout(r.Block(), r.Results[0], errTimeout), fn, "return err", r.Pos(),
					"error return excludes ErrTimeout", "RunPending reports an error that may be ErrTimeout (a timeout is not an error)")
			}
		}
		if nilReturns == 0 {
			c.bad(fn, "return nil", fn.Pos(), "RunPending has no success return")
		}
		// with operations pending, the loop is run again
		for _, b := range fn.Blocks {
			if len(b.Preds) != 1 {
				continue
			}
			l, ok := edgeLit(b.Preds[0], b)
			if !ok {
				continue
			}
			if pendingLEZero(Lit{Cond: l.Cond, Pos: !l.Pos}, pendingCalls) {
				okp, why := mustPassAt(b, 0, func(in ssa.Instruction) bool { return isCallToFn(in, runOne, pollM) })
				c.check(okp, fn, "pending>0 branch", b.Instrs[0].Pos(), "with operations pending the loop runs once more", "with Pending() > 0 a path returns without running the loop: "+why)
			}
		}
	}
	for _, name := range []string{"Run", "RunWarm"} {
		fn := p.Method("sonic", "IO", name)
		for _, r := range returnsOf(fn) {
			if len(r.Results) != 1 || isNil(r.Results[0]) {
				continue
			}
			v := r.Results[0]
			// error returns that stem from the poll must exclude ErrTimeout
			if !derivesFromCall(v, runOne, pollM) {
				continue
			}
			c.check(guardedNotTimeout(r.Block(), v, errTimeout), fn, "return err", r.Pos(),
				"error return excludes ErrTimeout", name+" stops on ErrTimeout (a timeout is not an error)")
		}
	}
	{
		// (*IO).poll: EINTR
		fn := pollM
		eintrSeen := 0
		for _, r := range returnsOf(fn) {
			isEintr := false
			for _, l := range guardsOf(r.Block()) {
				op, x, y, ok := l.cmp()
				if ok && op == token.EQL && (isErrnoConst(x, "EINTR") || isErrnoConst(y, "EINTR")) {
					isEintr = true
				}
			}
			if !isEintr {
				continue
			}
			eintrSeen++
			// the pair returned here, or - when it is produced by an unexported helper - every pair the helper returns
			pairs := [][2]ssa.Value{{r.Results[0], r.Results[1]}}
			if ex, ok := stripConv(r.Results[0]).(*ssa.Extract); ok {
				if hc, ok := ex.Tuple.(*ssa.Call); ok && isHelperOf(fn, hc.Call.StaticCallee()) {
					pairs = nil
					for _, hr := range returnsOf(hc.Call.StaticCallee()) {
						if len(hr.Results) == 2 {
							pairs = append(pairs, [2]ssa.Value{hr.Results[0], hr.Results[1]})
						}
					}
				}
			}
			good := len(pairs) > 0
			for _, pr := range pairs {
				if !(isNil(pr[1]) || isLoadOfGlobal(pr[1], errTimeout)) || !isConstInt(pr[0], 0) {
					good = false
				}
			}
			c.check(good, fn, "EINTR return", r.Pos(), "interrupted wait reported as nil/ErrTimeout with count 0",
				"a wait interrupted by a signal is reported as an error or with a non-zero count")
			// which of the two: a bounded wait (timeout >= 0) that was interrupted has used its time - ErrTimeout; an
			// unbounded one is simply retried by the caller - nil
			if len(pairs) == 1 && len(fn.Params) >= 2 {
				tprm := ssa.Value(fn.Params[len(fn.Params)-1])
				bounded := ""
				for _, l := range guardsOf(r.Block()) {
					op, x, y, ok := l.cmp()
					if !ok || stripConv(resolveCell(x)) != tprm {
						continue
					}
					switch {
					case (op == token.GEQ && isConstInt(y, 0)) || (op == token.GTR && isConstInt(y, -1)):
						bounded = "yes"
					case (op == token.LSS && isConstInt(y, 0)) || (op == token.LEQ && isConstInt(y, -1)):
						bounded = "no"
					}
				}
				isTimeout := isLoadOfGlobal(pairs[0][1], errTimeout)
				okSide := bounded == "" || (bounded == "yes") == isTimeout
				c.check(okSide, fn, "EINTR side", r.Pos(), "ErrTimeout for a bounded wait, nil for an unbounded one", "the mapping of an interrupted wait is the wrong way round: an unbounded wait (RunOne) reports a timeout that never was, and a bounded one (RunOneFor, PollOne) reports success with nothing done")
			}
		}
		if eintrSeen == 0 {
			c.bad(fn, "EINTR return", fn.Pos(), "poll no longer distinguishes EINTR: a signal would surface as an error")
		}
		// success path returns the poller's count
		for _, r := range returnsOf(fn) {
			if !isNil(r.Results[1]) {
				continue
			}
			isEintr := false
			for _, l := range guardsOf(r.Block()) {
				op, x, y, ok := l.cmp()
				if ok && op == token.EQL && (isErrnoConst(x, "EINTR") || isErrnoConst(y, "EINTR")) {
					isEintr = true
				}
			}
			if isEintr {
				continue
			}
			ex, ok := strip(r.Results[0]).(*ssa.Extract)
			good := ok && ex.Index == 0 && isCallTo(ex.Tuple.(ssa.Instruction), p.IfaceMethod("internal", "Poller", "Poll"))
			c.check(good, fn, "success return", r.Pos(), "returns the count reported by the poller", "the count returned on success is not the poller's count")
		}
	}
	{
		// the two cooperating sites of the EINTR mapping: (*IO).poll compares the poller's error with syscall.EINTR by
		// identity, so (*poller).Poll must return the bare errno of epoll_wait (not a wrapped error) - or poll must use errors.Is
		usesIs := false
		eachInstr(pollM, func(in ssa.Instruction) {
			if call, ok := in.(*ssa.Call); ok && call.Call.StaticCallee() != nil && (call.Call.StaticCallee().String() == "errors.Is" || call.Call.StaticCallee().String() == "errors.As") {
				for _, a := range call.Call.Args {
					if isErrnoConst(a, "EINTR") {
						usesIs = true
					}
				}
			}
		})
		pfn, _ := pollCore(c, p)
		n := 0
		for _, r := range returnsOf(pfn) {
			e := resolveCell(r.Results[1])
			if isNil(e) {
				continue
			}
			// is this the errno path? the returned error derives from the errno result of the raw syscall
			var errnoVal ssa.Value
			eachInstr(pfn, func(in ssa.Instruction) {
				ex, ok := in.(*ssa.Extract)
				if !ok || ex.Index != 2 {
					return
				}
				if call, ok := ex.Tuple.(*ssa.Call); ok && call.Call.StaticCallee() != nil && call.Call.StaticCallee().Pkg != nil && call.Call.StaticCallee().Pkg.Pkg.Path() == "syscall" {
					errnoVal = ex
				}
			})
			if errnoVal == nil {
				continue
			}
			derives := false
			for _, leaf := range phiLeaves(e) {
				if dependsOn(resolveCell(leaf), errnoVal) {
					derives = true
				}
			}
			if !derives {
				continue
			}
			n++
			bare := true
			for _, leaf := range phiLeaves(e) {
				leaf = resolveCell(leaf)
				if isNil(leaf) {
					continue
				}
				// (strip() has already removed the boxing of the errno into the error interface)
				if stripConv(leaf) != errnoVal {
					bare = false
				}
			}
			c.check(bare || usesIs, pfn, "errno identity", exitPos(r), "the wait error reaches (*IO).poll in the form its EINTR test recognises", "Poll returns the epoll_wait errno wrapped in another error while (*IO).poll recognises an interrupted wait by `err == syscall.EINTR`: a signal during the wait surfaces as an error and RunPending returns with operations still in flight")
		}
		if n == 0 {
			c.bad(pfn, "errno identity", pfn.Pos(), "Poll no longer returns the errno of a failed wait")
		}
	}
	{
		// (*poller).Poll: ErrTimeout exactly under n == 0 && timeout >= 0; final return yields the kernel count
		fn, timeoutParam := pollCore(c, p)
		seen := 0
		for _, r := range returnsOf(fn) {
			e := resolveCell(r.Results[1])
			if isLoadOfGlobal(e, errTimeout) {
				seen++
				nZero, tNonNeg := false, false
				for _, l := range guardsOf(r.Block()) {
					op, x, y, ok := l.cmp()
					if !ok {
						continue
					}
					if op == token.EQL && isConstInt(y, 0) && isSyscallCount(x) {
						nZero = true
					}
					if op == token.GEQ && stripConv(resolveCell(x)) == ssa.Value(timeoutParam) && isConstInt(y, 0) {
						tNonNeg = true
					}
				}
				c.check(nZero && tNonNeg, fn, "return ErrTimeout", r.Pos(), "timeout reported only when nothing was ready and the wait was bounded",
					"ErrTimeout is returned without n == 0 && timeoutMs >= 0 both holding")
			}
		}
		if seen == 0 {
			c.bad(fn, "return ErrTimeout", fn.Pos(), "Poll never reports a timeout: PollOne would report success when nothing was ready")
		}
		// the return reached after dispatching reports the kernel's count
		for _, r := range returnsOf(fn) {
			if !isNil(resolveCell(r.Results[1])) {
				continue
			}
			if fn != p.Method("internal", "poller", "Poll") && isConstInt(r.Results[0], 0) {
				continue
			}
			c.check(isSyscallCount(r.Results[0]), fn, "return n", r.Pos(), "returns the number of events the kernel reported", "the count returned after dispatching is not the kernel's event count")
		}
		// the batch loop reads events[i] only for i below the kernel's count: the entry after the last one is left over
		// from an earlier wait and names a slot that may be gone
		evF := p.TryField("internal", "poller", "events")
		nBatch := 0
		for _, g := range []*ssa.Function{p.Method("internal", "poller", "Poll"), fn} {
			eachInstr(g, func(in ssa.Instruction) {
				ia, ok := in.(*ssa.IndexAddr)
				if !ok || evF == nil || !loadOfField(ia.X, evF) || isConstInt(ia.Index, 0) {
					return
				}
				nBatch++
				okB := false
				isBound := func(v ssa.Value) bool {
					v = stripConv(v)
					if _, isK := v.(*ssa.Const); isK {
						return false
					}
					if call, ok := v.(*ssa.Call); ok {
						if b, ok := call.Call.Value.(*ssa.Builtin); ok && (b.Name() == "len" || b.Name() == "cap") {
							return false // the size of the array is not the number of entries filled
						}
					}
					return true
				}
				for _, l := range guardsOf(in.Block()) {
					op, x, y, isCmp := l.cmp()
					if isCmp && op == token.LSS && stripConv(x) == stripConv(ia.Index) && isBound(y) {
						okB = true
					}
					if isCmp && op == token.GTR && stripConv(y) == stripConv(ia.Index) && isBound(x) {
						okB = true
					}
				}
				// rotated loop (`for i := range n`): the index is a phi, each incoming value tested `< n` on its own edge
				if ph, isPhi := stripConv(ia.Index).(*ssa.Phi); !okB && isPhi {
					all := len(ph.Edges) > 0
					for k, e := range ph.Edges {
						edgeOK := false
						same := func(a, b ssa.Value) bool {
							a, b = stripConv(a), stripConv(b)
							if a == b {
								return true
							}
							ka, okA := constInt(a)
							kb, okB := constInt(b)
							return okA && okB && ka == kb
						}
						for _, l := range litsAt(ph.Block(), ph.Block().Preds[k]) {
							op, x, y, isCmp := l.cmp()
							if isCmp && op == token.LSS && same(x, e) && isBound(y) {
								edgeOK = true
							}
							if isCmp && op == token.GTR && same(y, e) && isBound(x) {
								edgeOK = true
							}
						}
						if !edgeOK {
							all = false
						}
					}
					okB = all
				}
				c.check(okB, g, "batch bound", in.Pos(), "events[i] is read only for i < n", "the poll loop reads an entry of the event array that the last wait did not fill (index not strictly below the kernel's count): a stale entry of an earlier batch is dispatched to a slot that may have been closed or reused")
			})
			if g == fn {
				break
			}
		}
		if nBatch == 0 {
			c.Notes = append(c.Notes, "no indexed read of poller.events found (the batch is walked another way)")
		}
	}
}

func containsValue(list []ssa.Value, v ssa.Value) bool {
	for _, x := range list {
		if sameValue(x, v) {
			return true
		}
	}
	return false
}

// fromPosts: the called value is an element of a slice loaded from the posts field.
func fromPosts(v ssa.Value, posts *types.Var) bool {
	u, ok := strip(v).(*ssa.UnOp)
	if !ok || u.Op != token.MUL {
		return false
	}
	ia, ok := u.X.(*ssa.IndexAddr)
	if !ok {
		return false
	}
	for _, leaf := range phiLeaves(ia.X) {
		if loadOfField(leaf, posts) {
			return true
		}
		// the queue detached by a helper that returns it
		if call, ok := stripConv(leaf).(*ssa.Call); ok {
			if _, ok := returnsLoadOf(call.Call.StaticCallee(), posts); ok {
				return true
			}
		}
	}
	return false
}

// pendingLEZero: the literal states Pending() <= 0 (also accepted: < 1, == 0).
func pendingLEZero(l Lit, pendingCalls []*types.Func) bool {
	op, x, y, ok := l.cmp()
	if !ok {
		return false
	}
	isPending := func(v ssa.Value) bool {
		call, ok := stripConv(v).(*ssa.Call)
		return ok && isCallTo(call, pendingCalls...)
	}
	switch {
	case isPending(x) && isConstInt(y, 0):
		return op == token.LEQ || op == token.EQL
	case isPending(x) && isConstInt(y, 1):
		return op == token.LSS
	case isPending(y) && isConstInt(x, 0):
		return op == token.GEQ || op == token.EQL
	}
	return false
}

// guardedNotTimeout: block b is only entered when err != ErrTimeout.
func guardedNotTimeout(b *ssa.BasicBlock, err ssa.Value, errTimeout *types.Var) bool {
	for _, l := range guardsOf(b) {
		op, x, y, ok := l.cmp()
		if !ok || op != token.NEQ {
			continue
		}
		if (isLoadOfGlobal(x, errTimeout) && sameErr(y, err)) || (isLoadOfGlobal(y, errTimeout) && sameErr(x, err)) {
			return true
		}
	}
	return false
}

func sameErr(a, b ssa.Value) bool {
	return resolveCell(a) == resolveCell(b)
}

func derivesFromCall(v ssa.Value, fns ...*ssa.Function) bool {
	for _, leaf := range phiLeaves(resolveCell(v)) {
		leaf = resolveCell(leaf)
		if ex, ok := leaf.(*ssa.Extract); ok {
			leaf = ex.Tuple
		}
		if call, ok := leaf.(*ssa.Call); ok && isCallToFn(call, fns...) {
			return true
		}
	}
	return false
}

// isErrnoConst: v is the syscall.Errno constant with the given name (compared by value with the constant's object).
func isErrnoConst(v ssa.Value, name string) bool {
	c, ok := strip(v).(*ssa.Const)
	if !ok || c.Value == nil {
		return false
	}
	n, ok := c.Type().(*types.Named)
	if !ok || n.Obj().Name() != "Errno" || n.Obj().Pkg() == nil || n.Obj().Pkg().Path() != "syscall" {
		return false
	}
	obj, _ := n.Obj().Pkg().Scope().Lookup(name).(*types.Const)
	return obj != nil && obj.Val().ExactString() == c.Value.ExactString()
}

// isSyscallCount: v is (a conversion of) the first result of a raw syscall (the kernel's event count).
func isSyscallCount(v ssa.Value) bool {
	v = stripConv(resolveCell(v))
	ex, ok := v.(*ssa.Extract)
	if !ok || ex.Index != 0 {
		return false
	}
	call, ok := ex.Tuple.(*ssa.Call)
	if !ok {
		return false
	}
	callee := call.Call.StaticCallee()
	return callee != nil && callee.Pkg != nil && callee.Pkg.Pkg.Path() == "syscall" && (callee.Name() == "Syscall6" || callee.Name() == "Syscall" || callee.Name() == "EpollWait")
}

// pollCore: the function that performs the wait and translates its outcome - Poll itself, or the unexported helper Poll
// delegates the wait to. In the second case Poll must forward the helper's (n, err) unchanged: `return n, err` on the
// error edge and `return n, nil` after dispatching. Returns the function and its timeout parameter.
func pollCore(c *Ctx, p *Prog) (*ssa.Function, *ssa.Parameter) {
	poll := p.Method("internal", "poller", "Poll")
	hasWait := func(fn *ssa.Function) bool {
		found := false
		eachInstr(fn, func(in ssa.Instruction) {
			if ex, ok := in.(*ssa.Extract); ok && ex.Index == 2 {
				if call, ok := ex.Tuple.(*ssa.Call); ok && call.Call.StaticCallee() != nil && call.Call.StaticCallee().Pkg != nil && call.Call.StaticCallee().Pkg.Pkg.Path() == "syscall" {
					found = true
				}
			}
		})
		return found
	}
	if hasWait(poll) {
		return poll, poll.Params[1]
	}
	for _, call := range allCalls(poll) {
		h := call.Call.StaticCallee()
		if !isHelperOf(poll, h) || !hasWait(h) {
			continue
		}
		// the timeout is handed on
		var tprm *ssa.Parameter
		for i, a := range call.Call.Args {
			if stripConv(a) == ssa.Value(poll.Params[1]) && i < len(h.Params) {
				tprm = h.Params[i]
			}
		}
		nv, ev := extractOf(call, 0), extractOf(call, 1)
		forwardsErr, forwardsN := false, false
		for _, r := range returnsOf(poll) {
			if len(r.Results) != 2 {
				continue
			}
			if stripConv(resolveCell(r.Results[1])) == ev && stripConv(resolveCell(r.Results[0])) == nv && ev != nil {
				forwardsErr = true
			}
			if isNil(resolveCell(r.Results[1])) && stripConv(resolveCell(r.Results[0])) == nv && guardedNil(r.Block(), ev) {
				forwardsN = true
			}
		}
		c.check(tprm != nil && forwardsErr && forwardsN, poll, "forwards the wait", call.Pos(), "Poll hands the timeout to the wait helper and returns its count and error unchanged", "Poll does not forward the outcome of its wait helper unchanged (timeout passed on, `n, err` on the error edge, `n, nil` after dispatching): the errno / ErrTimeout / count contract with (*IO).poll is broken")
		if tprm != nil {
			return h, tprm
		}
	}
	return poll, poll.Params[1]
}
