package main

import (
	"fmt"
	"go/token"
	"go/types"
	"sort"
	"strings"

	"golang.org/x/tools/go/ssa"
)

func init() {
	register(&propertySpec{
		ID:    "C06",
		Title: "WebSocket message delivery fidelity under fragmentation/segmentation",
		Explanation: "Partial, structural claim. Decides: (R1) every frame comes through the state machine - the codec connection's ReadNext/AsyncReadNext are called only by " +
			"nextFrame/asyncNextFrame (that each frame then passes handleFrame is C15-R2); (R2) reassembly in both message readers - each data frame's payload is copied to " +
			"b[readBytes:], readBytes advances by exactly the count copied, the value reported is that running total, the message type is taken from the first data frame only " +
			"(guarded by messageType == TypeNone), control frames between fragments leave the reassembly state (readBytes, continuation flag, message type) untouched and are " +
			"handed to the control callback only; the continuation flag is !FIN of the data frame just processed; (R3) exactly one frame is consumed per decode (C07-R2, shared); " +
			"(R4) sibling agreement - the blocking and asynchronous variants (NextMessage/asyncNextMessage, NextFrame/AsyncNextFrame, nextFrame/asyncNextFrame) use the same " +
			"error values, frame accessors, limits and state constants modulo the fixed sync/async renaming. Not decided: byte-identical payloads for all fragmentations x " +
			"segmentations (runtime values).",
		Run: runC06,
	})
	addMutants("C06",
		mutant{"payload copied over the previous fragment", "codec/websocket/stream.go",
			"\t\t\tn := copy(b[readBytes:], f.Payload())\n\t\t\treadBytes += n\n\n\t\t\tif readBytes > s.maxMessageSize || n != f.PayloadLength() {\n\t\t\t\terr = ErrMessageTooBig\n\t\t\t\t_ = s.Close(",
			"\t\t\tn := copy(b, f.Payload())\n\t\t\treadBytes += n\n\n\t\t\tif readBytes > s.maxMessageSize || n != f.PayloadLength() {\n\t\t\t\terr = ErrMessageTooBig\n\t\t\t\t_ = s.Close(", "C06-R2"},
		mutant{"async total counts the declared length", "codec/websocket/stream.go",
			"\t\t\t\tn := copy(b[readBytes:], f.Payload())\n\t\t\t\treadBytes += n\n\n\t\t\t\tif readBytes > s.maxMessageSize || n != f.PayloadLength() {\n\t\t\t\t\terr = ErrMessageTooBig\n\t\t\t\t\ts.AsyncClose(",
			"\t\t\t\tn := copy(b[readBytes:], f.Payload())\n\t\t\t\treadBytes += f.PayloadLength()\n\n\t\t\t\tif readBytes > s.maxMessageSize || n != f.PayloadLength() {\n\t\t\t\t\terr = ErrMessageTooBig\n\t\t\t\t\ts.AsyncClose(", "C06-R2"},
		mutant{"message type taken from the last fragment", "codec/websocket/stream.go",
			"\t\t\tif messageType == TypeNone {\n\t\t\t\tmessageType = MessageType(f.Opcode())\n\t\t\t}\n\n\t\t\tn := copy(b[readBytes:], f.Payload())", "\t\t\tmessageType = MessageType(f.Opcode())\n\n\t\t\tn := copy(b[readBytes:], f.Payload())", "C06-R2"},
		mutant{"control frame resets the fragment state (async)", "codec/websocket/stream.go",
			"\t\t\t\t\ts.controlCallback(MessageType(f.Opcode()), f.Payload())\n\t\t\t\t}\n\n\t\t\t\ts.asyncNextMessage(b, readBytes, continuation, messageType, callback)", "\t\t\t\t\ts.controlCallback(MessageType(f.Opcode()), f.Payload())\n\t\t\t\t}\n\n\t\t\t\ts.asyncNextMessage(b, readBytes, false, messageType, callback)", "C06-R2"},
		mutant{"continuation flag updated for control frames (async)", "codec/websocket/stream.go",
			"\t\tif err != nil {\n\t\t\tcallback(err, readBytes, messageType)\n\t\t} else {\n\t\t\tif f.Opcode().IsControl() {", "\t\tif err != nil {\n\t\t\tcallback(err, readBytes, messageType)\n\t\t} else {\n\t\t\tcontinuation = !f.IsFIN()\n\t\t\tif f.Opcode().IsControl() {", "C06-R2"},
		mutant{"control payload delivered as data (sync)", "codec/websocket/stream.go",
			"\t\tif f.Opcode().IsControl() {\n\t\t\tif s.controlCallback != nil {\n\t\t\t\ts.controlCallback(MessageType(f.Opcode()), f.Payload())\n\t\t\t}\n\t\t} else {\n\t\t\tif messageType == TypeNone {", "\t\tif f.Opcode().IsPing() {\n\t\t\tif s.controlCallback != nil {\n\t\t\t\ts.controlCallback(MessageType(f.Opcode()), f.Payload())\n\t\t\t}\n\t\t} else {\n\t\t\tif messageType == TypeNone {", "C06-R"},
		mutant{"async reader reads the codec directly", "codec/websocket/stream.go",
			"func (s *Stream) AsyncNextMessage(b []byte, callback AsyncMessageCallback) {\n", "func (s *Stream) AsyncNextMessage(b []byte, callback AsyncMessageCallback) {\n\tif len(b) == 0 {\n\t\ts.codecConn.AsyncReadNext(func(err error, f Frame) { callback(err, 0, TypeNone) })\n\t\treturn\n\t}\n", "C06-R1"},
		mutant{"async variant misses the truncation check", "codec/websocket/stream.go",
			"\t\t\t\tif readBytes > s.maxMessageSize || n != f.PayloadLength() {\n\t\t\t\t\terr = ErrMessageTooBig\n\t\t\t\t\ts.AsyncClose(", "\t\t\t\tif readBytes > s.maxMessageSize {\n\t\t\t\t\terr = ErrMessageTooBig\n\t\t\t\t\ts.AsyncClose(", "C06-R4"},
		mutant{"final flag taken from the opcode", "codec/websocket/stream.go",
			"\t\t\tcontinuation = !f.IsFIN()\n\n\t\t\tif err != nil || !continuation {\n\t\t\t\tbreak\n\t\t\t}", "\t\t\tcontinuation = f.Opcode().IsContinuation()\n\n\t\t\tif err != nil || !continuation {\n\t\t\t\tbreak\n\t\t\t}", "C06-R2"},
	)
}

// features collects the behaviour-relevant vocabulary of a function (and its closures): error variables, frame / opcode
// accessors, compared constants, fields read, and in-package callees, after the sync<->async renaming.
func features(p *Prog, fns []*ssa.Function, rename map[string]string) map[string]bool {
	return featuresInl(p, fns, rename, nil)
}

// localHelpers: the unexported, non-renamed functions of the module that fns call directly.
func localHelpers(fns []*ssa.Function, rename map[string]string) map[*ssa.Function]bool {
	named := map[string]bool{}
	for k, v := range rename {
		named[k], named[v] = true, true
	}
	out := map[*ssa.Function]bool{}
	for _, fn := range fns {
		eachInstr(fn, func(in ssa.Instruction) {
			call, ok := in.(*ssa.Call)
			if !ok {
				return
			}
			callee := call.Call.StaticCallee()
			if callee == nil || !isHelperOf(fns[0], callee) {
				return
			}
			_, tn := recvTypeName(callee)
			if !named["call "+tn+"."+pinName(callee)] {
				out[callee] = true
			}
		})
	}
	return out
}

// featuresInl: as features, with the bodies of the functions in inline folded into the caller (a helper that only one
// of two siblings uses is compared by what it does, not by its name).
func featuresInl(p *Prog, fns []*ssa.Function, rename map[string]string, inline map[*ssa.Function]bool) map[string]bool {
	for i := 0; i < len(fns); i++ {
		eachInstr(fns[i], func(in ssa.Instruction) {
			if call, ok := in.(*ssa.Call); ok {
				if callee := call.Call.StaticCallee(); callee != nil && inline[callee] {
					dup := false
					for _, f := range fns {
						if f == callee {
							dup = true
						}
					}
					if !dup {
						fns = append(fns, withClosures(callee)...)
					}
				}
			}
		})
	}
	out := map[string]bool{}
	add := func(s string) {
		if r, ok := rename[s]; ok {
			s = r
		}
		out[s] = true
	}
	for _, fn := range fns {
		eachInstr(fn, func(in ssa.Instruction) {
			if v, ok := in.(ssa.Value); ok {
				if g := loadedGlobal(v); g != nil && g.Pkg() != nil {
					add("var " + g.Name())
				}
				if f := loadedField(v); f != nil {
					add("field " + f.Name())
				}
			}
			switch x := in.(type) {
			case *ssa.Call:
				if callee := x.Call.StaticCallee(); callee != nil {
					pk := fnTypesPkg(callee)
					if pk != nil && strings.HasPrefix(pk.Path(), modPath) && !inline[callee] {
						_, tn := recvTypeName(callee)
						add("call " + tn + "." + pinName(callee))
					}
				} else if b, ok := x.Call.Value.(*ssa.Builtin); ok {
					add("builtin " + b.Name())
				}
			case *ssa.BinOp:
				switch x.Op {
				case token.EQL, token.NEQ, token.GTR, token.LSS, token.GEQ, token.LEQ:
					if k, ok := constInt(x.Y); ok {
						if n, ok := stripConv(x.Y).Type().(*types.Named); ok {
							add(fmt.Sprintf("cmp %s %d", n.Obj().Name(), k))
						}
					}
				}
			case *ssa.Store:
				if fv, _ := fieldAddrOf(x.Addr); fv != nil {
					if k, ok := constInt(x.Val); ok {
						add(fmt.Sprintf("store %s=%d", fv.Name(), k))
					}
				}
			}
		})
	}
	return out
}

func setDiff(a, b map[string]bool) []string {
	var out []string
	for k := range a {
		if !b[k] {
			out = append(out, k)
		}
	}
	sort.Strings(out)
	return out
}

func runC06(c *Ctx) {
	p := c.P
	ws := "codec/websocket"
	w := wsAnchor(p)
	opM := func(n string) *ssa.Function { return p.Method(ws, "Opcode", n) }
	isControl := opM("IsControl")
	typeNone, _ := constantInt(p.Const(ws, "TypeNone"))
	ctrlCb := p.Field(ws, "Stream", "controlCallback")
	nm := p.Method(ws, "Stream", "NextMessage")
	anm := p.Method(ws, "Stream", "asyncNextMessage")

	// ------------------------------------------------------------------------------------------------ R1
	c.rule("C06-R1", "the codec connection is read only by nextFrame / asyncNextFrame", 2)
	for _, fn := range wsFuncs(p) {
		top := fn
		for top.Parent() != nil {
			top = top.Parent()
		}
		for _, name := range []string{"ReadNext", "AsyncReadNext"} {
			for _, call := range callsByName(fn, name) {
				if pk, tn := recvTypeName(call.Common().StaticCallee()); pk != modPath || tn != "CodecConn" {
					continue
				}
				c.check(top == w.nextFrame || top == w.asyncNextFrame, fn, name, call.Pos(), "frames are read by the frame layer only", "a frame is read from the codec connection outside nextFrame/asyncNextFrame: it bypasses the state machine (control handling, verification) and the flush-before-read order")
			}
		}
	}

	// ------------------------------------------------------------------------------------------------ R2
	c.rule("C06-R2", "reassembly: copy to b[total:], total += copied, type from the first data frame, control frames leave the reassembly state alone, continuation = !FIN", 14)
	inControl := func(b *ssa.BasicBlock) (bool, bool) { // (known, isControl)
		for _, l := range guardsOf(b) {
			if _, pos, ok := callLit(l, isControl); ok {
				return true, pos
			}
		}
		return false, false
	}
	// ---- blocking reader
	{
		fn := nm
		bParam := fn.Params[1]
		var loopPhis []*ssa.Phi
		for _, b := range fn.Blocks {
			for _, in := range b.Instrs {
				if ph, ok := in.(*ssa.Phi); ok && len(b.Preds) >= 3 {
					loopPhis = append(loopPhis, ph)
				}
			}
		}
		var total, cont, mtype *ssa.Phi
		for _, ph := range loopPhis {
			switch {
			case ph.Comment == "readBytes":
				total = ph
			case ph.Comment == "continuation":
				cont = ph
			case ph.Comment == "messageType":
				mtype = ph
			}
		}
		if total == nil || cont == nil || mtype == nil {
			// fall back on types
			for _, ph := range loopPhis {
				switch t := ph.Type().Underlying().(type) {
				case *types.Basic:
					if t.Kind() == types.Int && total == nil {
						total = ph
					} else if t.Kind() == types.Bool && cont == nil {
						cont = ph
					} else if t.Kind() == types.Uint8 && mtype == nil {
						mtype = ph
					}
				}
			}
		}
		if total == nil || cont == nil || mtype == nil {
			infra("anchor: loop variables of NextMessage not found")
		}
		// control frames leave the state alone: edges coming from the control region carry the phi itself
		for _, ph := range []*ssa.Phi{total, cont, mtype} {
			good := true
			for i, e := range ph.Edges {
				known, isCtl := inControl(ph.Block().Preds[i])
				if known && isCtl && stripConv(e) != ssa.Value(ph) {
					good = false
				}
			}
			c.check(good, fn, "control frames keep "+ph.Comment, ph.Pos(), "unchanged on the control-frame path", "a control frame between fragments changes "+ph.Comment+": the message in progress is truncated, restarted or mistyped")
		}
		checkReassembly(c, fn, bParam, total, func(v ssa.Value) bool { return stripConv(v) == ssa.Value(total) }, w, isControl)
		// message type from the first data frame only
		goodT := false
		for _, e := range mtype.Edges {
			if ph2, ok := stripConv(e).(*ssa.Phi); ok {
				for i, e2 := range ph2.Edges {
					if call, ok := stripConv(e2).(*ssa.Call); ok && isCallToFn(call, w.opcodeM) {
						for _, l := range litsAt(ph2.Block(), ph2.Block().Preds[i]) {
							op, x, y, ok := l.cmp()
							if ok && op == token.EQL && stripConv(x) == ssa.Value(mtype) && isConstInt(y, typeNone) {
								goodT = true
							}
						}
					}
				}
			}
		}
		c.check(goodT, fn, "message type", mtype.Pos(), "the type is the opcode of the first data frame", "the message type is not taken from the first data frame only (under messageType == TypeNone): continuation frames overwrite it with 0")
		// continuation = !IsFIN of the frame
		goodC := false
		for _, e := range cont.Edges {
			if u, ok := stripConv(e).(*ssa.UnOp); ok && u.Op == token.NOT {
				if call, ok := stripConv(u.X).(*ssa.Call); ok && isCallToFn(call, w.isFIN) {
					goodC = true
				}
			}
		}
		c.check(goodC, fn, "continuation flag", cont.Pos(), "more fragments are expected exactly when FIN is clear", "the continuation flag is not !FIN of the data frame just processed: messages end early or run into the next one")
		// reported total
		goodR := true
		for _, r := range returnsOf(fn) {
			ok := false
			for _, leaf := range phiLeaves(r.Results[1]) {
				if leaf == ssa.Value(total) {
					ok = true
				}
				if bo, isB := leaf.(*ssa.BinOp); isB && bo.Op == token.ADD && (stripConv(bo.X) == ssa.Value(total) || stripConv(bo.Y) == ssa.Value(total)) {
					ok = true
				}
				// the new total as the append-fragment helper returned it
				if ex, isEx := stripConv(leaf).(*ssa.Extract); isEx && ex.Index == 0 {
					if hc, isCall := ex.Tuple.(*ssa.Call); isCall {
						if _, tIdx, isApp := appendsFragment(hc.Call.StaticCallee(), fn, w); isApp && tIdx < len(hc.Call.Args) && stripConv(hc.Call.Args[tIdx]) == ssa.Value(total) {
							ok = true
						}
					}
				}
			}
			if !ok {
				goodR = false
			}
		}
		c.check(goodR, fn, "reported length", fn.Pos(), "the length reported is the running total", "the length returned is not the running total of bytes copied")
	}
	// ---- asynchronous reader
	for _, cf := range anm.AnonFuncs {
		c.touch(cf)
		// captured cells of readBytes / continuation / messageType
		cells := map[string]*ssa.FreeVar{}
		for _, fv := range cf.FreeVars {
			cells[fv.Name()] = fv
		}
		total, cont, mtype := cells["readBytes"], cells["continuation"], cells["messageType"]
		bCell := cells["b"]
		if total == nil || cont == nil || mtype == nil || bCell == nil {
			// renamed: fall back on the types of the captured variables (one []byte, one int, one bool, one message type)
			total, cont, mtype, bCell = nil, nil, nil, nil
			for _, fv := range cf.FreeVars {
				pt, ok := fv.Type().(*types.Pointer)
				if !ok {
					continue
				}
				switch t := pt.Elem().Underlying().(type) {
				case *types.Slice:
					if isByteSlice(pt.Elem()) && bCell == nil {
						bCell = fv
					}
				case *types.Basic:
					switch {
					case t.Kind() == types.Int && total == nil:
						total = fv
					case t.Kind() == types.Bool && cont == nil:
						cont = fv
					case t.Kind() == types.Uint8 && mtype == nil:
						mtype = fv
					}
				}
			}
		}
		if total == nil || cont == nil || mtype == nil || bCell == nil {
			infra("anchor: captured reassembly variables of asyncNextMessage not found")
		}
		isLoad := func(v ssa.Value, fv *ssa.FreeVar) bool {
			u, ok := stripConv(v).(*ssa.UnOp)
			return ok && u.Op == token.MUL && u.X == ssa.Value(fv)
		}
		for name, fv := range map[string]*ssa.FreeVar{"readBytes": total, "continuation": cont, "messageType": mtype} {
			good := true
			n := 0
			eachInstr(cf, func(in ssa.Instruction) {
				st, ok := in.(*ssa.Store)
				if !ok || st.Addr != ssa.Value(fv) {
					return
				}
				n++
				known, isCtl := inControl(st.Block())
				if !known || isCtl {
					good = false
				}
			})
			c.check(good && n > 0, cf, "control frames keep "+name, cf.Pos(), "updated only while processing a data frame", "the reassembly variable "+name+" is updated outside the data-frame branch: a control frame between fragments disturbs the message in progress (or it is never updated)")
		}
		// the recursive call on the control path hands the state on unchanged
		for _, rc := range callsToFn(cf, anm) {
			known, isCtl := inControl(rc.(ssa.Instruction).Block())
			if !known || !isCtl {
				continue
			}
			a := rc.Common().Args
			good := len(a) == 6 && isLoad(a[2], total) && isLoad(a[3], cont) && isLoad(a[4], mtype)
			c.check(good, cf, "control frame recursion", rc.Pos(), "the read continues with the reassembly state unchanged", "after a control frame the asynchronous reader does not continue with the unchanged (readBytes, continuation, messageType)")
		}
		checkReassemblyAsync(c, cf, bCell, total, cont, mtype, w, typeNone, isControl)
	}
	// control callback only for control frames
	for _, fn := range append([]*ssa.Function{nm}, anm.AnonFuncs...) {
		eachInstr(fn, func(in ssa.Instruction) {
			call, ok := in.(ssa.CallInstruction)
			if !ok || !isDynamicFuncCall(call) || !loadOfField(call.Common().Value, ctrlCb) {
				return
			}
			known, isCtl := inControl(in.Block())
			c.check(known && isCtl, fn, "control callback", in.Pos(), "only control frames go to the control callback", "the control callback is invoked outside the IsControl() branch")
		})
	}

	// ------------------------------------------------------------------------------------------------ R4
	c.rule("C06-R4", "sibling agreement between the blocking and asynchronous readers", 3)
	rename := map[string]string{
		"call Stream.AsyncClose": "call Stream.Close", "call Stream.AsyncNextFrame": "call Stream.NextFrame", "call Stream.asyncNextFrame": "call Stream.nextFrame",
		"call Stream.AsyncFlush": "call Stream.Flush", "call CodecConn.AsyncReadNext": "call CodecConn.ReadNext", "call Stream.asyncNextMessage": "(loop)",
	}
	type twin struct {
		a, b    *ssa.Function
		allowed map[string]string // feature -> reason it may differ
	}
	twins := []twin{
		{nm, anm, map[string]string{}},
		{w.NextFrame, w.AsyncNextFrame, map[string]string{
			"store state=5":       "the blocking variant stores Terminated when the inner read returns EOF, the asynchronous one when the flush fails / the stream cannot be read; both are terminations",
			"var EOF":             "the blocking variant re-checks io.EOF from nextFrame",
			"builtin len":         "either variant may test for an empty pending queue before flushing (C08-R5 decides that a skipped flush is skipped only then)",
			"field pendingFrames": "as above",
		}},
		{w.nextFrame, w.asyncNextFrame, map[string]string{}},
	}
	for _, t := range twins {
		// a helper only one side uses is compared by its body
		ha, hb := localHelpers(withClosures(t.a), rename), localHelpers(withClosures(t.b), rename)
		inline := map[*ssa.Function]bool{}
		for h := range ha {
			if !hb[h] {
				inline[h] = true
			}
		}
		for h := range hb {
			if !ha[h] {
				inline[h] = true
			}
		}
		fa := featuresInl(p, withClosures(t.a), rename, inline)
		fb := featuresInl(p, withClosures(t.b), rename, inline)
		delete(fa, "(loop)")
		delete(fb, "(loop)")
		var diffs []string
		for _, d := range setDiff(fa, fb) {
			if _, ok := t.allowed[d]; !ok {
				diffs = append(diffs, "only in "+t.a.Name()+": "+d)
			}
		}
		for _, d := range setDiff(fb, fa) {
			if _, ok := t.allowed[d]; !ok {
				diffs = append(diffs, "only in "+t.b.Name()+": "+d)
			}
		}
		c.check(len(diffs) == 0, t.a, "twin "+pinName(t.b), t.a.Pos(), fmt.Sprintf("%d shared features", len(fa)), "the blocking and asynchronous variants disagree ("+strings.Join(diffs, "; ")+"): the two APIs no longer deliver the same sequence for the same bytes")
	}
}

// checkReassembly (blocking reader): copy destination / source and the advance of the running total.
func checkReassembly(c *Ctx, fn *ssa.Function, bParam *ssa.Parameter, total *ssa.Phi, isTotal func(ssa.Value) bool, w *wsAnchors, isControl *ssa.Function) {
	n := 0
	eachInstr(fn, func(in ssa.Instruction) {
		call, ok := in.(*ssa.Call)
		if !ok {
			return
		}
		b, ok := call.Call.Value.(*ssa.Builtin)
		if !ok || b.Name() != "copy" {
			return
		}
		n++
		dst, okD := stripConv(call.Call.Args[0]).(*ssa.Slice)
		dstOK := okD && stripConv(dst.X) == ssa.Value(bParam) && dst.Low != nil && isTotal(dst.Low) && dst.High == nil
		src, okS := stripConv(call.Call.Args[1]).(*ssa.Call)
		srcOK := okS && isCallToFn(src, w.payloadM)
		c.check(dstOK && srcOK, fn, "copy", in.Pos(), "payload copied to b[total:]", "the fragment's payload is not copied to b[total:] from f.Payload(): fragments overwrite each other or leave gaps")
		// total' = total + n
		adv := false
		for _, e := range total.Edges {
			if bo, ok := stripConv(e).(*ssa.BinOp); ok && bo.Op == token.ADD {
				if _, other, ok := operandsWhere(bo, isTotal); ok && stripConv(other) == ssa.Value(call) {
					adv = true
				}
			}
		}
		c.check(adv, fn, "advance", in.Pos(), "the total advances by exactly the count copied", "the running total does not advance by exactly the number of bytes copied: the reported length differs from the payload length and the next fragment lands at a wrong offset")
	})
	// the copy and the advance may live in a helper that appends one fragment: appendFragment(b, total, f) (newTotal, ...)
	eachInstr(fn, func(in ssa.Instruction) {
		call, ok := in.(*ssa.Call)
		if !ok {
			return
		}
		bIdx, tIdx, ok := appendsFragment(call.Call.StaticCallee(), fn, w)
		if !ok || bIdx >= len(call.Call.Args) || tIdx >= len(call.Call.Args) {
			return
		}
		n++
		c.check(stripConv(call.Call.Args[bIdx]) == ssa.Value(bParam) && isTotal(call.Call.Args[tIdx]), fn, "copy", in.Pos(), "payload copied to b[total:]", "the fragment's payload is not copied to b[total:] from f.Payload(): fragments overwrite each other or leave gaps")
		adv := false
		for _, e := range total.Edges {
			if ex, ok := stripConv(e).(*ssa.Extract); ok && ex.Tuple == ssa.Value(call) && ex.Index == 0 {
				adv = true
			}
			if stripConv(e) == ssa.Value(call) {
				adv = true
			}
		}
		c.check(adv, fn, "advance", in.Pos(), "the total advances by exactly the count copied", "the running total does not advance by exactly the number of bytes copied: the reported length differs from the payload length and the next fragment lands at a wrong offset")
	})
	if n == 0 {
		c.bad(fn, "copy", fn.Pos(), "no payload is copied into the caller's buffer")
	}
}

// appendsFragment: h copies f.Payload() (f a parameter) to b[t:] (b and t parameters) and returns t + the count copied as
// its first result on every path; returns the indices of b and t.
func appendsFragment(h, top *ssa.Function, w *wsAnchors) (int, int, bool) {
	if h == nil || h.Blocks == nil || !isHelperOf(top, h) {
		return 0, 0, false
	}
	var cp *ssa.Call
	bIdx, tIdx := -1, -1
	eachInstr(h, func(in ssa.Instruction) {
		call, ok := in.(*ssa.Call)
		if !ok {
			return
		}
		if b, ok := call.Call.Value.(*ssa.Builtin); !ok || b.Name() != "copy" {
			return
		}
		dst, okD := stripConv(call.Call.Args[0]).(*ssa.Slice)
		src, okS := stripConv(call.Call.Args[1]).(*ssa.Call)
		if !okD || !okS || !isCallToFn(src, w.payloadM) || dst.Low == nil || dst.High != nil {
			return
		}
		if _, isPrm := stripConv(src.Call.Args[0]).(*ssa.Parameter); !isPrm {
			return
		}
		for i, q := range h.Params {
			if stripConv(dst.X) == ssa.Value(q) {
				bIdx = i
			}
			if stripConv(dst.Low) == ssa.Value(q) {
				tIdx = i
			}
		}
		cp = call
	})
	if cp == nil || bIdx < 0 || tIdx < 0 {
		return 0, 0, false
	}
	for _, r := range returnsOf(h) {
		if len(r.Results) == 0 {
			return 0, 0, false
		}
		bo, ok := stripConv(r.Results[0]).(*ssa.BinOp)
		if !ok || bo.Op != token.ADD {
			return 0, 0, false
		}
		x, y := stripConv(bo.X), stripConv(bo.Y)
		if !((x == ssa.Value(h.Params[tIdx]) && y == ssa.Value(cp)) || (y == ssa.Value(h.Params[tIdx]) && x == ssa.Value(cp))) {
			return 0, 0, false
		}
	}
	return bIdx, tIdx, true
}

func checkReassemblyAsync(c *Ctx, cf *ssa.Function, bCell, total, cont, mtype *ssa.FreeVar, w *wsAnchors, typeNone int64, isControl *ssa.Function) {
	isLoad := func(v ssa.Value, fv *ssa.FreeVar) bool {
		u, ok := stripConv(v).(*ssa.UnOp)
		return ok && u.Op == token.MUL && u.X == ssa.Value(fv)
	}
	n := 0
	eachInstr(cf, func(in ssa.Instruction) {
		call, ok := in.(*ssa.Call)
		if !ok {
			return
		}
		b, ok := call.Call.Value.(*ssa.Builtin)
		if !ok || b.Name() != "copy" {
			return
		}
		n++
		dst, okD := stripConv(call.Call.Args[0]).(*ssa.Slice)
		dstOK := okD && isLoad(dst.X, bCell) && dst.Low != nil && isLoad(dst.Low, total) && dst.High == nil
		src, okS := stripConv(call.Call.Args[1]).(*ssa.Call)
		srcOK := okS && isCallToFn(src, w.payloadM)
		c.check(dstOK && srcOK, cf, "copy", in.Pos(), "payload copied to b[total:]", "the fragment's payload is not copied to b[total:] from f.Payload()")
		adv := false
		eachInstr(cf, func(x ssa.Instruction) {
			st, ok := x.(*ssa.Store)
			if !ok || st.Addr != ssa.Value(total) {
				return
			}
			if bo, ok := stripConv(st.Val).(*ssa.BinOp); ok && bo.Op == token.ADD {
				if _, other, ok := operandsWhere(bo, func(v ssa.Value) bool { return isLoad(v, total) }); ok && stripConv(other) == ssa.Value(call) {
					adv = true
				}
			}
		})
		c.check(adv, cf, "advance", in.Pos(), "the total advances by exactly the count copied", "the running total does not advance by exactly the number of bytes copied")
	})
	eachInstr(cf, func(in ssa.Instruction) {
		call, ok := in.(*ssa.Call)
		if !ok {
			return
		}
		top := cf
		for top.Parent() != nil {
			top = top.Parent()
		}
		bIdx, tIdx, ok := appendsFragment(call.Call.StaticCallee(), top, w)
		if !ok || bIdx >= len(call.Call.Args) || tIdx >= len(call.Call.Args) {
			return
		}
		n++
		c.check(isLoad(call.Call.Args[bIdx], bCell) && isLoad(call.Call.Args[tIdx], total), cf, "copy", in.Pos(), "payload copied to b[total:]", "the fragment's payload is not copied to b[total:] from f.Payload()")
		adv := false
		eachInstr(cf, func(x ssa.Instruction) {
			st, ok := x.(*ssa.Store)
			if !ok || st.Addr != ssa.Value(total) {
				return
			}
			if ex, ok := stripConv(st.Val).(*ssa.Extract); ok && ex.Tuple == ssa.Value(call) && ex.Index == 0 {
				adv = true
			}
			if stripConv(st.Val) == ssa.Value(call) {
				adv = true
			}
		})
		c.check(adv, cf, "advance", in.Pos(), "the total advances by exactly the count copied", "the running total does not advance by exactly the number of bytes copied")
	})
	if n == 0 {
		c.bad(cf, "copy", cf.Pos(), "no payload is copied into the caller's buffer")
	}
	// type from the first data frame
	goodT := false
	eachInstr(cf, func(in ssa.Instruction) {
		st, ok := in.(*ssa.Store)
		if !ok || st.Addr != ssa.Value(mtype) {
			return
		}
		if call, ok := stripConv(st.Val).(*ssa.Call); ok && isCallToFn(call, w.opcodeM) {
			for _, l := range guardsOf(st.Block()) {
				op, x, y, ok := l.cmp()
				if ok && op == token.EQL && isLoad(x, mtype) && isConstInt(y, typeNone) {
					goodT = true
				}
			}
		}
	})
	c.check(goodT, cf, "message type", cf.Pos(), "the type is the opcode of the first data frame", "the message type is not taken from the first data frame only")
	goodC := true
	nC := 0
	eachInstr(cf, func(in ssa.Instruction) {
		st, ok := in.(*ssa.Store)
		if !ok || st.Addr != ssa.Value(cont) {
			return
		}
		nC++
		u, ok := stripConv(st.Val).(*ssa.UnOp)
		if !ok || u.Op != token.NOT {
			goodC = false
			return
		}
		if call, ok := stripConv(u.X).(*ssa.Call); !ok || !isCallToFn(call, w.isFIN) {
			goodC = false
		}
	})
	c.check(goodC && nC > 0, cf, "continuation flag", cf.Pos(), "more fragments are expected exactly when FIN is clear", "the continuation flag is not !FIN of the data frame just processed")
	// completions report the running total and type
	goodR := true
	eachInstr(cf, func(in ssa.Instruction) {
		call, ok := in.(ssa.CallInstruction)
		if !ok || !isDynamicFuncCall(call) || len(call.Common().Args) != 3 {
			return
		}
		if !isLoad(call.Common().Args[1], total) || !isLoad(call.Common().Args[2], mtype) {
			goodR = false
		}
	})
	c.check(goodR, cf, "reported length", cf.Pos(), "completions report the running total and the message type", "a completion of the asynchronous reader does not report the running total / message type")
}
