package main

// Source-level normalisation. A refactoring often introduces a small unexported helper whose body is a single
// expression (`func (e PollerEvent) has(f PollerEvent) bool { return e&f == f }`, `func (t *Timer) inState(s timerState)
// bool { return t.state == s }`, `func readComplete(b []byte, n int, all bool) bool { return !all || n == len(b) }`).
// The rules were written against the expressions, not against such names. Helpers of that shape that do NOT exist on
// the pinned tree (symtab.json) are therefore expanded at their call sites, in an overlay, before the program is built:
// the analysed program is the one a compiler with mid-stack inlining would see. Functions known on the pinned tree are
// never expanded, so the analysis of the unchanged tree is untouched.
//
// Soundness of the expansion: the helper is `return <expr>` with one result, contains no function literal, is not
// recursive; each parameter occurs at most once in <expr> unless the argument is side-effect free and cheap (identifier,
// selector chain, literal); the package-level names and imported packages <expr> mentions denote the same objects at
// the call site; the call site is a single-line call expression. Anything else is left as it is.

import (
	"bytes"
	"go/ast"
	"go/token"
	"go/types"
	"os"
	"sort"
	"strings"

	"golang.org/x/tools/go/packages"
)

type inlinable struct {
	decl   *ast.FuncDecl
	expr   ast.Expr
	text   string                  // source text of expr, single line
	params []*types.Var            // receiver first
	occ    map[*types.Var][]int    // offsets of the occurrences of each parameter, relative to the start of text
	free   map[string]types.Object // package-level / imported names mentioned
	file   string
}

func simpleArg(e ast.Expr) bool {
	switch x := e.(type) {
	case *ast.Ident, *ast.BasicLit:
		return true
	case *ast.SelectorExpr:
		return simpleArg(x.X)
	case *ast.ParenExpr:
		return simpleArg(x.X)
	case *ast.StarExpr:
		return simpleArg(x.X)
	case *ast.UnaryExpr:
		return x.Op == token.AND && simpleArg(x.X)
	}
	return false
}

// normaliseSources returns the overlay entries that expand new single-expression helpers (nil when there are none).
func normaliseSources(pkgs []*packages.Package, alias *aliasTable, pinned []symEntry, overlay map[string][]byte) (map[string][]byte, []string) {
	if len(pinned) == 0 {
		return nil, nil
	}
	known := map[string]bool{}
	for _, e := range pinned {
		if e.Kind == "func" || e.Kind == "method" {
			known[e.key()] = true
		}
	}
	read := func(file string) []byte {
		if b, ok := overlay[file]; ok {
			return b
		}
		b, _ := os.ReadFile(file)
		return b
	}
	var log []string
	out := map[string][]byte{}
	for _, pk := range pkgs {
		// 1. candidates
		cands := map[*types.Func]*inlinable{}
		for _, f := range pk.Syntax {
			fname := pk.Fset.Position(f.Pos()).Filename
			if strings.HasSuffix(fname, "_test.go") {
				continue
			}
			src := read(fname)
			for _, d := range f.Decls {
				fd, ok := d.(*ast.FuncDecl)
				if !ok || fd.Body == nil || len(fd.Body.List) != 1 || fd.Type.TypeParams != nil {
					continue
				}
				ret, ok := fd.Body.List[0].(*ast.ReturnStmt)
				if !ok || len(ret.Results) != 1 || fd.Type.Results == nil || fd.Type.Results.NumFields() != 1 {
					continue
				}
				obj, _ := pk.TypesInfo.Defs[fd.Name].(*types.Func)
				if obj == nil {
					continue
				}
				sig := obj.Type().(*types.Signature)
				if sig.Variadic() || (sig.Recv() != nil && sig.RecvTypeParams() != nil) {
					continue
				}
				// known on the pinned tree (possibly under another name)?
				container := ""
				if sig.Recv() != nil {
					rt := sig.Recv().Type()
					if pt, ok := rt.(*types.Pointer); ok {
						rt = pt.Elem()
					}
					nt, ok := rt.(*types.Named)
					if !ok {
						continue
					}
					container = alias.pinned("type", pk.PkgPath, "", nt.Obj().Name())
				}
				kind := "func"
				if container != "" {
					kind = "method"
				}
				if known[symEntry{Kind: kind, Pkg: pk.PkgPath, Container: container, Name: alias.pinned(kind, pk.PkgPath, container, fd.Name.Name)}.key()] {
					continue
				}
				start, end := pk.Fset.Position(ret.Results[0].Pos()).Offset, pk.Fset.Position(ret.Results[0].End()).Offset
				if start < 0 || end > len(src) || start >= end {
					continue
				}
				text := string(src[start:end])
				if strings.Contains(text, "//") || strings.Contains(text, "/*") {
					continue
				}
				in := &inlinable{decl: fd, expr: ret.Results[0], occ: map[*types.Var][]int{}, free: map[string]types.Object{}, file: fname}
				if sig.Recv() != nil {
					in.params = append(in.params, sig.Recv())
				}
				for i := 0; i < sig.Params().Len(); i++ {
					in.params = append(in.params, sig.Params().At(i))
				}
				isParam := map[types.Object]*types.Var{}
				for _, q := range in.params {
					isParam[q] = q
				}
				ok = true
				ast.Inspect(ret.Results[0], func(n ast.Node) bool {
					switch x := n.(type) {
					case *ast.FuncLit:
						ok = false
					case *ast.SelectorExpr:
						// the selected name is not a free identifier
						ast.Inspect(x.X, func(m ast.Node) bool { return true })
					case *ast.Ident:
						o := pk.TypesInfo.Uses[x]
						if o == nil {
							return true
						}
						if q, isP := isParam[o]; isP {
							in.occ[q] = append(in.occ[q], pk.Fset.Position(x.Pos()).Offset-start)
							return true
						}
						if o == obj {
							ok = false // recursive
						}
						if _, isPkg := o.(*types.PkgName); isPkg || o.Parent() == pk.Types.Scope() {
							in.free[x.Name] = o
						} else if o.Parent() != types.Universe && o.Pkg() == pk.Types {
							if v, isVar := o.(*types.Var); !isVar || !v.IsField() {
								if _, isFn := o.(*types.Func); !isFn {
									ok = false // some other local object (named result, ...)
								}
							}
						}
					}
					return true
				})
				// a blank or unnamed parameter cannot be referenced: fine. Newlines are collapsed
				if !ok {
					continue
				}
				// collapse to one line, keeping offsets: replace newlines and tabs by spaces (same length)
				text = strings.NewReplacer("\n", " ", "\t", " ").Replace(text)
				in.text = text
				cands[obj] = in
			}
		}
		if len(cands) == 0 {
			continue
		}
		// 2. call sites
		type repl struct {
			start, end int
			text       string
		}
		byFile := map[string][]repl{}
		for _, f := range pk.Syntax {
			fname := pk.Fset.Position(f.Pos()).Filename
			if strings.HasSuffix(fname, "_test.go") {
				continue
			}
			src := read(fname)
			imports := map[string]string{} // local name -> path
			for _, imp := range f.Imports {
				path := strings.Trim(imp.Path.Value, "\"")
				name := path[strings.LastIndex(path, "/")+1:]
				if imp.Name != nil {
					name = imp.Name.Name
				}
				imports[name] = path
			}
			ast.Inspect(f, func(n ast.Node) bool {
				call, ok := n.(*ast.CallExpr)
				if !ok {
					return true
				}
				var callee *types.Func
				var recvExpr ast.Expr
				switch fun := call.Fun.(type) {
				case *ast.Ident:
					callee, _ = pk.TypesInfo.Uses[fun].(*types.Func)
				case *ast.SelectorExpr:
					callee, _ = pk.TypesInfo.Uses[fun.Sel].(*types.Func)
					if sel := pk.TypesInfo.Selections[fun]; sel != nil && sel.Kind() == types.MethodVal {
						recvExpr = fun.X
						if len(sel.Index()) != 1 {
							return true // promoted through an embedded field
						}
					}
				}
				in := cands[callee]
				if in == nil || call.Ellipsis.IsValid() {
					return true
				}
				// inside the helper's own declaration? (cannot be: not recursive)
				var args []ast.Expr
				if recvExpr != nil {
					args = append(args, recvExpr)
				} else if len(in.params) == len(call.Args)+1 {
					return true // method expression call etc.
				}
				args = append(args, call.Args...)
				if len(args) != len(in.params) {
					return true
				}
				cs, ce := pk.Fset.Position(call.Pos()).Offset, pk.Fset.Position(call.End()).Offset
				if cs < 0 || ce > len(src) || bytes.ContainsAny(src[cs:ce], "\n") {
					return true
				}
				// free names denote the same objects here
				scope := pk.Types.Scope().Innermost(call.Pos())
				for name, o := range in.free {
					if pn, isPkg := o.(*types.PkgName); isPkg {
						if imports[name] != pn.Imported().Path() {
							return true
						}
						if scope != nil {
							if _, got := scope.LookupParent(name, call.Pos()); got != nil {
								if gp, ok := got.(*types.PkgName); !ok || gp.Imported() != pn.Imported() {
									return true
								}
							}
						}
						continue
					}
					if scope != nil {
						if _, got := scope.LookupParent(name, call.Pos()); got != o {
							return true
						}
					}
				}
				// substitute
				type sub struct {
					off  int
					n    int
					text string
				}
				var subs []sub
				for i, q := range in.params {
					at := strings.TrimSpace(string(src[pk.Fset.Position(args[i].Pos()).Offset:pk.Fset.Position(args[i].End()).Offset]))
					if len(in.occ[q]) > 1 && !simpleArg(args[i]) {
						return true
					}
					if len(in.occ[q]) == 0 && !simpleArg(args[i]) {
						return true // the argument's evaluation (and its effects) would disappear
					}
					// a pointer receiver written as an addressable value: (x).f and (&x).f select alike in Go
					for _, off := range in.occ[q] {
						subs = append(subs, sub{off, len(q.Name()), "(" + at + ")"})
					}
				}
				sort.Slice(subs, func(i, j int) bool { return subs[i].off > subs[j].off })
				text := in.text
				for _, s := range subs {
					if s.off < 0 || s.off+s.n > len(text) {
						return true
					}
					text = text[:s.off] + s.text + text[s.off+s.n:]
				}
				byFile[fname] = append(byFile[fname], repl{cs, ce, "(" + text + ")"})
				log = append(log, pk.Fset.Position(call.Pos()).String()+": "+callee.Name()+" expanded")
				return true
			})
		}
		for fname, rs := range byFile {
			sort.Slice(rs, func(i, j int) bool { return rs[i].start > rs[j].start })
			src := append([]byte{}, read(fname)...)
			lastStart := len(src) + 1
			for _, r := range rs {
				if r.end > lastStart {
					continue // nested in a call already expanded: left for the next round
				}
				src = append(src[:r.start:r.start], append([]byte(r.text), src[r.end:]...)...)
				lastStart = r.start
			}
			out[fname] = src
		}
	}
	if len(out) == 0 {
		return nil, nil
	}
	sort.Strings(log)
	return out, log
}
