package main

import (
	"fmt"
	"go/token"
	"go/types"
	"sort"
	"strings"

	"golang.org/x/tools/go/ssa"
)

func init() {
	register(&propertySpec{
		ID:    "C12",
		Title: "UDP datagram boundaries, addressing and multicast membership",
		Explanation: "Partial claim. Decides: (R1) one datagram per attempt - ReadFrom/WriteTo (packetConn) and RecvFrom/SendTo (Socket) issue exactly one recvfrom/sendto on every " +
			"path, outside any loop; the count and sender address handed to a completion flow from that one call (the count through the running total of C02 style), the bytes " +
			"sent are the caller's slice and the destination is the caller's address; exactly-once completion of the datagram operations is decided by the shared engine " +
			"(C01-R1/R2); (R2) designated buffer - the multicast read handler reads into the buffer loaded from the reactor when it runs, and both SetAsyncReadBuffer and " +
			"AsyncRead store to that field; (R3) cached settings follow the kernel - every store to loop/ttl/all/outbound/outboundIP/inbound of UDPPeer is on the success edge " +
			"of the corresponding socket-option call and stores the value passed to / returned by it; constructor literals equal the kernel defaults of ip(7) " +
			"(IP_MULTICAST_TTL 1) or are overwritten from a get/set on every success path; (R4) setter/getter and ABI tables - for each option the mapping written by SetX " +
			"composed with the one read by GetX is the identity, each membership function uses the option constant of its name (IP_ADD_MEMBERSHIP, IP_DROP_MEMBERSHIP, " +
			"IP_ADD_SOURCE_MEMBERSHIP, IP_DROP_SOURCE_MEMBERSHIP, IP_BLOCK_SOURCE, IP_UNBLOCK_SOURCE, IP_MULTICAST_ALL = 49, at level IPPROTO_IP) and fills Multiaddr / " +
			"Interface / Sourceaddr from the like-named argument; join/leave/block/unblock of UDPPeer reach the function of their name. On the pinned tree GetMulticastLoop " +
			"decodes 0 as true (inverted; D19): known finding, because a baseline test pins the wrong default. Not decided: datagram boundaries, truncation and filtering by " +
			"group/source (kernel).",
		Run: runC12,
	})
	addMutants("C12",
		mutant{"LeaveSource shadows the parsed source", "multicast/peer.go",
			"\tsip := netip.Addr{}\n\tif len(string(sourceIP)) > 0 {\n\t\tsip, err = parseIP(string(sourceIP))\n\t\tif err != nil {\n\t\t\treturn err\n\t\t}\n\t}\n\n\tif mip.Is4() || mip.Is4In6() {\n\t\treturn p.leaveIPv4(mip, sip)",
			"\tsip := netip.Addr{}\n\tif len(string(sourceIP)) > 0 {\n\t\tsip, err := parseIP(string(sourceIP))\n\t\tif err != nil {\n\t\t\treturn err\n\t\t}\n\t\t_ = sip\n\t}\n\n\tif mip.Is4() || mip.Is4In6() {\n\t\treturn p.leaveIPv4(mip, sip)", "C12-R4"},
		mutant{"short datagram re-parks the read-all", "packet.go",
			"\tif err == sonicerrors.ErrWouldBlock {\n\t\tc.scheduleRead(b, readBytes, readAll, cb)", "\tif err == sonicerrors.ErrWouldBlock || err == nil {\n\t\tc.scheduleRead(b, readBytes, readAll, cb)", "C12-R1"},
		mutant{"peer write parked after it succeeded", "multicast/peer.go",
			"\tn, err := p.Write(b, addr)\n\n\tif err == nil {\n\t\tfn(err, n)\n\t\treturn\n\t}\n", "\tn, err := p.Write(b, addr)\n\n\tif err == nil && n == len(b) {\n\t\tfn(err, n)\n\t\treturn\n\t}\n\tif err == nil {\n\t\tp.scheduleWrite(fn)\n\t\treturn\n\t}\n", "C12-R1"},
		mutant{"recvfrom reports a shifted port", "socket.go",
			"return n, netip.AddrPortFrom(netip.AddrFrom4(sa.Addr), uint16(sa.Port)), err", "return n, netip.AddrPortFrom(netip.AddrFrom4(sa.Addr), uint16(sa.Port>>8)), err", "C12-R1"},
		mutant{"recvfrom reports the sender of an earlier datagram", "socket.go",
			"\tn, s.readSockAddr, err = syscall.Recvfrom(s.fd, b, 0)", "\tvar from syscall.Sockaddr\n\tn, from, err = syscall.Recvfrom(s.fd, b, 0)\n\tif s.readSockAddr == nil {\n\t\ts.readSockAddr = from\n\t}", "C12-R1"},
		mutant{"datagram read retried in a loop", "packet.go",
			"\tvar addr syscall.Sockaddr\n\tn, addr, err = syscall.Recvfrom(c.slot.Fd, b, 0)\n", "\tvar addr syscall.Sockaddr\n\tfor i := 0; i < 2; i++ {\n\t\tn, addr, err = syscall.Recvfrom(c.slot.Fd, b, 0)\n\t\tif err == nil {\n\t\t\tbreak\n\t\t}\n\t}\n", "C12-R1"},
		mutant{"sender address dropped", "socket.go",
			"\t\treturn n, netip.AddrPortFrom(netip.AddrFrom4(sa.Addr), uint16(sa.Port)), err\n\tcase *syscall.SockaddrInet6:", "\t\treturn n, netip.AddrPortFrom(netip.AddrFrom4(sa.Addr), 0), err\n\tcase *syscall.SockaddrInet6:", "C12-R1"},
		mutant{"write reports success for a short buffer", "socket.go",
			"\tif err := syscall.Sendto(s.fd, b, 0, s.writeSockAddrIpv4); err == nil {\n\t\treturn len(b), nil", "\tif err := syscall.Sendto(s.fd, b[:len(b)/2], 0, s.writeSockAddrIpv4); err == nil {\n\t\treturn len(b), nil", "C12-R1"},
		mutant{"destination port not set", "socket.go",
			"\ts.writeSockAddrIpv4.Port = int(peerAddr.Port())\n", "", "C12-R1"},
		mutant{"handler reads into the buffer captured at start", "multicast/reactor.go",
			"\t\tr.peer.asyncReadNow(r.b, r.fn)", "\t\tr.peer.asyncReadNow(r.peer.read.b[:0], r.fn)", "C12-R2"},
		mutant{"interface address copied without To4", "net/ipv4/multicast.go",
			"\t\tcopy(addr[:], interfaceAddr.To4())", "\t\tcopy(addr[:], interfaceAddr)", "C12-R4"},
		mutant{"handler clears the designated buffer", "multicast/reactor.go",
			"\t\tr.peer.asyncReadNow(r.b, r.fn)", "\t\tb := r.b\n\t\tr.b = nil\n\t\tr.peer.asyncReadNow(b, r.fn)", "C12-R2"},
		mutant{"destination cached by address identity", "packet.go",
			"\terr := syscall.Sendto(c.slot.Fd, b, 0, internal.ToSockaddr(to))", "\tif c.remoteAddr != to {\n\t\tc.remoteAddr = to\n\t}\n\terr := syscall.Sendto(c.slot.Fd, b, 0, internal.ToSockaddr(c.remoteAddr))", "C12-R1"},
		mutant{"SetAsyncReadBuffer writes the wrong reactor", "multicast/peer.go",
			"func (p *UDPPeer) SetAsyncReadBuffer(to []byte) {\n\tp.read.b = to", "func (p *UDPPeer) SetAsyncReadBuffer(to []byte) {\n\tp.write.b = to", "C12-R2"},
		mutant{"ttl cached even when the kernel refused", "multicast/peer.go",
			"\tif err := ipv4.SetMulticastTTL(p.socket, ttl); err != nil {\n\t\treturn err\n\t} else {\n\t\tp.ttl = ttl\n\t\treturn nil\n\t}", "\tp.ttl = ttl\n\treturn ipv4.SetMulticastTTL(p.socket, ttl)", "C12-R3"},
		mutant{"constructor caches a wrong ttl default", "multicast/peer.go",
			"\t\tttl:       1,\n", "\t\tttl:       64,\n", "C12-R3"},
		mutant{"all flag cached without asking the kernel", "multicast/peer.go",
			"\t\tif err := ipv4.SetMulticastAll(p.socket, false); err != nil {\n\t\t\treturn nil, err\n\t\t}\n", "", "C12-R3"},
		mutant{"leave uses the add option", "net/ipv4/multicast.go",
			"\t\tsyscall.IPPROTO_IP,\n\t\tsyscall.IP_DROP_MEMBERSHIP,\n", "\t\tsyscall.IPPROTO_IP,\n\t\tsyscall.IP_ADD_MEMBERSHIP,\n", "C12-R4"},
		mutant{"unblock blocks", "net/ipv4/multicast.go",
			"\t\tuintptr(syscall.IP_UNBLOCK_SOURCE),\n", "\t\tuintptr(syscall.IP_BLOCK_SOURCE),\n", "C12-R4"},
		mutant{"source address written into the interface field", "net/ipv4/multicast.go",
			"\tcopy(mreqSource.Multiaddr[:], mreq.Multiaddr[:])\n\tcopy(mreqSource.Interface[:], mreq.Interface[:])\n\tcopy(mreqSource.Sourceaddr[:], sourceIP.AsSlice())\n\n\t/* #nosec G103 -- the use of unsafe has been audited */\n\t_, _, errno := syscall.Syscall6(\n\t\tuintptr(syscall.SYS_SETSOCKOPT),\n\t\tuintptr(socket.RawFd()),\n\t\tuintptr(syscall.IPPROTO_IP),\n\t\tuintptr(syscall.IP_ADD_SOURCE_MEMBERSHIP),",
			"\tcopy(mreqSource.Multiaddr[:], mreq.Multiaddr[:])\n\tcopy(mreqSource.Sourceaddr[:], mreq.Interface[:])\n\tcopy(mreqSource.Interface[:], sourceIP.AsSlice())\n\n\t/* #nosec G103 -- the use of unsafe has been audited */\n\t_, _, errno := syscall.Syscall6(\n\t\tuintptr(syscall.SYS_SETSOCKOPT),\n\t\tuintptr(socket.RawFd()),\n\t\tuintptr(syscall.IPPROTO_IP),\n\t\tuintptr(syscall.IP_ADD_SOURCE_MEMBERSHIP),", "C12-R4"},
		mutant{"multicast-all option number wrong", "net/ipv4/multicast_linux.go", "const IP_MULTICAST_ALL = 49", "const IP_MULTICAST_ALL = 48", "C12-R4"},
		mutant{"set loop encodes true as 0", "net/ipv4/multicast.go",
			"func SetMulticastLoop(socket *sonic.Socket, loop bool) error {\n\tv := 0\n\tif loop {\n\t\tv = 1\n\t}", "func SetMulticastLoop(socket *sonic.Socket, loop bool) error {\n\tv := 1\n\tif loop {\n\t\tv = 0\n\t}", "C12-R4"},
		mutant{"leave source joins", "multicast/peer.go",
			"\t\terr = ipv4.DropSourceMembership(p.socket, multicastIP, sourceIP)", "\t\terr = ipv4.AddSourceMembership(p.socket, multicastIP, sourceIP, nil)", "C12-R4"},
	)
}

func runC12(c *Ctx) {
	p := c.P
	sys := p.extPkg("syscall")
	sconst := func(n string) int64 {
		k, _ := sys.Scope().Lookup(n).(*types.Const)
		if k == nil {
			infra("anchor: syscall.%s not found", n)
		}
		v, _ := constantInt(k.Val())
		return v
	}

	// ------------------------------------------------------------------------------------------------ R1
	c.rule("C12-R1", "one recvfrom / sendto per attempt, outside loops; count, sender and destination flow from / into that call; an operation is parked only when its attempt failed", 10)
	recvfrom, sendto := p.ExtFunc("syscall", "Recvfrom"), p.ExtFunc("syscall", "Sendto")
	for _, spec := range []struct {
		pkg, typ, name string
		sc             *types.Func
	}{{"sonic", "packetConn", "ReadFrom", recvfrom}, {"sonic", "packetConn", "WriteTo", sendto}, {"sonic", "Socket", "RecvFrom", recvfrom}, {"sonic", "Socket", "SendTo", sendto}} {
		fn := p.Method(spec.pkg, spec.typ, spec.name)
		paths, overflow := enumPaths(fn)
		if overflow {
			c.unproven(fn, "paths", fn.Pos(), "too many paths")
			continue
		}
		good := len(paths) > 0
		for _, path := range paths {
			if path.Panics {
				continue
			}
			if path.count(func(in ssa.Instruction) bool { return isCallTo(in, spec.sc) }) != 1 {
				good = false
			}
		}
		loop := false
		for _, call := range callsTo(fn, spec.sc) {
			if inLoop(call.(ssa.Instruction)) {
				loop = true
			}
		}
		c.check(good && !loop, fn, "one syscall", fn.Pos(), "exactly one "+spec.sc.Name()+" per call", spec.name+" does not issue exactly one "+spec.sc.Name()+" per call (outside loops): one operation consumes or emits several datagrams, or none")
		for _, call := range callsTo(fn, spec.sc) {
			args := call.Common().Args
			// the caller's buffer is what is transferred
			bufOK := false
			for _, prm := range fn.Params {
				if isByteSlice(prm.Type()) && stripConv(args[1]) == ssa.Value(prm) {
					bufOK = true
				}
			}
			c.check(bufOK, fn, "buffer", call.Pos(), "the caller's slice is transferred as is", spec.name+" does not pass the caller's slice unchanged to "+spec.sc.Name()+": datagrams are cut or padded")
			if spec.sc == recvfrom {
				nres, ares := extractOfInstr(call.(ssa.Instruction), 0), extractOfInstr(call.(ssa.Instruction), 1)
				okN, okA := true, false
				for _, r := range returnsOf(fn) {
					if !isNil(resolveCell(r.Results[2])) && !isNilOrSyscallErr(r.Results[2], call) {
						continue
					}
					for _, leaf := range phiLeaves(r.Results[0]) {
						if _, isK := constInt(leaf); !isK && stripConv(leaf) != nres {
							okN = false
						}
					}
				}
				// the sender: address and port derive from the sockaddr returned
				eachInstr(fn, func(in ssa.Instruction) {
					if v, ok := in.(ssa.Value); ok && ares != nil && dependsOnLoose(v, ares) {
						for _, r := range returnsOf(fn) {
							if dependsOnLoose(r.Results[1], v) {
								okA = true
							}
						}
					}
				})
				portOK := true
				if spec.typ == "Socket" {
					// AddrPortFrom(addr, port): the port argument derives from the sockaddr
					eachInstr(fn, func(in ssa.Instruction) {
						cc, ok := in.(*ssa.Call)
						if !ok || cc.Call.StaticCallee() == nil || cc.Call.StaticCallee().Name() != "AddrPortFrom" {
							return
						}
						if _, isK := constInt(cc.Call.Args[1]); isK {
							portOK = false
						}
					})
					// ... exactly: every AddrPortFrom reached (also in a conversion helper) takes the Port field as it is
					var visit func(f *ssa.Function, depth int)
					visit = func(f *ssa.Function, depth int) {
						eachInstr(f, func(in ssa.Instruction) {
							cc, ok := in.(*ssa.Call)
							if !ok || cc.Call.StaticCallee() == nil {
								return
							}
							if cc.Call.StaticCallee().Name() == "AddrPortFrom" && len(cc.Call.Args) == 2 {
								u, isLoad := stripConv(cc.Call.Args[1]).(*ssa.UnOp)
								exact := false
								if isLoad && u.Op == token.MUL {
									if fa, ok := u.X.(*ssa.FieldAddr); ok {
										if fv, _ := fieldAddrOf(fa); fv != nil && fv.Name() == "Port" {
											exact = true
										}
									}
								}
								if !exact {
									portOK = false
								}
							}
							if depth < 2 && isHelperOf(fn, cc.Call.StaticCallee()) {
								visit(cc.Call.StaticCallee(), depth+1)
							}
						})
					}
					visit(fn, 0)
					// the sockaddr converted is the one this recvfrom returned: a sockaddr kept in a field is (re)stored from the
					// call's result on every path that reads it
					if ares != nil {
						eachInstr(fn, func(in ssa.Instruction) {
							u, ok := in.(*ssa.UnOp)
							if !ok || u.Op != token.MUL {
								return
							}
							fa, ok := u.X.(*ssa.FieldAddr)
							if !ok || !types.Identical(u.Type(), ares.Type()) {
								return
							}
							fv, _ := fieldAddrOf(fa)
							stored := false
							for _, a := range storesTo(fn, fv) {
								if stripConv(a.Val) == ares && dominatesInstr(a.Instr, u) {
									stored = true
								}
							}
							if !stored {
								portOK = false
							}
						})
					}
				}
				c.check(okN && okA && portOK, fn, "result", call.Pos(), "length and sender come from the one recvfrom", spec.name+" does not report the length and the sender (IP and port) of the datagram the one recvfrom returned")
			} else {
				// destination derives from the caller's address argument
				var addrPrm *ssa.Parameter
				for _, prm := range fn.Params[1:] {
					if !isByteSlice(prm.Type()) {
						if _, isBasic := prm.Type().Underlying().(*types.Basic); !isBasic {
							addrPrm = prm
						}
					}
				}
				destOK := false
				if addrPrm != nil {
					// computed from the argument on this very call (operands only: a value cached in a field does not count)
					if dependsOn(args[3], addrPrm) {
						destOK = true
					}
					if spec.typ == "Socket" {
						// the reusable sockaddr: both Addr and Port fields are stored from the argument before the call
						nStores := 0
						if sat, ok := strip(args[3]).Type().(*types.Pointer); ok {
							if stt, ok := sat.Elem().Underlying().(*types.Struct); ok {
								for i := 0; i < stt.NumFields(); i++ {
									fld := stt.Field(i)
									if fld.Name() != "Addr" && fld.Name() != "Port" {
										continue
									}
									for _, d := range deepStoresTo(fn, fld) {
										val := d.Store.Val
										// inside a helper the value depends on the helper's parameter bound to the address argument
										dep := dependsOnLoose(val, addrPrm)
										for hp, arg := range d.subst {
											if dependsOnLoose(val, hp) && dependsOnLoose(arg, addrPrm) {
												dep = true
											}
										}
										if dep && dominatesInstr(d.Site, call.(ssa.Instruction)) {
											nStores++
										} else if dep && d.Site == ssa.Instruction(d.Store) && len(deepStoresTo(fn, fld)) == 1 &&
											storedOrAlreadyEqual(fn, d.Store, fld, call.(ssa.Instruction)) {
											// a cached sockaddr refilled only when it differs from the argument
											nStores++
										}
									}
								}
							}
						}
						destOK = nStores == 2
					}
				}
				c.check(destOK, fn, "destination", call.Pos(), "the datagram goes to the caller's address and port", spec.name+" does not send to the address and port the caller gave")
				if spec.typ == "Socket" {
					lenOK := false
					for _, r := range returnsOf(fn) {
						if lc, ok := stripConv(r.Results[0]).(*ssa.Call); ok {
							if b, ok := lc.Call.Value.(*ssa.Builtin); ok && b.Name() == "len" && stripConv(lc.Call.Args[0]) == stripConv(args[1]) {
								lenOK = true
							}
						}
					}
					c.check(lenOK, fn, "count", call.Pos(), "success reports the length of what was sent", "SendTo reports a count that is not the length of the slice handed to sendto")
				}
			}
		}
	}

	// a datagram operation is parked only when its attempt failed (would block): parking after a successful receive consumes
	// the datagram without completing the read (the next one overwrites it); parking after a successful send emits it twice
	errWouldBlock := p.GlobalVar("sonicerrors", "ErrWouldBlock")
	for _, spec := range []struct{ pkg, typ, fn, transfer, park string }{
		{"sonic", "packetConn", "asyncReadNow", "ReadFrom", "scheduleRead"},
		{"sonic", "packetConn", "asyncWriteToNow", "WriteTo", "scheduleWrite"},
		{"multicast", "UDPPeer", "asyncReadNow", "Read", "scheduleRead"},
		{"multicast", "UDPPeer", "asyncWriteNow", "Write", "scheduleWrite"},
	} {
		fn := p.Method(spec.pkg, spec.typ, spec.fn)
		transfer, park := p.Method(spec.pkg, spec.typ, spec.transfer), p.Method(spec.pkg, spec.typ, spec.park)
		paths, overflow := enumPaths(fn)
		if overflow {
			c.unproven(fn, "park only on failure", fn.Pos(), "too many paths")
			continue
		}
		good, n := true, 0
		succOK, nSucc := true, 0
		var succPos token.Pos
		var at token.Pos
		for _, path := range paths {
			if path.Panics {
				continue
			}
			var errv ssa.Value
			parked := false
			var parkPos token.Pos
			for _, in := range path.Instrs() {
				if isCallToFn(in, transfer) {
					call := in.(*ssa.Call)
					if tup, ok := call.Type().(*types.Tuple); ok {
						errv = extractOf(call, tup.Len()-1)
					} else {
						errv = call
					}
				}
				if isCallToFn(in, park) {
					parked, parkPos = true, in.Pos()
				}
			}
			// the mirror image: the attempt's error is handed to the callback only when it is known to be nil or known not
			// to be the would-block sentinel - a would-block attempt is parked, never reported
			for _, in := range path.Instrs() {
				call, ok := in.(ssa.CallInstruction)
				if !ok || !isDynamicFuncCall(call) || len(call.Common().Args) == 0 || errv == nil {
					continue
				}
				a0 := call.Common().Args[0]
				if strip(a0) != errv && path.evalEnd(a0) != errv {
					continue
				}
				nSucc++
				settled := path.nilness(errv) == "nil"
				for _, l := range path.Lits {
					op, x, y, isCmp := l.cmp()
					if !isCmp || op != token.NEQ {
						continue
					}
					for _, pair := range [][2]ssa.Value{{x, y}, {y, x}} {
						if (strip(pair[0]) == errv || path.eval(pair[0], l.At) == errv) && isLoadOfGlobal(pair[1], errWouldBlock) {
							settled = true
						}
					}
				}
				if !settled {
					succOK, succPos = false, in.Pos()
				}
			}
			if !parked {
				continue
			}
			n++
			failed := errv != nil && path.nilness(errv) == "nonnil"
			if errv != nil && !failed {
				// `err == Sentinel` on the path settles it (a path that also assumes err == nil is infeasible)
				for _, l := range path.Lits {
					if sx, isSent := sentinelEq(l.Lit, false); isSent && (path.eval(sx, l.At) == errv || strip(sx) == errv) {
						failed = true
					}
				}
			}
			if !failed {
				good, at = false, parkPos
			}
		}
		if n == 0 {
			at = fn.Pos()
		}
		if nSucc > 0 {
			c.check(succOK, fn, "would-block never reported", succPos, "the attempt's error reaches the callback only when it is nil or known not to be ErrWouldBlock", spec.fn+" hands the error of "+spec.transfer+" to the callback on a path on which it may be ErrWouldBlock: an operation that only has to wait completes with an error instead of being parked")
		}
		c.check(good && n > 0, fn, "park only on failure", at, "the operation is parked only on paths on which the attempt returned an error", spec.fn+" can park the operation although "+spec.transfer+" succeeded: a received datagram is consumed without completing the read (the next one overwrites it), a sent datagram is sent again by the handler")
	}

	// ------------------------------------------------------------------------------------------------ R2
	c.rule("C12-R2", "the multicast read handler uses the buffer currently designated in the reactor; AsyncRead and SetAsyncReadBuffer designate it", 5)
	{
		bF := p.Field("multicast", "readReactor", "b")
		on := p.Method("multicast", "readReactor", "on")
		arn := p.Method("multicast", "UDPPeer", "asyncReadNow")
		good := false
		for _, call := range callsToFn(on, arn) {
			if loadOfField(call.Common().Args[1], bF) {
				// loaded from the handler's own receiver
				if u, ok := stripConv(call.Common().Args[1]).(*ssa.UnOp); ok {
					if fa, ok := u.X.(*ssa.FieldAddr); ok && fa.X == ssa.Value(on.Params[0]) {
						good = true
					}
				}
			}
		}
		c.check(good, on, "read buffer", on.Pos(), "reads into the reactor's current buffer", "the read handler does not read into the buffer stored in its reactor at the time it runs: SetAsyncReadBuffer has no effect on the pending read")
		// the handlers leave the reactor as it is: the operation may be parked again (EAGAIN after a wake-up) and must find
		// its buffer, destination and callback
		for _, rt := range []string{"readReactor", "writeReactor"} {
			h := p.Method("multicast", rt, "on")
			st := p.Named("multicast", rt).Underlying().(*types.Struct)
			touched := ""
			for i := 0; i < st.NumFields(); i++ {
				if len(storesTo(h, st.Field(i))) > 0 {
					touched = st.Field(i).Name()
				}
			}
			c.check(touched == "", h, "reactor state kept", h.Pos(), "the handler does not modify the parked operation's buffer / destination / callback", "the handler overwrites reactor field "+touched+": if the retried operation would block again it is re-armed without its buffer/destination/callback and the next datagram is lost or misdelivered")
		}
		for _, name := range []string{"SetAsyncReadBuffer", "AsyncRead"} {
			fn := p.Method("multicast", "UDPPeer", name)
			ok := false
			for _, d := range deepStoresTo(fn, bF) {
				a := fieldAccess{Instr: d.Site, Val: d.translate(d.Store.Val)}
				a.Addr, _ = d.Store.Addr.(*ssa.FieldAddr)
				if a.Addr == nil {
					continue
				}
				if stripConv(resolveCell(a.Val)) == ssa.Value(fn.Params[1]) {
					// through p.read (not p.write)
					if fa, isFA := a.Addr.X.(*ssa.UnOp); isFA {
						if f := loadedField(fa); f != nil && f == p.Field("multicast", "UDPPeer", "read") {
							ok = true
						}
					}
				}
			}
			c.check(ok, fn, "designate buffer", fn.Pos(), "stores the caller's buffer into the read reactor", name+" does not store the caller's buffer into the read reactor")
		}
	}

	// ------------------------------------------------------------------------------------------------ R3
	c.rule("C12-R3", "cached settings of UDPPeer are stored on the success edge of the kernel call, with the value passed to / returned by it; constructor defaults match ip(7)", 7)
	{
		ipv4 := "net/ipv4"
		type cacheSpec struct {
			field, setter string
			call          *ssa.Function
			fromResult    bool
		}
		specs := []cacheSpec{
			{"loop", "SetLoop", p.Fn(ipv4, "SetMulticastLoop"), false},
			{"ttl", "SetTTL", p.Fn(ipv4, "SetMulticastTTL"), false},
			{"all", "SetAll", p.Fn(ipv4, "SetMulticastAll"), false},
			{"outboundIP", "SetOutboundIPv4", p.Fn(ipv4, "SetMulticastInterface"), true},
			{"outbound", "SetOutboundIPv4", p.Fn(ipv4, "SetMulticastInterface"), false},
		}
		for _, sp := range specs {
			fn := p.Method("multicast", "UDPPeer", sp.setter)
			f := p.Field("multicast", "UDPPeer", sp.field)
			n := 0
			for _, a := range storesDeep(fn, f) {
				n++
				good := false
				for _, kc := range callsToFn(fn, sp.call) {
					var errv ssa.Value = kc.(ssa.Value)
					if kc.(*ssa.Call).Call.StaticCallee().Signature.Results().Len() > 1 {
						errv = extractOf(kc.(*ssa.Call), kc.(*ssa.Call).Call.StaticCallee().Signature.Results().Len()-1)
					}
					if !guardedNil(a.Instr.Block(), errv) {
						continue
					}
					if sp.fromResult {
						if stripConv(a.Val) == extractOf(kc.(*ssa.Call), 0) {
							good = true
						}
					} else {
						for _, arg := range kc.Common().Args[1:] {
							if stripConv(resolveCell(arg)) == stripConv(resolveCell(a.Val)) {
								good = true
							}
						}
					}
				}
				// the store and the kernel call both live in a helper that receives the kernel function as an argument
				for _, d := range deepStoresTo(fn, f) {
					if d.Site != a.Instr || d.Store.Parent() == fn {
						continue
					}
					eachInstr(d.Store.Parent(), func(in ssa.Instruction) {
						kc, ok := in.(*ssa.Call)
						if !ok || !isDynamicFuncCall(kc) || sp.fromResult {
							return
						}
						q, isPrm := stripConv(kc.Call.Value).(*ssa.Parameter)
						if !isPrm {
							return
						}
						bound, _ := stripConv(d.subst[q]).(*ssa.Function)
						if bound != sp.call || !guardedNil(d.Store.Block(), kc) {
							return
						}
						for _, arg := range kc.Call.Args[1:] {
							if stripConv(resolveCell(arg)) == stripConv(resolveCell(d.Store.Val)) {
								good = true
							}
						}
					})
				}
				c.check(good, fn, "cache "+sp.field, a.Instr.Pos(), "stored only after the kernel accepted exactly that value", "the cached "+sp.field+" is stored without the kernel call having succeeded with that value: the reported setting can differ from the socket's state")
			}
			if n == 0 {
				c.bad(fn, "cache "+sp.field, fn.Pos(), "%s never updates the cached %s", sp.setter, sp.field)
			}
		}
		// constructor
		ctor := p.Fn("multicast", "NewUDPPeer")
		ttlF := p.Field("multicast", "UDPPeer", "ttl")
		for _, a := range storesTo(ctor, ttlF) {
			c.check(isConstInt(a.Val, 1), ctor, "default ttl", a.Instr.Pos(), "IP_MULTICAST_TTL defaults to 1", "the constructor caches a multicast TTL other than the kernel default 1 without setting it on the socket")
		}
		// loop and outboundIP are read back from the kernel, all is set explicitly: on every path returning a peer
		loopF, allF, obF := p.Field("multicast", "UDPPeer", "loop"), p.Field("multicast", "UDPPeer", "all"), p.Field("multicast", "UDPPeer", "outboundIP")
		paths, overflow := enumPaths(ctor)
		if overflow {
			c.unproven(ctor, "paths", ctor.Pos(), "too many paths")
		} else {
			good := true
			why := ""
			n := 0
			for _, path := range paths {
				ret := path.Ret()
				if ret == nil {
					continue
				}
				pi := newPathIndex(path)
				if pi.nilnessAt(ret.Results[1], len(pi.instrs)-1, false) == "nonnil" {
					continue
				}
				// only IPv4 peers have these options
				ipv4Peer := false
				for _, l := range path.Lits {
					if op, _, y, ok := l.cmp(); ok && op == token.EQL && isConstInt(y, 4) {
						ipv4Peer = true
					}
				}
				if !ipv4Peer {
					continue
				}
				n++
				gotLoop, gotOb, setAll := false, false, false
				for _, in := range pi.instrs {
					if st, ok := in.(*ssa.Store); ok {
						fv, _ := fieldAddrOf(st.Addr)
						if fv == loopF {
							if ex, ok := stripConv(st.Val).(*ssa.Extract); ok && isCallToFn(ex.Tuple.(ssa.Instruction), p.Fn(ipv4, "GetMulticastLoop")) {
								gotLoop = true
							}
						}
						if fv == obF {
							if ex, ok := stripConv(st.Val).(*ssa.Extract); ok && isCallToFn(ex.Tuple.(ssa.Instruction), p.Fn(ipv4, "GetMulticastInterfaceAddr")) {
								gotOb = true
							}
						}
					}
					if call, ok := in.(*ssa.Call); ok && isCallToFn(call, p.Fn(ipv4, "SetMulticastAll")) && isConstBool(call.Call.Args[1], false) {
						setAll = true
					}
				}
				// the literal for `all` must agree with what is set
				allLit := false
				for _, a := range storesTo(ctor, allF) {
					if isConstBool(a.Val, false) {
						allLit = true
					}
				}
				if len(storesTo(ctor, allF)) == 0 {
					allLit = true // zero value false
				}
				if !(gotLoop && gotOb && setAll && allLit) {
					good = false
					why = fmt.Sprintf("loop read back=%v, outbound address read back=%v, IP_MULTICAST_ALL set to the cached false=%v", gotLoop, gotOb, setAll && allLit)
				}
			}
			c.check(good && n > 0, ctor, "constructor cache", ctor.Pos(), "loop / outbound address are read from the socket and IP_MULTICAST_ALL is set to the cached value on every success path", "a peer is returned whose cached settings were not taken from / applied to the socket ("+why+")")
		}
	}

	// ------------------------------------------------------------------------------------------------ R4
	c.rule("C12-R4", "setter/getter mappings compose to the identity; membership functions use the option of their name at IPPROTO_IP and fill the request from like-named arguments; UDPPeer dispatches to them", 16)
	{
		ipv4 := "net/ipv4"
		ipproto := sconst("IPPROTO_IP")
		// option constants per function
		want := map[string]int64{
			"AddMembership": sconst("IP_ADD_MEMBERSHIP"), "DropMembership": sconst("IP_DROP_MEMBERSHIP"),
			"AddSourceMembership": sconst("IP_ADD_SOURCE_MEMBERSHIP"), "DropSourceMembership": sconst("IP_DROP_SOURCE_MEMBERSHIP"),
			"BlockSource": sconst("IP_BLOCK_SOURCE"), "UnblockSource": sconst("IP_UNBLOCK_SOURCE"),
			"SetMulticastLoop": sconst("IP_MULTICAST_LOOP"), "GetMulticastLoop": sconst("IP_MULTICAST_LOOP"),
			"SetMulticastTTL": sconst("IP_MULTICAST_TTL"), "GetMulticastTTL": sconst("IP_MULTICAST_TTL"),
			"SetMulticastInterface": sconst("IP_MULTICAST_IF"), "GetMulticastInterfaceAddr": sconst("IP_MULTICAST_IF"),
			"SetMulticastAll": 49, // linux/in.h
		}
		names := make([]string, 0, len(want))
		for n := range want {
			names = append(names, n)
		}
		sort.Strings(names)
		for _, name := range names {
			fn := p.Fn(ipv4, name)
			found := false
			var level, opt int64 = -1, -1
			var scan func(cur *ssa.Function, subst func(ssa.Value) ssa.Value, depth int)
			scan = func(cur *ssa.Function, subst func(ssa.Value) ssa.Value, depth int) {
				eachInstr(cur, func(in ssa.Instruction) {
					call, ok := in.(*ssa.Call)
					if !ok || call.Call.StaticCallee() == nil {
						return
					}
					callee := call.Call.StaticCallee()
					if depth > 0 && isHelperOf(cur, callee) {
						// a shared unexported helper: its parameters stand for this call's arguments
						site := call
						scan(callee, func(v ssa.Value) ssa.Value {
							if q, ok := stripConv(v).(*ssa.Parameter); ok && q.Parent() == callee {
								for i, hp := range callee.Params {
									if hp == q && i < len(site.Call.Args) {
										return subst(site.Call.Args[i])
									}
								}
							}
							return v
						}, depth-1)
						return
					}
					if callee.Pkg == nil || callee.Pkg.Pkg.Path() != "syscall" {
						return
					}
					cn := callee.Name()
					a := call.Call.Args
					switch {
					case strings.HasPrefix(cn, "Setsockopt") || strings.HasPrefix(cn, "Getsockopt"):
						found = true
						level, _ = constInt(subst(a[1]))
						opt, _ = constInt(subst(a[2]))
					case cn == "Syscall6":
						found = true
						level, _ = constInt(subst(a[2]))
						opt, _ = constInt(subst(a[3]))
					}
				})
			}
			scan(fn, func(v ssa.Value) ssa.Value { return v }, 1)
			c.check(found && level == ipproto && opt == want[name], fn, "option", fn.Pos(), fmt.Sprintf("level %d option %d", level, opt), fmt.Sprintf("%s uses socket option (level %d, name %d), expected (IPPROTO_IP=%d, %d): the kernel is asked for something other than what the function's name says", name, level, opt, ipproto, want[name]))
		}
		// request structs: fields filled from like-named arguments
		for _, spec := range []struct {
			fn    string
			multi string
			src   string
		}{{"AddSourceMembership", "multicastIP", "sourceIP"}, {"DropSourceMembership", "multicastIP", "sourceIP"}, {"BlockSource", "multicastIP", "sourceIP"}, {"UnblockSource", "multicastIP", "sourceIP"}} {
			fn := p.Fn(ipv4, spec.fn)
			prm := map[string]*ssa.Parameter{}
			for _, q := range fn.Params {
				prm[pinParamName(q)] = q
			}
			fill := map[string]string{}
			body := fn
			isCopy := func(x ssa.Instruction) bool {
				c2, ok := x.(*ssa.Call)
				if !ok {
					return false
				}
				b, ok := c2.Call.Value.(*ssa.Builtin)
				return ok && b.Name() == "copy"
			}
			ownCopies := containsDeep(fn, isCopy, 0)
			// the request may be built by a shared unexported helper: its parameters are named after the arguments passed
			eachInstr(fn, func(in ssa.Instruction) {
				if call, ok := in.(*ssa.Call); ok && body == fn && !ownCopies {
					if h := call.Call.StaticCallee(); isHelperOf(fn, h) && containsDeep(h, func(x ssa.Instruction) bool {
						c2, ok := x.(*ssa.Call)
						if !ok {
							return false
						}
						b, ok := c2.Call.Value.(*ssa.Builtin)
						return ok && b.Name() == "copy"
					}, 0) {
						np := map[string]*ssa.Parameter{}
						for i, hp := range h.Params {
							if i >= len(call.Call.Args) {
								continue
							}
							for name, q := range prm {
								if stripConv(call.Call.Args[i]) == ssa.Value(q) {
									np[name] = hp
								}
							}
						}
						body, prm = h, np
					}
				}
			})
			eachInstr(body, func(in ssa.Instruction) {
				call, ok := in.(*ssa.Call)
				if !ok {
					return
				}
				if b, ok := call.Call.Value.(*ssa.Builtin); !ok || b.Name() != "copy" {
					return
				}
				dst, ok := stripConv(call.Call.Args[0]).(*ssa.Slice)
				if !ok {
					return
				}
				fv, fa := fieldAddrOf(dst.X)
				if fv == nil {
					return
				}
				if n, ok := fa.X.Type().Underlying().(*types.Pointer).Elem().(*types.Named); !ok || n.Obj().Name() != "IPMreqSource" {
					return
				}
				srcName := "?"
				// copied from the prepared IPMreq: name the field it comes from
				if s2, ok := stripConv(call.Call.Args[1]).(*ssa.Slice); ok {
					if f2, _ := fieldAddrOf(s2.X); f2 != nil {
						srcName = "mreq." + f2.Name()
					}
				}
				if srcName == "?" {
					var pn []string
					for name := range prm {
						pn = append(pn, name)
					}
					sort.Strings(pn)
					for _, name := range pn {
						if dependsOnLoose(call.Call.Args[1], prm[name]) {
							srcName = name
						}
					}
				}
				fill[fv.Name()] = srcName
			})
			okM := fill["Multiaddr"] == spec.multi || fill["Multiaddr"] == "mreq.Multiaddr"
			okS := fill["Sourceaddr"] == spec.src
			okI := fill["Interface"] == "" || fill["Interface"] == "mreq.Interface"
			if prm["iff"] != nil && fill["Interface"] == "" {
				okI = false // the function was given an interface: the request has to name it
			}
			c.check(okM && okS && okI, fn, "request", fn.Pos(), fmt.Sprintf("%v", fill), fmt.Sprintf("%s fills its request as %v: group, interface and source must come from the like-named arguments", spec.fn, fill))
			// the kernel's refusal reaches the caller: the error returned depends on the errno of the setsockopt call
			var errnoV ssa.Value
			var errnoSite ssa.Instruction // the call in fn through which the setsockopt happens (itself, or a shared primitive)
			eachInstrDeep(fn, func(in, site ssa.Instruction, _ func(ssa.Value) ssa.Value) {
				if call, ok := in.(*ssa.Call); ok && call.Call.StaticCallee() != nil && strings.HasPrefix(call.Call.StaticCallee().String(), "syscall.Syscall") {
					if ex := extractOfInstr(call, 2); ex != nil {
						errnoV, errnoSite = ex, site
					}
				}
			})
			if errnoV != nil {
				reported := false
				if ev, ok := errnoV.(ssa.Instruction); ok && ev.Parent() != fn {
					// in a shared primitive: it returns the errno, and fn returns what the primitive returned
					inner := false
					for _, r := range returnsOf(ev.Parent()) {
						if dependsOnLoose(r.Results[len(r.Results)-1], errnoV) {
							inner = true
						}
					}
					if sv, ok := errnoSite.(ssa.Value); ok && inner {
						for _, r := range returnsOf(fn) {
							if dependsOnLoose(r.Results[len(r.Results)-1], sv) {
								reported = true
							}
						}
					}
				}
				for _, r := range returnsOf(fn) {
					if dependsOnLoose(r.Results[len(r.Results)-1], errnoV) {
						reported = true
					}
				}
				c.check(reported, fn, "errno reported", fn.Pos(), "the error returned carries the errno of the call", spec.fn+" does not hand the errno of its setsockopt call to the caller: a membership the kernel refused is reported as made, the peer waits for traffic that is never delivered (or keeps receiving what it believes it left)")
			}
		}
		// the constructor reports the address the kernel gave the socket: IP and Port of the local address come from
		// getsockname on every address family it accepts
		{
			ctor := p.Fn("multicast", "NewUDPPeer")
			var gsn ssa.Value
			eachInstr(ctor, func(in ssa.Instruction) {
				if call, ok := in.(*ssa.Call); ok && call.Call.StaticCallee() != nil && call.Call.StaticCallee().String() == "syscall.Getsockname" {
					gsn = call
				}
			})
			for _, g := range withClosures(ctor) {
				_ = g
			}
			// helpers a refactoring split off (localUDPAddr(sockAddr)) are searched with the sockaddr they receive
			cnt := map[string]int{}
			families := 0
			eachInstrDeep(ctor, func(in, _ ssa.Instruction, tr func(ssa.Value) ssa.Value) {
				if ta, ok := in.(*ssa.TypeAssert); ok && ta.CommaOk {
					if pt, ok := ta.AssertedType.(*types.Pointer); ok {
						if n, ok := pt.Elem().(*types.Named); ok && strings.HasPrefix(n.Obj().Name(), "SockaddrInet") {
							families++
						}
					}
				}
				st, ok := in.(*ssa.Store)
				if !ok {
					return
				}
				fv, _ := fieldAddrOf(st.Addr)
				if fv == nil || fv.Pkg() == nil || fv.Pkg().Path() != "net" {
					return
				}
				if fv.Name() == "IP" || fv.Name() == "Port" {
					cnt[fv.Name()]++
				}
			})
			okAddr := gsn != nil && families > 0 && cnt["IP"] >= families && cnt["Port"] >= families
			c.check(okAddr, ctor, "local address", ctor.Pos(), "IP and Port of the reported local address are set for every address family", fmt.Sprintf("NewUDPPeer does not fill IP and Port of the local address from getsockname for every address family it accepts (families=%d, IP stores=%d, Port stores=%d): LocalAddr() reports an address the socket is not bound to", families, cnt["IP"], cnt["Port"]))
		}
		// an interface the caller named reaches the kernel: JoinSourceOn resolves it and hands it on; the request of a join
		// on an interface names one of its addresses; the outbound interface is set to an address of the interface given
		{
			jo := p.Method("multicast", "UDPPeer", "JoinSourceOn")
			var ifName *ssa.Parameter
			for _, q := range jo.Params {
				if pinParamName(q) == "interfaceName" {
					ifName = q
				}
			}
			helper := p.Method("multicast", "UDPPeer", "joinIPv4")
			okIf := false
			for _, dc := range deepCallsTo(jo, helper) {
				for i, q := range helper.Params {
					if pinParamName(q) == "iff" && ifName != nil && i < len(dc.Call.Call.Args) && dependsOnLoose(dc.translate(dc.Call.Call.Args[i]), ifName) {
						okIf = true
					}
				}
			}
			c.check(okIf, jo, "interface reaches joinIPv4", jo.Pos(), "the interface named by the caller is resolved and handed on", "JoinSourceOn does not hand the interface it was given (resolved) to joinIPv4: the group is joined on the kernel's default interface and traffic arriving on the interface asked for is not delivered")
			for _, spec := range []struct{ fn, field string }{{"prepareAddMembership", "Interface"}, {"SetMulticastInterface", ""}} {
				fn := p.TryFn(ipv4, spec.fn)
				if fn == nil {
					continue
				}
				var iff *ssa.Parameter
				for _, q := range fn.Params {
					if pinParamName(q) == "iff" {
						iff = q
					}
				}
				filled := false
				eachInstr(fn, func(in ssa.Instruction) {
					call, ok := in.(*ssa.Call)
					if !ok || iff == nil {
						return
					}
					b, isB := call.Call.Value.(*ssa.Builtin)
					if !isB || b.Name() != "copy" || !dependsOnLoose(call.Call.Args[1], iff) {
						return
					}
					dst := strip(call.Call.Args[0])
					if sl, ok := dst.(*ssa.Slice); ok {
						dst = sl.X
					}
					if spec.field == "" {
						filled = true
					} else if fv, _ := fieldAddrOf(dst); fv != nil && fv.Name() == spec.field {
						filled = true
					}
				})
				c.check(filled, fn, "interface address", fn.Pos(), "an address of the interface given is copied into the request", spec.fn+" does not copy an address of the interface it was given into what it hands the kernel: the kernel uses its default interface although the caller named one")
			}
		}
		// the plain membership requests name the group they were given
		for _, name := range []string{"prepareAddMembership", "prepareDropMembership"} {
			fn := p.TryFn(ipv4, name)
			if fn == nil {
				continue
			}
			var group *ssa.Parameter
			for _, q := range fn.Params {
				if pinParamName(q) == "multicastIP" {
					group = q
				}
			}
			filled := false
			eachInstr(fn, func(in ssa.Instruction) {
				call, ok := in.(*ssa.Call)
				if !ok {
					return
				}
				b, isB := call.Call.Value.(*ssa.Builtin)
				if !isB || b.Name() != "copy" || group == nil {
					return
				}
				dst := strip(call.Call.Args[0])
				if sl, ok := dst.(*ssa.Slice); ok {
					dst = sl.X
				}
				if fv, _ := fieldAddrOf(dst); fv != nil && fv.Name() == "Multiaddr" && dependsOnLoose(call.Call.Args[1], group) {
					filled = true
				}
			})
			c.check(filled, fn, "request", fn.Pos(), "Multiaddr is the group argument", name+" does not copy the group address into the request: the kernel is asked to join or leave 0.0.0.0")
		}
		// a net.IP copied into a 4-byte kernel address goes through To4(): net.Interface.Addrs (and most of package net)
		// hand out IPv4 addresses in their 16-byte form, whose first four bytes are zero
		{
			to4 := p.ExtMethod("net", "IP", "To4")
			n := 0
			for _, fn := range p.Funcs {
				if pk := fnTypesPkg(fn); pk == nil || pk.Path() != modPath+"/net/ipv4" {
					continue
				}
				eachInstr(fn, func(in ssa.Instruction) {
					call, ok := in.(*ssa.Call)
					if !ok {
						return
					}
					if b, ok := call.Call.Value.(*ssa.Builtin); !ok || b.Name() != "copy" {
						return
					}
					// destination: a slice of a [4]byte
					dst, ok := stripConv(call.Call.Args[0]).(*ssa.Slice)
					if !ok {
						return
					}
					pt, ok := dst.X.Type().Underlying().(*types.Pointer)
					if !ok {
						return
					}
					arr, ok := pt.Elem().Underlying().(*types.Array)
					if !ok || arr.Len() != 4 {
						return
					}
					// source: of type net.IP?
					src := call.Call.Args[1]
					nt, ok := src.Type().(*types.Named)
					if !ok || nt.Obj().Pkg() == nil || nt.Obj().Pkg().Path() != "net" || nt.Obj().Name() != "IP" {
						return
					}
					n++
					good := false
					if sc, ok := stripConv(src).(*ssa.Call); ok && isCallTo(sc, to4) {
						good = true
					}
					c.check(good, fn, "4-byte address", call.Pos(), "the net.IP is converted with To4() before its bytes are copied", "the first four bytes of a net.IP are copied into a 4-byte kernel address without To4(): for the 16-byte form net.Interface.Addrs returns they are zero, so the kernel is given 0.0.0.0 (its default interface) instead of the interface asked for")
				})
			}
			if n == 0 {
				c.Notes = append(c.Notes, "no net.IP is copied into a [4]byte in net/ipv4 (rule instance count 0)")
			}
		}
		// setter/getter mappings
		{
			set := p.Fn(ipv4, "SetMulticastLoop")
			// value passed to setsockopt: phi[0,1] with 1 on the `loop` true edge
			setTrueIs1 := false
			eachInstr(set, func(in ssa.Instruction) {
				ph, ok := in.(*ssa.Phi)
				if !ok {
					return
				}
				for i, e := range ph.Edges {
					for _, l := range litsAt(ph.Block(), ph.Block().Preds[i]) {
						if l.Cond == ssa.Value(set.Params[1]) && l.Pos && isConstInt(e, 1) {
							setTrueIs1 = true
						}
					}
				}
			})
			c.check(setTrueIs1, set, "encode loop", set.Pos(), "true is written as 1", "SetMulticastLoop does not encode true as 1")
			get := p.Fn(ipv4, "GetMulticastLoop")
			// returns true exactly when v != 0
			getOK := true
			n := 0
			for _, r := range returnsOf(get) {
				if !isNil(r.Results[1]) {
					continue
				}
				n++
				val, isB := boolConst(r.Results[0])
				if !isB {
					getOK = false
					continue
				}
				zero := "?"
				for _, l := range guardsOf(r.Block()) {
					op, _, y, ok := l.cmp()
					if ok && isConstInt(y, 0) {
						if op == token.EQL {
							zero = "zero"
						} else if op == token.NEQ {
							zero = "nonzero"
						}
						break
					}
				}
				if (zero == "zero" && val) || (zero == "nonzero" && !val) || zero == "?" {
					getOK = false
				}
			}
			c.check(getOK && n > 0, get, "decode loop", get.Pos(), "non-zero is read as true", "GetMulticastLoop decodes the kernel value inverted (0 -> true): composed with SetMulticastLoop it is not the identity, and a fresh peer reports Loop()==false while the kernel default IP_MULTICAST_LOOP is 1")
			// TTL: identity conversions
			sttl, gttl := p.Fn(ipv4, "SetMulticastTTL"), p.Fn(ipv4, "GetMulticastTTL")
			okT := false
			eachInstr(sttl, func(in ssa.Instruction) {
				if call, ok := in.(*ssa.Call); ok && call.Call.StaticCallee() != nil && call.Call.StaticCallee().Name() == "SetsockoptInt" {
					if stripConv(call.Call.Args[3]) == ssa.Value(sttl.Params[1]) {
						okT = true
					}
				}
			})
			okG := false
			for _, r := range returnsOf(gttl) {
				if ex, ok := stripConv(r.Results[0]).(*ssa.Extract); ok && ex.Index == 0 {
					okG = true
				}
			}
			c.check(okT && okG, sttl, "ttl mapping", sttl.Pos(), "TTL is passed through unchanged both ways", "the TTL is transformed on its way to or from the kernel")
		}
		// UDPPeer dispatch
		for _, spec := range []struct {
			method string
			guard  string // "empty" / "nonempty" / ""
			callee string
		}{{"joinIPv4", "empty", "AddMembership"}, {"joinIPv4", "nonempty", "AddSourceMembership"}, {"leaveIPv4", "empty", "DropMembership"}, {"leaveIPv4", "nonempty", "DropSourceMembership"},
			{"blockIPv4", "", "BlockSource"}, {"unblockIPv4", "", "UnblockSource"}} {
			fn := p.Method("multicast", "UDPPeer", spec.method)
			calls := callsToFn(fn, p.Fn(ipv4, spec.callee))
			good := len(calls) == 1
			if good && spec.guard != "" {
				// guarded by sourceIP == empty (or !=)
				g := ""
				for _, l := range guardsOf(calls[0].(ssa.Instruction).Block()) {
					op, _, _, ok := l.cmp()
					if ok && op == token.EQL {
						g = "empty"
					} else if ok && op == token.NEQ {
						g = "nonempty"
					}
				}
				if g != spec.guard {
					good = false
				}
			}
			if good {
				// arguments: group then source in the callee's order
				a := calls[0].Common().Args
				byName := map[string]*ssa.Parameter{}
				for _, q := range fn.Params {
					byName[pinParamName(q)] = q
				}
				callee := p.Fn(ipv4, spec.callee)
				for i, q := range callee.Params {
					if pinParamName(q) == "multicastIP" || pinParamName(q) == "sourceIP" {
						if src := byName[pinParamName(q)]; src == nil || stripConv(a[i]) != ssa.Value(src) {
							// joinIPv6-style different names: accept `ip`
							good = false
						}
					}
				}
			}
			c.check(good, fn, "dispatch "+spec.callee, fn.Pos(), "reaches "+spec.callee+" with group and source in place", spec.method+" does not call ipv4."+spec.callee+" (with the group and source arguments in their places) for the "+map[string]string{"empty": "any-source", "nonempty": "source-specific", "": ""}[spec.guard]+" case: membership changes are applied to the wrong filter")
		}
		// the exported entry points hand the group and the source they were given (parsed) to those functions
		for _, spec := range []struct{ method, helper string }{{"JoinSourceOn", "joinIPv4"}, {"LeaveSource", "leaveIPv4"}, {"BlockSource", "blockIPv4"}, {"UnblockSource", "unblockIPv4"}} {
			fn := p.Method("multicast", "UDPPeer", spec.method)
			helper := p.Method("multicast", "UDPPeer", spec.helper)
			byName := map[string]*ssa.Parameter{}
			for _, q := range fn.Params {
				byName[pinParamName(q)] = q
			}
			sites := deepCallsTo(fn, helper)
			// a site inside a shared helper that sits on the arm of a boolean parameter this entry point binds to the
			// other constant is not reached from here (setSourceBlocked(..., block bool))
			{
				var live []deepCall
				for _, dc := range sites {
					dead := false
					if h := dc.Call.Parent(); h != fn {
						for _, l := range guardsOf(dc.Call.Block()) {
							if q, isPrm := stripConv(l.Cond).(*ssa.Parameter); isPrm && q.Parent() == h {
								if isConstBool(dc.translate(q), !l.Pos) {
									dead = true
								}
							}
						}
					}
					if !dead {
						live = append(live, dc)
					}
				}
				sites = live
			}
			good := len(sites) > 0
			why := spec.method + " does not reach " + spec.helper
			if len(sites) == 0 {
				// siblings merged into one function that receives the per-family operation as a function value
				// (filterSource(multicastIP, sourceIP, (*UDPPeer).blockIPv4, ...)): judged at the call of that parameter
				for _, hc := range allCalls(fn) {
					h2 := hc.Call.StaticCallee()
					if !isHelperOf(fn, h2) {
						continue
					}
					for k, a := range hc.Call.Args {
						af, isFn := strip(a).(*ssa.Function)
						if !isFn || k >= len(h2.Params) || !(af == helper || (af.Object() != nil && af.Object() == helper.Object())) {
							continue
						}
						eachInstr(h2, func(in ssa.Instruction) {
							dc, ok := in.(*ssa.Call)
							if !ok || stripConv(dc.Call.Value) != ssa.Value(h2.Params[k]) || len(dc.Call.Args) != len(helper.Params) {
								return
							}
							good = true
							h2ByName := map[string]int{}
							for i, q := range h2.Params {
								h2ByName[pinParamName(q)] = i
							}
							for i, q := range helper.Params {
								name := pinParamName(q)
								if name != "multicastIP" && name != "sourceIP" {
									continue
								}
								j, has := h2ByName[name]
								src := byName[name]
								if !has || src == nil || j >= len(hc.Call.Args) || !dependsOnLoose(dc.Call.Args[i], h2.Params[j]) || !dependsOnLoose(hc.Call.Args[j], src) {
									good = false
									why = "the " + name + " handed to " + spec.helper + " (through " + fnName(h2) + ") is not derived from the " + name + " argument of " + spec.method
								}
							}
						})
					}
				}
			}
			for _, dc := range sites {
				for i, q := range helper.Params {
					name := pinParamName(q)
					if name != "multicastIP" && name != "sourceIP" {
						continue
					}
					src := byName[name]
					if src == nil || i >= len(dc.Call.Call.Args) {
						continue
					}
					arg := dc.Call.Call.Args[i]
					derived := dependsOnLoose(dc.translate(arg), src)
					if h := dc.Call.Parent(); !derived && h != fn {
						// the call sits in a helper (setSourceBlocked(multicastIP, sourceIP, block)): derived there from a
						// parameter of the helper that is bound to the entry point's argument
						for _, q := range h.Params {
							if dependsOnLoose(arg, q) && dependsOnLoose(dc.translate(q), src) {
								derived = true
							}
						}
					}
					if !derived {
						good = false
						why = "the " + name + " handed to " + spec.helper + " is not derived from the " + name + " argument of " + spec.method + " (a shadowed or stale variable): the request names no source / another group, so the kernel drops or filters a different membership than the caller asked for"
					}
				}
			}
			c.check(good, fn, "arguments reach "+spec.helper, fn.Pos(), "group and source are the parsed arguments", why)
		}
	}
}

func boolConst(v ssa.Value) (bool, bool) {
	if isConstBool(v, true) {
		return true, true
	}
	if isConstBool(v, false) {
		return false, true
	}
	return false, false
}

// dependsOnLoose: like dependsOn, additionally following type assertions, field/extract chains and one level of call arguments.
func dependsOnLoose(v, src ssa.Value) bool {
	seen := map[ssa.Value]bool{}
	var rec func(v ssa.Value, d int) bool
	rec = func(v ssa.Value, d int) bool {
		if v == nil || d > 30 || seen[v] {
			return false
		}
		seen[v] = true
		if v == src {
			return true
		}
		if r := resolveCell(v); r != v && rec(r, d+1) {
			return true
		}
		in, ok := v.(ssa.Instruction)
		if !ok {
			return false
		}
		// loads of a field of the receiver: the stores into that field in the same function
		if f := loadedField(v); f != nil {
			if vi, ok := v.(ssa.Instruction); ok && vi.Parent() != nil {
				hit := false
				for _, a := range storesDeep(vi.Parent(), f) {
					if rec(a.Val, d+1) {
						hit = true
					}
				}
				if hit {
					return true
				}
			}
		}
		// loads through a local copy: the stores into that local
		if u, ok := v.(*ssa.UnOp); ok && u.Op == token.MUL {
			root, _ := rootOfAddr(u.X)
			if a, ok := root.(*ssa.Alloc); ok {
				hit := false
				eachInstr(a.Parent(), func(x ssa.Instruction) {
					if st, ok := x.(*ssa.Store); ok {
						if r2, _ := rootOfAddr(st.Addr); r2 == ssa.Value(a) && rec(st.Val, d+1) {
							hit = true
						}
					}
				})
				if hit {
					return true
				}
			}
		}
		for _, op := range in.Operands(nil) {
			if *op != nil && rec(*op, d+1) {
				return true
			}
		}
		return false
	}
	return rec(v, 0)
}

// isNilOrSyscallErr: the error returned is nil or the error result of the given call.
func isNilOrSyscallErr(v ssa.Value, call ssa.CallInstruction) bool {
	v = stripConv(resolveCell(v))
	if isNil(v) {
		return true
	}
	if ex, ok := v.(*ssa.Extract); ok && ex.Tuple == call.(ssa.Value) {
		return true
	}
	return false
}

// storedOrAlreadyEqual: the store st (field fld := v) need not dominate the call when every path to the call that
// misses it takes the "equal" edge of a test of v against the field's current content - a cached value refilled only on
// change. Decided on the CFG: with the store's block and the equal edges removed the call is unreachable from the entry.
// The caller has established that st is the only store to fld in fn.
func storedOrAlreadyEqual(fn *ssa.Function, st *ssa.Store, fld *types.Var, call ssa.Instruction) bool {
	sb, cb := st.Block(), call.Block()
	if sb == cb || len(fn.Blocks) == 0 {
		return false
	}
	val := stripConv(st.Val)
	isFieldLoad := func(v ssa.Value) bool {
		u, ok := stripConv(v).(*ssa.UnOp)
		if !ok || u.Op != token.MUL {
			return false
		}
		fv, fa := fieldAddrOf(u.X)
		sfa, _ := st.Addr.(*ssa.FieldAddr)
		return fv == fld && sfa != nil && accessPath(fa.X) != "" && accessPath(fa.X) == accessPath(sfa.X)
	}
	equalEdge := func(b *ssa.BasicBlock) int {
		if len(b.Instrs) == 0 {
			return -1
		}
		iff, ok := b.Instrs[len(b.Instrs)-1].(*ssa.If)
		if !ok {
			return -1
		}
		bo, ok := iff.Cond.(*ssa.BinOp)
		if !ok || (bo.Op != token.EQL && bo.Op != token.NEQ) {
			return -1
		}
		if !((stripConv(bo.X) == val && isFieldLoad(bo.Y)) || (stripConv(bo.Y) == val && isFieldLoad(bo.X))) {
			return -1
		}
		if bo.Op == token.EQL {
			return 0
		}
		return 1
	}
	seen := map[*ssa.BasicBlock]bool{}
	work := []*ssa.BasicBlock{fn.Blocks[0]}
	for len(work) > 0 {
		b := work[len(work)-1]
		work = work[:len(work)-1]
		if seen[b] || b == sb {
			continue
		}
		seen[b] = true
		if b == cb {
			return false
		}
		eq := equalEdge(b)
		for i, su := range b.Succs {
			if i != eq {
				work = append(work, su)
			}
		}
	}
	return true
}

// accessPath names a value reached from a parameter through field selections and loads only ("" otherwise).
func accessPath(v ssa.Value) string {
	switch x := v.(type) {
	case *ssa.Parameter:
		return x.Name()
	case *ssa.UnOp:
		if x.Op == token.MUL {
			if p := accessPath(x.X); p != "" {
				return "*" + p
			}
		}
	case *ssa.FieldAddr:
		if p := accessPath(x.X); p != "" {
			return fmt.Sprintf("%s.%d", p, x.Field)
		}
	}
	return ""
}
