package main

import (
	"fmt"
	"go/token"
	"go/types"
	"sort"
	"strings"

	"golang.org/x/tools/go/ssa"
)

func init() {
	register(&propertySpec{
		ID:    "C07",
		Title: "WebSocket frame decoder is total, bounded and stays in sync",
		Explanation: "Decides: (R1) wire-length sanitisation - every use of the declared payload length (Frame.PayloadLength / binary.BigEndian.UintN results) " +
			"in FrameCodec.Decode that feeds arithmetic, PrepareRead, Reserve, Consume, Commit or a slice bound is dominated by an upper-bound test against the " +
			"configured maximum and by a non-negativity guarantee (unsigned type or explicit >= 0 test), so nothing is buffered for an oversized or negative length; " +
			"(R2) in sync - Decode starts with resetDecode, the frame returned on success is src.Data()[:k] with k the very value whose PrepareRead succeeded, " +
			"k is the sum {2, extended-length bytes, 4 if masked, payload length} and nothing else, decodeReset is set on that path, resetDecode consumes " +
			"len(decodeFrame) exactly when the flag is set, and every header accessor is called on a decodeFrame that was re-sliced after the PrepareRead " +
			"granting the bytes it reads; (R3) table agreement between setPayloadLength and PayloadLength/ExtendedPayloadLengthBytes and RFC 6455 section 5.2 " +
			"(<=125 in 7 bits, 126 -> 16 bit at offset 2, 127 -> 64 bit at offset 2, thresholds 125 / 65535). " +
			"Not decided: decode(encode(f)) == f on contents; independence from split points beyond R2.",
		Run: runC07,
	})
	addMutants("C07",
		mutant{"old length bits kept", "codec/websocket/frame.go",
			"\t(*f)[1] &= (1 << 7)\n\n\tif n > (1<<16 - 1) {", "\tif n > (1<<16 - 1) {", "C07-R3"},
		mutant{"reservation skipped when the payload alone would fit", "codec/websocket/frame_codec.go",
			"\t\tsrc.Reserve(payloadLength) // payload", "\t\tif payloadLength > src.Cap() {\n\t\t\tsrc.Reserve(payloadLength)\n\t\t} // payload", "C07-R2"},
		mutant{"incomplete payload reserves half of it", "codec/websocket/frame_codec.go",
			"\t\tsrc.Reserve(payloadLength) // payload", "\t\tsrc.Reserve(payloadLength / 2) // payload", "C07-R2"},
		mutant{"negative 64-bit lengths pass", "codec/websocket/frame_codec.go",
			"if payloadLength < 0 || payloadLength > c.maxMessageSize {", "if payloadLength > c.maxMessageSize {", "C07-R1"},
		mutant{"limit checked after the payload was requested", "codec/websocket/frame_codec.go",
			"\tpayloadLength := c.decodeFrame.PayloadLength()\n\tif payloadLength < 0 || payloadLength > c.maxMessageSize {\n\t\t// A 64-bit length with the top bit set comes out negative.\n\t\tc.decodeFrame = nil\n\t\treturn nil, ErrPayloadOverMaxSize\n\t}\n\n\t// read mask if any\n\tif c.decodeFrame.IsMasked() {",
			"\tpayloadLength := c.decodeFrame.PayloadLength()\n\tsrc.Reserve(payloadLength)\n\tif payloadLength < 0 || payloadLength > c.maxMessageSize {\n\t\t// A 64-bit length with the top bit set comes out negative.\n\t\tc.decodeFrame = nil\n\t\treturn nil, ErrPayloadOverMaxSize\n\t}\n\n\t// read mask if any\n\tif c.decodeFrame.IsMasked() {", "C07-R1"},
		mutant{"previous frame not consumed", "codec/websocket/frame_codec.go",
			"func (c *FrameCodec) Decode(src *sonic.ByteBuffer) (Frame, error) {\n\tc.resetDecode()\n", "func (c *FrameCodec) Decode(src *sonic.ByteBuffer) (Frame, error) {\n", "C07-R2"},
		mutant{"frame shorter than what was prepared", "codec/websocket/frame_codec.go",
			"\tc.decodeFrame = src.Data()[:readSoFar]\n\tc.decodeReset = true", "\tc.decodeFrame = src.Data()[:readSoFar-1]\n\tc.decodeReset = true", "C07-R2"},
		mutant{"mask bytes not counted", "codec/websocket/frame_codec.go",
			"\t\treadSoFar += frameMaskLength\n", "\t\treadSoFar += 0\n", "C07-R2"},
		mutant{"mask skipped for empty payloads", "codec/websocket/frame_codec.go",
			"\tif c.decodeFrame.IsMasked() {\n\t\treadSoFar += frameMaskLength", "\tif c.decodeFrame.IsMasked() && payloadLength > 0 {\n\t\treadSoFar += frameMaskLength", "C07-R2"},
		mutant{"reset flag not set on success", "codec/websocket/frame_codec.go",
			"\tc.decodeFrame = src.Data()[:readSoFar]\n\tc.decodeReset = true\n", "\tc.decodeFrame = src.Data()[:readSoFar]\n", "C07-R2"},
		mutant{"resetDecode consumes a fixed header", "codec/websocket/frame_codec.go",
			"c.src.Consume(len(c.decodeFrame))", "c.src.Consume(frameHeaderLength)", "C07-R2"},
		mutant{"length read before its bytes are available", "codec/websocket/frame_codec.go",
			"\tc.decodeFrame = src.Data()[:readSoFar]\n\n\tpayloadLength := c.decodeFrame.PayloadLength()", "\tpayloadLength := c.decodeFrame.PayloadLength()\n\tc.decodeFrame = src.Data()[:readSoFar]\n", "C07-R2"},
		mutant{"16-bit threshold wrong in the encoder", "codec/websocket/frame.go",
			"\t} else if n > 125 {", "\t} else if n > 126 {", "C07-R3"},
		mutant{"64-bit length read from the wrong offset", "codec/websocket/frame.go",
			"return int(binary.BigEndian.Uint64(f[frameHeaderLength : frameHeaderLength+8]))", "return int(binary.BigEndian.Uint64(f[frameHeaderLength+2 : frameHeaderLength+10]))", "C07-R3"},
		mutant{"top bit of the 64-bit length masked off", "codec/websocket/frame.go",
			"return int(binary.BigEndian.Uint64(f[frameHeaderLength : frameHeaderLength+8]))", "return int(binary.BigEndian.Uint64(f[frameHeaderLength:frameHeaderLength+8]) & (1<<63 - 1))", "C07-R3"},
		mutant{"extended length bytes disagree", "codec/websocket/frame.go",
			"\t} else if v == 126 {\n\t\treturn 2\n\t}\n\treturn 0", "\t} else if v == 126 {\n\t\treturn 4\n\t}\n\treturn 0", "C07-R3"},
	)
}

// addLeaves decomposes an integer value into the leaves of its additive tree (through +, phis and conversions).
type addLeaf struct {
	v    ssa.Value
	k    int64
	isK  bool
	cond bool // reached through a phi: present on some paths only
}

func additiveLeaves(v ssa.Value) []addLeaf { return additiveLeavesX(v, false) }

// additiveLeavesX: with expand, offset accessors that are themselves sums are replaced by their own leaves.
func additiveLeavesX(v ssa.Value, expand bool) []addLeaf {
	var out []addLeaf
	seen := map[ssa.Value]bool{}
	var rec func(v ssa.Value, cond bool, depth int)
	rec = func(v ssa.Value, cond bool, depth int) {
		v = stripConv(v)
		if depth > 12 {
			out = append(out, addLeaf{v: v, cond: cond})
			return
		}
		if k, ok := constInt(v); ok {
			out = append(out, addLeaf{k: k, isK: true, cond: cond})
			return
		}
		switch x := v.(type) {
		case *ssa.BinOp:
			if x.Op == token.ADD {
				rec(x.X, cond, depth+1)
				rec(x.Y, cond, depth+1)
				return
			}
		case *ssa.Call:
			// an offset accessor that is itself a sum of constants and other accessors (payloadOffset() = 2 +
			// ExtendedPayloadLengthBytes() + MaskBytes()): its leaves
			if r := additiveGetter(x); expand && r != nil && depth < 8 {
				rec(r, cond, depth+1)
				return
			}
		case *ssa.Phi:
			if seen[v] {
				return
			}
			seen[v] = true
			// common part = leaves present in every edge; others conditional
			for _, e := range x.Edges {
				rec(e, true, depth+1)
			}
			return
		}
		out = append(out, addLeaf{v: v, cond: cond})
	}
	rec(v, false, 0)
	return out
}

// leafSummary renders leaves as a canonical multiset: constants and callee names; duplicates from phi edges collapsed.
func leafSummary(ls []addLeaf) string {
	set := map[string]bool{}
	for _, l := range ls {
		switch {
		case l.isK:
			set[fmt.Sprintf("%d", l.k)] = true
		default:
			name := "?"
			if call, ok := l.v.(*ssa.Call); ok {
				if callee := call.Call.StaticCallee(); callee != nil {
					name = pinName(callee) + "()"
				} else if b, ok := call.Call.Value.(*ssa.Builtin); ok {
					name = b.Name() + "()"
				}
			} else if l.v != nil {
				name = l.v.Name()
				if p, ok := l.v.(*ssa.Parameter); ok {
					name = "param:" + pinParamName(p)
				}
			}
			set[name] = true
		}
	}
	var ks []string
	for k := range set {
		ks = append(ks, k)
	}
	sort.Strings(ks)
	return strings.Join(ks, "+")
}

func runC07(c *Ctx) {
	p := c.P
	ws := "codec/websocket"
	dec := p.Method(ws, "FrameCodec", "Decode")
	resetDecode := p.Method(ws, "FrameCodec", "resetDecode")
	decodeFrameF := p.Field(ws, "FrameCodec", "decodeFrame")
	decodeResetF := p.Field(ws, "FrameCodec", "decodeReset")
	maxF := p.Field(ws, "FrameCodec", "maxMessageSize")
	fm := func(n string) *ssa.Function { return p.Method(ws, "Frame", n) }
	payloadLen, extBytes, isMasked := fm("PayloadLength"), fm("ExtendedPayloadLengthBytes"), fm("IsMasked")
	bb := func(n string) *ssa.Function { return p.Method("sonic", "ByteBuffer", n) }
	prepareRead, reserve, consume, commit, data := bb("PrepareRead"), bb("Reserve"), bb("Consume"), bb("Commit"), bb("Data")

	// ------------------------------------------------------------------------------------------------ R1
	c.rule("C07-R1", "every use of the declared payload length in Decode (arithmetic, PrepareRead/Reserve/Consume/Commit, slice bound) is dominated by length <= maximum and length >= 0", 2)
	for _, src := range callsToFn(dec, payloadLen) {
		tainted := src.(ssa.Value)
		refs := tainted.Referrers()
		if refs == nil {
			continue
		}
		for _, r := range *refs {
			switch r.(type) {
			case *ssa.DebugRef:
				continue
			}
			if bo, ok := r.(*ssa.BinOp); ok {
				switch bo.Op {
				case token.LSS, token.GTR, token.LEQ, token.GEQ, token.EQL, token.NEQ:
					continue // the sanitising comparisons themselves
				}
			}
			upper, lower := false, false
			for _, l := range guardsOf(r.Block()) {
				op, x, y, ok := l.cmpWith(tainted)
				if !ok || stripConv(x) != tainted {
					continue
				}
				if (op == token.LEQ || op == token.LSS) && (loadOfField(y, maxF) || isConstVal(y)) && !dependsOn(y, tainted) {
					upper = true
				}
				if op == token.GEQ && isConstInt(y, 0) {
					lower = true
				}
			}
			if b, ok := tainted.Type().Underlying().(*types.Basic); ok && b.Info()&types.IsUnsigned != 0 {
				lower = true
			}
			what := "use"
			if call, ok := r.(ssa.CallInstruction); ok {
				if callee := call.Common().StaticCallee(); callee != nil {
					what = callee.Name()
				}
			} else if _, ok := r.(*ssa.BinOp); ok {
				what = "arithmetic"
			}
			c.check(upper && lower, dec, "length "+what, r.Pos(), "bounded above by the maximum and below by zero before use",
				fmt.Sprintf("the declared payload length reaches %s without having been bounded (upper=%v, non-negative=%v): an adversarial length (e.g. 2^63 and above, or max+1) makes the decoder buffer for or yield an oversized/negative frame", what, upper, lower))
		}
	}

	// ------------------------------------------------------------------------------------------------ R2
	c.rule("C07-R2", "in sync: resetDecode first; returned frame == Data()[:k] with k the prepared amount and k == 2 + ext + (4 if masked) + payload; decodeReset set; resetDecode consumes len(decodeFrame); accessors see the bytes they read", 9)
	{
		// resetDecode dominates every PrepareRead
		rcalls := callsToFn(dec, resetDecode)
		pcalls := callsToFn(dec, prepareRead)
		good := len(rcalls) > 0
		for _, pc := range pcalls {
			dom := false
			for _, rc := range rcalls {
				if dominatesInstr(rc.(ssa.Instruction), pc.(ssa.Instruction)) {
					dom = true
				}
				// `if c.decodeReset { c.resetDecode() }`: nothing is pending when the flag is clear
				if tb := underFlagTest(rc, decodeResetF); tb != nil && tb != pc.Block() && tb.Dominates(pc.Block()) {
					dom = true
				}
			}
			if !dom {
				good = false
			}
		}
		c.check(good, dec, "resetDecode first", dec.Pos(), "the previous frame is consumed before anything is decoded", "Decode does not call resetDecode before preparing bytes: the previous frame is decoded again (or the next frame starts at the wrong offset)")

		// every stage: the bytes of the read area are sliced up to k only after PrepareRead(k) succeeded, and a failed
		// PrepareRead ends the call with its error (a stage whose test is inverted hands out (nil, nil) when the bytes
		// are there and slices past the received bytes when they are not)
		{
			nStage := 0
			eachInstrDeep(dec, func(in, site ssa.Instruction, tr func(ssa.Value) ssa.Value) {
				sl, ok := in.(*ssa.Slice)
				if !ok || sl.High == nil {
					return
				}
				dc, ok := strip(sl.X).(*ssa.Call)
				if !ok || !isCallToFn(dc, data) {
					return
				}
				nStage++
				okStage := false
				for _, g := range []*ssa.Function{in.Parent(), dec} {
					for _, pc := range callsToFn(g, prepareRead) {
						sameAmount := func(a, b ssa.Value) bool {
							a, b = stripConv(a), stripConv(b)
							if a == b {
								return true
							}
							ka, okA := constInt(a)
							kb, okB := constInt(b)
							return okA && okB && ka == kb
						}
						if sameAmount(pc.Common().Args[1], sl.High) || sameAmount(pc.Common().Args[1], tr(sl.High)) {
							if guardedNil(in.Block(), pc.(ssa.Value)) || (in.Parent() != dec && guardedNil(site.Block(), pc.(ssa.Value))) {
								okStage = true
							}
						}
					}
				}
				c.check(okStage, dec, "stage available", in.Pos(), "Data()[:k] only after PrepareRead(k) returned nil", "the read area is sliced up to a length that was not prepared successfully on this path (no PrepareRead of that amount tested == nil): the decoder reads past the received bytes (panic) when they are missing and reports no frame when they are there")
			})
			if nStage == 0 {
				c.bad(dec, "stage available", dec.Pos(), "Decode never slices the read area (anchor moved)")
			}
			for _, pc := range callsToFn(dec, prepareRead) {
				for _, r := range returnsOf(dec) {
					for _, l := range guardsOf(r.Block()) {
						if x, eq, ok := l.nilTest(); ok && !eq && strip(x) == pc.(ssa.Value) {
							same := strip(r.Results[1]) == pc.(ssa.Value)
							// ... or through a helper that hands its error argument back unchanged (failDecode(err) (Frame, error))
							if ex, ok := strip(r.Results[1]).(*ssa.Extract); ok && !same {
								if hc, ok := ex.Tuple.(*ssa.Call); ok {
									if h := hc.Call.StaticCallee(); isHelperOf(dec, h) {
										for k, a := range hc.Call.Args {
											if strip(a) != pc.(ssa.Value) || k >= len(h.Params) {
												continue
											}
											passes := true
											for _, hr := range returnsOf(h) {
												if ex.Index >= len(hr.Results) || resolveCell(strip(hr.Results[ex.Index])) != ssa.Value(h.Params[k]) {
													passes = false
												}
											}
											same = passes
										}
									}
								}
							}
							c.check(same, dec, "stage error", exitPos(r), "a failed PrepareRead is returned as it is", "a stage whose PrepareRead failed does not return that error: the caller sees success (or another error) for bytes that are not there")
						}
					}
				}
			}
		}

		// success return
		for _, r := range returnsOf(dec) {
			if !isNil(r.Results[1]) {
				continue
			}
			// the re-slices that can be the last one before this return (in Decode, or in a helper the re-slice was moved
			// to): normally one; two when the payload stage is skipped for an empty payload
			var cands []deepStore
			all := deepStoresTo(dec, decodeFrameF)
			for _, d := range all {
				if isNil(d.Store.Val) {
					continue
				}
				d := d
				if reachAvoiding(d.Site, r, func(x ssa.Instruction) bool {
					for _, o := range all {
						if o.Site == x && x != d.Site && !isNil(o.Store.Val) {
							return true
						}
					}
					return false
				}) {
					cands = append(cands, d)
				}
			}
			retLoads := loadOfField(r.Results[0], decodeFrameF)
			if len(cands) == 0 || !retLoads {
				c.bad(dec, "returned frame", exitPos(r), "the frame returned on success is not the decodeFrame built from the prepared bytes")
				continue
			}
			wantA := "2+4+ExtendedPayloadLengthBytes()+PayloadLength()"           // the 4 counted under IsMasked()
			wantB := "2+ExtendedPayloadLengthBytes()+MaskBytes()+PayloadLength()" // MaskBytes() is 4 under IsMasked(), else 0
			var plenCall ssa.Value
			eachInstr(dec, func(in ssa.Instruction) {
				if call, ok := in.(*ssa.Call); ok && isCallToFn(call, payloadLen) && plenCall == nil {
					plenCall = call
				}
			})
			sums := map[ssa.Instruction]string{}
			for _, d := range cands {
				if sl, ok := stripConv(d.Store.Val).(*ssa.Slice); ok && sl.High != nil {
					sums[d.Site] = leafSummary(additiveLeavesX(d.translate(sl.High), true))
				}
			}
			usesMaskBytes := false
			for i := range cands {
				lastD := &cands[i]
				last := lastD.Site
				sl, ok := stripConv(lastD.Store.Val).(*ssa.Slice)
				okShape := ok && sl.Low == nil && sl.High != nil
				if okShape {
					if dc, ok := strip(sl.X).(*ssa.Call); !ok || !isCallToFn(dc, data) {
						okShape = false
					}
				}
				if !okShape {
					c.bad(dec, "returned frame", last.Pos(), "the frame returned on success is not src.Data()[:k]")
					continue
				}
				high := lastD.translate(sl.High)
				// k is the argument of a PrepareRead whose success guards the store
				prepared := preparedFor(dec, prepareRead, lastD, high)
				c.check(prepared, dec, "returned frame", last.Pos(), "frame length is exactly the amount PrepareRead granted", "the frame returned on success is sliced to a length other than the one PrepareRead just granted: the decoder yields bytes it did not receive or leaves part of the frame behind")
				sum := sums[last]
				good := sum == wantA || sum == wantB
				if sum == wantB {
					usesMaskBytes = true
				}
				with4 := sum
				if !strings.Contains("+"+sum+"+", "+4+") && !strings.Contains(sum, "MaskBytes()") {
					// no mask stage on this candidate's paths: whether that is right is the mask rule's business
					with4 = strings.Replace(sum, "2+", "2+4+", 1)
					if with4 == wantA {
						good = true
					}
				}
				if !good && (with4+"+PayloadLength()" == wantA || sum+"+PayloadLength()" == wantA || strings.Replace(wantB, "+PayloadLength()", "", 1) == sum) {
					// the stage that adds the payload is skipped on this path: sound when it is skipped exactly for an empty
					// payload, i.e. another candidate carries the full sum under `PayloadLength() > 0`
					for _, o := range cands {
						if o.Site == last || (sums[o.Site] != wantA && sums[o.Site] != wantB) {
							continue
						}
						for _, l := range guardsOf(o.Site.Block()) {
							if op, x, y, ok := l.cmpWith(plenCall); ok && plenCall != nil && stripConv(x) == plenCall && isConstInt(y, 0) && (op == token.GTR || op == token.NEQ) {
								good = true
								if sums[o.Site] == wantB {
									usesMaskBytes = true
								}
							}
						}
					}
				}
				c.check(good, dec, "frame length", last.Pos(), "frame length = "+sum, "the frame length is computed as "+sum+", expected "+wantA+" (header + extended length + mask + payload): the next frame starts at the wrong offset")
			}
			last := cands[len(cands)-1].Site
			// mask bytes only when masked
			maskedOK := false
			if usesMaskBytes {
				// spelled with MaskBytes(): that accessor yields the 4 bytes exactly when IsMasked()
				mb := p.Method("codec/websocket", "Frame", "MaskBytes")
				four, zero := false, false
				for _, mr := range returnsOf(mb) {
					k, isK := constInt(mr.Results[0])
					masked := false
					unmasked := true
					for _, l := range guardsOf(mr.Block()) {
						if _, pos, ok := callLit(l, isMasked); ok {
							masked, unmasked = pos, !pos
						}
					}
					if isK && k == 4 && masked {
						four = true
					}
					if isK && k == 0 && unmasked {
						zero = true
					}
				}
				maskedOK = four && zero && len(returnsOf(mb)) == 2
			}
			eachInstr(dec, func(in ssa.Instruction) {
				bo, ok := in.(*ssa.BinOp)
				if !ok || bo.Op != token.ADD || !isConstInt(bo.Y, 4) {
					return
				}
				for _, l := range guardsOf(in.Block()) {
					if _, pos, ok := callLit(l, isMasked); ok && pos {
						maskedOK = true
					}
				}
			})
			// ... and on every path on which the mask bit is set
			eachInstr(dec, func(in ssa.Instruction) {
				ifi, ok := in.(*ssa.If)
				if !ok || usesMaskBytes {
					return
				}
				cond, pos := normLit(ifi.Cond, true)
				call, ok := cond.(*ssa.Call)
				if !ok || !isCallToFn(call, isMasked) {
					return
				}
				succ := in.Block().Succs[0]
				if !pos {
					succ = in.Block().Succs[1]
				}
				okp, _ := mustPassAt(succ, 0, func(x ssa.Instruction) bool {
					bo, ok := x.(*ssa.BinOp)
					return ok && bo.Op == token.ADD && isConstInt(bo.Y, 4)
				})
				if !okp {
					maskedOK = false
				}
			})
			c.check(maskedOK, dec, "mask length", last.Pos(), "4 mask bytes are counted exactly when the mask bit is set", "the 4 mask bytes are not added on every path on which IsMasked() holds (and only there): masked frames (e.g. with an empty payload) are mis-sized and the next frame starts inside the masking key")
			// decodeReset = true dominates the return
			flag := false
			for _, a := range storesDeep(dec, decodeResetF) {
				if isConstBool(a.Val, true) && dominatesInstr(a.Instr, r) {
					flag = true
				}
			}
			c.check(flag, dec, "decodeReset", exitPos(r), "the frame is marked for lazy consumption", "decodeReset is not set on the success path: the frame is never consumed and is decoded again by the next call")
		}
		// resetDecode
		{
			good := false
			for _, cc := range callsToFn(resetDecode, consume) {
				arg := cc.Common().Args[1]
				if lc, ok := stripConv(arg).(*ssa.Call); ok {
					if b, ok := lc.Call.Value.(*ssa.Builtin); ok && b.Name() == "len" && loadOfField(lc.Call.Args[0], decodeFrameF) {
						for _, l := range guardsOf(cc.(ssa.Instruction).Block()) {
							if loadOfField(l.Cond, decodeResetF) && l.Pos {
								good = true
							}
						}
						if allCallsUnderFlag(p, resetDecode, decodeResetF) {
							good = true
						}
					}
				}
			}
			cleared := false
			for _, a := range storesTo(resetDecode, decodeResetF) {
				if isConstBool(a.Instr.(*ssa.Store).Val, false) {
					cleared = true
				}
			}
			c.check(good && cleared, resetDecode, "consume previous frame", resetDecode.Pos(), "consumes len(decodeFrame) once, when the flag is set", "resetDecode does not consume exactly len(decodeFrame) under the decodeReset flag (and clear it): the stream position drifts from the frame boundary")
		}
		// accessors see their bytes
		need := []struct {
			fn   *ssa.Function
			want string
			text string
		}{
			{extBytes, "2", "the 2-byte header"},
			{isMasked, "2", "the 2-byte header"},
			{payloadLen, "2+ExtendedPayloadLengthBytes()", "the header plus the extended length bytes"},
		}
		for _, nd := range need {
			for _, call := range callsToFn(dec, nd.fn) {
				in := call.(ssa.Instruction)
				// the last re-slice in front of the accessor: a store in Decode, or the call of a helper that prepares and re-slices
				var last *deepStore
				for _, d := range deepStoresTo(dec, decodeFrameF) {
					d := d
					if isNil(d.Store.Val) {
						continue // dropping the frame on the failure path
					}
					if dominatesInstr(d.Site, in) && (last == nil || dominatesInstr(last.Site, d.Site)) {
						last = &d
					}
				}
				good := false
				got := "nothing"
				if last != nil {
					if sl, ok := stripConv(last.Store.Val).(*ssa.Slice); ok && sl.High != nil {
						high := last.translate(sl.High)
						got = leafSummary(additiveLeavesX(high, true))
						// prepared for that amount?
						prepared := preparedFor(dec, prepareRead, last, high)
						// through a helper: the accessor runs only when the helper reported success, and the helper reports
						// success only after the re-slice
						if hc, viaHelper := last.Site.(*ssa.Call); viaHelper && ssa.Instruction(hc) != ssa.Instruction(last.Store) {
							h := last.Store.Parent()
							okRet := true
							for _, r := range returnsOf(h) {
								if len(r.Results) != 1 {
									okRet = false
								} else if isNil(r.Results[0]) && !dominatesInstr(last.Store, r) {
									okRet = false
								}
							}
							if !okRet || hc.Call.StaticCallee() != h || !guardedNil(in.Block(), hc) {
								prepared = false
							}
						}
						if prepared && (got == nd.want || strings.HasPrefix(got, nd.want+"+")) {
							good = true
						}
					}
				}
				c.check(good, dec, "accessor "+nd.fn.Name(), in.Pos(), nd.fn.Name()+" reads a frame re-sliced to "+got, nd.fn.Name()+" is called on a partial frame that was not re-sliced after PrepareRead granted "+nd.text+" (it covers "+got+"): the accessor indexes beyond the received bytes")
			}
		}
	}

	// ------------------------------------------------------------------------------------------------ R3
	// room for the rest: when the payload is incomplete the buffer is asked for at least the declared payload length
	// (a smaller reservation can leave a frame that never fits: the read loop then spins on a full buffer)
	{
		var plen ssa.Value
		eachInstr(dec, func(in ssa.Instruction) {
			if call, ok := in.(*ssa.Call); ok && call.Call.StaticCallee() != nil && call.Call.StaticCallee().Name() == "PayloadLength" && plen == nil {
				plen = call
			}
		})
		for _, rc := range callsToFn(dec, reserve) {
			arg := rc.Common().Args[1]
			var atLeast func(v ssa.Value, d int) bool
			atLeast = func(v ssa.Value, d int) bool {
				v = stripConv(v)
				if v == plen {
					return true
				}
				if bo, ok := v.(*ssa.BinOp); ok && bo.Op == token.ADD && d < 4 {
					return atLeast(bo.X, d+1) || atLeast(bo.Y, d+1)
				}
				return false
			}
			c.check(plen != nil && atLeast(arg, 0), dec, "reserve for the payload", rc.Pos(), "reserves at least the declared payload length", "an incomplete payload reserves less than the declared payload length: a frame larger than the remaining buffer space can never be completed (the next reads find no room)")
			// ... unconditionally on the incomplete-payload path: the only condition between the failed PrepareRead and the
			// reservation is that failure (a test such as `payload > Cap()` forgets the header bytes in front of the payload)
			var prep ssa.CallInstruction
			for _, pc := range pcallsAll(dec, prepareRead) {
				if dominatesInstr(pc.(ssa.Instruction), rc.(ssa.Instruction)) {
					prep = pc
				}
			}
			if prep == nil {
				// the prepare-and-reslice step lives in a helper that reports PrepareRead's failure as its own
				eachInstr(dec, func(in ssa.Instruction) {
					call, ok := in.(*ssa.Call)
					if !ok || !dominatesInstr(in, rc.(ssa.Instruction)) {
						return
					}
					if h := call.Call.StaticCallee(); isHelperOf(dec, h) && containsDeep(h, func(x ssa.Instruction) bool { return isCallToFn(x, prepareRead) }, 1) {
						if prep == nil || dominatesInstr(prep.(ssa.Instruction), in) {
							prep = call
						}
					}
				})
			}
			uncond := false
			if prep != nil {
				base := map[ssa.Value]bool{}
				for _, l := range guardsOf(prep.(ssa.Instruction).Block()) {
					base[l.Cond] = true
				}
				extra := 0
				okFail := false
				for _, l := range guardsOf(rc.(ssa.Instruction).Block()) {
					if base[l.Cond] {
						continue
					}
					if x, eq, isNilT := l.nilTest(); isNilT && !eq && resolveCell(x) == prep.(ssa.Value) {
						okFail = true
						continue
					}
					// an empty payload needs no room
					if op, x, y, ok := l.cmpWith(plen); ok && plen != nil && stripConv(x) == plen && isConstInt(y, 0) && (op == token.GTR || op == token.NEQ) {
						continue
					}
					extra++
				}
				uncond = okFail && extra == 0
			}
			c.check(uncond, dec, "reserve whenever incomplete", rc.Pos(), "every incomplete payload reserves room", "the reservation for an incomplete payload is skipped under an extra condition: a frame whose payload fits the buffer's capacity but not together with its header never completes - reads get a zero-length slice and Decode returns ErrNeedMore forever")
		}
		if len(deepCallsTo(dec, reserve)) == 0 {
			c.bad(dec, "reserve whenever incomplete", dec.Pos(), "Decode never reserves room for an incomplete payload: a frame larger than the free space of the read buffer can never be completed - reads get a zero-length slice and Decode returns ErrNeedMore forever")
		}
	}

	c.rule("C07-R3", "encode/decode length tables agree with each other and with RFC 6455 section 5.2", 3)
	checkLengthTables(c, "C07")
	_ = reserve
	_ = commit
}

func isConstVal(v ssa.Value) bool {
	_, ok := constInt(v)
	return ok
}

// checkLengthTables extracts the (code, width, offset, threshold) rows from setPayloadLength, PayloadLength and
// ExtendedPayloadLengthBytes and compares them with the RFC table.
func checkLengthTables(c *Ctx, prop string) {
	p := c.P
	ws := "codec/websocket"
	fm := func(n string) *ssa.Function { return p.Method(ws, "Frame", n) }
	setLen, payloadLen, extBytes := fm("setPayloadLength"), fm("PayloadLength"), fm("ExtendedPayloadLengthBytes")
	bin := p.extPkg("encoding/binary")
	_ = bin

	// --- encoder
	{
		rows := map[int64]string{} // code -> "width@offset if n>threshold"
		var thresholds []int64
		eachInstr(setLen, func(in ssa.Instruction) {
			if bo, ok := in.(*ssa.BinOp); ok && bo.Op == token.GTR {
				if _, isParam := stripConv(bo.X).(*ssa.Parameter); isParam {
					if k, ok := constInt(bo.Y); ok {
						thresholds = append(thresholds, k)
					}
				}
			}
		})
		eachInstr(setLen, func(in ssa.Instruction) {
			call, ok := in.(*ssa.Call)
			if !ok || call.Call.StaticCallee() == nil {
				return
			}
			name := call.Call.StaticCallee().Name()
			if name != "PutUint64" && name != "PutUint16" && name != "PutUint32" {
				return
			}
			// offset: the slice low bound of the destination
			off := int64(-1)
			for _, a := range call.Call.Args {
				if sl, ok := stripConv(a).(*ssa.Slice); ok {
					if k, ok := constInt(sl.Low); ok {
						off = k
					}
				}
			}
			// code: the constant or-ed into byte 1 in the same block
			code := int64(-1)
			for _, x := range in.Block().Instrs {
				if bo, ok := x.(*ssa.BinOp); ok && bo.Op == token.OR {
					if k, ok := constInt(bo.Y); ok {
						code = k
					}
				}
			}
			// threshold: the `n > K` literal that guards this block positively (innermost)
			thr := int64(-1)
			for _, l := range guardsOf(in.Block()) {
				op, _, y, ok := l.cmp()
				if ok && op == token.GTR {
					if k, ok := constInt(y); ok && (thr == -1 || k > thr) {
						thr = k
					}
				}
			}
			rows[code] = fmt.Sprintf("%s@%d if n>%d", name, off, thr)
		})
		want := map[int64]string{127: "PutUint64@2 if n>65535", 126: "PutUint16@2 if n>125"}
		good := len(rows) == len(want)
		for k, v := range want {
			if rows[k] != v {
				good = false
			}
		}
		c.check(good, setLen, "encoder table", setLen.Pos(), fmt.Sprintf("%v", rows), fmt.Sprintf("setPayloadLength encodes %v, RFC 6455 requires %v: lengths are not encoded in their shortest legal form / at the right offset", rows, want))
		// the seven length bits of byte 1 are cleared (mask bit kept) before a code or a short length is or-ed in: a frame
		// object is reused, and 126 or-ed onto the bits of an earlier odd length reads as 127
		isElem1 := func(addr ssa.Value) bool {
			ia, ok := addr.(*ssa.IndexAddr)
			return ok && isConstInt(ia.Index, 1)
		}
		clears := func(v ssa.Value) bool { // old & 0x80
			bo, ok := stripConv(v).(*ssa.BinOp)
			if !ok || bo.Op != token.AND {
				return false
			}
			for _, pair := range [][2]ssa.Value{{bo.X, bo.Y}, {bo.Y, bo.X}} {
				if u, isLd := stripConv(pair[0]).(*ssa.UnOp); isLd && u.Op == token.MUL && isElem1(u.X) && isConstInt(pair[1], 128) {
					return true
				}
			}
			return false
		}
		var clearing []*ssa.Store
		eachInstr(setLen, func(in ssa.Instruction) {
			if st, ok := in.(*ssa.Store); ok && isElem1(st.Addr) && clears(st.Val) {
				clearing = append(clearing, st)
			}
		})
		nOr := 0
		stale := token.NoPos
		eachInstr(setLen, func(in ssa.Instruction) {
			st, ok := in.(*ssa.Store)
			if !ok || !isElem1(st.Addr) {
				return
			}
			bo, isOr := stripConv(st.Val).(*ssa.BinOp)
			if !isOr || bo.Op != token.OR {
				return
			}
			nOr++
			okc := clears(bo.X) || clears(bo.Y)
			for _, cl := range clearing {
				if dominatesInstr(cl, st) {
					okc = true
				}
			}
			if !okc {
				stale = st.Pos()
			}
		})
		c.check(nOr > 0 && stale == token.NoPos, setLen, "length bits cleared", firstPos(stale, setLen.Pos()), "byte 1 keeps only the mask bit before the length code is or-ed in", "setPayloadLength ors a length code into byte 1 without clearing the previous length bits on that path: on a reused frame 126 or-ed onto an odd earlier length reads as 127 (an 8-byte length that was never written), the decoder of the peer loses the frame boundary")
	}
	// --- decoder
	{
		rows := map[int64]string{}
		eachInstr(payloadLen, func(in ssa.Instruction) {
			call, ok := in.(*ssa.Call)
			if !ok || call.Call.StaticCallee() == nil {
				return
			}
			name := call.Call.StaticCallee().Name()
			if name != "Uint64" && name != "Uint16" && name != "Uint32" {
				return
			}
			lo, hi := int64(-1), int64(-1)
			for _, a := range call.Call.Args {
				if sl, ok := stripConv(a).(*ssa.Slice); ok {
					if k, ok := constInt(sl.Low); ok {
						lo = k
					}
					if k, ok := constInt(sl.High); ok {
						hi = k
					}
				}
			}
			code := int64(-1)
			for _, l := range guardsOf(in.Block()) {
				op, _, y, ok := l.cmp()
				if ok && op == token.EQL {
					if k, ok := constInt(y); ok {
						code = k
						break
					}
				}
			}
			rows[code] = fmt.Sprintf("%s[%d:%d]", name, lo, hi)
			// the value must reach the caller unmodified (only converted): masking or clamping here hides an oversized
			// declared length from the limit check in the decoder
			raw := false
			for _, r := range returnsOf(payloadLen) {
				for _, leaf := range phiLeaves(r.Results[0]) {
					if stripConv(leaf) == ssa.Value(call) {
						raw = true
					}
				}
			}
			if !raw {
				rows[code] += " (modified before it is returned)"
			}
		})
		want := map[int64]string{127: "Uint64[2:10]", 126: "Uint16[2:4]"}
		good := len(rows) == len(want)
		for k, v := range want {
			if rows[k] != v {
				good = false
			}
		}
		c.check(good, payloadLen, "decoder table", payloadLen.Pos(), fmt.Sprintf("%v", rows), fmt.Sprintf("PayloadLength decodes %v, RFC 6455 requires %v", rows, want))
	}
	{
		rows := map[int64]int64{}
		for _, r := range returnsOf(extBytes) {
			k, ok := constInt(r.Results[0])
			if !ok {
				continue
			}
			code := int64(-1)
			for _, l := range guardsOf(r.Block()) {
				op, _, y, ok := l.cmp()
				if ok && op == token.EQL {
					if kk, ok := constInt(y); ok {
						code = kk
						break
					}
				}
			}
			rows[code] = k
		}
		good := rows[127] == 8 && rows[126] == 2 && rows[-1] == 0 && len(rows) == 3
		c.check(good, extBytes, "extended length bytes", extBytes.Pos(), fmt.Sprintf("%v", rows), fmt.Sprintf("ExtendedPayloadLengthBytes returns %v, expected 127->8, 126->2, otherwise 0", rows))
	}
}

func pcallsAll(fn *ssa.Function, callee *ssa.Function) []ssa.CallInstruction {
	return callsToFn(fn, callee)
}

// preparedFor: the re-slice `last` (a store of Data()[:high] to decodeFrame, in dec or in a helper called from dec) is
// guarded by the success of a PrepareRead for exactly `high` bytes (high already expressed in dec's frame).
func preparedFor(dec, prepareRead *ssa.Function, last *deepStore, high ssa.Value) bool {
	for _, pc := range deepCallsTo(dec, prepareRead) {
		amount := pc.translate(pc.Call.Call.Args[1])
		switch {
		case pc.Call.Parent() == last.Store.Parent() && (pc.Call.Parent() == dec || pc.Site == last.Site):
			// the same frame: both in Decode, or both in the same invocation of a helper
			if !guardedNil(last.Store.Block(), pc.Call) {
				continue
			}
		case pc.Call.Parent() == dec:
			// PrepareRead in Decode, the re-slice in a helper called under its success
			if !guardedNil(last.Site.Block(), pc.Call) {
				continue
			}
		default:
			continue
		}
		if amount == high {
			return true
		}
		if k1, ok := constInt(amount); ok {
			if k2, ok := constInt(high); ok && k1 == k2 {
				return true
			}
		}
	}
	return false
}

// additiveGetter: the call invokes a single-block method of the analysed packages without parameters other than the
// receiver whose result is a sum (at least one +) of constants and calls of such accessors on the receiver.
func additiveGetter(call *ssa.Call) ssa.Value {
	h := call.Call.StaticCallee()
	if h == nil || h.Blocks == nil || len(h.Blocks) != 1 || len(h.Params) != 1 || !strings.HasPrefix(h.Pkg.Pkg.Path(), modPath) {
		return nil
	}
	var res ssa.Value
	for _, in := range h.Blocks[0].Instrs {
		switch x := in.(type) {
		case *ssa.BinOp:
			if x.Op != token.ADD {
				return nil
			}
		case *ssa.Call:
			if x.Call.StaticCallee() == nil || len(x.Call.Args) != 1 {
				return nil
			}
			a := stripConv(x.Call.Args[0])
			if u, ok := a.(*ssa.UnOp); ok && u.Op == token.MUL {
				a = stripConv(u.X) // the accessor has a pointer receiver and calls value-receiver accessors on *f
			}
			if a != ssa.Value(h.Params[0]) {
				return nil
			}
		case *ssa.UnOp:
			if x.Op != token.MUL || stripConv(x.X) != ssa.Value(h.Params[0]) {
				return nil
			}
		case *ssa.Convert, *ssa.ChangeType, *ssa.DebugRef:
		case *ssa.Return:
			if len(x.Results) != 1 {
				return nil
			}
			res = x.Results[0]
		default:
			return nil
		}
	}
	if _, isSum := stripConv(res).(*ssa.BinOp); !isSum {
		return nil
	}
	return res
}
