package main

import (
	"fmt"
	"go/token"
	"go/types"
	"sort"
	"strings"

	"golang.org/x/tools/go/ssa"
)

// E2: linear completion callbacks. For a function F and a tracked callback source S (a parameter, a captured
// variable, or a callback-typed field read inside F) the analysis computes the set of possible numbers of times the
// callback is discharged over all terminating executions of F, as a subset of {0, 1, 2+}.
//
// Discharging = invoking the callback, handing it (or a closure that wraps it) to a callee whose own summary
// discharges it, or parking: taking the success edge of a SetRead/SetWrite registration after a handler for that
// direction has been installed on the slot (the handler's own summary is checked separately).
//
// Summaries are a least fixpoint (recursive completions such as AsyncFlush count "if the recursion ends").

type cset uint8

const (
	c0   cset = 1
	c1   cset = 2
	c2   cset = 4
	cTop cset = 7
)

func (a cset) String() string {
	var parts []string
	if a&c0 != 0 {
		parts = append(parts, "0")
	}
	if a&c1 != 0 {
		parts = append(parts, "1")
	}
	if a&c2 != 0 {
		parts = append(parts, "2+")
	}
	return "{" + strings.Join(parts, ",") + "}"
}

func csetOf(n int) cset {
	switch {
	case n <= 0:
		return c0
	case n == 1:
		return c1
	}
	return c2
}

// add: pairwise sums.
func (a cset) add(b cset) cset {
	var out cset
	for i := 0; i < 3; i++ {
		if a&(1<<i) == 0 {
			continue
		}
		for j := 0; j < 3; j++ {
			if b&(1<<j) == 0 {
				continue
			}
			out |= csetOf(i + j)
		}
	}
	return out
}

// compose: the callee invokes a wrapper `times` times, each invocation discharges `per`.
func compose(times, per cset) cset {
	var out cset
	if times&c0 != 0 {
		out |= c0
	}
	if times&c1 != 0 {
		out |= per
	}
	if times&c2 != 0 {
		out |= per.add(per)
		if per&(c1|c2) != 0 {
			out |= c2
		}
	}
	return out
}

type srcKind int

const (
	srcParam srcKind = iota
	srcFree
	srcField
)

type e2src struct {
	fn    *ssa.Function
	kind  srcKind
	idx   int
	field *types.Var
}

func (s e2src) String() string {
	switch s.kind {
	case srcParam:
		return fmt.Sprintf("%s param %s", fnName(s.fn), s.fn.Params[s.idx].Name())
	case srcFree:
		return fmt.Sprintf("%s captured %s", fnName(s.fn), s.fn.FreeVars[s.idx].Name())
	}
	return fmt.Sprintf("%s field %s", fnName(s.fn), s.field.Name())
}

type e2 struct {
	p         *Prog
	sums      map[e2src]cset
	demanded  map[e2src]bool
	order     []e2src
	retStates map[e2src]map[*ssa.Return]cset
	notes     map[e2src][]string
	regCalls  []*types.Func // SetRead/SetWrite entry points
	slotSet   *types.Func
	postObjs  []*types.Func
	readEv    int64
	writeEv   int64
	impls     map[*types.Func][]*ssa.Function
}

func newE2(p *Prog) *e2 {
	e := &e2{p: p, sums: map[e2src]cset{}, demanded: map[e2src]bool{}, retStates: map[e2src]map[*ssa.Return]cset{},
		notes: map[e2src][]string{}, impls: map[*types.Func][]*ssa.Function{}}
	e.slotSet = p.Method("internal", "Slot", "Set").Object().(*types.Func)
	e.postObjs = []*types.Func{p.Method("sonic", "IO", "Post").Object().(*types.Func), p.IfaceMethod("internal", "Poller", "Post")}
	rv, _ := constantInt(p.Const("internal", "ReadEvent"))
	wv, _ := constantInt(p.Const("internal", "WriteEvent"))
	e.readEv, e.writeEv = rv, wv
	return e
}

// regDir classifies a call as a registration: "read", "write" or "" - the poller / IO operation itself, or a call of
// a small helper that installs the handler and returns the result of that operation (armRead() error).
func (e *e2) regDir(in ssa.Instruction) string {
	if d := e.regDirBase(in); d != "" {
		return d
	}
	if call, ok := in.(*ssa.Call); ok {
		if d, _ := e.regWrapper(call.Call.StaticCallee()); d != "" {
			return d
		}
	}
	return ""
}

// regWrapper: fn is a helper (not part of the pinned API) that performs exactly one registration and returns its result
// on every path.
func (e *e2) regWrapper(fn *ssa.Function) (string, ssa.CallInstruction) {
	if fn == nil || fn.Blocks == nil || fn.Parent() != nil || fn.Object() == nil {
		return "", nil
	}
	if fn.Object().Exported() && knownOnPinnedTree(fn) {
		return "", nil
	}
	res := fn.Signature.Results()
	if res.Len() != 1 || !types.Identical(res.At(0).Type(), types.Universe.Lookup("error").Type()) {
		return "", nil
	}
	var inner ssa.CallInstruction
	dir := ""
	n := 0
	eachInstr(fn, func(x ssa.Instruction) {
		if d := e.regDirBase(x); d != "" {
			n++
			dir, inner = d, x.(ssa.CallInstruction)
		}
	})
	if n != 1 {
		return "", nil
	}
	for _, r := range returnsOf(fn) {
		if len(r.Results) != 1 || resolveCell(r.Results[0]) != inner.(ssa.Value) {
			return "", nil
		}
	}
	return dir, inner
}

func (e *e2) regDirBase(in ssa.Instruction) string {
	call, ok := in.(ssa.CallInstruction)
	if !ok {
		return ""
	}
	o := calleeObj(call)
	if o == nil {
		return ""
	}
	recvOK := false
	if sig, ok := o.Type().(*types.Signature); ok && sig.Recv() != nil {
		t := sig.Recv().Type()
		if pt, ok := t.(*types.Pointer); ok {
			t = pt.Elem()
		}
		if n, ok := t.(*types.Named); ok && n.Obj().Pkg() != nil {
			pkg, name := n.Obj().Pkg().Path(), n.Obj().Name()
			if (pkg == modPath && name == "IO") || (pkg == modPath+"/internal" && (name == "Poller" || name == "poller")) {
				recvOK = true
			}
		}
	}
	if !recvOK {
		return ""
	}
	switch o.Name() {
	case "SetRead":
		return "read"
	case "SetWrite":
		return "write"
	}
	return ""
}

// summary returns the current approximation for a source, demanding its computation.
func (e *e2) summary(s e2src) cset {
	if !e.demanded[s] {
		e.demanded[s] = true
		e.order = append(e.order, s)
	}
	return e.sums[s]
}

// solve iterates all demanded summaries to a fixpoint.
func (e *e2) solve() {
	for iter := 0; iter < 100; iter++ {
		changed := false
		for i := 0; i < len(e.order); i++ { // order grows while iterating
			s := e.order[i]
			v := e.compute(s)
			if v != e.sums[s] {
				e.sums[s] = v | e.sums[s]
				changed = true
			}
		}
		if !changed {
			return
		}
	}
}

// get demands, solves and returns the final summary.
func (e *e2) get(s e2src) cset {
	e.summary(s)
	e.solve()
	return e.sums[s]
}

func (e *e2) note(s e2src, format string, args ...any) {
	msg := fmt.Sprintf(format, args...)
	for _, m := range e.notes[s] {
		if m == msg {
			return
		}
	}
	e.notes[s] = append(e.notes[s], msg)
}

// percall: if v carries the tracked callback, the set of discharges caused by invoking v once.
func (e *e2) percall(s e2src, v ssa.Value, depth int) (cset, bool) {
	if depth > 8 || v == nil {
		return 0, false
	}
	v = strip(v)
	switch s.kind {
	case srcParam:
		if r := resolveCell(v); r == ssa.Value(s.fn.Params[s.idx]) {
			return c1, true
		}
	case srcFree:
		fv := s.fn.FreeVars[s.idx]
		if v == ssa.Value(fv) {
			return c1, true
		}
		if u, ok := v.(*ssa.UnOp); ok && u.Op == token.MUL && u.X == ssa.Value(fv) {
			return c1, true
		}
	case srcField:
		if loadedField(v) == s.field {
			return c1, true
		}
	}
	switch x := v.(type) {
	case *ssa.MakeClosure:
		cf := x.Fn.(*ssa.Function)
		var total cset = c0
		found := false
		for i, b := range x.Bindings {
			pc, ok := e.bindingCarries(s, b, depth)
			if !ok {
				continue
			}
			found = true
			total = total.add(compose(e.summary(e2src{fn: cf, kind: srcFree, idx: i}), pc))
		}
		if found {
			return total, true
		}
	case *ssa.Call:
		// handler factory: a function that returns a closure binding one of its parameters
		if callee := x.Call.StaticCallee(); callee != nil && callee.Blocks != nil {
			for j, a := range x.Call.Args {
				pc, ok := e.percall(s, a, depth+1)
				if !ok {
					continue
				}
				if cf, fvIdx, ok := factoryClosure(callee, j); ok {
					return compose(e.summary(e2src{fn: cf, kind: srcFree, idx: fvIdx}), pc), true
				}
			}
		}
	case *ssa.Phi:
		var total cset
		all := true
		for _, ed := range x.Edges {
			pc, ok := e.percall(s, ed, depth+1)
			if !ok {
				all = false
				break
			}
			total |= pc
		}
		if all && total != 0 {
			return total, true
		}
	}
	return 0, false
}

// bindingCarries: a closure binding carries the tracked callback (by value, or as the cell that holds it).
func (e *e2) bindingCarries(s e2src, b ssa.Value, depth int) (cset, bool) {
	if pc, ok := e.percall(s, b, depth+1); ok {
		return pc, true
	}
	switch x := b.(type) {
	case *ssa.Alloc:
		if st := singleStore(x); st != nil {
			return e.percall(s, st.Val, depth+1)
		}
	case *ssa.FreeVar:
		if s.kind == srcFree && ssa.Value(x) == ssa.Value(s.fn.FreeVars[s.idx]) {
			return c1, true
		}
	}
	return 0, false
}

// factoryClosure: callee returns (on every return) a closure whose free variable fvIdx is the cell of parameter j.
func factoryClosure(callee *ssa.Function, j int) (*ssa.Function, int, bool) {
	if j >= len(callee.Params) {
		return nil, 0, false
	}
	var cf *ssa.Function
	fvIdx := -1
	for _, r := range returnsOf(callee) {
		if len(r.Results) != 1 {
			return nil, 0, false
		}
		mc, ok := strip(r.Results[0]).(*ssa.MakeClosure)
		if !ok {
			return nil, 0, false
		}
		f := mc.Fn.(*ssa.Function)
		idx := -1
		for i, b := range mc.Bindings {
			if a, ok := b.(*ssa.Alloc); ok {
				if st := singleStore(a); st != nil && strip(st.Val) == ssa.Value(callee.Params[j]) {
					idx = i
				}
			}
			if strip(b) == ssa.Value(callee.Params[j]) {
				idx = i
			}
		}
		if idx < 0 {
			return nil, 0, false
		}
		if cf != nil && (cf != f || fvIdx != idx) {
			return nil, 0, false
		}
		cf, fvIdx = f, idx
	}
	return cf, fvIdx, cf != nil
}

// implementations resolves an interface method to the in-scope functions implementing it (CHA restricted to the
// analysed packages).
func (e *e2) implementations(m *types.Func) []*ssa.Function {
	if r, ok := e.impls[m]; ok {
		return r
	}
	var out []*ssa.Function
	sig := m.Type().(*types.Signature)
	recv := sig.Recv()
	var iface *types.Interface
	if recv != nil {
		iface, _ = recv.Type().Underlying().(*types.Interface)
	}
	seen := map[*ssa.Function]bool{}
	for _, pk := range e.p.Pkgs {
		sc := pk.Types.Scope()
		for _, name := range sc.Names() {
			tn, ok := sc.Lookup(name).(*types.TypeName)
			if !ok {
				continue
			}
			if _, isIface := tn.Type().Underlying().(*types.Interface); isIface {
				continue
			}
			if nt, ok := tn.Type().(*types.Named); ok && nt.TypeParams().Len() > 0 {
				continue
			}
			for _, t := range []types.Type{tn.Type(), types.NewPointer(tn.Type())} {
				if iface != nil && !types.Implements(t, iface) {
					continue
				}
				ms := e.p.SSA.MethodSets.MethodSet(t)
				sel := ms.Lookup(m.Pkg(), m.Name())
				if sel == nil {
					continue
				}
				fn := e.p.SSA.MethodValue(sel)
				if fn == nil {
					continue
				}
				// unwrap promoted-method wrappers to the declared method
				if fn.Synthetic != "" {
					if obj, ok := sel.Obj().(*types.Func); ok {
						if real := e.p.SSA.FuncValue(obj); real != nil {
							fn = real
						}
					}
				}
				if fn.Blocks == nil || seen[fn] {
					continue
				}
				seen[fn] = true
				out = append(out, fn)
			}
		}
	}
	sort.Slice(out, func(i, j int) bool { return out[i].String() < out[j].String() })
	e.impls[m] = out
	return out
}

func (e *e2) inScope(fn *ssa.Function) bool {
	if fn == nil || fn.Blocks == nil {
		return false
	}
	pk := fnTypesPkg(fn)
	return pk != nil && e.p.Pkgs[pk.Path()] != nil
}

// callDelta: effect of one call instruction on the discharge count.
func (e *e2) callDelta(s e2src, call ssa.CallInstruction) cset {
	cc := call.Common()
	delta := c0
	// invoking the carried value itself
	if !cc.IsInvoke() && cc.StaticCallee() == nil {
		if _, isB := cc.Value.(*ssa.Builtin); !isB {
			if pc, ok := e.percall(s, cc.Value, 0); ok {
				delta = delta.add(pc)
			}
		}
	}
	// a closure literal invoked on the spot (`go func(){...}()`, `func(){...}()`) that captures the callback
	if mc, ok := cc.Value.(*ssa.MakeClosure); ok && !cc.IsInvoke() {
		if pc, ok := e.percall(s, mc, 0); ok {
			delta = delta.add(pc)
		}
	}
	for j, a := range cc.Args {
		pc, ok := e.percall(s, a, 0)
		if !ok {
			continue
		}
		if cc.IsInvoke() {
			if isOneOf(cc.Method, e.postObjs) {
				delta = delta.add(pc)
				continue
			}
			if isRawConnControl(call.(ssa.Instruction)) {
				continue // accounted on the success edge of the call
			}
			impls := e.implementations(cc.Method)
			if len(impls) == 0 {
				e.note(s, "callback handed to %s, which has no implementation in the analysed packages", objName(cc.Method))
				delta = delta.add(cTop)
				continue
			}
			var times cset
			for _, impl := range impls {
				times |= e.summary(e2src{fn: impl, kind: srcParam, idx: j + 1})
			}
			delta = delta.add(compose(times, pc))
			continue
		}
		callee := cc.StaticCallee()
		if callee == nil {
			// argument of a call through a function value: unknown callee
			if _, ok := e.percall(s, cc.Value, 0); ok {
				continue // cb(cb)? not meaningful
			}
			e.note(s, "callback passed to a function value at %s", e.p.Pos(call.Pos()))
			delta = delta.add(cTop)
			continue
		}
		if obj, _ := callee.Object().(*types.Func); obj != nil && isOneOf(obj, e.postObjs) {
			delta = delta.add(pc) // Post runs the handler exactly once, later, on the loop (C05)
			continue
		}
		if obj, _ := callee.Object().(*types.Func); obj != nil && sameFunc(obj, e.slotSet) {
			continue // installing a handler is not a discharge; parking is accounted at the registration
		}
		if !e.inScope(callee) {
			e.note(s, "callback escapes to %s (outside the analysed packages) at %s", callee.String(), e.p.Pos(call.Pos()))
			delta = delta.add(cTop)
			continue
		}
		tgt := callee
		idx := j
		if idx >= len(tgt.Params) {
			// variadic packing etc.
			e.note(s, "callback passed in a variadic position to %s", fnName(tgt))
			delta = delta.add(cTop)
			continue
		}
		delta = delta.add(compose(e.summary(e2src{fn: tgt, kind: srcParam, idx: idx}), pc))
	}
	return delta
}

func isOneOf(o *types.Func, list []*types.Func) bool {
	for _, x := range list {
		if sameFunc(o, x) {
			return true
		}
	}
	return false
}

// installedHandler finds the handler installed for the registration's direction: the last Slot.Set call that
// dominates the registration and names the matching event constant.
func (e *e2) installedHandler(reg ssa.CallInstruction, dir string) (ssa.Value, ssa.CallInstruction) {
	want := e.readEv
	if dir == "write" {
		want = e.writeEv
	}
	fn := reg.Parent()
	if rc, ok := reg.(*ssa.Call); ok && e.regDirBase(rc) == "" {
		// the registration goes through a helper that installs the handler itself
		if _, inner := e.regWrapper(rc.Call.StaticCallee()); inner != nil {
			reg = inner
			fn = inner.Parent()
		}
	}
	var best ssa.CallInstruction
	eachInstr(fn, func(in ssa.Instruction) {
		if !isCallTo(in, e.slotSet) {
			return
		}
		call := in.(ssa.CallInstruction)
		args := call.Common().Args
		if len(args) != 3 {
			return
		}
		if ev, ok := constInt(args[1]); !ok || ev != want {
			// the direction is a parameter of a function shared by both directions: accepted when the call is reached
			// only under `direction == <this direction>` (a case of a switch on it)
			if ok {
				return
			}
			guarded := false
			for _, l := range guardsOf(in.Block()) {
				if op, x, y, isCmp := l.cmpWith(args[1]); isCmp && op == token.EQL && stripConv(x) == stripConv(args[1]) && isConstInt(y, want) {
					guarded = true
				}
			}
			if !guarded {
				return
			}
		}
		if !dominatesInstr(in, reg.(ssa.Instruction)) {
			return
		}
		if best == nil || dominatesInstr(best.(ssa.Instruction), in) {
			best = call
		}
	})
	if best == nil {
		return nil, nil
	}
	return best.Common().Args[2], best
}

// parkDelta: what taking the success edge of a registration discharges.
func (e *e2) parkDelta(s e2src, reg ssa.CallInstruction, dir string) cset {
	h, _ := e.installedHandler(reg, dir)
	if h == nil {
		e.note(s, "registration at %s has no handler installed for the %s direction on the paths leading to it", e.p.Pos(reg.Pos()), dir)
		return c0
	}
	if pc, ok := e.percall(s, h, 0); ok {
		return pc
	}
	// a handler that does not capture this function's callback (reactor method value): the operation is parked in
	// the reactor, whose handler is verified on its own (handler rule) together with the arming rule.
	return c1
}

// regResultTests lists the If instructions that branch on the nil-ness of a registration's result.
func regResultTests(reg ssa.CallInstruction) []*ssa.If {
	v, ok := reg.(ssa.Value)
	if !ok {
		return nil
	}
	var out []*ssa.If
	refs := v.Referrers()
	if refs == nil {
		return nil
	}
	var visit func(val ssa.Value, depth int)
	seen := map[ssa.Value]bool{}
	visit = func(val ssa.Value, depth int) {
		if depth > 4 || seen[val] {
			return
		}
		seen[val] = true
		rs := val.Referrers()
		if rs == nil {
			return
		}
		for _, r := range *rs {
			switch x := r.(type) {
			case *ssa.BinOp:
				if (x.Op == token.EQL || x.Op == token.NEQ) && (isNil(x.X) || isNil(x.Y)) {
					if brs := x.Referrers(); brs != nil {
						for _, br := range *brs {
							if ifi, ok := br.(*ssa.If); ok {
								out = append(out, ifi)
							}
						}
					}
				}
			case *ssa.Phi:
				visit(x, depth+1)
			case *ssa.Store:
				// spilled into a cell (named result with defer): follow loads of the cell
				if a, ok := x.Addr.(*ssa.Alloc); ok {
					if ars := a.Referrers(); ars != nil {
						for _, ar := range *ars {
							if ld, ok := ar.(*ssa.UnOp); ok && ld.Op == token.MUL {
								visit(ld, depth+1)
							}
						}
					}
				}
			}
		}
	}
	visit(v, 0)
	return out
}

// compute evaluates one summary with the current approximations of the others.
func (e *e2) compute(s e2src) cset {
	fn := s.fn
	if fn.Blocks == nil {
		return cTop
	}
	// registrations and the branches that test them
	type regInfo struct {
		call ssa.CallInstruction
		dir  string
		ifs  []*ssa.If
	}
	var regs []regInfo
	eachInstr(fn, func(in ssa.Instruction) {
		if d := e.regDir(in); d != "" {
			call := in.(ssa.CallInstruction)
			regs = append(regs, regInfo{call, d, regResultTests(call)})
		}
		if isRawConnControl(in) {
			call := in.(ssa.CallInstruction)
			regs = append(regs, regInfo{call, "control", regResultTests(call)})
		}
	})
	parkAtCall := map[ssa.Instruction]cset{}
	parkAtEdge := map[[2]*ssa.BasicBlock]cset{}
	for _, r := range regs {
		var pd cset
		if r.dir == "control" {
			// syscall.RawConn.Control(f) invokes f exactly once when (and only when) it returns nil
			pc, ok := e.percall(s, r.call.Common().Args[0], 0)
			if !ok {
				continue
			}
			pd = pc
		} else {
			pd = e.parkDelta(s, r.call, r.dir)
		}
		if len(r.ifs) == 0 {
			if r.dir == "control" {
				pd |= c0 // the result is not tested: Control may have failed without running f
			}
			parkAtCall[r.call.(ssa.Instruction)] = pd
			continue
		}
		for _, ifi := range r.ifs {
			b := ifi.Block()
			cond, pos := normLit(ifi.Cond, true)
			bo, ok := cond.(*ssa.BinOp)
			if !ok {
				continue
			}
			// success edge: the one on which result == nil
			eqOnTrue := (bo.Op == token.EQL) == pos
			succ := b.Succs[1]
			if eqOnTrue {
				succ = b.Succs[0]
			}
			parkAtEdge[[2]*ssa.BasicBlock{b, succ}] = pd
		}
	}

	in := map[*ssa.BasicBlock]cset{}
	in[fn.Blocks[0]] = c0
	rets := map[*ssa.Return]cset{}
	work := []*ssa.BasicBlock{fn.Blocks[0]}
	for len(work) > 0 {
		b := work[len(work)-1]
		work = work[:len(work)-1]
		st := in[b]
		if st == 0 {
			continue
		}
		for _, ins := range b.Instrs {
			if call, ok := ins.(ssa.CallInstruction); ok {
				if _, isDefer := ins.(*ssa.Defer); !isDefer {
					d := e.callDelta(s, call)
					if pd, ok := parkAtCall[ins]; ok {
						d = d.add(pd)
					}
					st = st.add(d)
					if st == 0 {
						break // callee has no terminating path yet (fixpoint in progress)
					}
				}
			}
			if r, ok := ins.(*ssa.Return); ok {
				rets[r] |= st
			}
		}
		if st == 0 {
			continue
		}
		for _, sc := range b.Succs {
			out := st
			if pd, ok := parkAtEdge[[2]*ssa.BasicBlock{b, sc}]; ok {
				out = out.add(pd)
			}
			if in[sc]|out != in[sc] {
				in[sc] |= out
				work = append(work, sc)
			}
		}
	}
	var total cset
	for _, v := range rets {
		total |= v
	}
	e.retStates[s] = rets
	return total
}

// describeReturns renders, for diagnostics, the returns of a source's function whose state is not exactly {1}.
func (e *e2) describeReturns(s e2src) string {
	var parts []string
	rs := e.retStates[s]
	var keys []*ssa.Return
	for r := range rs {
		keys = append(keys, r)
	}
	sort.Slice(keys, func(i, j int) bool { return keys[i].Pos() < keys[j].Pos() })
	for _, r := range keys {
		if rs[r] != c1 {
			parts = append(parts, fmt.Sprintf("exit in block %d (%s) reachable with %s discharges", r.Block().Index, e.p.Pos(exitPos(r)), rs[r]))
		}
	}
	for _, n := range e.notes[s] {
		parts = append(parts, n)
	}
	return strings.Join(parts, "; ")
}

// exitPos gives a useful position for a return (implicit returns have none: use the last positioned instruction).
func exitPos(r *ssa.Return) token.Pos {
	if r.Pos().IsValid() {
		return r.Pos()
	}
	b := r.Block()
	for i := len(b.Instrs) - 1; i >= 0; i-- {
		if b.Instrs[i].Pos().IsValid() {
			return b.Instrs[i].Pos()
		}
	}
	for _, pr := range b.Preds {
		for i := len(pr.Instrs) - 1; i >= 0; i-- {
			if pr.Instrs[i].Pos().IsValid() {
				return pr.Instrs[i].Pos()
			}
		}
	}
	return r.Parent().Pos()
}

func constantInt(v interface{ ExactString() string }) (int64, bool) {
	var n int64
	_, err := fmt.Sscanf(v.ExactString(), "%d", &n)
	return n, err == nil
}

// isCallbackType: a function type without results (completion callbacks never return values).
func isCallbackType(t types.Type) bool {
	sig, ok := t.Underlying().(*types.Signature)
	return ok && sig.Results().Len() == 0
}

// paramOnlyStored: every use of parameter idx (through its cell, if spilled) is a store into a field.
func paramOnlyStored(fn *ssa.Function, idx int) bool {
	prm := fn.Params[idx]
	refs := prm.Referrers()
	if refs == nil || len(*refs) == 0 {
		return false
	}
	for _, r := range *refs {
		switch x := r.(type) {
		case *ssa.Store:
			if x.Val != ssa.Value(prm) {
				return false
			}
			if _, fa := fieldAddrOf(x.Addr); fa == nil {
				return false
			}
		case *ssa.DebugRef:
		default:
			return false
		}
	}
	return true
}

// isRawConnControl: invoke of syscall.RawConn.Control.
func isRawConnControl(in ssa.Instruction) bool {
	call, ok := in.(ssa.CallInstruction)
	if !ok || !call.Common().IsInvoke() {
		return false
	}
	m := call.Common().Method
	if m.Name() != "Control" || m.Pkg() == nil || m.Pkg().Path() != "syscall" {
		return false
	}
	return true
}
