package main

import (
	"fmt"
	"go/token"
	"go/types"

	"golang.org/x/tools/go/ssa"
)

func init() {
	register(&propertySpec{
		ID:    "C05",
		Title: "Post is thread-safe, exactly-once, ordered and wakes the loop",
		Explanation: "Decides: (R1) no function value is invoked (directly or through an in-package callee that may invoke one) while the " +
			"poller's queue mutex is held - the self-deadlock of a handler that posts; (R2) in Post the append to the queue precedes " +
			"the eventfd write on every path, and in the dispatching function the eventfd is drained before the queue is taken " +
			"(lost wake-up ordering); (R3) the slice whose elements are invoked is the value loaded in the critical section in which " +
			"the field is emptied, the emptied value does not alias it when handlers run outside the lock, Post appends at the tail of " +
			"the current queue and the iteration index only increases (FIFO, exactly-once hand-over); (R4) lockset: the queue field is " +
			"only accessed with the mutex held, the pending counter and the closed flag only through sync/atomic; (R5) posted handlers are " +
			"invoked only from the function Poll calls, and in the code reachable from the goroutine started by AsyncHandshake the " +
			"stream state is not written and the user callback is not invoked except inside the closure handed to Post, which is " +
			"reached on every path; (R6) a *Slot handed out by an accessor or passed to a registration is an interior pointer of the object " +
			"the caller holds, never of a by-value copy (the kernel keeps the waker slot's address invisibly to the collector). Not decided: data races in user code, scheduler fairness, that the eventfd write itself cannot block.",
		Run: runC05,
	})
	addMutants("C05",
		mutant{"waker slot accessor with a value receiver", "internal/eventfd.go",
			"func (e *EventFd) Slot() *Slot {", "func (e EventFd) Slot() *Slot {", "C05-R6"},
		mutant{"the last handler of a batch is skipped", "internal/poll_linux.go",
			"\tfor _, handler := range posts {\n\t\thandler()\n\t\tatomic.AddInt64(&p.pending, -1)\n\t}", "\tfor i := 0; i < len(posts)-1; i++ {\n\t\tposts[i]()\n\t\tatomic.AddInt64(&p.pending, -1)\n\t}", "C05-R3"},
		mutant{"handlers run under the mutex again", "internal/poll_linux.go",
			"\tposts := p.posts\n\tp.posts = nil\n\tp.lck.Unlock()\n\n\tfor _, handler := range posts {\n\t\thandler()\n\t\tatomic.AddInt64(&p.pending, -1)\n\t}\n",
			"\tposts := p.posts\n\tp.posts = nil\n\n\tfor _, handler := range posts {\n\t\thandler()\n\t\tatomic.AddInt64(&p.pending, -1)\n\t}\n\tp.lck.Unlock()\n", "C05-R1"},
		mutant{"wake-up written before the append", "internal/poll_linux.go",
			"\tp.lck.Lock()\n\tp.posts = append(p.posts, handler)\n\tatomic.AddInt64(&p.pending, 1)\n\tp.lck.Unlock()\n\n\t// Concurrent writes are thread safe for eventfds.\n\t_, err := p.waker.Write(1)\n\treturn err",
			"\t_, err := p.waker.Write(1)\n\tp.lck.Lock()\n\tp.posts = append(p.posts, handler)\n\tatomic.AddInt64(&p.pending, 1)\n\tp.lck.Unlock()\n\treturn err", "C05-R2"},
		mutant{"queue emptied by reslicing (aliases the running batch)", "internal/poll_linux.go",
			"\tp.posts = nil\n\tp.lck.Unlock()", "\tp.posts = p.posts[:0]\n\tp.lck.Unlock()", "C05-R3"},
		mutant{"queue taken outside the lock", "internal/poll_linux.go",
			"\tp.lck.Lock()\n\tposts := p.posts\n\tp.posts = nil\n\tp.lck.Unlock()", "\tposts := p.posts\n\tp.lck.Lock()\n\tp.posts = nil\n\tp.lck.Unlock()", "C05-R"},
		mutant{"Posted reads the queue without the lock", "internal/poll_linux.go",
			"\tp.lck.Lock()\n\tdefer p.lck.Unlock()\n\n\treturn len(p.posts)", "\treturn len(p.posts)", "C05-R4"},
		mutant{"queue drained after it is taken", "internal/poll_linux.go",
			"\tfor {\n\t\t_, err := p.waker.Read(p.wakerBytes[:])\n\t\tif err != nil {\n\t\t\tbreak\n\t\t}\n\t}\n\n\t// Take the queue while holding the lock but run the handlers after releasing it: a handler is allowed to Post.\n\tp.lck.Lock()\n\tposts := p.posts\n\tp.posts = nil\n\tp.lck.Unlock()\n",
			"\tp.lck.Lock()\n\tposts := p.posts\n\tp.posts = nil\n\tp.lck.Unlock()\n\tfor {\n\t\t_, err := p.waker.Read(p.wakerBytes[:])\n\t\tif err != nil {\n\t\t\tbreak\n\t\t}\n\t}\n", "C05-R2"},
		mutant{"handshake result applied on the dialing goroutine", "codec/websocket/stream.go",
			"\t\t\t_ = s.ioc.Post(func() {\n\t\t\t\tif err != nil {\n\t\t\t\t\ts.state = StateTerminated\n\t\t\t\t} else {",
			"\t\t\tif err != nil {\n\t\t\t\ts.state = StateTerminated\n\t\t\t}\n\t\t\t_ = s.ioc.Post(func() {\n\t\t\t\tif err != nil {\n\t\t\t\t\ts.state = StateTerminated\n\t\t\t\t} else {", "C05-R5"},
		mutant{"wake-up skipped while a batch is dispatched", "internal/poll_linux.go",
			"\t// Concurrent writes are thread safe for eventfds.\n\t_, err := p.waker.Write(1)\n\treturn err",
			"\tif atomic.LoadInt64(&p.pending) > 1 {\n\t\treturn nil\n\t}\n\t_, err := p.waker.Write(1)\n\treturn err", "C05-R2"},
		mutant{"Post prepends", "internal/poll_linux.go",
			"\tp.posts = append(p.posts, handler)", "\tp.posts = append([]func(){handler}, p.posts...)", "C05-R3"},
	)
}

// lockStates computes, for every instruction, whether the mutex may / must be held just before it executes.
func lockStates(fn *ssa.Function, isLock, isUnlock func(ssa.Instruction) bool) (may, must map[ssa.Instruction]bool) {
	may, must = map[ssa.Instruction]bool{}, map[ssa.Instruction]bool{}
	inMay := map[*ssa.BasicBlock]bool{}
	inMust := map[*ssa.BasicBlock]bool{}
	seen := map[*ssa.BasicBlock]bool{}
	for _, b := range fn.Blocks {
		inMust[b] = true
	}
	inMust[fn.Blocks[0]] = false
	changed := true
	for changed {
		changed = false
		for _, b := range fn.Blocks {
			if b != fn.Blocks[0] {
				m, mu := false, true
				any := false
				for _, pr := range b.Preds {
					if !seen[pr] {
						continue
					}
					any = true
					om, omu := blockOut(pr, inMay[pr], inMust[pr], isLock, isUnlock)
					m = m || om
					mu = mu && omu
				}
				if !any {
					continue
				}
				if m != inMay[b] || mu != inMust[b] || !seen[b] {
					inMay[b], inMust[b] = m, mu
					changed = true
				}
			} else if !seen[b] {
				changed = true
			}
			seen[b] = true
		}
	}
	for _, b := range fn.Blocks {
		m, mu := inMay[b], inMust[b]
		for _, in := range b.Instrs {
			may[in], must[in] = m, mu
			if isLock(in) {
				m, mu = true, true
			} else if isUnlock(in) {
				m, mu = false, false
			}
		}
	}
	return
}

func blockOut(b *ssa.BasicBlock, m, mu bool, isLock, isUnlock func(ssa.Instruction) bool) (bool, bool) {
	for _, in := range b.Instrs {
		if isLock(in) {
			m, mu = true, true
		} else if isUnlock(in) {
			m, mu = false, false
		}
	}
	return m, mu
}

func runC05(c *Ctx) {
	p := c.P
	posts, lck := p.postQueueFields()
	pending := p.Field("internal", "poller", "pending")
	closed := p.Field("internal", "poller", "closed")
	lockM := p.ExtMethod("sync", "Mutex", "Lock")
	unlockM := p.ExtMethod("sync", "Mutex", "Unlock")
	efdWrite := p.Method("internal", "EventFd", "Write")
	efdRead := p.Method("internal", "EventFd", "Read")

	onLck := func(in ssa.Instruction, m *types.Func) bool {
		call, ok := in.(*ssa.Call) // a deferred Unlock is not an unlock at this point
		if !ok || !isCallTo(call, m) || len(call.Call.Args) == 0 {
			return false
		}
		fv, _ := fieldAddrOf(call.Call.Args[0])
		return fv == lck
	}
	isLock := func(in ssa.Instruction) bool { return onLck(in, lockM) }
	isUnlock := func(in ssa.Instruction) bool { return onLck(in, unlockM) }

	var internalFuncs []*ssa.Function
	for _, fn := range p.Funcs {
		if pk := fnTypesPkg(fn); pk != nil && pk.Path() == modPath+"/internal" {
			internalFuncs = append(internalFuncs, fn)
		}
	}

	// functions of the package that may invoke a function value (transitively, through static calls)
	mayInvoke := map[*ssa.Function]bool{}
	for changed := true; changed; {
		changed = false
		for _, fn := range internalFuncs {
			if mayInvoke[fn] {
				continue
			}
			eachInstr(fn, func(in ssa.Instruction) {
				call, ok := in.(ssa.CallInstruction)
				if !ok {
					return
				}
				if isDynamicFuncCall(call) {
					mayInvoke[fn] = true
				} else if callee := call.Common().StaticCallee(); callee != nil && mayInvoke[callee] {
					mayInvoke[fn] = true
				}
			})
			if mayInvoke[fn] {
				changed = true
			}
		}
	}

	// ------------------------------------------------------------------------------------------------ R1
	c.rule("C05-R1", "no function value is invoked while the poller's queue mutex is held (a handler that calls Post would deadlock)", 3)
	lockUsers := 0
	for _, fn := range internalFuncs {
		uses := false
		eachInstr(fn, func(in ssa.Instruction) {
			if isLock(in) {
				uses = true
			}
		})
		if !uses {
			continue
		}
		lockUsers++
		may, _ := lockStates(fn, isLock, isUnlock)
		found := false
		eachInstr(fn, func(in ssa.Instruction) {
			call, ok := in.(ssa.CallInstruction)
			if !ok || !may[in] {
				return
			}
			if _, isDefer := in.(*ssa.Defer); isDefer {
				return
			}
			if isDynamicFuncCall(call) {
				found = true
				c.bad(fn, "call of function value", in.Pos(), "a function value is invoked while %s is held", objName(lck))
			} else if callee := call.Common().StaticCallee(); callee != nil && mayInvoke[callee] {
				found = true
				c.bad(fn, "call of "+callee.Name(), in.Pos(), "%s may invoke a function value and is called while the mutex is held", callee.Name())
			}
		})
		if !found {
			c.ok(fn, "critical sections", fn.Pos(), "no function value is invoked with the mutex held")
		}
	}

	// ------------------------------------------------------------------------------------------------ R2
	c.rule("C05-R2", "wake-up ordering: Post appends before writing the eventfd; the dispatcher drains the eventfd before taking the queue", 3)
	// an instruction that queues a handler: the append store itself, or a call of an unexported helper that performs it on
	// every path
	var queues func(cur *ssa.Function, in ssa.Instruction, depth int) bool
	queues = func(cur *ssa.Function, in ssa.Instruction, depth int) bool {
		if st, ok := in.(*ssa.Store); ok {
			fv, _ := fieldAddrOf(st.Addr)
			return fv == posts && isAppendOf(st.Val)
		}
		if call, ok := in.(*ssa.Call); ok && depth > 0 {
			if h := call.Call.StaticCallee(); isHelperOf(cur, h) {
				okp, _ := mustPassAt(h.Blocks[0], 0, func(x ssa.Instruction) bool { return queues(h, x, depth-1) })
				return okp
			}
		}
		return false
	}
	for _, fn := range internalFuncs {
		fn := fn
		var queueing []ssa.Instruction
		eachInstr(fn, func(in ssa.Instruction) {
			if queues(fn, in, 2) {
				queueing = append(queueing, in)
			}
		})
		wakes := func(in ssa.Instruction) bool {
			return doesDeep(in, func(x ssa.Instruction) bool { return isCallToFn(x, efdWrite) })
		}
		var wakeSites []ssa.CallInstruction
		eachInstr(fn, func(in ssa.Instruction) {
			if ci, ok := in.(ssa.CallInstruction); ok && wakes(in) {
				wakeSites = append(wakeSites, ci)
			}
		})
		for _, w := range wakeSites {
			// only the waker write that follows an append in the same function is Post's wake-up
			hasAppend := len(queueing) > 0
			if !hasAppend {
				if fn.Name() == "Post" {
					c.bad(fn, "append", fn.Pos(), "Post no longer appends the handler to the queue")
				}
				continue
			}
			reach := reachableAvoiding(w.(ssa.Instruction), func(in ssa.Instruction) bool { return queues(fn, in, 2) })
			c.check(!reach, fn, "eventfd write", w.Pos(), "the handler is queued before the loop is woken", "the eventfd is written on a path on which the handler has not been appended yet: the loop can wake up, find nothing and sleep again (lost wake-up)")
		}
		// every path that queued a handler wakes the loop, unless it is skipped under a flag that the dispatcher
		// re-arms before it takes the queue (wake-up coalescing done right)
		// (a helper that only queues is judged at its call sites)
		if len(queueing) > 0 && len(wakeSites) == 0 && allCallersSatisfy(p, fn, 1, func(caller *ssa.Function) bool {
			for _, cs := range callsToFn(caller, fn) {
				if !queues(caller, cs.(ssa.Instruction), 2) {
					return false
				}
			}
			return true
		}) {
			queueing = nil
		}
		for _, qi := range queueing {
			a := struct{ Instr ssa.Instruction }{qi}
			paths, overflow := enumPaths(fn)
			if overflow {
				c.unproven(fn, "wake-up", a.Instr.Pos(), "too many paths")
				continue
			}
			bad := ""
			for _, path := range paths {
				if path.Panics {
					continue
				}
				appended, woke := false, false
				for _, in := range path.Instrs() {
					if in == a.Instr {
						appended = true
					}
					if appended && wakes(in) {
						woke = true
					}
				}
				if !appended || woke {
					continue
				}
				// skipped: find the flag fields tested on this path through sync/atomic
				okSkip := false
				for _, l := range path.Lits {
					call, isCall := l.Cond.(*ssa.Call)
					if !isCall {
						if bo, isBin := l.Cond.(*ssa.BinOp); isBin {
							call, isCall = stripConv(bo.X).(*ssa.Call)
						}
					}
					if !isCall || call.Call.StaticCallee() == nil || call.Call.StaticCallee().Pkg == nil || call.Call.StaticCallee().Pkg.Pkg.Path() != "sync/atomic" || len(call.Call.Args) == 0 {
						continue
					}
					flag, _ := fieldAddrOf(call.Call.Args[0])
					if flag == nil {
						continue
					}
					// the dispatcher must reset the flag before it takes the queue
					for _, df := range internalFuncs {
						for _, ld := range fieldAccesses(df, posts) {
							if ld.Kind != "load" || !elementsInvoked(df, ld.Val, posts) {
								continue
							}
							for _, fa := range fieldAccesses(df, flag) {
								if fa.Kind == "addr" && dominatesInstr(fa.Instr, ld.Instr) {
									okSkip = true
								}
							}
						}
					}
				}
				if !okSkip {
					bad = fmt.Sprintf("a path that queued the handler returns without writing the eventfd (%s), and the flag it relies on is not re-armed by the dispatcher before the queue is taken", path)
				}
			}
			c.check(bad == "", fn, "wake-up on every path", a.Instr.Pos(), "every Post that queued a handler wakes the loop", bad+": a Post landing while a batch is being dispatched is left queued with nobody to wake the loop")
		}
		// the function that takes the queue (directly, or through a helper that detaches and returns it)
		var take []ssa.Instruction
		for _, a := range fieldAccesses(fn, posts) {
			if a.Kind == "load" && elementsInvoked(fn, a.Val, posts) {
				take = append(take, a.Instr)
			}
		}
		eachInstr(fn, func(in ssa.Instruction) {
			if call, ok := in.(*ssa.Call); ok {
				if _, ok := returnsLoadOf(call.Call.StaticCallee(), posts); ok && elementsInvoked(fn, call, posts) {
					take = append(take, in)
				}
			}
		})
		for _, tk := range take {
			reach := reachableAvoiding(tk, func(in ssa.Instruction) bool {
				return doesDeep(in, func(x ssa.Instruction) bool { return isCallToFn(x, efdRead) })
			})
			c.check(!reach, fn, "take queue", tk.Pos(), "the eventfd is drained before the queue is taken", "the queue is taken on a path that has not drained the eventfd first: a Post in between is left queued with its wake-up consumed")
		}
	}

	// ------------------------------------------------------------------------------------------------ R3
	c.rule("C05-R3", "exactly-once, FIFO hand-over of the queue", 3)
	for _, fn := range internalFuncs {
		may, must := lockStates(fn, isLock, isUnlock)
		for _, a := range fieldAccesses(fn, posts) {
			if a.Kind == "store" && isAppendOf(a.Val) {
				call := strip(a.Val).(*ssa.Call)
				first := call.Call.Args[0]
				c.check(loadOfField(first, posts), fn, "append", a.Instr.Pos(), "the handler is appended at the tail of the current queue", "Post does not append to the tail of the current queue (order of posted handlers is not preserved)")
			}
			if a.Kind != "load" {
				continue
			}
			// where are the elements of this load invoked: here, or in the callers of a helper that returns it
			runners := []*ssa.Function{}
			if elementsInvoked(fn, a.Val, posts) {
				runners = append(runners, fn)
			} else if rv, ok := returnsLoadOf(fn, posts); ok && rv == stripConv(a.Val) {
				for _, cs := range p.callers(fn) {
					if v, ok := cs.(ssa.Value); ok && elementsInvoked(cs.Parent(), v, posts) {
						runners = append(runners, cs.Parent())
					}
				}
			}
			if len(runners) == 0 {
				continue
			}
			// the field must be emptied in the same critical section
			var empt *ssa.Store
			for _, s := range storesTo(fn, posts) {
				st := s.Instr.(*ssa.Store)
				if must[st] && must[a.Instr] && dominatesInstr(a.Instr, st) && !lockChangesBetween(a.Instr, st, isLock, isUnlock) {
					empt = st
				}
			}
			if empt == nil {
				c.bad(fn, "hand-over", a.Instr.Pos(), "the queue is read for dispatch but not emptied inside the same critical section: handlers posted meanwhile are lost or run twice")
				continue
			}
			// emptied value: nil, or fresh; if handlers run outside the lock it must not alias the batch
			runsOutside := false
			for _, rf := range runners {
				rmay := may
				if rf != fn {
					rmay, _ = lockStates(rf, isLock, isUnlock)
				}
				eachInstr(rf, func(in ssa.Instruction) {
					if call, ok := in.(ssa.CallInstruction); ok && isDynamicFuncCall(call) && fromPosts(call.Common().Value, posts) && !rmay[in] {
						runsOutside = true
					}
				})
			}
			alias := !isNil(empt.Val) && dependsOn(empt.Val, a.Val)
			if sl, ok := strip(empt.Val).(*ssa.Slice); ok && loadOfField(sl.X, posts) {
				alias = true
			}
			c.check(!(runsOutside && alias), fn, "hand-over", a.Instr.Pos(), "queue swapped out under the lock; the new queue does not share storage with the running batch",
				"the emptied queue shares its backing array with the batch being run outside the lock: a concurrent Post overwrites handlers that have not run yet")
			// forward iteration
			for _, rf := range runners {
				rf := rf
				eachInstr(rf, func(in ssa.Instruction) {
					call, ok := in.(ssa.CallInstruction)
					if !ok || !isDynamicFuncCall(call) || !fromPosts(call.Common().Value, posts) {
						return
					}
					u := strip(call.Common().Value).(*ssa.UnOp)
					ia := u.X.(*ssa.IndexAddr)
					c.check(increasingIndex(ia.Index), rf, "iteration", in.Pos(), "handlers are run in queue order", "handlers are not run in increasing queue order")
					c.check(coversWholeSlice(ia, in.Block()), rf, "iteration covers the batch", in.Pos(), "every handler of the batch is run: index from 0, step 1, while index < len(batch)", "the loop over the batch does not run from the first to the last element in steps of one: a posted handler is skipped (never runs, stays counted) or run twice")
				})
			}
		}
	}

	// ------------------------------------------------------------------------------------------------ R4
	c.rule("C05-R4", "lockset: queue only under the mutex; counter and closed flag only through sync/atomic", 8)
	for _, fn := range p.Funcs {
		_, must := lockStates(fn, isLock, isUnlock)
		for _, a := range fieldAccesses(fn, posts) {
			c.check(a.Kind != "addr" && must[a.Instr], fn, "posts "+a.Kind, a.Instr.Pos(), "queue accessed with the mutex held", "the post queue is accessed without the mutex held on every path")
		}
		for _, f := range []*types.Var{pending, closed} {
			for _, a := range fieldAccesses(fn, f) {
				good := false
				if a.Kind == "addr" {
					if call, ok := a.Instr.(ssa.CallInstruction); ok {
						if callee := call.Common().StaticCallee(); callee != nil && callee.Pkg != nil && callee.Pkg.Pkg.Path() == "sync/atomic" {
							good = true
						}
					}
				}
				c.check(good, fn, f.Name()+" "+a.Kind, a.Instr.Pos(), "atomic access", "field "+f.Name()+" is shared with posting goroutines and is accessed without sync/atomic")
			}
		}
	}

	// every acquisition of the queue mutex is released on every path (directly or by a deferred Unlock): a function that
	// returns with the mutex held blocks the next Post for ever
	for _, fn := range internalFuncs {
		var locks []ssa.Instruction
		deferred := false
		eachInstr(fn, func(in ssa.Instruction) {
			if onLck(in, lockM) {
				locks = append(locks, in)
			}
			if d, ok := in.(*ssa.Defer); ok && isCallTo(d, unlockM) {
				deferred = true
			}
		})
		for _, lk := range locks {
			okp, why := deferred, ""
			if !okp {
				okp, why = mustPass(lk, func(x ssa.Instruction) bool { return onLck(x, unlockM) })
			}
			c.check(okp, fn, "lock released", lk.Pos(), "every path from Lock reaches Unlock", "the queue mutex is taken and not released on every path ("+why+"): the next Post or dispatch blocks for ever")
		}
	}

	// ------------------------------------------------------------------------------------------------ R5
	c.rule("C05-R5", "thread affinity: handlers run only from the poll loop; AsyncHandshake touches the stream only through Post", 4)
	pollFn := p.Method("internal", "poller", "Poll")
	for _, fn := range internalFuncs {
		invokes := false
		eachInstr(fn, func(in ssa.Instruction) {
			if call, ok := in.(ssa.CallInstruction); ok && isDynamicFuncCall(call) && fromPosts(call.Common().Value, posts) {
				invokes = true
			}
		})
		if !invokes {
			continue
		}
		if fn == pollFn {
			c.ok(fn, "runs handlers", fn.Pos(), "handlers run in Poll")
			continue
		}
		// every chain of in-package callers ends in (*poller).Poll
		good := true
		seenUp := map[*ssa.Function]bool{}
		var up func(f *ssa.Function, d int)
		up = func(f *ssa.Function, d int) {
			if f == pollFn || seenUp[f] {
				return
			}
			seenUp[f] = true
			cs := p.callers(f)
			if len(cs) == 0 || d > 4 {
				good = false
				return
			}
			if obj := f.Object(); obj != nil && obj.Exported() {
				good = false // callable from outside
			}
			for _, cs1 := range cs {
				up(cs1.Parent(), d+1)
			}
		}
		up(fn, 0)
		c.check(good, fn, "runs handlers", fn.Pos(), "only called from (*poller).Poll", "posted handlers are run by a function that is called from outside (*poller).Poll")
	}
	{
		state := p.Field("codec/websocket", "Stream", "state")
		postM := p.Method("sonic", "IO", "Post").Object().(*types.Func)
		ah := p.Method("codec/websocket", "Stream", "AsyncHandshake")
		var cbParam ssa.Value
		for _, prm := range ah.Params {
			if prm.Name() == "callback" {
				cbParam = prm
			}
		}
		if cbParam == nil {
			for _, prm := range ah.Params {
				if sig, ok := prm.Type().Underlying().(*types.Signature); ok && sig.Params().Len() == 1 {
					cbParam = prm
				}
			}
		}
		if cbParam == nil {
			infra("anchor: callback parameter of AsyncHandshake not found")
		}
		goCount := 0
		for _, fn := range withClosures(ah) {
			eachInstr(fn, func(in ssa.Instruction) {
				g, ok := in.(*ssa.Go)
				if !ok {
					return
				}
				goCount++
				var root *ssa.Function
				if mc, ok := g.Call.Value.(*ssa.MakeClosure); ok {
					root = mc.Fn.(*ssa.Function)
				} else if sc := g.Call.StaticCallee(); sc != nil {
					root = sc
				}
				if root == nil {
					c.unproven(fn, "go statement", g.Pos(), "cannot resolve the function started by the go statement")
					return
				}
				// reachable set, not descending into closures handed to Post
				reach := map[*ssa.Function]bool{}
				posted := map[*ssa.Function]bool{}
				var visit func(f *ssa.Function)
				visit = func(f *ssa.Function) {
					if f == nil || reach[f] || f.Blocks == nil {
						return
					}
					pk := fnTypesPkg(f)
					if pk == nil || p.Pkgs[pk.Path()] == nil {
						return
					}
					reach[f] = true
					eachInstr(f, func(in ssa.Instruction) {
						if call, ok := in.(ssa.CallInstruction); ok {
							if isCallTo(in, postM) {
								for _, a := range call.Common().Args {
									if mc, ok := a.(*ssa.MakeClosure); ok {
										posted[mc.Fn.(*ssa.Function)] = true
									}
								}
							}
							if sc := call.Common().StaticCallee(); sc != nil {
								visit(sc)
							}
						}
					})
					eachInstr(f, func(in ssa.Instruction) {
						if mc, ok := in.(*ssa.MakeClosure); ok {
							cf := mc.Fn.(*ssa.Function)
							if !posted[cf] {
								visit(cf)
							}
						}
					})
				}
				visit(root)
				bad := false
				for f := range reach {
					for _, s := range storesTo(f, state) {
						bad = true
						c.bad(f, "store Stream.state", s.Instr.Pos(), "the stream state is written on the goroutine started by AsyncHandshake instead of inside the posted closure")
					}
					eachInstr(f, func(in ssa.Instruction) {
						call, ok := in.(ssa.CallInstruction)
						if !ok || !isDynamicFuncCall(call) {
							return
						}
						if resolveCell(call.Common().Value) == cbParam {
							bad = true
							c.bad(f, "user callback", in.Pos(), "the user's callback is invoked on the goroutine started by AsyncHandshake instead of on the loop")
						}
					})
				}
				if !bad {
					c.ok(fn, "go statement", g.Pos(), "%d functions reachable from the goroutine neither write the stream state nor call the user callback", len(reach))
				}
				// every completion of the background handshake goes through Post
				nPost := 0
				for f := range reach {
					for _, pc := range callsTo(f, postM) {
						nPost++
						okp, why := mustPassAt(f.Blocks[0], 0, func(in ssa.Instruction) bool { return in == pc.(ssa.Instruction) })
						c.check(okp, f, "Post", pc.Pos(), "every path of the completion closure posts back to the loop", "a path of the background handshake completion does not post back to the loop: "+why)
						// the posted closure calls the user callback on every path
						for _, a := range pc.Common().Args {
							mc, ok := a.(*ssa.MakeClosure)
							if !ok {
								continue
							}
							pf := mc.Fn.(*ssa.Function)
							okc, why := mustPassAt(pf.Blocks[0], 0, func(in ssa.Instruction) bool {
								call, ok := in.(ssa.CallInstruction)
								return ok && isDynamicFuncCall(call) && resolveCell(call.Common().Value) == cbParam
							})
							c.check(okc, pf, "user callback", pf.Pos(), "the posted closure invokes the user callback on every path", "the posted closure can return without invoking the user callback: "+why)
						}
					}
				}
				if nPost == 0 {
					c.bad(fn, "Post", g.Pos(), "the background handshake never posts its result back to the loop")
				}
			})
		}
		if goCount == 0 {
			c.Notes = append(c.Notes, "AsyncHandshake starts no goroutine any more")
		}
	}

	// ------------------------------------------------------------------------------------------------ R6
	// The kernel keeps the address of the slot a registration was made with (epoll data), invisibly to the garbage
	// collector: the slot of the waker has to be the one inside the object the poller holds. An accessor with a value
	// receiver hands out the address of a field of a *copy*, which nothing on the heap refers to once the call returns.
	c.rule("C05-R6", "a *Slot handed out by an accessor is an interior pointer of the receiver's object, never of a by-value copy of it (the waker's registration must stay reachable from the poller)", 1)
	{
		slotT := p.Named("internal", "Slot")
		n := 0
		for _, fn := range p.Funcs {
			if fn.Parent() != nil || fn.Blocks == nil || fn.Signature.Results().Len() == 0 {
				continue
			}
			returnsSlot := false
			for i := 0; i < fn.Signature.Results().Len(); i++ {
				if pt, ok := fn.Signature.Results().At(i).Type().(*types.Pointer); ok && types.Identical(pt.Elem(), slotT) {
					returnsSlot = true
				}
			}
			if !returnsSlot {
				continue
			}
			n++
			bad := ""
			for _, r := range returnsOf(fn) {
				for _, res := range r.Results {
					if pt, ok := res.Type().(*types.Pointer); !ok || !types.Identical(pt.Elem(), slotT) {
						continue
					}
					for _, leaf := range append(phiLeaves(res), strip(res)) {
						root, ff := rootOfAddr(leaf)
						a, isAlloc := root.(*ssa.Alloc)
						if !isAlloc || ff == nil {
							continue
						}
						// the allocation holds a copy of a by-value parameter (the receiver included)
						eachInstr(fn, func(in ssa.Instruction) {
							if st, ok := in.(*ssa.Store); ok && st.Addr == ssa.Value(a) {
								if prm, isPrm := st.Val.(*ssa.Parameter); isPrm {
									bad = prm.Name()
								}
							}
						})
					}
				}
			}
			c.check(bad == "", fn, "slot address", fn.Pos(), "the slot handed out lives in the caller's object", "the *Slot returned is the address of a field of a copy of the by-value parameter "+bad+": a registration made with it is invisible to the garbage collector (nothing refers to the copy), the loop later reads a recycled slot, does not recognise the waker event and posted handlers never run")
		}
		if n == 0 {
			c.bad(efdRead, "slot address", efdRead.Pos(), "no accessor returning a *Slot was found (anchor moved)")
		}
		// the same for a slot address taken in place: a method with a value receiver that registers &x.slot
		for _, fn := range p.Funcs {
			eachInstr(fn, func(in ssa.Instruction) {
				call, ok := in.(ssa.CallInstruction)
				if !ok || call.Common().StaticCallee() == nil {
					return
				}
				for _, arg := range call.Common().Args {
					pt, isPtr := arg.Type().(*types.Pointer)
					if !isPtr || !types.Identical(pt.Elem(), slotT) {
						continue
					}
					root, ff := rootOfAddr(strip(arg))
					a, isAlloc := root.(*ssa.Alloc)
					if !isAlloc || ff == nil {
						continue
					}
					eachInstr(a.Parent(), func(x ssa.Instruction) {
						if st, ok := x.(*ssa.Store); ok && st.Addr == ssa.Value(a) {
							if prm, isPrm := st.Val.(*ssa.Parameter); isPrm {
								c.bad(fn, "slot address", in.Pos(), "the *Slot passed to %s is the address of a field of a copy of the by-value parameter %s: a registration made with it is invisible to the garbage collector and is not the slot the owner later tests and removes", fnName(call.Common().StaticCallee()), prm.Name())
							}
						}
					})
				}
			})
		}
	}
}

// isDynamicFuncCall: a call (not defer/go of a static function) whose callee is a function value.
func isDynamicFuncCall(call ssa.CallInstruction) bool {
	cc := call.Common()
	if cc.IsInvoke() || cc.StaticCallee() != nil {
		return false
	}
	if _, ok := cc.Value.(*ssa.Builtin); ok {
		return false
	}
	_, ok := cc.Value.Type().Underlying().(*types.Signature)
	return ok
}

func isAppendOf(v ssa.Value) bool {
	call, ok := strip(v).(*ssa.Call)
	if !ok {
		return false
	}
	b, ok := call.Call.Value.(*ssa.Builtin)
	return ok && b.Name() == "append"
}

// elementsInvoked: some call in fn invokes an element of the slice value v (a load of the posts field).
func elementsInvoked(fn *ssa.Function, v ssa.Value, posts *types.Var) bool {
	found := false
	eachInstr(fn, func(in ssa.Instruction) {
		call, ok := in.(ssa.CallInstruction)
		if !ok || !isDynamicFuncCall(call) {
			return
		}
		u, ok := strip(call.Common().Value).(*ssa.UnOp)
		if !ok || u.Op != token.MUL {
			return
		}
		ia, ok := u.X.(*ssa.IndexAddr)
		if !ok {
			return
		}
		for _, leaf := range phiLeaves(ia.X) {
			if leaf == v {
				found = true
			}
		}
	})
	return found
}

func lockChangesBetween(a, b ssa.Instruction, isLock, isUnlock func(ssa.Instruction) bool) bool {
	if a.Block() != b.Block() {
		// conservative: require the same block for the swap idiom
		return true
	}
	ia, ib := instrIndex(a), instrIndex(b)
	for i := ia; i <= ib; i++ {
		in := a.Block().Instrs[i]
		if isLock(in) || isUnlock(in) {
			return true
		}
	}
	return false
}

// increasingIndex: the index is phi + positive constant (the rangeindex / for i++ idiom).
func increasingIndex(v ssa.Value) bool {
	v = stripConv(v)
	if bo, ok := v.(*ssa.BinOp); ok && bo.Op == token.ADD {
		if d, ok := constInt(bo.Y); ok && d > 0 {
			_, isPhi := stripConv(bo.X).(*ssa.Phi)
			return isPhi
		}
	}
	if ph, ok := v.(*ssa.Phi); ok {
		// for i := 0; i < n; i++ : phi [0, i+1]
		for _, e := range ph.Edges {
			if bo, ok := stripConv(e).(*ssa.BinOp); ok && bo.Op == token.ADD {
				if d, ok := constInt(bo.Y); ok && d > 0 && stripConv(bo.X) == ssa.Value(ph) {
					return true
				}
			}
		}
	}
	return false
}

// coversWholeSlice: the element address ia is computed in a loop whose index starts at 0 (or at -1 with the increment
// before the test, the form a range loop is lowered to), advances by exactly one, and whose body is entered under
// index < len(the same slice).
func coversWholeSlice(ia *ssa.IndexAddr, body *ssa.BasicBlock) bool {
	idx := stripConv(ia.Index)
	var ph *ssa.Phi
	start := int64(0)
	if bo, ok := idx.(*ssa.BinOp); ok && bo.Op == token.ADD && isConstInt(bo.Y, 1) {
		ph, _ = stripConv(bo.X).(*ssa.Phi)
		start = -1
	} else {
		ph, _ = idx.(*ssa.Phi)
	}
	if ph == nil || len(ph.Edges) != 2 {
		return false
	}
	okStart, okStep := false, false
	for _, e := range ph.Edges {
		e = stripConv(e)
		if isConstInt(e, start) {
			okStart = true
			continue
		}
		if bo, ok := e.(*ssa.BinOp); ok && bo.Op == token.ADD && isConstInt(bo.Y, 1) && stripConv(bo.X) == ssa.Value(ph) {
			okStep = true
		}
	}
	if !okStart || !okStep {
		return false
	}
	for _, l := range guardsOf(body) {
		op, x, y, ok := l.cmp()
		if !ok {
			continue
		}
		if op == token.GTR {
			op, x, y = token.LSS, y, x
		}
		if op != token.LSS || stripConv(x) != idx {
			continue
		}
		if call, ok := stripConv(y).(*ssa.Call); ok {
			if b, ok := call.Call.Value.(*ssa.Builtin); ok && b.Name() == "len" && sameSliceValue(call.Call.Args[0], ia.X) {
				return true
			}
		}
	}
	return false
}

// sameSliceValue: a and b are the same SSA value, or two loads of the same field of the same object in a function that
// never stores to that field (so both loads observe the same slice).
func sameSliceValue(a, b ssa.Value) bool {
	a, b = stripConv(a), stripConv(b)
	if a == b {
		return true
	}
	la, ok1 := a.(*ssa.UnOp)
	lb, ok2 := b.(*ssa.UnOp)
	if !ok1 || !ok2 || la.Op != token.MUL || lb.Op != token.MUL {
		return false
	}
	fa, ok1 := la.X.(*ssa.FieldAddr)
	fb, ok2 := lb.X.(*ssa.FieldAddr)
	if !ok1 || !ok2 || fa.Field != fb.Field || stripConv(fa.X) != stripConv(fb.X) {
		return false
	}
	fv, _ := fieldAddrOf(fa)
	return fv != nil && len(storesTo(la.Parent(), fv)) == 0
}
