package main

import (
	"fmt"
	"go/constant"
	"go/token"
	"go/types"
	"sort"
	"strings"

	"golang.org/x/tools/go/ssa"
)

func init() {
	register(&propertySpec{
		ID:    "C18",
		Title: "WebSocket opening handshake: sound acceptance, robust parsing, no lost bytes",
		Explanation: "Decides: (R1) request table - method GET; the four mandatory headers are set with their constant values before caller headers are applied; " +
			"the key is generated inside upgrade from crypto/rand over 16 bytes through base64.StdEncoding, and the expected accept value is derived from that same " +
			"key and the RFC GUID; (R2) acceptance iff - the nil return of upgrade is dominated by IsUpgradeRes(res) and by equality of Sec-WebSocket-Accept with the " +
			"value derived from the key that was sent (same SSA value feeds header and hash); IsUpgradeRes is status 101 and case-insensitive Upgrade: websocket; " +
			"(R3) failure => terminated - in Handshake and in the closure AsyncHandshake posts, the error edge stores StateTerminated and the success edge StateActive " +
			"before init; (R4) leftover bytes are located in the raw buffer - the offset from which bytes are moved to the read buffer derives from bytes.Index over the " +
			"received bytes (+4), never from a re-serialisation (net/http/httputil, Response.Write); (R5) the response is read in a loop that ends on the header " +
			"terminator; (R6) reset completeness - every Stream field written by the session API is re-initialised by reset() or init(). " +
			"Not decided: tolerance of net/http's parser to header order/case/whitespace (library behaviour), the server closing mid-handshake.",
		Run: runC18,
	})
	addMutants("C18",
		mutant{"version header dropped", "codec/websocket/stream.go",
			"\treq.Header.Set(\"Sec-Websocket-Version\", \"13\")\n", "", "C18-R1"},
		mutant{"caller headers applied first", "codec/websocket/stream.go",
			"\tsentKey, expectedKey := s.makeHandshakeKey()\n\treq.Header.Set(\"Upgrade\", \"websocket\")\n\treq.Header.Set(\"Connection\", \"upgrade\")\n\treq.Header.Set(\"Sec-WebSocket-Key\", string(sentKey))\n\treq.Header.Set(\"Sec-Websocket-Version\", \"13\")\n\n\tfor _, header := range headers {\n\t\tif header.CanonicalKey {\n\t\t\treq.Header.Del(header.Key)\n\t\t\tfor _, value := range header.Values {\n\t\t\t\treq.Header.Add(header.Key, value)\n\t\t\t}\n\t\t} else {\n\t\t\tdelete(req.Header, header.Key)\n\t\t\treq.Header[header.Key] = append(\n\t\t\t\treq.Header[header.Key],\n\t\t\t\theader.Values...,\n\t\t\t)\n\t\t}\n\t}\n",
			"\tfor _, header := range headers {\n\t\tif header.CanonicalKey {\n\t\t\treq.Header.Del(header.Key)\n\t\t\tfor _, value := range header.Values {\n\t\t\t\treq.Header.Add(header.Key, value)\n\t\t\t}\n\t\t} else {\n\t\t\tdelete(req.Header, header.Key)\n\t\t\treq.Header[header.Key] = append(\n\t\t\t\treq.Header[header.Key],\n\t\t\t\theader.Values...,\n\t\t\t)\n\t\t}\n\t}\n\tsentKey, expectedKey := s.makeHandshakeKey()\n\treq.Header.Set(\"Upgrade\", \"websocket\")\n\treq.Header.Set(\"Connection\", \"upgrade\")\n\treq.Header.Set(\"Sec-WebSocket-Key\", string(sentKey))\n\treq.Header.Set(\"Sec-Websocket-Version\", \"13\")\n", "C18-R1"},
		mutant{"key is 8 random bytes", "codec/websocket/stream.go",
			"\tb := make([]byte, 16)\n\t_, _ = rand.Read(b)\n\treq = base64.StdEncoding.EncodeToString(b)\n\n\t// response", "\tb := make([]byte, 8)\n\t_, _ = rand.Read(b)\n\treq = base64.StdEncoding.EncodeToString(b)\n\n\t// response", "C18-R1"},
		mutant{"key not random", "codec/websocket/stream.go",
			"\tb := make([]byte, 16)\n\t_, _ = rand.Read(b)\n\treq = base64.StdEncoding.EncodeToString(b)\n\n\t// response", "\tb := make([]byte, 16)\n\t_ = rand.Reader\n\treq = base64.StdEncoding.EncodeToString(b)\n\n\t// response", "C18-R1"},
		mutant{"accept key not checked", "codec/websocket/stream.go",
			"\tif key := res.Header.Get(\"Sec-WebSocket-Accept\"); key != expectedKey {\n\t\treturn ErrCannotUpgrade\n\t}\n", "\t_ = expectedKey\n", "C18-R2"},
		mutant{"any 1xx status accepted", "codec/websocket/rfc6455.go",
			"\treturn res.StatusCode == 101 &&", "\treturn res.StatusCode < 200 &&", "C18-R2"},
		mutant{"upgrade header not required", "codec/websocket/rfc6455.go",
			"\treturn res.StatusCode == 101 &&\n\t\tstrings.EqualFold(res.Header.Get(\"Upgrade\"), \"websocket\")", "\treturn res.StatusCode == 101", "C18-R2"},
		mutant{"failed handshake leaves the stream in handshake state", "codec/websocket/stream.go",
			"\tif err != nil {\n\t\ts.state = StateTerminated\n\t} else {\n\t\ts.state = StateActive\n\t\terr = s.init(stream)\n\t}\n\n\treturn\n}", "\tif err == nil {\n\t\ts.state = StateActive\n\t\terr = s.init(stream)\n\t}\n\n\treturn\n}", "C18-R3"},
		mutant{"leftover offset from the re-serialised response", "codec/websocket/stream.go",
			"\tresLen := len(s.handshakeBuffer)\n\tif ix := bytes.Index(s.handshakeBuffer, []byte(\"\\r\\n\\r\\n\")); ix >= 0 {\n\t\tresLen = ix + 4\n\t}",
			"\tvar dump bytes.Buffer\n\t_ = res.Write(&dump)\n\tresLen := dump.Len()", "C18-R4"},
		mutant{"leftover starts at the blank line", "codec/websocket/stream.go",
			"\t\tresLen = ix + 4\n", "\t\tresLen = ix + 2\n", "C18-R4"},
		mutant{"single read of the response", "codec/websocket/stream.go",
			"\tfor n < len(s.handshakeBuffer) && !bytes.Contains(s.handshakeBuffer[:n], []byte(\"\\r\\n\\r\\n\")) {\n\t\tnn, err := stream.Read(s.handshakeBuffer[n:])\n\t\tif err != nil {\n\t\t\treturn err\n\t\t}\n\t\tn += nn\n\t}",
			"\t{\n\t\tnn, err := stream.Read(s.handshakeBuffer[n:])\n\t\tif err != nil {\n\t\t\treturn err\n\t\t}\n\t\tn += nn\n\t}", "C18-R5"},
		mutant{"hasher reused without reset", "codec/websocket/stream.go",
			"\ts.hasher.Reset()\n\ts.hasher.Write(resKey)", "\ts.hasher.Write(resKey)", "C18-R1"},
		mutant{"handshake buffer parsed at full length", "codec/websocket/stream.go",
			"\ts.handshakeBuffer = s.handshakeBuffer[:n]\n\trd := bytes.NewReader", "\trd := bytes.NewReader", "C18-R4"},
		mutant{"terminator searched in the newest bytes only", "codec/websocket/stream.go",
			"\tn := 0\n\tfor n < len(s.handshakeBuffer) && !bytes.Contains(s.handshakeBuffer[:n], []byte(\"\\r\\n\\r\\n\")) {\n\t\tnn, err := stream.Read(s.handshakeBuffer[n:])\n\t\tif err != nil {\n\t\t\treturn err\n\t\t}\n\t\tn += nn\n\t}",
			"\tn, scanned := 0, 0\n\tfor n < len(s.handshakeBuffer) {\n\t\tnn, err := stream.Read(s.handshakeBuffer[n:])\n\t\tif err != nil {\n\t\t\treturn err\n\t\t}\n\t\tn += nn\n\t\tif bytes.Contains(s.handshakeBuffer[scanned:n], []byte(\"\\r\\n\\r\\n\")) {\n\t\t\tbreak\n\t\t}\n\t\tscanned = n\n\t}", "C18-R5"},
		mutant{"failed handshake closes the connection inside RawConn.Control", "codec/websocket/stream.go",
			"\t\t\tif err != nil {\n\t\t\t\tfailed, s.conn = s.conn, nil\n\t\t\t}\n", "\t\t\tif err != nil {\n\t\t\t\t_ = s.CloseNextLayer()\n\t\t\t}\n", "C18-R7"},
		mutant{"reset skips the buffers when no session was established", "codec/websocket/stream.go",
			"\ts.conn = nil\n\ts.src.Reset()", "\ts.conn = nil\n\tif s.stream == nil {\n\t\treturn\n\t}\n\ts.src.Reset()", "C18-R6"},
		mutant{"pending frames survive a re-handshake", "codec/websocket/stream.go",
			"\tfor _, f := range s.pendingFrames {\n\t\ts.releaseFrame(f)\n\t}\n\ts.pendingFrames = s.pendingFrames[:0]\n}", "}", "C18-R6"},
		mutant{"read buffer survives a re-handshake", "codec/websocket/stream.go",
			"\ts.conn = nil\n\ts.src.Reset()\n\ts.dst.Reset()", "\ts.conn = nil\n\ts.dst.Reset()", "C18-R6"},
	)
}

func constString(v ssa.Value) (string, bool) {
	c, ok := stripConv(v).(*ssa.Const)
	if !ok || c.Value == nil || c.Value.Kind() != constant.String {
		return "", false
	}
	return constant.StringVal(c.Value), true
}

func runC18(c *Ctx) {
	p := c.P
	ws := "codec/websocket"
	w := wsAnchor(p)
	upgrade := p.Method(ws, "Stream", "upgrade")
	mkKey := p.Method(ws, "Stream", "makeHandshakeKey")
	isUpgradeRes := p.Fn(ws, "IsUpgradeRes")
	hsBuf := p.Field(ws, "Stream", "handshakeBuffer")
	srcF := p.Field(ws, "Stream", "src")
	dstF := p.Field(ws, "Stream", "dst")
	hdrSet := p.ExtMethod("net/http", "Header", "Set")
	hdrGet := p.ExtMethod("net/http", "Header", "Get")
	bbWrite := p.Method("sonic", "ByteBuffer", "Write")

	// ------------------------------------------------------------------------------------------------ R1
	c.rule("C18-R1", "upgrade request: GET, mandatory headers with their values, set before caller headers; fresh 16-byte random base64 key; expected accept derived from that key and the GUID", 4)
	var keyCall *ssa.Call
	{
		newReq := p.ExtFunc("net/http", "NewRequest")
		okGet := false
		for _, call := range callsTo(upgrade, newReq) {
			if s, ok := constString(call.Common().Args[0]); ok && s == "GET" {
				okGet = true
			}
		}
		c.check(okGet, upgrade, "method", upgrade.Pos(), "request method is GET", "the upgrade request is not built with method GET")
		for _, call := range callsToFn(upgrade, mkKey) {
			keyCall = call.(*ssa.Call)
		}
		if keyCall == nil {
			c.bad(upgrade, "key", upgrade.Pos(), "upgrade does not generate a fresh key (makeHandshakeKey) for this handshake")
		}
		want := map[string]string{"upgrade": "websocket", "connection": "upgrade", "sec-websocket-version": "13", "sec-websocket-key": "<key>"}
		got := map[string]string{}
		var sets []ssa.Instruction
		for _, call := range callsTo(upgrade, hdrSet) {
			k, ok := constString(call.Common().Args[1])
			if !ok {
				continue
			}
			v := "?"
			if s, ok := constString(call.Common().Args[2]); ok {
				v = strings.ToLower(s)
			} else if keyCall != nil {
				if ex, ok := stripConv(call.Common().Args[2]).(*ssa.Extract); ok && ex.Tuple == ssa.Value(keyCall) && ex.Index == 0 {
					v = "<key>"
				}
			}
			got[strings.ToLower(k)] = v
			sets = append(sets, call.(ssa.Instruction))
		}
		good := true
		for k, v := range want {
			if got[k] != v {
				good = false
			}
		}
		c.check(good, upgrade, "mandatory headers", upgrade.Pos(), fmt.Sprintf("%v", sortedMap(got)), fmt.Sprintf("the mandatory upgrade headers are %v, RFC 6455 requires %v", sortedMap(got), sortedMap(want)))
		// caller headers after the mandatory ones: every other mutation of req.Header is dominated by all Set calls
		hdrDel := p.ExtMethod("net/http", "Header", "Del")
		hdrAdd := p.ExtMethod("net/http", "Header", "Add")
		late := true
		n := 0
		eachInstr(upgrade, func(in ssa.Instruction) {
			isMut := doesDeep(in, func(x ssa.Instruction) bool {
				if isCallTo(x, hdrDel, hdrAdd) {
					return true
				}
				_, ok := x.(*ssa.MapUpdate)
				return ok
			})
			if !isMut {
				return
			}
			n++
			for _, s := range sets {
				if !dominatesInstr(s, in) {
					late = false
				}
			}
		})
		c.check(late && n > 0, upgrade, "caller headers", upgrade.Pos(), "caller supplied headers are applied after the mandatory ones", "caller supplied headers are applied before (or instead of after) the mandatory headers: they are overwritten or cannot override defaults")
		// key generation
		randRead := p.ExtFunc("crypto/rand", "Read")
		encode := p.ExtMethod("encoding/base64", "Encoding", "EncodeToString")
		guid := p.GlobalVar(ws, "GUID")
		goodKey := false
		why := "the key is not 16 bytes from crypto/rand encoded with base64"
		var keyVal ssa.Value
		for _, rc := range callsTo(mkKey, randRead) {
			buf := rc.Common().Args[0]
			if n, ok := constSliceLen(buf); ok && n == 16 {
				for _, ec := range callsTo(mkKey, encode) {
					if ec.Common().Args[1] == buf && dominatesInstr(rc.(ssa.Instruction), ec.(ssa.Instruction)) {
						goodKey = true
						keyVal = ec.(ssa.Value)
					}
				}
			}
		}
		if goodKey {
			// returned as result 0, and hashed together with the GUID for result 1
			ret := returnsOf(mkKey)
			okRet := len(ret) == 1 && stripConv(resolveCell(ret[0].Results[0])) == keyVal
			hashed, withGuid := false, false
			eachInstr(mkKey, func(in ssa.Instruction) {
				call, ok := in.(ssa.CallInstruction)
				if !ok || !call.Common().IsInvoke() || call.Common().Method.Name() != "Write" {
					return
				}
				if dependsOn(call.Common().Args[0], keyVal) {
					hashed = true
				}
				eachInstr(mkKey, func(x ssa.Instruction) {
					if v, ok := x.(ssa.Value); ok && isLoadOfGlobal(v, guid) && dependsOn(call.Common().Args[0], v) {
						withGuid = true
					}
				})
			})
			sumUsed := false
			if len(ret) == 1 {
				if ec, ok := stripConv(resolveCell(ret[0].Results[1])).(*ssa.Call); ok && isCallTo(ec, encode) {
					eachInstr(mkKey, func(in ssa.Instruction) {
						call, ok := in.(ssa.CallInstruction)
						if ok && call.Common().IsInvoke() && call.Common().Method.Name() == "Sum" {
							if v, isV := in.(ssa.Value); isV && dependsOn(ec.Call.Args[1], v) {
								sumUsed = true
							}
						}
					})
				}
			}
			if !(okRet && hashed && withGuid && sumUsed) {
				goodKey = false
				why = fmt.Sprintf("the expected accept value is not base64(sha1(key + GUID)) of the key that is returned for sending (key returned=%v hashed=%v guid=%v digest used=%v)", okRet, hashed, withGuid, sumUsed)
			}
		}
		c.check(goodKey, mkKey, "key generation", mkKey.Pos(), "16 random bytes, base64; accept value derived from the same key and the GUID", why)
	}

	// ------------------------------------------------------------------------------------------------ R2
	// the accept value is computed by a hash that starts empty: Reset precedes Write in makeHandshakeKey (the hasher is
	// reused across handshakes)
	{
		var resets, writes []ssa.Instruction
		eachInstr(mkKey, func(in ssa.Instruction) {
			call, ok := in.(ssa.CallInstruction)
			if !ok || !call.Common().IsInvoke() {
				return
			}
			if n, ok := call.Common().Value.Type().(*types.Named); !ok || n.Obj().Pkg() == nil || n.Obj().Pkg().Path() != "hash" {
				return
			}
			switch call.Common().Method.Name() {
			case "Reset":
				resets = append(resets, in)
			case "Write":
				writes = append(writes, in)
			}
		})
		fresh := len(writes) > 0
		for _, w := range writes {
			dom := false
			for _, r := range resets {
				if dominatesInstr(r, w) {
					dom = true
				}
			}
			if !dom {
				fresh = false
			}
		}
		c.check(fresh, mkKey, "fresh hash", mkKey.Pos(), "the hasher is reset before the key is hashed", "the expected accept value is hashed without resetting the reused hasher: from the second handshake on it covers the previous keys as well and a conforming server is refused")
	}

	c.rule("C18-R2", "acceptance iff status 101, Upgrade: websocket (case-insensitive) and Sec-WebSocket-Accept equal to the value derived from the key sent", 2)
	{
		n := 0
		for _, r := range returnsOf(upgrade) {
			if !isNil(r.Results[0]) {
				continue
			}
			n++
			okRes, okKey := false, false
			for _, l := range guardsOf(r.Block()) {
				if _, pos, ok := callLit(l, isUpgradeRes); ok && pos {
					okRes = true
				}
				op, x, y, ok := l.cmp()
				if ok && op == token.EQL && keyCall != nil {
					isExp := func(v ssa.Value) bool {
						ex, ok := stripConv(v).(*ssa.Extract)
						return ok && ex.Tuple == ssa.Value(keyCall) && ex.Index == 1
					}
					isAccept := func(v ssa.Value) bool {
						call, ok := stripConv(v).(*ssa.Call)
						if !ok || !isCallTo(call, hdrGet) {
							return false
						}
						s, ok := constString(call.Call.Args[1])
						return ok && strings.EqualFold(s, "Sec-WebSocket-Accept")
					}
					if (isExp(x) && isAccept(y)) || (isExp(y) && isAccept(x)) {
						okKey = true
					}
				}
			}
			c.check(okRes && okKey, upgrade, "accept", exitPos(r), "accepted only with a 101 upgrade response carrying the expected accept value", fmt.Sprintf("upgrade reports success without both checks (upgrade response=%v, accept value equals the one derived from the key sent=%v): a server that does not speak WebSocket is accepted", okRes, okKey))
		}
		if n == 0 {
			c.bad(upgrade, "accept", upgrade.Pos(), "upgrade never succeeds")
		}
		// IsUpgradeRes
		status := false
		fold := false
		eachInstr(isUpgradeRes, func(in ssa.Instruction) {
			if bo, ok := in.(*ssa.BinOp); ok && bo.Op == token.EQL && isConstInt(bo.Y, 101) {
				if f := loadedField(bo.X); f != nil && f.Name() == "StatusCode" {
					status = true
				}
			}
			if call, ok := in.(*ssa.Call); ok && call.Call.StaticCallee() != nil && call.Call.StaticCallee().String() == "strings.EqualFold" {
				if s, ok := constString(call.Call.Args[1]); ok && strings.EqualFold(s, "websocket") {
					if gc, ok := stripConv(call.Call.Args[0]).(*ssa.Call); ok && isCallTo(gc, hdrGet) {
						if k, ok := constString(gc.Call.Args[1]); ok && strings.EqualFold(k, "Upgrade") {
							fold = true
						}
					}
				}
			}
		})
		// result is the conjunction: every `true` result is guarded by both
		conj := true
		others := 0
		eachInstr(isUpgradeRes, func(in ssa.Instruction) {
			if bo, ok := in.(*ssa.BinOp); ok {
				switch bo.Op {
				case token.EQL:
				default:
					others++
				}
			}
		})
		if others > 0 {
			conj = false
		}
		c.check(status && fold && conj, isUpgradeRes, "IsUpgradeRes", isUpgradeRes.Pos(), "status == 101 and Upgrade equals websocket ignoring case", "IsUpgradeRes does not require exactly status 101 together with a case-insensitive 'Upgrade: websocket' header")
	}

	// ------------------------------------------------------------------------------------------------ R3
	c.rule("C18-R3", "handshake failure leaves the stream terminated; success stores StateActive before init", 2)
	{
		initM := p.Method(ws, "Stream", "init")
		hs := p.Method(ws, "Stream", "Handshake")
		ah := p.Method(ws, "Stream", "AsyncHandshake")
		// the functions that decide the outcome: whoever calls init (Handshake itself, the closure AsyncHandshake posts,
		// or a helper both share)
		var sites []*ssa.Function
		for _, f := range wsFuncs(p) {
			if f != initM && len(callsToFn(f, initM)) > 0 {
				sites = append(sites, f)
			}
		}
		for _, entry := range []*ssa.Function{hs, ah} {
			reaches := false
			for _, f := range withClosures(entry) {
				for _, site := range sites {
					if f == site || len(callsToFn(f, site)) > 0 {
						reaches = true
					}
				}
			}
			c.check(reaches, entry, "outcome decided", entry.Pos(), "reaches the code that turns the handshake result into Terminated / Active+init", "the handshake result is never turned into a stream state: a failed handshake leaves a half-open stream, or an accepted one is never initialised")
		}
		for _, fn := range sites {
			c.touch(fn)
			paths, overflow := enumPaths(fn)
			if overflow {
				c.unproven(fn, "paths", fn.Pos(), "too many paths")
				continue
			}
			good := true
			why := ""
			n := 0
			for _, path := range paths {
				pi := newPathIndex(path)
				term, act, inited := -1, -1, -1
				for i, in := range pi.instrs {
					if st, ok := in.(*ssa.Store); ok {
						if fv, _ := fieldAddrOf(st.Addr); fv == w.state {
							if k, ok := constInt(st.Val); ok && k == w.stTerm {
								term = i
							} else if ok && k == w.stActive {
								act = i
							}
						}
					}
					if isCallToFn(in, initM) {
						inited = i
					}
				}
				if term < 0 && act < 0 {
					continue // e.g. wrong role: the stream is not touched
				}
				n++
				// which branch? literal on the handshake error
				failed := ""
				for _, l := range path.Lits {
					if _, eq, ok := l.nilTest(); ok {
						if eq {
							failed = "no"
						} else {
							failed = "yes"
						}
						break
					}
				}
				switch {
				case failed == "yes" && (term < 0 || act >= 0):
					good, why = false, "on the failing edge the stream is not left in StateTerminated"
				case failed == "no" && (act < 0 || inited < act || term >= 0):
					good, why = false, "on the success edge StateActive is not stored before init"
				}
			}
			if n < 2 {
				good, why = false, "the handshake result does not drive both a terminated and an active outcome"
			}
			c.check(good, fn, "handshake outcome", fn.Pos(), "error -> Terminated, success -> Active then init", why+": a failed handshake leaves a half-open stream, or an accepted one is never initialised")
		}
	}

	// ------------------------------------------------------------------------------------------------ R4
	c.rule("C18-R4", "bytes after the response are located in the raw buffer: offset = bytes.Index(received, CRLFCRLF)+4, not a re-serialisation", 1)
	{
		bytesIndex := p.ExtFunc("bytes", "Index")
		n := 0
		for _, call := range callsToFn(upgrade, bbWrite) {
			if !loadOfField(call.Common().Args[0], srcF) {
				continue
			}
			sl, ok := stripConv(call.Common().Args[1]).(*ssa.Slice)
			if !ok || !loadOfField(sl.X, hsBuf) || sl.Low == nil {
				c.bad(upgrade, "leftover", call.Pos(), "the bytes moved to the read buffer are not a tail of the handshake buffer")
				continue
			}
			n++
			good := false
			why := "the leftover offset is not derived from the position of the blank line in the received bytes"
			// the candidate values of the offset: the phi leaves, or - when an unexported helper computes it from the
			// handshake buffer - the leaves of what the helper returns, with its parameter standing for the buffer
			type cand struct {
				v   ssa.Value
				buf func(ssa.Value) bool
			}
			var cands []cand
			isBuf := func(v ssa.Value) bool { return loadOfField(v, hsBuf) }
			for _, leaf := range phiLeaves(sl.Low) {
				if hc, ok := stripConv(leaf).(*ssa.Call); ok && isHelperOf(upgrade, hc.Call.StaticCallee()) {
					h := hc.Call.StaticCallee()
					prmIsBuf := func(v ssa.Value) bool {
						q, ok := stripConv(v).(*ssa.Parameter)
						if !ok {
							return false
						}
						for i, hp := range h.Params {
							if hp == q && i < len(hc.Call.Args) && loadOfField(hc.Call.Args[i], hsBuf) {
								return true
							}
						}
						return false
					}
					for _, hr := range returnsOf(h) {
						for _, l2 := range phiLeaves(hr.Results[0]) {
							cands = append(cands, cand{l2, prmIsBuf})
						}
					}
					continue
				}
				cands = append(cands, cand{leaf, isBuf})
			}
			for _, cd := range cands {
				leaf := cd.v
				bo, ok := stripConv(leaf).(*ssa.BinOp)
				if !ok || bo.Op != token.ADD {
					continue
				}
				ic, ok := stripConv(bo.X).(*ssa.Call)
				if !ok || !isCallTo(ic, bytesIndex) {
					continue
				}
				sep, okSep := constString(ic.Call.Args[1])
				if !cd.buf(ic.Call.Args[0]) || !okSep || sep != "\r\n\r\n" {
					continue
				}
				if isConstInt(bo.Y, 4) {
					good = true
				} else {
					why = "the leftover offset is the position of the blank line plus something other than 4"
				}
			}
			// banned sources
			eachInstr(upgrade, func(in ssa.Instruction) {
				call, ok := in.(ssa.CallInstruction)
				if !ok {
					return
				}
				banned := false
				if callee := call.Common().StaticCallee(); callee != nil {
					full := callee.String()
					if strings.HasPrefix(full, "net/http/httputil.") || full == "(*net/http.Response).Write" {
						banned = true
					}
				}
				if !banned {
					return
				}
				eachInstr(upgrade, func(x ssa.Instruction) {
					if v, ok := x.(ssa.Value); ok && dependsOn(sl.Low, v) {
						if xc, ok := x.(*ssa.Call); ok && xc.Call.StaticCallee() != nil && strings.Contains(xc.Call.StaticCallee().String(), "Len") {
							good = false
							why = "the leftover offset comes from a re-serialised response"
						}
					}
				})
				if v, ok := in.(ssa.Value); ok && dependsOn(sl.Low, v) {
					good = false
					why = "the leftover offset comes from a re-serialised response"
				}
			})
			c.check(good, upgrade, "leftover", call.Pos(), "offset = index of the blank line in the received bytes + 4", why+": frames piggy-backed on the response are lost, truncated or preceded by header bytes")
			// only bytes that were received are parsed and handed on: the buffer is cut to the received count before
			var readCount ssa.Value
			reader, readerCall := responseReader(upgrade)
			eachInstr(reader, func(in ssa.Instruction) {
				rc, ok := in.(ssa.CallInstruction)
				if !ok || !rc.Common().IsInvoke() || rc.Common().Method.Name() != "Read" {
					return
				}
				if rs, ok := stripConv(rc.Common().Args[0]).(*ssa.Slice); ok && loadOfField(rs.X, hsBuf) && rs.Low != nil {
					readCount = stripConv(rs.Low)
				}
			})
			cut := false
			for _, a := range storesTo(reader, hsBuf) {
				cs, ok := stripConv(a.Val).(*ssa.Slice)
				if !ok || !loadOfField(cs.X, hsBuf) || cs.High == nil || readCount == nil {
					continue
				}
				same := stripConv(cs.High) == readCount
				if ph, ok := readCount.(*ssa.Phi); ok && !same {
					for _, e := range ph.Edges {
						if stripConv(e) == stripConv(cs.High) {
							same = true
						}
					}
				}
				if same && readerCall == nil && dominatesInstr(a.Instr, call.(ssa.Instruction)) {
					cut = true
				}
				// read in a helper: cut before each of its successful returns, and the helper runs before the parse
				if same && readerCall != nil && dominatesInstr(readerCall, call.(ssa.Instruction)) {
					cut = true
					for _, r := range returnsOf(reader) {
						ei := errorResultIndex(reader.Signature)
						if ei >= 0 && !isNil(r.Results[ei]) {
							continue
						}
						if !dominatesInstr(a.Instr, r) {
							cut = false
						}
					}
				}
			}
			c.check(cut, upgrade, "received prefix", call.Pos(), "the handshake buffer is cut to the bytes received before it is parsed", "the handshake buffer is parsed / handed to the read buffer at its full length, not cut to the bytes received: stale bytes of an earlier handshake (or zeroes) are decoded as frames")
		}
		if n == 0 {
			c.bad(upgrade, "leftover", upgrade.Pos(), "bytes received after the response are not handed to the read buffer")
		}
	}

	// ------------------------------------------------------------------------------------------------ R5
	c.rule("C18-R5", "the response is read in a loop whose exit depends on the header terminator and on the buffer being full; the buffer is opened to its capacity first", 1)
	{
		n := 0
		reader, _ := responseReader(upgrade)
		eachInstr(reader, func(in ssa.Instruction) {
			call, ok := in.(ssa.CallInstruction)
			if !ok || !call.Common().IsInvoke() || call.Common().Method.Name() != "Read" {
				return
			}
			sl, ok := stripConv(call.Common().Args[0]).(*ssa.Slice)
			if !ok || !loadOfField(sl.X, hsBuf) {
				return
			}
			n++
			looped := inLoop(in)
			term := false
			window := true
			eachInstr(reader, func(x ssa.Instruction) {
				ifi, ok := x.(*ssa.If)
				if !ok || !inLoop(x) {
					return
				}
				cond, _ := normLit(ifi.Cond, true)
				var bc *ssa.Call
				if cc, ok := cond.(*ssa.Call); ok {
					bc = cc
				} else if bo, ok := cond.(*ssa.BinOp); ok {
					if cc, ok := stripConv(bo.X).(*ssa.Call); ok {
						bc = cc
					}
				}
				if bc == nil || bc.Call.StaticCallee() == nil {
					return
				}
				full := bc.Call.StaticCallee().String()
				if full != "bytes.Contains" && full != "bytes.Index" {
					return
				}
				if sep, ok := constString(bc.Call.Args[1]); ok && sep == "\r\n\r\n" {
					term = true
					// the searched window must include bytes of earlier reads: the terminator can straddle two segments.
					// Accepted: the received prefix buf[:n], or a window that starts at least 3 bytes before the new bytes.
					if hs, ok := stripConv(bc.Call.Args[0]).(*ssa.Slice); ok && hs.Low != nil && !isConstInt(hs.Low, 0) {
						backs := false
						for _, leaf := range phiLeaves(hs.Low) {
							if bo, ok := stripConv(leaf).(*ssa.BinOp); ok && bo.Op == token.SUB {
								if k, ok := constInt(bo.Y); ok && k >= 3 {
									backs = true
								}
							}
						}
						if !backs {
							window = false
						}
					}
				}
			})
			c.check(window, upgrade, "terminator window", in.Pos(), "the terminator is searched in a window that overlaps earlier reads", "the header terminator is only searched in the bytes of the latest read: a response whose final CRLFCRLF is split across two segments is never recognised, Handshake blocks and the frames that follow are swallowed into the handshake buffer")
			// the loop stops when the buffer is full (strictly: a read into an empty slice returns 0 bytes for ever), and
			// the buffer was opened up to its capacity first (a second handshake must not inherit the length of the first)
			strict := false
			eachInstr(reader, func(x ssa.Instruction) {
				bo, ok := x.(*ssa.BinOp)
				if !ok || !inLoop(x) {
					return
				}
				isLen := func(v ssa.Value) bool {
					lc, ok := stripConv(v).(*ssa.Call)
					if !ok {
						return false
					}
					b, ok := lc.Call.Value.(*ssa.Builtin)
					return ok && b.Name() == "len" && loadOfField(lc.Call.Args[0], hsBuf)
				}
				if (bo.Op == token.LSS && isLen(bo.Y)) || (bo.Op == token.GTR && isLen(bo.X)) {
					strict = true
				}
				if (bo.Op == token.GEQ && isLen(bo.Y)) || (bo.Op == token.LEQ && isLen(bo.X)) {
					strict = true // the exit test `n >= len(buf)`
				}
			})
			c.check(strict, upgrade, "buffer bound", in.Pos(), "the loop runs only while received < len(buffer)", "the read loop does not stop when the handshake buffer is full (no strict received < len(buffer) test): a response longer than the buffer without a header terminator makes Handshake spin on zero-length reads instead of failing")
			opened := false
			for _, a := range storesTo(reader, hsBuf) {
				cs, ok := stripConv(a.Val).(*ssa.Slice)
				if !ok || !loadOfField(cs.X, hsBuf) || cs.High == nil {
					continue
				}
				if cc, ok := stripConv(cs.High).(*ssa.Call); ok {
					if b, ok := cc.Call.Value.(*ssa.Builtin); ok && b.Name() == "cap" && loadOfField(cc.Call.Args[0], hsBuf) && dominatesInstr(a.Instr, in) {
						opened = true
					}
				}
			}
			c.check(opened, upgrade, "buffer opened", in.Pos(), "the buffer is re-sliced to its capacity before the response is read", "the handshake buffer is not re-sliced to its capacity before reading: it still has the length the previous handshake cut it to, so a second handshake on the stream can only receive a response that is no longer than the first")
			c.check(looped && term, upgrade, "read response", in.Pos(), "reads until the blank line that ends the headers", "the response is read with a single Read (or the loop does not look for the header terminator): a response delivered in several segments fails to parse")
		})
		if n == 0 {
			c.bad(upgrade, "read response", upgrade.Pos(), "upgrade does not read the response into the handshake buffer")
		}
	}

	// ------------------------------------------------------------------------------------------------ R6
	c.rule("C18-R6", "reset completeness: every field the session API writes (and both buffers) is re-initialised by reset() or init()", 6)
	{
		initM := p.Method(ws, "Stream", "init")
		st := p.Named(ws, "Stream").Underlying().(*types.Struct)
		written := map[*types.Var][]string{}
		for _, fn := range wsFuncs(p) {
			top := fn
			for top.Parent() != nil {
				top = top.Parent()
			}
			name := top.Name()
			if name == "NewWebsocketStream" || strings.HasPrefix(name, "Set") || name == "ValidateUTF8" || top == w.reset || top == initM {
				continue
			}
			for i := 0; i < st.NumFields(); i++ {
				f := st.Field(i)
				if len(storesTo(fn, f)) > 0 {
					written[f] = append(written[f], fnName(fn))
				}
			}
		}
		reinit := map[*types.Var]bool{}
		reinitInInit := map[*types.Var]bool{}
		for _, fn := range []*ssa.Function{w.reset, initM} {
			fn := fn
			for i := 0; i < st.NumFields(); i++ {
				f := st.Field(i)
				if len(storesDeep(fn, f)) > 0 {
					reinit[f] = true
					if fn == initM {
						reinitInInit[f] = true
					}
				}
			}
			// x.Reset() on a field counts
			eachInstr(fn, func(in ssa.Instruction) {
				call, ok := in.(*ssa.Call)
				if !ok || call.Call.StaticCallee() == nil || call.Call.StaticCallee().Name() != "Reset" || len(call.Call.Args) == 0 {
					return
				}
				if f := loadedField(call.Call.Args[0]); f != nil {
					reinit[f] = true
					if fn == initM {
						reinitInInit[f] = true
					}
				}
			})
		}
		var fs []*types.Var
		for f := range written {
			fs = append(fs, f)
		}
		written[srcF] = append(written[srcF], "read path (buffered bytes)")
		written[dstF] = append(written[dstF], "write path (buffered bytes)")
		fs = append(fs, srcF, dstF)
		sort.Slice(fs, func(i, j int) bool { return fs[i].Name() < fs[j].Name() })
		seen := map[*types.Var]bool{}
		for _, f := range fs {
			if seen[f] {
				continue
			}
			seen[f] = true
			if reinit[f] && !reinitInInit[f] {
				f := f
				okp, why := mustPassAt(w.reset.Blocks[0], 0, func(in0 ssa.Instruction) bool {
					return doesDeep(in0, func(in ssa.Instruction) bool {
						if st, ok := in.(*ssa.Store); ok {
							if fv, _ := fieldAddrOf(st.Addr); fv == f {
								return true
							}
						}
						if call, ok := in.(*ssa.Call); ok && call.Call.StaticCallee() != nil && call.Call.StaticCallee().Name() == "Reset" && len(call.Call.Args) > 0 && loadedField(call.Call.Args[0]) == f {
							return true
						}
						return false
					})
				})
				c.check(okp, w.reset, "field "+f.Name()+" always", w.reset.Pos(), "re-initialised on every path of reset()", "reset() skips the re-initialisation of "+f.Name()+" on some path ("+why+"): after a failed handshake the bytes / frames of the previous attempt are still there when the stream is used again")
			}
			c.check(reinit[f], w.reset, "field "+f.Name(), w.reset.Pos(), "re-initialised for the next session", "field "+f.Name()+" is written during a session (by "+strings.Join(written[f], ", ")+") but neither reset() nor init() re-initialises it: state of the previous connection leaks into the next handshake")
		}
	}

	// ------------------------------------------------------------------------------------------------ R7
	c.rule("C18-R7", "the failure is reported: nothing that runs inside the RawConn.Control callback (dial completion, upgrade and whatever they call) closes a connection - Close would wait for the reference Control holds", 3)
	{
		under := underControl(p, newE2(p))
		for _, fn := range sortedFuncs(under) {
			c.touch(fn)
			bad := ""
			var pos token.Pos = fn.Pos()
			eachInstr(fn, func(in ssa.Instruction) {
				if bad == "" && closesConnection(in) {
					bad = under[fn]
					pos = in.Pos()
				}
			})
			c.check(bad == "", fn, "no close under Control", pos, "runs inside RawConn.Control ("+under[fn]+") and closes nothing", "a connection is closed while RawConn.Control holds a reference to its descriptor ("+bad+"): net.Conn.Close waits for that reference, the handshake never returns and its callback never runs")
		}
	}
}

func sortedMap(m map[string]string) string {
	var ks []string
	for k := range m {
		ks = append(ks, k)
	}
	sort.Strings(ks)
	var parts []string
	for _, k := range ks {
		parts = append(parts, k+": "+m[k])
	}
	return "{" + strings.Join(parts, ", ") + "}"
}

// constSliceLen: the length of a byte slice created by make([]byte, K) with constant K (go/ssa lowers it to a slice
// of a fresh array) or by a MakeSlice with constant length.
func constSliceLen(v ssa.Value) (int64, bool) {
	switch x := stripConv(v).(type) {
	case *ssa.MakeSlice:
		return constInt(x.Len)
	case *ssa.Slice:
		a, ok := x.X.(*ssa.Alloc)
		if !ok {
			return 0, false
		}
		arr, ok := a.Type().Underlying().(*types.Pointer).Elem().Underlying().(*types.Array)
		if !ok {
			return 0, false
		}
		if x.High == nil {
			return arr.Len(), true
		}
		if k, ok := constInt(x.High); ok && (x.Low == nil || isConstInt(x.Low, 0)) {
			return k, true
		}
	}
	return 0, false
}

// responseReader: the function that reads the upgrade response from the transport: upgrade itself, or the helper it
// calls that holds the Read (a refactoring split the read loop off); call is the call of that helper in upgrade.
func responseReader(upgrade *ssa.Function) (fn *ssa.Function, call *ssa.Call) {
	if len(invokesOf(upgrade, "Read")) > 0 {
		return upgrade, nil
	}
	for _, hc := range allCalls(upgrade) {
		if h := hc.Call.StaticCallee(); isHelperOf(upgrade, h) && len(invokesOf(h, "Read")) > 0 {
			return h, hc
		}
	}
	return upgrade, nil
}
