package main

import (
	"fmt"
	"go/token"
	"go/types"
	"os"
	"sort"
	"strings"

	"golang.org/x/tools/go/ssa"
)

// E6: resource ownership. A resource (descriptor, connection, mapping, temp file) acquired by a call must, on every
// path from the success of that call to a return, be transferred (returned, stored in the returned object or in a
// long-lived owner) or released. A function that returns a resource together with an error returns it released.

type acquisition struct {
	call   ssa.CallInstruction
	res    ssa.Value
	err    ssa.Value // error (or errno) result; nil if none
	errno  bool
	name   string
	resIdx int
}

type ownership struct {
	p           *Prog
	direct      map[string][2]int // "pkg.Func" -> (res index, err index)
	ownedReturn map[*ssa.Function]map[int]bool
	releases    map[*ssa.Function]map[int]bool // memo of releasesParam
	captured    map[*ssa.Function]map[int]bool // parameter index whose holder is returned
	eventfdNo   int64
}

func newOwnership(p *Prog) *ownership {
	o := &ownership{p: p, ownedReturn: map[*ssa.Function]map[int]bool{}, captured: map[*ssa.Function]map[int]bool{}, releases: map[*ssa.Function]map[int]bool{}}
	o.direct = map[string][2]int{
		"syscall.Socket": {0, 1}, "syscall.Open": {0, 1}, "syscall.Accept": {0, 2}, "syscall.EpollCreate1": {0, 1},
		"golang.org/x/sys/unix.TimerfdCreate": {0, 1}, "os.CreateTemp": {0, 1}, "net.DialTimeout": {0, 1},
		"crypto/tls.DialWithDialer": {0, 1}, "syscall.Mmap": {0, 1}, "net.Dial": {0, 1}, "os.Open": {0, 1}, "os.OpenFile": {0, 1},
		"syscall.EpollCreate": {0, 1}, "syscall.Dup": {0, 1},
	}
	if c, ok := p.extPkg("syscall").Scope().Lookup("SYS_EVENTFD2").(*types.Const); ok {
		o.eventfdNo, _ = constantInt(c.Val())
	}
	o.computeSummaries()
	return o
}

func (o *ownership) inScope(fn *ssa.Function) bool {
	if fn == nil || fn.Blocks == nil {
		return false
	}
	pk := fnTypesPkg(fn)
	return pk != nil && o.p.Pkgs[pk.Path()] != nil
}

func errorResultIndex(sig *types.Signature) int {
	for i := sig.Results().Len() - 1; i >= 0; i-- {
		if types.Identical(sig.Results().At(i).Type(), types.Universe.Lookup("error").Type()) {
			return i
		}
	}
	return -1
}

// acquisitionsIn lists the acquisition calls of fn.
func (o *ownership) acquisitionsIn(fn *ssa.Function) []acquisition {
	var out []acquisition
	eachInstr(fn, func(in ssa.Instruction) {
		call, ok := in.(*ssa.Call)
		if !ok {
			return
		}
		callee := call.Call.StaticCallee()
		if callee == nil {
			return
		}
		full := callee.String()
		resIdxs := []int{}
		errIdx := -1
		errno := false
		if d, ok := o.direct[full]; ok {
			resIdxs = []int{d[0]}
			errIdx = d[1]
		} else if (full == "syscall.Syscall" || full == "syscall.RawSyscall") && len(call.Call.Args) > 0 && isConstInt(call.Call.Args[0], o.eventfdNo) && o.eventfdNo != 0 {
			resIdxs = []int{0}
			errIdx = 2
			errno = true
		} else if o.inScope(callee) {
			tgt := callee
			if og := tgt.Origin(); og != nil {
				tgt = og
			}
			for i := range o.ownedReturn[tgt] {
				resIdxs = append(resIdxs, i)
			}
			sort.Ints(resIdxs)
			errIdx = errorResultIndex(callee.Signature)
		}
		for _, ri := range resIdxs {
			a := acquisition{call: call, name: callee.Name(), errno: errno, resIdx: ri}
			n := callee.Signature.Results().Len()
			if n == 1 {
				a.res = call
			} else {
				a.res = extractOf(call, ri)
				if errIdx >= 0 {
					a.err = extractOf(call, errIdx)
				}
			}
			if a.res == nil {
				continue // result discarded: reported by the caller of acquisitionsIn if needed
			}
			out = append(out, a)
		}
	})
	return out
}

func extractOf(call *ssa.Call, idx int) ssa.Value {
	refs := call.Referrers()
	if refs == nil {
		return nil
	}
	for _, r := range *refs {
		if ex, ok := r.(*ssa.Extract); ok && ex.Index == idx {
			return ex
		}
	}
	return nil
}

// holderInfo: which values of fn hold the resource.
type holderInfo struct {
	vals        map[ssa.Value]bool
	cells       map[*ssa.Alloc]bool               // local variable cells that hold it
	fields      map[ssa.Value]map[*types.Var]bool // object -> fields holding it
	ownerStores map[ssa.Instruction]bool          // stores into long-lived owners (receiver/parameter/global fields)
}

// rootOfAddr walks FieldAddr/IndexAddr chains to the root object and reports the first field on the way.
func rootOfAddr(addr ssa.Value) (root ssa.Value, firstField *types.Var) {
	for i := 0; i < 10; i++ {
		switch x := addr.(type) {
		case *ssa.FieldAddr:
			fv, _ := fieldAddrOf(x)
			firstField = fv
			addr = x.X
			continue
		case *ssa.IndexAddr:
			addr = x.X
			continue
		}
		break
	}
	// a pointer loaded from a local variable cell that only ever holds one allocation (or nil) denotes that allocation
	if u, ok := addr.(*ssa.UnOp); ok && u.Op == token.MUL {
		if cell, ok := u.X.(*ssa.Alloc); ok {
			var obj *ssa.Alloc
			unique := true
			for _, fn := range withClosures(cell.Parent()) {
				eachInstr(fn, func(in ssa.Instruction) {
					st, ok := in.(*ssa.Store)
					if !ok || cellOf(st.Addr) != cell {
						return
					}
					if isNil(st.Val) {
						return
					}
					if ld, ok := strip(st.Val).(*ssa.UnOp); ok && ld.Op == token.MUL && cellOf(ld.X) == cell {
						return // `return b, nil` with a named result stores the cell into itself
					}
					if a, ok := strip(st.Val).(*ssa.Alloc); ok && (obj == nil || obj == a) {
						obj = a
					} else {
						unique = false
					}
				})
			}
			if unique && obj != nil {
				return obj, firstField
			}
		}
	}
	return addr, firstField
}

func (o *ownership) holders(fn *ssa.Function, res ssa.Value) *holderInfo {
	h := &holderInfo{vals: map[ssa.Value]bool{res: true}, cells: map[*ssa.Alloc]bool{}, fields: map[ssa.Value]map[*types.Var]bool{}, ownerStores: map[ssa.Instruction]bool{}}
	fns := withClosures(fn)
	for changed := true; changed; {
		changed = false
		add := func(v ssa.Value) {
			if v != nil && !h.vals[v] {
				h.vals[v] = true
				changed = true
			}
		}
		for _, f := range fns {
			eachInstr(f, func(in ssa.Instruction) {
				switch x := in.(type) {
				case *ssa.Convert:
					if h.vals[x.X] {
						add(x)
					}
				case *ssa.ChangeType:
					if h.vals[x.X] {
						add(x)
					}
				case *ssa.MakeInterface:
					if h.vals[x.X] {
						add(x)
					}
				case *ssa.ChangeInterface:
					if h.vals[x.X] {
						add(x)
					}
				case *ssa.TypeAssert:
					if h.vals[x.X] {
						add(x)
					}
				case *ssa.Extract:
					// (value, ok) of a type assertion on a holder
					if ta, ok := x.Tuple.(*ssa.TypeAssert); ok && h.vals[ta.X] && x.Index == 0 {
						add(x)
					}
				case *ssa.Phi:
					for _, e := range x.Edges {
						if h.vals[e] {
							add(x)
						}
					}
				case *ssa.Slice:
					if h.vals[x.X] {
						add(x)
					}
				case *ssa.Store:
					if !h.vals[x.Val] {
						return
					}
					root, ff := rootOfAddr(x.Addr)
					switch r := root.(type) {
					case *ssa.Alloc:
						if ff == nil {
							// plain local variable cell
							if !h.cells[r] {
								h.cells[r] = true
								changed = true
							}
						} else {
							if h.fields[r] == nil {
								h.fields[r] = map[*types.Var]bool{}
							}
							if !h.fields[r][ff] {
								h.fields[r][ff] = true
								changed = true
							}
							add(r)
						}
					case *ssa.FreeVar:
						// captured cell of the enclosing function
						if c := cellOf(r); c != nil && ff == nil && !h.cells[c] {
							h.cells[c] = true
							changed = true
						}
					default:
						if ff != nil {
							// field of a parameter / receiver / loaded pointer: a long-lived owner
							if !h.ownerStores[in] {
								h.ownerStores[in] = true
								changed = true
							}
							// loads of the same field anywhere in fn are holders too (same object assumed)
							if h.fields[nil] == nil {
								h.fields[nil] = map[*types.Var]bool{}
							}
							h.fields[nil][ff] = true
						}
					}
				case *ssa.UnOp:
					if x.Op != token.MUL {
						return
					}
					// load of a holder cell
					if c := cellOf(x.X); c != nil && h.cells[c] {
						add(x)
						return
					}
					// load of a whole holder object (struct value copied out of its cell)
					if a, ok := x.X.(*ssa.Alloc); ok && h.vals[a] {
						add(x)
						return
					}
					// load of a field that holds the resource, from a holder object
					root, ff := rootOfAddr(x.X)
					if ff == nil {
						return
					}
					if a, ok := root.(*ssa.Alloc); ok {
						if h.fields[a] != nil && h.fields[a][ff] {
							add(x)
						}
						return
					}
					// root is a loaded pointer: is it a holder object value?
					if h.vals[root] {
						for obj, fs := range h.fields {
							_ = obj
							if fs[ff] {
								add(x)
							}
						}
						return
					}
					if h.fields[nil] != nil && h.fields[nil][ff] {
						add(x)
					}
				case *ssa.Call:
					callee := x.Call.StaticCallee()
					if callee == nil || !o.inScope(callee) {
						return
					}
					tgt := callee
					if og := tgt.Origin(); og != nil {
						tgt = og
					}
					for j, a := range x.Call.Args {
						if h.vals[a] && o.captured[tgt][j] {
							if callee.Signature.Results().Len() == 1 {
								add(x)
							} else if ex := extractOf(x, 0); ex != nil {
								add(ex)
							}
						}
					}
				}
			})
		}
	}
	return h
}

// isCloseOf reports whether instruction in releases a holder.
func (o *ownership) isCloseOf(in ssa.Instruction, h *holderInfo) bool {
	call, ok := in.(ssa.CallInstruction)
	if !ok {
		return false
	}
	if _, isDefer := in.(*ssa.Defer); isDefer {
		return false
	}
	cc := call.Common()
	name := ""
	var args []ssa.Value
	if cc.IsInvoke() {
		name = cc.Method.Name()
		args = append([]ssa.Value{cc.Value}, cc.Args...)
	} else if callee := cc.StaticCallee(); callee != nil {
		for k, a := range cc.Args {
			if h.vals[a] && o.releasesParam(callee, k) {
				return true
			}
		}
		name = callee.Name()
		args = cc.Args
		full := callee.String()
		switch full {
		case "syscall.Close", "golang.org/x/sys/unix.Close", "syscall.Munmap":
		default:
			if name != "Close" && name != "Destroy" && name != "CloseNextLayer" {
				return false
			}
		}
	} else {
		return false
	}
	if cc.IsInvoke() && name != "Close" {
		return false
	}
	for _, a := range args {
		if h.vals[a] {
			return true
		}
	}
	return false
}

// releasesParam: hf is a function of the analysed packages that is not part of the pinned tree (a helper split off by
// a refactoring) and that releases its k-th parameter on every path that returns (directly or in a deferred call):
// handing a resource to it is releasing it (`b.mirror(file)` with `defer func() { os.Remove(..); file.Close() }()`).
func (o *ownership) releasesParam(hf *ssa.Function, k int) bool {
	if hf == nil || hf.Blocks == nil || k >= len(hf.Params) || !o.inScope(hf) || knownOnPinnedTree(hf) {
		return false
	}
	if m, ok := o.releases[hf]; ok {
		if v, ok := m[k]; ok {
			return v
		}
	} else {
		o.releases[hf] = map[int]bool{}
	}
	o.releases[hf][k] = false
	h := o.holders(hf, hf.Params[k])
	paths, overflow := enumPaths(hf)
	if overflow || len(paths) == 0 {
		return false
	}
	for _, path := range paths {
		if path.Panics {
			continue
		}
		pi := newPathIndex(path)
		closed := false
		for _, in := range pi.instrs {
			if o.isCloseOf(in, h) {
				closed = true
			}
			if d, ok := in.(*ssa.Defer); ok && o.deferredCloses(pi, d, h) {
				closed = true
			}
		}
		if !closed {
			return false
		}
	}
	o.releases[hf][k] = true
	return true
}

// pathIndex orders the instructions of a path.
type pathIndex struct {
	path   *Path
	instrs []ssa.Instruction
}

func newPathIndex(p *Path) *pathIndex { return &pathIndex{path: p, instrs: p.Instrs()} }

// lastStore returns the value last stored into cell before position pos (exclusive).
func (pi *pathIndex) lastStore(cell *ssa.Alloc, pos int) ssa.Value {
	for i := pos - 1; i >= 0; i-- {
		if st, ok := pi.instrs[i].(*ssa.Store); ok {
			if a, ok := st.Addr.(*ssa.Alloc); ok && a == cell {
				return st.Val
			}
		}
	}
	return nil
}

func (pi *pathIndex) posOf(in ssa.Instruction, before int) int {
	for i := before - 1; i >= 0; i-- {
		if pi.instrs[i] == in {
			return i
		}
	}
	for i := len(pi.instrs) - 1; i >= 0; i-- {
		if pi.instrs[i] == in {
			return i
		}
	}
	return -1
}

// blockPos returns the index in path.Blocks of the block containing instruction index i.
func (pi *pathIndex) blockPos(i int) int {
	n := 0
	for bi, b := range pi.path.Blocks {
		n += len(b.Instrs)
		if i < n {
			return bi
		}
	}
	return len(pi.path.Blocks) - 1
}

// resolve follows phis (by the path) and loads of local cells (last store on the path) starting from a use at
// instruction position pos.
func (pi *pathIndex) resolve(v ssa.Value, pos int) ssa.Value {
	for d := 0; d < 24; d++ {
		v = strip(v)
		if ph, ok := v.(*ssa.Phi); ok {
			nv := pi.path.eval(ph, pi.blockPos(pos))
			if nv == v {
				return v
			}
			v = nv
			continue
		}
		if u, ok := v.(*ssa.UnOp); ok && u.Op == token.MUL {
			if a, ok := u.X.(*ssa.Alloc); ok {
				up := pi.posOf(u, pos+1)
				if up < 0 {
					up = pos
				}
				if sv := pi.lastStore(a, up); sv != nil {
					v = sv
					pos = up
					continue
				}
			}
		}
		return v
	}
	return v
}

// nilnessAt classifies value v (used at position pos) as nil / nonnil / unknown using constants and the branch
// literals taken on the path.
func (pi *pathIndex) nilnessAt(v ssa.Value, pos int, errno bool) string {
	rv := pi.resolve(v, pos)
	if errno {
		if k, ok := constInt(rv); ok {
			if k == 0 {
				return "nil"
			}
			return "nonnil"
		}
	} else {
		if isNil(rv) {
			return "nil"
		}
		switch x := rv.(type) {
		case *ssa.MakeInterface:
			return "nonnil"
		case *ssa.UnOp:
			if x.Op == token.MUL {
				if _, ok := x.X.(*ssa.Global); ok {
					return "nonnil"
				}
			}
		case *ssa.Call:
			if callee := x.Call.StaticCallee(); callee != nil {
				switch callee.String() {
				case "errors.New", "fmt.Errorf", "os.NewSyscallError":
					return "nonnil"
				}
			}
		}
	}
	res := "unknown"
	// position of each literal's branching instruction
	for _, l := range pi.path.Lits {
		lpos := 0
		for bi := 0; bi <= l.At && bi < len(pi.path.Blocks); bi++ {
			lpos += len(pi.path.Blocks[bi].Instrs)
		}
		lpos-- // the If instruction
		var x ssa.Value
		var isNilLit, ok bool
		if errno {
			op, a, b, isCmp := l.cmp()
			if isCmp && (op == token.EQL || op == token.NEQ) && isConstInt(b, 0) {
				x, isNilLit, ok = a, op == token.EQL, true
			}
		} else {
			x, isNilLit, ok = l.nilTest()
		}
		if !ok {
			// equal to a sentinel (package-level error value, or a non-zero errno constant): not nil either
			if sx, isSent := sentinelEq(l.Lit, errno); isSent && pi.resolve(sx, lpos) == rv && res == "unknown" {
				res = "nonnil"
			}
			continue
		}
		if pi.resolve(x, lpos) == rv {
			if isNilLit {
				res = "nil"
			} else {
				res = "nonnil"
			}
		}
	}
	return res
}

// deferredCloses: a deferred closure registered at position dpos closes a holder when the function returns along
// this path (its guards, evaluated on the final values of the captured cells, all hold).
func (o *ownership) deferredCloses(pi *pathIndex, d *ssa.Defer, h *holderInfo) bool {
	mc, ok := d.Call.Value.(*ssa.MakeClosure)
	if !ok {
		// defer x.Close()
		fake := d.Call
		name := ""
		var args []ssa.Value
		if fake.IsInvoke() {
			name = fake.Method.Name()
			args = []ssa.Value{fake.Value}
		} else if callee := fake.StaticCallee(); callee != nil {
			name = callee.Name()
			args = fake.Args
			if callee.String() == "syscall.Close" || callee.String() == "syscall.Munmap" {
				name = "Close"
			}
		}
		if name != "Close" && name != "Destroy" {
			return false
		}
		for _, a := range args {
			if h.vals[a] {
				return true
			}
		}
		return false
	}
	df := mc.Fn.(*ssa.Function)
	end := len(pi.instrs)
	// map free variables to the bound cells
	cellOfFV := func(v ssa.Value) *ssa.Alloc {
		fv, ok := v.(*ssa.FreeVar)
		if !ok {
			return nil
		}
		for i, x := range df.FreeVars {
			if x == fv {
				if a, ok := mc.Bindings[i].(*ssa.Alloc); ok {
					return a
				}
			}
		}
		return nil
	}
	closes := false
	eachInstr(df, func(in ssa.Instruction) {
		call, ok := in.(*ssa.Call)
		if !ok {
			return
		}
		name := ""
		var args []ssa.Value
		if call.Call.IsInvoke() {
			name = call.Call.Method.Name()
			args = []ssa.Value{call.Call.Value}
		} else if callee := call.Call.StaticCallee(); callee != nil {
			name = callee.Name()
			args = call.Call.Args
			switch callee.String() {
			case "syscall.Close", "syscall.Munmap", "golang.org/x/sys/unix.Close":
				name = "Close"
			}
		}
		if name != "Close" && name != "Destroy" {
			return
		}
		// argument: load of a captured holder cell (or a field of it)
		isHolder := false
		for _, a := range args {
			a = strip(a)
			if u, ok := a.(*ssa.UnOp); ok && u.Op == token.MUL {
				root, _ := rootOfAddr(u.X)
				if c := cellOfFV(root); c != nil {
					if h.cells[c] {
						// the cell must still hold a holder at the end of the path
						if sv := pi.lastStore(c, end); sv != nil && h.vals[strip(sv)] {
							isHolder = true
						}
					}
				} else if u2, ok := root.(*ssa.UnOp); ok && u2.Op == token.MUL {
					if c := cellOfFV(u2.X); c != nil && h.cells[c] {
						if sv := pi.lastStore(c, end); sv != nil && h.vals[strip(sv)] {
							isHolder = true
						}
					}
				}
			}
		}
		if !isHolder {
			return
		}
		// guards inside the deferred closure
		okAll := true
		for _, l := range guardsOf(call.Block()) {
			x, eq, isNilT := l.nilTest()
			if !isNilT {
				okAll = false
				continue
			}
			u, ok := strip(x).(*ssa.UnOp)
			if !ok || u.Op != token.MUL {
				okAll = false
				continue
			}
			c := cellOfFV(u.X)
			if c == nil {
				okAll = false
				continue
			}
			sv := pi.lastStore(c, end)
			if sv == nil {
				okAll = false
				continue
			}
			nl := pi.nilnessAt(sv, end-1, false)
			if h.vals[strip(pi.resolve(sv, end-1))] {
				nl = "nonnil"
			}
			if (eq && nl != "nil") || (!eq && nl != "nonnil") {
				okAll = false
			}
		}
		if okAll {
			closes = true
		}
	})
	return closes
}

type leakReport struct {
	acq      acquisition
	leaks    []string // exits at which the resource is neither transferred nor released
	withErr  []string // exits returning the live resource together with a non-nil error
	paths    int
	unproven string
}

// analyse evaluates one acquisition of fn.
func (o *ownership) analyse(fn *ssa.Function, a acquisition) leakReport {
	rep := leakReport{acq: a}
	h := o.holders(fn, a.res)
	paths, overflow := enumPaths(fn)
	if overflow {
		rep.unproven = "too many paths"
		return rep
	}
	leakSet := map[string]bool{}
	errSet := map[string]bool{}
	for _, path := range paths {
		if path.Panics {
			continue
		}
		pi := newPathIndex(path)
		apos := -1
		for i, in := range pi.instrs {
			if in == ssa.Instruction(a.call.(*ssa.Call)) {
				apos = i // last occurrence wins for loops
			}
		}
		if apos < 0 {
			continue
		}
		end := len(pi.instrs)
		if a.err != nil {
			if pi.nilnessAt(a.err, end-1, a.errno) == "nonnil" {
				continue // the acquisition failed on this path
			}
		}
		rep.paths++
		closed, owner := false, false
		for i := apos + 1; i < end; i++ {
			in := pi.instrs[i]
			if o.isCloseOf(in, h) {
				closed = true
			}
			if h.ownerStores[in] {
				owner = true
			}
			// handed to a completion callback: the user owns it from here
			if cc, ok := in.(ssa.CallInstruction); ok && isDynamicFuncCall(cc) {
				for _, arg := range cc.Common().Args {
					if h.vals[arg] {
						owner = true
					}
				}
			}
			// ... also through a small helper of the same package that hands its parameter to the callback on every path
			// (completeInline(cb, err, conn))
			if cc, ok := in.(*ssa.Call); ok {
				if hf := cc.Call.StaticCallee(); hf != nil && isHelperOf(fn, hf) {
					for k, arg := range cc.Call.Args {
						if !h.vals[arg] || k >= len(hf.Params) {
							continue
						}
						q := hf.Params[k]
						okp, _ := mustPassAt(hf.Blocks[0], 0, func(x ssa.Instruction) bool {
							dc, ok := x.(ssa.CallInstruction)
							if !ok || !isDynamicFuncCall(dc) {
								return false
							}
							for _, a := range dc.Common().Args {
								if resolveCell(strip(a)) == ssa.Value(q) {
									return true
								}
							}
							return false
						})
						if okp {
							owner = true
						}
					}
				}
			}
		}
		for i := 0; i < end; i++ {
			if d, ok := pi.instrs[i].(*ssa.Defer); ok {
				if o.deferredCloses(pi, d, h) {
					closed = true
				}
			}
		}
		ret := path.Ret()
		returned := false
		errState := "none"
		if ret != nil {
			for _, r := range ret.Results {
				rv := pi.resolve(r, end-1)
				if h.vals[rv] {
					returned = true
				}
			}
			ei := errorResultIndex(fn.Signature)
			if ei >= 0 && ei < len(ret.Results) {
				errState = pi.nilnessAt(ret.Results[ei], end-1, false)
			}
		}
		where := o.p.Pos(exitPos(ret))
		if dbg := os.Getenv("SONICSA_E6DEBUG"); dbg != "" && strings.Contains(fn.String(), dbg) {
			fmt.Printf("E6 %s acq=%s path=%s closed=%v owner=%v returned=%v err=%s exit=%s\n", fn.Name(), a.name, path, closed, owner, returned, errState, where)
		}
		switch {
		case closed:
		case returned && errState == "nonnil":
			errSet[where] = true
		case returned || owner:
		default:
			leakSet[where] = true
		}
	}
	for k := range leakSet {
		rep.leaks = append(rep.leaks, k)
	}
	for k := range errSet {
		rep.withErr = append(rep.withErr, k)
	}
	sort.Strings(rep.leaks)
	sort.Strings(rep.withErr)
	return rep
}

// computeSummaries: which functions return an owned resource (by result index), and which parameters are captured
// into the returned object.
func (o *ownership) computeSummaries() {
	var fns []*ssa.Function
	for _, fn := range o.p.Funcs {
		if fn.Parent() == nil {
			fns = append(fns, fn)
		}
	}
	// captured parameters
	for iter := 0; iter < 4; iter++ {
		for _, fn := range fns {
			for j, prm := range fn.Params {
				switch prm.Type().Underlying().(type) {
				case *types.Basic, *types.Pointer, *types.Interface, *types.Slice:
				default:
					continue
				}
				h := o.holders(fn, prm)
				for _, r := range returnsOf(fn) {
					for ri, res := range r.Results {
						if ri == errorResultIndex(fn.Signature) {
							continue
						}
						v := strip(res)
						if v == ssa.Value(prm) {
							continue // returning the parameter itself is not capturing
						}
						if _, isAlloc := v.(*ssa.Alloc); (isAlloc || isCallValue(v)) && h.vals[v] {
							if o.captured[fn] == nil {
								o.captured[fn] = map[int]bool{}
							}
							o.captured[fn][j] = true
						}
					}
				}
			}
		}
	}
	// owned returns
	for iter := 0; iter < 6; iter++ {
		for _, fn := range fns {
			for _, a := range o.acquisitionsIn(fn) {
				h := o.holders(fn, a.res)
				for _, r := range returnsOf(fn) {
					for ri, res := range r.Results {
						if ri == errorResultIndex(fn.Signature) {
							continue
						}
						vals := phiLeaves(res)
						vals = append(vals, strip(res))
						for _, v := range vals {
							hit := h.vals[v]
							if u, ok := v.(*ssa.UnOp); ok && u.Op == token.MUL {
								if c, ok := u.X.(*ssa.Alloc); ok && h.cells[c] {
									hit = true
								}
							}
							// a value derived from the resource after it was handed to a long-lived owner (`s.conn = c` ...
							// `sc = s.conn.(syscall.Conn)`; return sc) is a view of it, not a hand-over to the caller
							if vi, isInstr := v.(ssa.Instruction); hit && isInstr && vi.Block() != nil {
								for st := range h.ownerStores {
									if st.Parent() == fn && dominatesInstr(st, vi) {
										hit = false
									}
								}
							}
							if hit {
								if o.ownedReturn[fn] == nil {
									o.ownedReturn[fn] = map[int]bool{}
								}
								o.ownedReturn[fn][ri] = true
							}
						}
					}
				}
			}
		}
	}
}

func isCallValue(v ssa.Value) bool {
	_, ok := v.(*ssa.Call)
	return ok
}

func (r leakReport) String() string {
	var parts []string
	if len(r.leaks) > 0 {
		parts = append(parts, "neither transferred nor released at the exits "+strings.Join(r.leaks, ", "))
	}
	if len(r.withErr) > 0 {
		parts = append(parts, "returned live together with a non-nil error at "+strings.Join(r.withErr, ", "))
	}
	if r.unproven != "" {
		parts = append(parts, r.unproven)
	}
	return strings.Join(parts, "; ")
}

var _ = fmt.Sprintf

// sentinelEq: the literal says `x == S` where S is a package-level (error) variable - or, for errno values, a non-zero
// constant: x is then not nil / not zero.
func sentinelEq(l Lit, errno bool) (ssa.Value, bool) {
	op, a, b, ok := l.cmp()
	if !ok || op != token.EQL {
		return nil, false
	}
	isSent := func(v ssa.Value) bool {
		if errno {
			k, isK := constInt(v)
			return isK && k != 0
		}
		if u, ok := strip(v).(*ssa.UnOp); ok && u.Op == token.MUL {
			_, isG := u.X.(*ssa.Global)
			return isG
		}
		return false
	}
	switch {
	case isSent(b):
		return a, true
	case isSent(a):
		return b, true
	}
	return nil, false
}
