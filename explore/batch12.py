S = "socket.go"
F = "file.go"
A = "async_adapter.go"
VARIANTS = [
 ("recvfrom: port shifted", S, "return n, netip.AddrPortFrom(netip.AddrFrom4(sa.Addr), uint16(sa.Port)), err", "return n, netip.AddrPortFrom(netip.AddrFrom4(sa.Addr), uint16(sa.Port>>8)), err"),
 ("recvfrom: sender taken from the write address", S, "\tswitch sa := s.readSockAddr.(type) {", "\tswitch sa := syscall.Sockaddr(s.writeSockAddrIpv4).(type) {"),
 ("recvfrom: zero port", S, "return n, netip.AddrPortFrom(netip.AddrFrom4(sa.Addr), uint16(sa.Port)), err", "return n, netip.AddrPortFrom(netip.AddrFrom4(sa.Addr), 0), err"),
 ("recvfrom: address of a previous datagram", S, "\tn, s.readSockAddr, err = syscall.Recvfrom(s.fd, b, 0)", "\tvar from syscall.Sockaddr\n\tn, from, err = syscall.Recvfrom(s.fd, b, 0)\n\tif s.readSockAddr == nil {\n\t\ts.readSockAddr = from\n\t}"),
 ("file cancelWrites tests the read bit", F, "func (f *file) cancelWrites() {\n\tif f.slot.Events&internal.PollerWriteEvent == internal.PollerWriteEvent {", "func (f *file) cancelWrites() {\n\tif f.slot.Events&internal.PollerReadEvent == internal.PollerReadEvent {"),
 ("file cancelWrites completes the handler twice", F, "\t\tf.slot.Handlers[internal.WriteEvent](err)\n\t}\n}\n\nfunc (f *file) RawFd", "\t\tf.slot.Handlers[internal.WriteEvent](err)\n\t\tf.slot.Handlers[internal.WriteEvent](err)\n\t}\n}\n\nfunc (f *file) RawFd"),
 ("adapter write reactor without back-pointer", A, "\t\ta.writeReactor = asyncAdapterWriteReactor{adapter: a}", "\t\ta.writeReactor = asyncAdapterWriteReactor{}"),
 ("file write reactor bound to nothing", F, "\tf.writeReactor = fileWriteReactor{file: f}", "\tf.writeReactor = fileWriteReactor{}"),
]
