F = "codec/websocket/stream.go"
R = "codec/websocket/rfc6455.go"
VARIANTS = [
 ("hs: caller headers set before mandatory ones", F,
  "\treq.Header.Set(\"Sec-Websocket-Version\", \"13\")\n\n\tfor _, header := range headers {", "\tfor _, header := range headers {"),
 ("hs: hasher not reset", F,
  "\ts.hasher.Reset()\n\ts.hasher.Write(resKey)", "\ts.hasher.Write(resKey)"),
 ("hs: leftover written to dst instead of src", F,
  "\t\t_, _ = s.src.Write(s.handshakeBuffer[resLen:])", "\t\t_, _ = s.dst.Write(s.handshakeBuffer[resLen:])"),
 ("hs: handshake buffer not truncated to n", F,
  "\ts.handshakeBuffer = s.handshakeBuffer[:n]\n\trd := bytes.NewReader", "\trd := bytes.NewReader"),
 ("hs: accept key compared case-insensitively", F,
  "\tif key := res.Header.Get(\"Sec-WebSocket-Accept\"); key != expectedKey {", "\tif key := res.Header.Get(\"Sec-WebSocket-Accept\"); !strings.EqualFold(key, expectedKey) {"),
 ("hs: accept check skipped when header absent", F,
  "\tif key := res.Header.Get(\"Sec-WebSocket-Accept\"); key != expectedKey {", "\tif key := res.Header.Get(\"Sec-WebSocket-Accept\"); key != \"\" && key != expectedKey {"),
 ("hs: key from 8 random bytes", F,
  "\tb := make([]byte, 16)\n\t_, _ = rand.Read(b)", "\tb := make([]byte, 16)\n\t_, _ = rand.Read(b[:8])"),
 ("hs: response callback before leftover handling error path", F,
  "\tif !IsUpgradeRes(res) {\n\t\treturn ErrCannotUpgrade\n\t}\n\n\tif key :=", "\tif key :="),
 ("hs: read loop stops when buffer half full", F,
  "\tfor n < len(s.handshakeBuffer) && !bytes.Contains(", "\tfor n < len(s.handshakeBuffer)/2 && !bytes.Contains("),
 ("hs: init keeps old codec when stream unchanged", F, "PLACEHOLDER", ""),
]
