VARIANTS = [
 ("harmless: bb Consume clamp via min", "byte_buffer.go",
  "\tif readLen := b.ReadLen(); n > readLen {\n\t\tn = readLen\n\t}\n\n\tif n > 0 {\n\t\t// TODO this can be smarter", "\tn = min(n, b.ReadLen())\n\n\tif n > 0 {\n\t\t// TODO this can be smarter"),
 ("harmless: bb Save clamp via min", "byte_buffer.go",
  "\tif readLen := b.ReadLen(); n > readLen {\n\t\tn = readLen\n\t}\n\tif n <= 0 {\n\t\treturn\n\t}\n\tslot.Length = n", "\tn = min(n, b.ReadLen())\n\tif n <= 0 {\n\t\treturn\n\t}\n\tslot.Length = n"),
 ("harmless: bb ShrinkBy clamp via min", "byte_buffer.go",
  "\tif length := b.WriteLen(); n > length {\n\t\tn = length\n\t}\n\tb.wi -= n", "\tn = min(n, b.WriteLen())\n\tb.wi -= n"),
 ("harmless: mb Consume clamp via min", "bytes/mirrored_buffer.go",
  "\tif used := b.UsedSpace(); n > used {\n\t\tn = used\n\t}", "\tn = min(n, b.UsedSpace())"),
]
