P = "internal/poll_linux.go"
VARIANTS = [
 ("DelWrite drops the read interest", P,
  "\tif *events&PollerWriteEvent == PollerWriteEvent {\n\t\tatomic.AddInt64(&p.pending, -1)\n\t\t*events ^= PollerWriteEvent", "\tif *events&PollerReadEvent == PollerReadEvent {\n\t\tatomic.AddInt64(&p.pending, -1)\n\t\t*events ^= PollerReadEvent"),
 ("DelWrite tests write, clears read", P,
  "\t\tatomic.AddInt64(&p.pending, -1)\n\t\t*events ^= PollerWriteEvent", "\t\tatomic.AddInt64(&p.pending, -1)\n\t\t*events ^= PollerReadEvent"),
 ("waker event falls through to slot handlers", P, "\t\t\tp.dispatch()\n\t\t\tcontinue\n", "\t\t\tp.dispatch()\n"),
 ("posted handler not discounted", P, "\t\thandler()\n\t\tatomic.AddInt64(&p.pending, -1)\n", "\t\thandler()\n"),
 ("read branch drops the write interest", P, "\t\t\t_ = p.DelRead(slot)\n\t\t\tslot.Handlers[ReadEvent](nil)", "\t\t\t_ = p.DelWrite(slot)\n\t\t\tslot.Handlers[ReadEvent](nil)"),
 ("read branch runs the write handler", P, "\t\t\t_ = p.DelRead(slot)\n\t\t\tslot.Handlers[ReadEvent](nil)", "\t\t\t_ = p.DelRead(slot)\n\t\t\tslot.Handlers[WriteEvent](nil)"),
]
