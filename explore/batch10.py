T = "timer.go"
VARIANTS = [
 ("cancel keeps state scheduled", T, "\t\tt.cancelled = true\n\t\tt.state = stateReady\n", "\t\tt.cancelled = true\n"),
 ("close leaves pending entry", T, "\t\tt.state = stateClosed\n\t\tdelete(t.ioc.pendingTimers, t)\n", "\t\tt.state = stateClosed\n"),
]
VARIANTS += [
 ("close does not record closed", T, "\t\tt.state = stateClosed\n\t\tdelete(t.ioc.pendingTimers, t)\n", "\t\tdelete(t.ioc.pendingTimers, t)\n"),
 ("cancel sets ready before unset result known", T, "\terr := t.it.Unset()\n\tif err == nil {\n\t\tt.cancelled = true\n\t\tt.state = stateReady\n\t}", "\terr := t.it.Unset()\n\tt.state = stateReady\n\tif err == nil {\n\t\tt.cancelled = true\n\t}"),
 ("cancel never sets flag", T, "\t\tt.cancelled = true\n\t\tt.state = stateReady\n", "\t\tt.state = stateReady\n"),
 ("expiry leaves state scheduled", T, "\t\t\t\tdelete(t.ioc.pendingTimers, t)\n\t\t\t\tt.state = stateReady\n\t\t\t\tcb()", "\t\t\t\tdelete(t.ioc.pendingTimers, t)\n\t\t\t\tcb()"),
 ("scheduled reports not ready", T, "\treturn t.state == stateScheduled", "\treturn t.state != stateReady"),
]
