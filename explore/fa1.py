VARIANTS = [
 ("harmless: accept split into error/success branches", "listen_conn.go",
  "\t} else {\n\t\tconn, err := l.accept()\n\t\tif err != nil && (err == sonicerrors.ErrWouldBlock) {\n\t\t\tl.asyncAccept(cb)\n\t\t} else {\n\t\t\tl.ioc.Dispatched++\n\t\t\tcb(err, conn)\n\t\t\tl.ioc.Dispatched--\n\t\t}\n\t}\n}",
  "\t\treturn\n\t}\n\n\tconn, err := l.accept()\n\tif err == sonicerrors.ErrWouldBlock {\n\t\tl.asyncAccept(cb)\n\t\treturn\n\t}\n\n\tl.ioc.Dispatched++\n\tif err != nil {\n\t\tcb(err, nil)\n\t\tl.ioc.Dispatched--\n\t\treturn\n\t}\n\tcb(nil, conn)\n\tl.ioc.Dispatched--\n}"),
]
