P = "internal/poll_linux.go"
Q = "internal/post_queue.go"
COMBOS = [
 ("g17_1 + counted after the push", "g17_1", P,
  "\tatomic.AddInt64(&p.pending, 1)\n\tp.posts.push(handler)\n", "\tp.posts.push(handler)\n\tatomic.AddInt64(&p.pending, 1)\n"),
 ("g17_1 + push without the lock", "g17_1", Q,
  "\tq.lck.Lock()\n\tq.handlers = append(q.handlers, handler)\n\tq.lck.Unlock()\n", "\tq.handlers = append(q.handlers, handler)\n"),
 ("g17_1 + take keeps the backing array", "g17_1", Q,
  "\tq.handlers = nil\n", "\tq.handlers = q.handlers[:0]\n"),
 ("g17_1 + take does not empty the queue", "g17_1", Q,
  "\tq.handlers = nil\n", ""),
 ("g17_1 + post not counted", "g17_1", P,
  "\tatomic.AddInt64(&p.pending, 1)\n\tp.posts.push(handler)\n", "\tp.posts.push(handler)\n"),
 ("g17_1 + handlers run under the queue lock", "g17_1", P,
  "\tfor _, handler := range p.posts.take() {\n\t\thandler()\n\t\tatomic.AddInt64(&p.pending, -1)\n\t}", "\tp.posts.lck.Lock()\n\tbatch := p.posts.handlers\n\tp.posts.handlers = nil\n\tfor _, handler := range batch {\n\t\thandler()\n\t\tatomic.AddInt64(&p.pending, -1)\n\t}\n\tp.posts.lck.Unlock()"),
]
