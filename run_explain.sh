#!/bin/bash
. /verif/env.sh
[ -x /verif/bin/sonicsa ] || bash /verif/setup.sh >/dev/null
exec /verif/bin/sonicsa explain -repo /repo -verif /verif "$1"
