#!/usr/bin/env python3
"""Mutation sweep (DESIGN.md section 8.5): every statement deletion, condition negation and comparison-boundary change
of the given library files is (1) analysed by every check (`sonicsa mutsweep`, one process per file), and (2) the
variants NO check reports are run through the existing tests of their package in a scratch worktree. What survives both
is a change that compiles, passes the tests and is invisible to the machinery: the list to triage by hand.

usage: mutsweep.py <outdir> <file>...      (files relative to /repo)
Writes <outdir>/summary.json and prints one line per surviving variant.
"""
import json, os, subprocess, sys, glob, shutil, concurrent.futures

ENV = dict(os.environ, PATH="/opt/veriftools/go1.26.8/bin:" + os.environ["PATH"], GOTOOLCHAIN="local",
           GOFLAGS="-mod=mod", GOPROXY="off", GOWORK="off")

# how the existing tests of a file's package are run (root package: only the tests that exercise that file, the whole
# package takes 65 s)
ROOT_RUN = {
    "byte_buffer.go": "TestByteBuffer|TestSimpleCodec|TestCodecConn.*ReadNext",
    "bip_buffer.go": "TestBipBuffer",
    "slot_sequencer.go": "TestSlotSequencer|TestSequencedSlots|TestSlotOffsetter|TestOffsetterRandom",
    "sequenced_slots.go": "TestSlotSequencer|TestSequencedSlots",
    "slot_offsetter.go": "TestSlotOffsetter|TestOffsetterRandom|TestSlotSequencer",
    "codec.go": "TestSimpleCodec|TestCodecConn",
    "timer.go": "TestTimer",
    "file.go": "TestConn|TestTCP|TestAsync|TestRead|TestWrite",
    "async_adapter.go": "TestConn|TestTCP|TestAsync|TestRead|TestWrite",
    "conn.go": "TestConn|TestTCP|TestAsync|TestRead|TestWrite",
    "listen_conn.go": "TestConn|TestTCP|TestAsync|TestRead|TestWrite",
    "io.go": "TestPost|TestPoll|TestRunOne|TestRunWarm|TestIOPending|TestSetUnset|TestDispatch|TestEmptyPoll|TestConn|TestTCP|TestAsync|TestTimer",
}
INTERNAL_RUN = "TestPost|TestPoll|TestRunOne|TestRunWarm|TestIOPending|TestSetUnset|TestDispatch|TestEmptyPoll|TestConn|TestTCP|TestAsync|TestRead|TestWrite|TestTimer"


def test_cmd(rel):
    d = os.path.dirname(rel)
    if d == "":
        run = ROOT_RUN.get(rel)
        if run is None:
            return "flock /tmp/sonic_test.lock go test -count=1 -vet=off -timeout 150s ."
        return f"flock /tmp/sonic_test.lock go test -count=1 -vet=off -timeout 100s -run '{run}' ."
    if d == "internal":
        return f"flock /tmp/sonic_test.lock go test -count=1 -vet=off -timeout 100s -run '{INTERNAL_RUN}' ."
    return f"flock /tmp/sonic_test.lock go test -count=1 -vet=off -timeout 150s ./{d}/"


def sweep(out, rel):
    p = subprocess.run(["/verif/bin/sonicsa", "mutsweep", "-repo", "/repo", "-files", rel, "-out", out], env=ENV,
                       stdout=subprocess.PIPE, stderr=subprocess.STDOUT, text=True)
    return rel, p.stdout


def main():
    out = os.path.abspath(sys.argv[1])
    files = sys.argv[2:]
    os.makedirs(out, exist_ok=True)
    todo = [r for r in files if not os.path.exists(os.path.join(out, "log_" + r.replace("/", "_") + ".txt"))]  # resumable
    with concurrent.futures.ThreadPoolExecutor(max_workers=6) as ex:
        for rel, log in ex.map(lambda r: sweep(out, r), todo):
            open(os.path.join(out, "log_" + rel.replace("/", "_") + ".txt"), "w").write(log)
    mutants = []
    for rp in glob.glob(os.path.join(out, "report_*.json")):
        mutants += json.load(open(rp))
    silent = [m for m in mutants if m["status"] == "silent"]
    print(f"{len(mutants)} variants, {sum(m['status']=='reported' for m in mutants)} reported, "
          f"{sum(m['status']=='nocompile' for m in mutants)} do not compile, {len(silent)} silent", flush=True)
    wt = "/tmp/mutsweep_wt_" + os.path.basename(out.rstrip("/"))
    subprocess.run(["git", "-C", "/repo", "worktree", "remove", "--force", wt], stdout=subprocess.DEVNULL, stderr=subprocess.DEVNULL)
    subprocess.run(["git", "-C", "/repo", "worktree", "add", "-q", "--detach", wt, "HEAD"], check=True)
    survivors = []
    try:
        for m in sorted(silent, key=lambda m: m["id"]):
            src = os.path.join(out, m["id"] + ".go")
            done = os.path.join(out, m["id"] + ".tests")
            if os.path.exists(done):
                m["tests"] = open(done).read().strip()
                if m["tests"] == "pass":
                    survivors.append(m)
                continue
            dst = os.path.join(wt, m["file"])
            orig = open(dst, "rb").read()
            shutil.copyfile(src, dst)
            p = subprocess.run(test_cmd(m["file"]), shell=True, cwd=wt, env=ENV, stdout=subprocess.PIPE, stderr=subprocess.STDOUT, text=True, errors="replace")
            open(dst, "wb").write(orig)
            m["tests"] = "pass" if p.returncode == 0 else "fail"
            open(done, "w").write(m["tests"])
            if p.returncode == 0:
                survivors.append(m)
                print(f"SURVIVES {m['id']} {m['file']}:{m['line']} {m['func']} {m['what']}", flush=True)
    finally:
        subprocess.run(["git", "-C", "/repo", "worktree", "remove", "--force", wt])
    json.dump({"variants": len(mutants), "reported": sum(m['status'] == 'reported' for m in mutants),
               "nocompile": sum(m['status'] == 'nocompile' for m in mutants), "silent": len(silent),
               "silent_and_tests_pass": [{k: m[k] for k in ("id", "file", "line", "func", "kind", "what")} for m in survivors]},
              open(os.path.join(out, "summary.json"), "w"), indent=1)
    print(f"{len(survivors)} of {len(silent)} silent variants also pass the tests")


if __name__ == "__main__":
    main()
