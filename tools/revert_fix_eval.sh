#!/bin/bash
# For every "fix:" commit of /repo: reverse-apply it on a scratch worktree of HEAD and run all checks; prints the obligations reported.
. /verif/env.sh
cd /repo
for c in $(git log --format=%h --grep='^fix:' | tac); do
  subj=$(git log -1 --format=%s $c)
  wt=/tmp/revfix_$c
  git worktree remove --force $wt >/dev/null 2>&1
  git worktree add -q --detach $wt HEAD
  if git -C $wt show $c | git -C $wt apply -R 2>/dev/null; then
    if (cd $wt && go build ./ ./internal ./bytes ./codec/... ./multicast ./net/... ./util ./sonicerrors ./sonicopts 2>/dev/null); then
      mkdir -p /tmp/revfix_out_$c; cp /verif/known_findings.jsonl /tmp/revfix_out_$c/
      out=$(/verif/bin/sonicsa all -tier quick -repo $wt -verif /tmp/revfix_out_$c 2>&1)
      keys=$(echo "$out" | grep -E "VIOLATED|UNPROVEN" | grep -o "\[[^]]*\]" | tr -d '[]' | tr '\n' ';')
      echo "$c|$subj|$keys"
      rm -rf /tmp/revfix_out_$c
    else
      echo "$c|$subj|DOES-NOT-BUILD-WHEN-REVERTED"
    fi
  else
    echo "$c|$subj|REVERSE-PATCH-DOES-NOT-APPLY"
  fi
  git worktree remove --force $wt
done
