#!/usr/bin/env python3
"""Regenerates /verif/MANIFEST.json from the table below (one entry per claimed property) and properties.jsonl.
Properties without an entry are listed under not_applicable with the reason given in NA (or a default)."""
import json, os, subprocess

V = "/verif"
props = [json.loads(l) for l in open(f"{V}/properties.jsonl")]

# id -> (technique, level text, level note, design ref)
CLAIMED = {}
NA = {}

exec(open(f"{V}/tools/claims.py").read())

def cmd(pid, tier):
    return f"bash /verif/run_check.sh {pid} {tier}"

checks = []
for p in props:
    pid = p["id"]
    if pid not in CLAIMED:
        continue
    tech, text, note, ref = CLAIMED[pid]
    checks.append({
        "property_id": pid,
        "quick_cmd": cmd(pid, "quick"),
        "thorough_cmd": cmd(pid, "thorough"),
        "evidence_file": f"/verif/evidence/{pid}.json",
        "replay_cmd_template": "bash /verif/run_explain.sh {path}",
        "engine": "sonicsa",
        "level_claimed": {"category": "other", "text": text, "design_ref": ref},
        "level_note": note,
        "technique": tech,
    })

hooks_commits = []
m = {
    "version": 1,
    "setup_cmd": "bash /verif/setup.sh",
    "hooks": {
        "guard": "verif",
        "enable": "no hook is compiled into sonic: the checker reads the source of /repo as it is (go/packages + go/ssa); the tag is reserved and unused",
        "baseline_off_cmd": "cd /repo && go test -mod=mod -json -vet=off -count=1 -timeout 25m ./...",
        "source_commits": hooks_commits,
        "add_only": True,
    },
    "engines": [{
        "name": "sonicsa",
        "path": "/verif/sa",
        "serves_properties": [c["property_id"] for c in checks],
        "kind_free_text": "repository-specific static analyser (Go, go/packages + go/ssa from x/tools v0.50.0, vendored): per-function CFG path enumeration with branch literals, dominator-chain guards, must-pass-through searches, call resolution by object, field access index, counting dataflow for completion callbacks; overlay-based self-validation variants in the thorough tier",
    }],
    "checks": checks,
    "notes": "Technique family: static analysis only. Every check loads /repo's working tree on each run, never executes sonic code. Exit 0 = all obligations discharged (known findings printed as KNOWN-FINDING lines); exit 1 + VIOLATION line = an obligation is violated or unproven; exit 2 = the checker could not decide (load/type error, anchor not found, rule matched fewer instances than confirmed).",
    "not_applicable": [
        {"property_id": p["id"], "reason": NA.get(p["id"], "no sound structural rule has been built for this property yet; see DESIGN.md section 7")}
        for p in props if p["id"] not in CLAIMED
    ],
}
json.dump(m, open(f"{V}/MANIFEST.json", "w"), indent=1)
print("claimed:", [c["property_id"] for c in checks])
