#!/bin/bash
# usage: eval_seed.sh <seed dir with patch.diff> : applies the patch to a scratch worktree of /repo HEAD, runs all
# claimed checks (quick) against it and removes the worktree. Prints the properties that raised VIOLATION.
d=$(readlink -f "$1")
id=$(basename "$d")
wt=/tmp/eval_wt_$id
git -C /repo worktree remove --force $wt >/dev/null 2>&1
git -C /repo worktree add -q --detach $wt HEAD || exit 2
cd $wt
if ! git apply "$d/patch.diff" 2>/dev/null; then
  if ! git apply --3way "$d/patch.diff" 2>/dev/null; then echo "$d: PATCH DOES NOT APPLY"; git -C /repo worktree remove --force $wt; exit 3; fi
fi
. /verif/env.sh
mkdir -p /tmp/seed_eval_out_$id; cp /verif/known_findings.jsonl /tmp/seed_eval_out_$id/
out=$(/verif/bin/sonicsa all -tier quick -repo $wt -verif /tmp/seed_eval_out_$id 2>&1)
git -C /repo worktree remove --force $wt
rm -rf /tmp/seed_eval_out_$id
echo "$out" | grep -E "^VIOLATION|INFRASTRUCTURE" | sed 's/replay=.*//' | sort | uniq -c | tr '\n' ';'
echo
echo "$out" | grep -E "VIOLATED|UNPROVEN" | cut -c1-260
