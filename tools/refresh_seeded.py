#!/usr/bin/env python3
"""Re-evaluates every stored seed (/verif/seeded/<id>/patch.diff) against the current /repo HEAD and the current checks
(scratch worktree via tools/eval_seed.sh) and refreshes checks_reporting / check_reports / evaluated_at_head in meta.json.
usage: refresh_seeded.py [id ...]"""
import json, os, re, subprocess, sys
ids = sys.argv[1:] or sorted(os.listdir("/verif/seeded"))
head = subprocess.run("git -C /repo rev-parse --short HEAD", shell=True, capture_output=True, text=True).stdout.strip()
for sid in ids:
    d = f"/verif/seeded/{sid}"
    if not os.path.exists(f"{d}/patch.diff"):
        continue
    out = subprocess.run(f"/verif/tools/eval_seed.sh {d}", shell=True, capture_output=True, text=True).stdout
    meta = json.load(open(f"{d}/meta.json"))
    if "PATCH DOES NOT APPLY" in out:
        meta["evaluated_at_head"] = head + " (patch does not apply any more: the code it edits was repaired or changed since)"
        status = "does-not-apply"
    else:
        meta["checks_reporting"] = sorted(set(re.findall(r"VIOLATION property=(C\d+)", out)))
        meta["check_reports"] = [l[:300] for l in out.splitlines() if "VIOLATED" in l or "UNPROVEN" in l][:6]
        meta["evaluated_at_head"] = head
        status = " ".join(meta["checks_reporting"]) or "SILENT"
    json.dump(meta, open(f"{d}/meta.json", "w"), indent=1)
    print(sid, status, flush=True)
