#!/bin/bash
# usage: eval_many.sh <dir with patch.diff>... : one line per patch: which properties report it (empty = silent)
for d in "$@"; do
  r=$(/verif/tools/eval_seed.sh "$d" 2>&1 | head -1 | tr -s ' ')
  echo "$(basename $d): $r"
done
