#!/usr/bin/env python3
"""Flawed refactorings: each entry of a Python list file (name, refactoring id under /verif/refactorings, file, old, new)
is a stored behaviour-preserving refactoring plus ONE text edit that breaks a property. The combined patch is built in a
scratch worktree of /repo HEAD (removed afterwards), checked for compiling, and evaluated like a seed (all checks,
quick tier). Prints which properties report it: every entry must be reported (the see-through that keeps the
refactoring itself silent must not hide the flaw). usage: combo.py <list.py> [name-substring]"""
import os, subprocess, sys, shutil
spec = {}
exec(open(sys.argv[1]).read(), spec)
flt = sys.argv[2] if len(sys.argv) > 2 else ""
env = dict(os.environ, PATH="/opt/veriftools/go1.26.8/bin:" + os.environ["PATH"], GOTOOLCHAIN="local", GOFLAGS="-mod=mod", GOPROXY="off", GOWORK="off")
def sh(cmd, cwd=None):
    return subprocess.run(cmd, shell=True, cwd=cwd, env=env, capture_output=True, text=True)
for i, (name, ref, file, old, new) in enumerate(spec["COMBOS"]):
    if flt not in name:
        continue
    wt = f"/tmp/combo_wt_{i}"
    out = f"/tmp/combo_{i}"
    sh(f"git -C /repo worktree remove --force {wt}")
    if sh(f"git -C /repo worktree add -q --detach {wt} HEAD").returncode != 0:
        print(f"{name}: cannot create worktree"); continue
    try:
        if ref and sh(f"git apply /verif/refactorings/{ref}/patch.diff", cwd=wt).returncode != 0:
            print(f"{name}: refactoring {ref} does not apply"); continue
        src = open(f"{wt}/{file}").read()
        if src.count(old) != 1:
            print(f"{name}: SKIPPED (text found {src.count(old)} times)"); continue
        open(f"{wt}/{file}", "w").write(src.replace(old, new, 1))
        pkg = "./" + os.path.dirname(file) if os.path.dirname(file) else "."
        b = sh(f"go build {pkg} && go vet -vettool=/bin/true {pkg} 2>/dev/null; go build {pkg}", cwd=wt)
        if b.returncode != 0:
            print(f"{name}: DOES NOT COMPILE {b.stderr[-300:]}"); continue
        os.makedirs(out, exist_ok=True)
        open(f"{out}/patch.diff", "w").write(sh("git add -A && git diff --cached", cwd=wt).stdout)
    finally:
        sh(f"git -C /repo worktree remove --force {wt}")
    r = sh(f"/verif/tools/eval_seed.sh {out}")
    shutil.rmtree(out, ignore_errors=True)
    lines = r.stdout.strip().splitlines()
    head = lines[0].strip() if lines else ""
    rules = sorted(set(l.split("[")[1].split("|")[0] for l in lines[1:] if "[" in l))
    print(f"{name}: {'MISSED' if not head else head} {' '.join(rules)}")
