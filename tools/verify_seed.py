#!/usr/bin/env python3
"""Confirms a seeded defect delivered by a sub-agent in a scratch worktree of /repo and, if confirmed, stores it under
/verif/seeded/<id>/ (patch.diff, demonstration, meta.json with what was run here).

usage: verify_seed.py /tmp/seeds/C01_a [...]
Checks: patch applies on /repo HEAD; library builds with it; demonstration passes without the patch and fails with it;
existing tests of the touched packages pass with the patch (demo removed); then runs the /verif checks against the
patch applied to /repo itself (applied and reverted at once) and records which checks report it.
"""
import json, os, re, shutil, subprocess, sys, glob

ENV = dict(os.environ, PATH="/opt/veriftools/go1.26.8/bin:" + os.environ["PATH"], GOTOOLCHAIN="local",
           GOFLAGS="-mod=mod", GOPROXY="off", GOWORK="off")
FLAKY = {"TestCodecConnWriteNext", "TestCodecConnReadNext", "TestCodecConnAsyncWriteNext", "TestCodecConnAsyncReadNext",
         "TestTimerScheduleRepeatingAndCancel", "TestTimerScheduleRepeatingConsecutively", "TestUDPPeerIPv6_Addresses",
         "TestCloseFramePayloadCodec", "TestClientReconnectOnFailedRead", "TestMaxMsgSizeAfterHandshake", "TestRead"}


def sh(cmd, cwd=None, timeout=900):
    p = subprocess.run(cmd, shell=True, cwd=cwd, env=ENV, stdout=subprocess.PIPE, stderr=subprocess.STDOUT, timeout=timeout, text=True, errors="replace")
    return p.returncode, p.stdout


def pkg_dir_of(meta_demo, test_src):
    m = re.search(r"^package\s+(\w+)", test_src, re.M)
    pk = m.group(1) if m else "sonic"
    if pk in ("sonic", "sonic_test"):
        return "."
    return {"websocket": "codec/websocket", "websocket_test": "codec/websocket", "frame": "codec/frame", "frame_test": "codec/frame",
            "multicast": "multicast", "multicast_test": "multicast", "bytes": "bytes", "bytes_test": "bytes",
            "internal": "internal", "ipv4": "net/ipv4", "util": "util"}.get(pk, ".")


def touched_pkgs(patch):
    pk = set()
    for m in re.finditer(r"^\+\+\+ b/(\S+)", patch, re.M):
        pk.add(os.path.dirname(m.group(1)) or ".")
    return sorted(pk)


def verify(seed):
    sid = os.path.basename(seed.rstrip("/"))
    res = {"id": sid, "ok": False}
    patch = open(f"{seed}/patch.diff").read()
    meta = json.load(open(f"{seed}/meta.json"))
    demo_hint = json.dumps(meta.get("demo", ""))
    tests = [f for f in glob.glob(f"{seed}/*_test.go")]
    mains = [f for f in glob.glob(f"{seed}/*.go") if not f.endswith("_test.go")]
    wt = f"/tmp/vseed_{sid}"
    sh(f"git -C /repo worktree remove --force {wt}")
    rc, out = sh(f"git -C /repo worktree add --detach {wt} HEAD")
    if rc != 0:
        res["error"] = "worktree: " + out
        return res
    try:
        rc, out = sh(f"git apply --check {seed}/patch.diff", cwd=wt)
        if rc != 0:
            res["error"] = "patch does not apply on current /repo HEAD: " + out[:300]
            return res
        if not tests:
            res["error"] = "no *_test.go demonstration (main programs not supported by this script)" + str(mains)
            return res
        names = []
        dirs = set()
        for t in tests:
            src = open(t).read()
            d = pkg_dir_of(demo_hint, src)
            dirs.add(d)
            shutil.copy(t, f"{wt}/{d}/zz_seed_{sid.lower()}_{os.path.basename(t)}")
            names += re.findall(r"^func (Test\w+)\(", src, re.M)
        run = "^(" + "|".join(names) + ")$"
        d = sorted(dirs)[0]
        cmd = f"flock /tmp/sonic_test.lock go test -count=1 -vet=off -timeout 120s -run '{run}' ./{d}"
        rc0, out0 = sh(cmd, cwd=wt)
        res["demo_without_patch"] = "pass" if rc0 == 0 else "FAIL"
        sh(f"git apply {seed}/patch.diff", cwd=wt)
        rcb, outb = sh("go build ./ ./internal ./bytes ./codec/... ./multicast ./net/... ./util ./sonicerrors ./sonicopts", cwd=wt)
        res["build_with_patch"] = "ok" if rcb == 0 else "FAIL " + outb[-300:]
        rc1, out1 = sh(cmd, cwd=wt)
        res["demo_with_patch"] = "fail" if rc1 != 0 else "PASS"
        res["demo_with_patch_tail"] = out1[-600:]
        # existing tests of the touched packages with the patch, demo removed
        for f in glob.glob(f"{wt}/**/zz_seed_*", recursive=True):
            os.remove(f)
        existing = {}
        for pk in touched_pkgs(patch):
            if pk in ("internal", "sonicerrors", "sonicopts"):
                pk2 = "."  # exercised through the root package
            else:
                pk2 = pk
            if pk2 in existing:
                continue
            rc2, out2 = sh(f"flock /tmp/sonic_test.lock go test -count=1 -vet=off -timeout 300s -skip 'TestCodecConnWriteNext' ./{pk2}", cwd=wt, timeout=1200)
            fails = set(re.findall(r"^--- FAIL: (\w+)", out2, re.M))
            real = sorted(f for f in fails - FLAKY if not f.startswith("TestTimerSchedule") and not f.startswith("TestCodecConn"))
            # a timeout inside the known racy codec test helper (a buffered channel used in both directions) is the known flake
            hung_flaky = (not fails) and "test timed out" in out2 and "setupCodecTestReader" in out2
            existing[pk2] = "pass" if (rc2 == 0 or (not real and fails) or hung_flaky) else ("FAIL " + ",".join(real) + " " + out2[-200:])
            if rc2 != 0 and existing[pk2] == "pass":
                existing[pk2] = "pass (only tests that also flake on the unmodified tree failed: " + (",".join(sorted(fails)) or "timeout in setupCodecTestReader") + ")"
        res["existing_tests_with_patch"] = existing
        res["ok"] = (rc0 == 0 and rcb == 0 and rc1 != 0 and all(v.startswith("pass") for v in existing.values()))
    finally:
        sh(f"git -C /repo worktree remove --force {wt}")
    # which checks report it
    rc, out = sh(f"/verif/tools/eval_seed.sh {seed}")
    res["checks_reporting"] = sorted(set(re.findall(r"VIOLATION property=(C\d+)", out)))
    res["check_reports"] = [l[:300] for l in out.splitlines() if "VIOLATED" in l or "UNPROVEN" in l][:6]
    if res["ok"]:
        dst = f"/verif/seeded/{sid}"
        os.makedirs(dst, exist_ok=True)
        shutil.copy(f"{seed}/patch.diff", dst)
        for t in tests:
            shutil.copy(t, dst)
        meta_out = {"property": meta.get("property", sid.split("_")[0]), "summary": meta.get("summary"), "needs": meta.get("needs"),
                    "demo": meta.get("demo"), "author_ran": meta.get("ran"),
                    "confirmed_here": {k: res[k] for k in ("demo_without_patch", "build_with_patch", "demo_with_patch", "existing_tests_with_patch")},
                    "checks_reporting": res["checks_reporting"], "check_reports": res["check_reports"]}
        json.dump(meta_out, open(f"{dst}/meta.json", "w"), indent=1)
    return res


if __name__ == "__main__":
    for s in sys.argv[1:]:
        try:
            r = verify(s)
        except Exception as e:  # noqa
            r = {"id": s, "ok": False, "error": repr(e)}
        print(json.dumps({k: v for k, v in r.items() if k != "demo_with_patch_tail"}), flush=True)
